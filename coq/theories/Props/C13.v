(* C13  Timer-order reduction is exact and keeps every real-time-feasible schedule.
   Statements only.
   (a) exactness - proved in full for the model of the store (any delay type, any comparison `tleb`):
       a pending timer is withheld exactly while an earlier-inserted, still pending timer of the same process has
       delay <= its own; a message is withheld exactly while an older identical copy is pending; in MessagesFirst
       mode timers are offered only when no message is.
   (b) feasibility: the real-time lemma (a blocker always fires first, for any ordered time algebra with monotone
       addition, i.e. for all real-valued timings), and the system-level statement C13_feasible_schedules_explored
       (= C04_stage2): every schedule the timed simulator realises from any reachable state - each message with any delay
       within the bounds, each timer at its set time plus its delay, ties in creation order - is a path of offered
       choices of the checker started from the snapshot, for override-free programs (known finding F10) and
       corruption rate 0 (F13).  Timed executions are those of the simulator model (Model/Sim.v), i.e. delays are
       drawn as min + r*(max-min) for arbitrary draws r in [0,1): any assignment of delays within [min,max]. *)
From ASV Require Import Base.Util Base.Msg Model.Store Spec.StoreSpec
     Proofs.UtilP Proofs.StoreSpecP Proofs.StoreRefine Proofs.C20Lemmas Proofs.TimerOrder.
Require ASV.Proofs.HandoffSim ASV.Proofs.HandoffSim2.

Section C13.
  Context {T : Type} (tleb : T -> T -> bool).

  (* (a) in every store state reached by legal operations (set, re-set, cancel, fire, crash at any moments):
     id i is offered iff it is pending and no event inserted before it and still pending withholds it, where
     withheld_by e' e = (e', e identical messages) || (e', e timers of one process with delay e' <= delay e). *)
  Theorem C13_withheld_exactly : forall (s : store T) (a : astore T), Reached tleb s a ->
      offered s false = Ok (aoffered_set tleb a) /\
      forall i, In i (aoffered_set tleb a) <->
                exists e pre post, pend a = pre ++ (i, e) :: post /\
                                   forallb (fun o => negb (withheld_by tleb (snd o) e)) pre = true.
  Proof.
    intros s a H. destruct (offered_model tleb s a H) as (H1 & _ & _ & _ & H5). split; [exact H1 | exact H5].
  Qed.

  Theorem C13_messages_first : forall (s : store T) (a : astore T), Reached tleb s a ->
      offered s true = Ok (aoffered tleb a true) /\
      ((exists i, In i (aoffered_set tleb a) /\ msg_id a i = true) ->
       forall j, In j (aoffered tleb a true) <-> In j (aoffered_set tleb a) /\ msg_id a j = true) /\
      (~ (exists i, In i (aoffered_set tleb a) /\ msg_id a i = true) -> aoffered tleb a true = aoffered_set tleb a).
  Proof.
    intros s a H. destruct (offered_model tleb s a H) as (_ & H2 & _).
    split; [exact H2 | exact (offered_messages_first tleb a)].
  Qed.
End C13.

(* (b) the real-time fact, for all timings *)
Section C13b.
  Variable T : Type.
  Variable tle : T -> T -> Prop.
  Variable tadd : T -> T -> T.
  Hypothesis tle_trans : forall a b c, tle a b -> tle b c -> tle a c.
  Hypothesis tadd_mono_l : forall a b c, tle a b -> tle (tadd a c) (tadd b c).
  Hypothesis tadd_mono_r : forall a b c, tle b c -> tle (tadd a b) (tadd a c).

  Theorem C13_blocker_fires_first_partial : forall x y : timer T,
      tle (set_at T x) (set_at T y) -> blocks T tle x y -> before T tle tadd x y.
  Proof. exact (blocker_fires_first T tle tadd tle_trans tadd_mono_l tadd_mono_r). Qed.
End C13b.

(* (b) system level: = C04_stage2 *)
Definition C13_feasible_schedules_explored := @ASV.Proofs.HandoffSim2.C04_stage2.
Definition C13_feasible_schedules_explored_faultfree := @ASV.Proofs.HandoffSim.C04_stage1.

Print Assumptions C13_withheld_exactly.
Print Assumptions C13_messages_first.
Print Assumptions C13_blocker_fires_first_partial.
Print Assumptions C13_feasible_schedules_explored.
Print Assumptions C13_feasible_schedules_explored_faultfree.
