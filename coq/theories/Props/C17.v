(* C17  Logs, event logs, counters and outboxes tell one consistent story.
   Theorems about Model/Sim.v over every reachable state of every API call script, proved in Proofs/SimLogP.v (on
   top of SimBaseP.v: every script is a sequence of small steps; SimTimerP.v).  Statements pinned in
   Props/C17.statements.txt.  No assumption on handlers, time or draws; crash_order is any permutation.
   - C17_sent_counter: sent / received counters = number of MessageSent / MessageReceived trace entries of the
     process since it was (re)started.
   - C17_network_counters: message count, inter-node message count and traffic = count / count / total size of the
     corresponding MessageSent entries; message ids are 0,1,2,... in trace order.
   - C17_event_log_agrees: the event log of a process and the trace entries it owns agree, in order and with equal
     times, under the merge relation Agree: every received message, local message and issued action appears once;
     an ignored set_timer_once and a cancel of a free name appear in the event log only; timer firings in the trace
     only (the per-process event log never records TimerFired).
   - C17_outbox_reads: the local sends of a process since its start = what reads returned ++ the current outbox;
     read_local_messages returns exactly the outbox and empties it.
   - C17_one_fate: per message id, received + dropped + copies still in flight <= 3 and never increases after the
     send: every recorded fate consumes a distinct live copy (never both, never twice).
   - C17_timer_ids / C17_timer_refs / C17_local_ids_distinct: identifiers are unique and fired / cancelled entries
     refer to an earlier TimerSet with the same name, node and process. *)
From ASV Require Import Base.Util Base.Msg Base.Log Model.Sim Spec.SimSpec Proofs.SimBaseP Proofs.SimTimerP Proofs.SimLogP.

Definition C17_invariant_reachable := @log_inv_reachable.
Definition C17_sent_counter := @sent_counter.
Definition C17_network_counters := @network_counters.
Definition C17_event_log_agrees := @event_log_agrees.
Definition C17_event_log_messages := @event_log_messages.
Definition C17_outbox_reads := @outbox_reads.
Definition C17_read_local := @read_local_spec.
Definition C17_one_fate := @one_fate.
Definition C17_one_fate_step := @one_fate_step.
Definition C17_timer_ids := @timer_ids.
Definition C17_timer_refs := @timer_refs.
Definition C17_local_ids_distinct := @local_ids_distinct.
Definition C17_scripts_are_small_steps := @run_ops_sstar.

Print Assumptions C17_invariant_reachable.
Print Assumptions C17_sent_counter.
Print Assumptions C17_network_counters.
Print Assumptions C17_event_log_agrees.
Print Assumptions C17_event_log_messages.
Print Assumptions C17_outbox_reads.
Print Assumptions C17_read_local.
Print Assumptions C17_one_fate.
Print Assumptions C17_one_fate_step.
Print Assumptions C17_timer_ids.
Print Assumptions C17_timer_refs.
Print Assumptions C17_local_ids_distinct.
Print Assumptions C17_scripts_are_small_steps.
