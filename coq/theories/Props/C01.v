(* C01  Deterministic replay of simulation and model checking.
   The models are Gallina functions, hence deterministic; the content of C01 is that the ITERATION ORDER OF HASH
   COLLECTIONS (and of simcore's heap), which the models make explicit as order oracles wherever the code iterates
   such a collection, never reaches an observable.
   - C01_sites_classified: the table of hash-collection iteration sites extracted from the source on every run is
     exactly the audited table (Gen/ExtractedOK.v); each site is: a sorted container in the model
     (C01_mc_crash_order_free, C01_mc_procs_canonical: McSystem::crash_node after fix F1, get_state), an explicit
     oracle proved irrelevant (below), or a name-listing getter whose result is hash-ordered by design and is not
     among C01's observables (System::nodes, System::process_names, Node::process_names, McSystem::nodes).
   - C01_run_from_states_order_independent: for any two iteration orders of the HashSet of start states,
     run_from_states returns the same value (verdict, error trace, order of predicate evaluations, collected set,
     statistics), given that the start states have pairwise distinct (depth, trace) keys (fix F2);
     C01_ties_refuted: without distinct keys the order would matter.
   - C01_sim_crash_order_independent / C01_sim_scripts: for any two orders in which crash_node enumerates the
     in-flight messages, every API script returns the same values and reaches states equal except for the order
     inside each block of MessageDropped entries logged by one crash (log_equiv), which the checks canonicalise.
   Outside the model (monitors only: the same scenario twice in one OS process and in two OS processes): anything
   address-, time- or thread-dependent; the actual values of ctx.rand() in model-checking mode (a Pcg64 seeded with a
   fixed-key hash of the state). *)
From ASV Require Import Base.Util Base.Msg Base.Log Model.Store Model.McSys Model.Search Model.McRun Model.Sim Spec.SimSpec
     Proofs.OrderIndep Gen.ExtractedOK.

Definition C01_sites_classified := hash_iter_sites_ok.
Definition C01_sort_starts_perm := @sort_starts_perm.
Definition C01_run_from_states_order_independent := @run_from_states_order_independent.
Definition C01_start_order_from_distinct_keys := @StartOrder_of_CmpSpec.
Definition C01_ties_refuted := @sort_starts_not_canonical_on_ties.
Definition C01_sim_crash_order_independent := @sim_op_crash_order_independent.
Definition C01_sim_scripts := @run_ops_crash_order_independent.
Definition C01_log_equiv_only_crash_blocks := @log_equiv_no_crash.
Definition C01_mc_crash_order_free := @mc_crash_order_free.
Definition C01_mc_procs_canonical := @mc_procs_canonical.

Print Assumptions C01_sites_classified.
Print Assumptions C01_sort_starts_perm.
Print Assumptions C01_run_from_states_order_independent.
Print Assumptions C01_start_order_from_distinct_keys.
Print Assumptions C01_ties_refuted.
Print Assumptions C01_sim_crash_order_independent.
Print Assumptions C01_sim_scripts.
Print Assumptions C01_log_equiv_only_crash_blocks.
Print Assumptions C01_mc_crash_order_free.
Print Assumptions C01_mc_procs_canonical.
