(* C05  The simulated network delivers only what link state and fault rates allow.
   Theorems about Model/Sim.v (Network::send_message, the link controls, the whole System) proved in
   Proofs/SimNetP.v; their statements, as Coq prints them, are in Props/C05.statements.txt (pinned).
   Assumptions: `time_laws ops` and draws in [0,1) for the delay bounds and rate corollaries only; handler,
   initial process state, draw stream and crash order are arbitrary.
   - C05_fate: the fate of one cross-node send as a function of the draws: dropped iff the path is cut or the
     first draw is below the drop rate; otherwise 1..3 copies (more than one only if the duplication draw is below
     the duplication rate) each with a delay min + r*(max-min) inside [min,max], payload intact or its canonical
     corruption (only if the corruption draw is below the corruption rate); exact number of draws consumed.
   - C05_rate_*: drop rate 0 on an enabled path => never dropped; drop rate 1 => always; corruption rate 0/1;
     duplication rate 0 => exactly one copy.
   - C05_same_node: inside a node exactly one copy, intact, at the current time, no draw, no network counters.
   - C05_link_*: disable_link is directional; a partition cuts both directions of every cross pair and nothing
     else; reset heals every link and keeps rates, delays, counters; effect of every other control as an iff.
   - C05_received_only_if_sent / C05_queued_only_if_sent / C05_deliveries_bounded: over every reachable state of
     every script: a received (or queued) message was sent earlier with the same endpoints, was not dropped by that
     send (hence the path was enabled and the drop draw passed at send time), carries the sent payload or its
     corruption; at most 3 deliveries per send, at most 1 inside a node. *)
From ASV Require Import Base.Util Base.Msg Base.Log Model.Sim Spec.TimeLaws Spec.SimSpec Proofs.SimNetP.

Definition C05_fate := @net_fate_spec.
Definition C05_fate_delays := @net_fate_delays.
Definition C05_rate_drop0 := @net_fate_drop0.
Definition C05_rate_drop1 := @net_fate_drop1.
Definition C05_cut_dropped := @net_fate_cut.
Definition C05_rate_corrupt0 := @net_fate_corrupt0.
Definition C05_rate_corrupt1 := @net_fate_corrupt1.
Definition C05_rate_dupl0 := @net_fate_dupl0.
Definition C05_same_node := @net_send_same_node.
Definition C05_cross_node := @net_send_cross_node.
Definition C05_dropped_iff := @net_send_dropped_iff.
Definition C05_link_directional := @disable_link_directional.
Definition C05_link_partition := @partition_cuts.
Definition C05_link_reset := @reset_heals.
Definition C05_link_controls_frame := @snet_apply_frame.
Definition C05_received_only_if_sent := @received_only_if_sent.
Definition C05_queued_only_if_sent := @queued_only_if_sent.
Definition C05_deliveries_bounded := @deliveries_bounded.
Definition C05_invariant_reachable := @Reachable_inv.

Print Assumptions C05_fate.
Print Assumptions C05_fate_delays.
Print Assumptions C05_rate_drop0.
Print Assumptions C05_rate_drop1.
Print Assumptions C05_same_node.
Print Assumptions C05_cross_node.
Print Assumptions C05_link_directional.
Print Assumptions C05_link_partition.
Print Assumptions C05_link_reset.
Print Assumptions C05_received_only_if_sent.
Print Assumptions C05_queued_only_if_sent.
Print Assumptions C05_deliveries_bounded.
Print Assumptions C05_dropped_iff.
Print Assumptions C05_cut_dropped.
Print Assumptions C05_rate_corrupt0.
Print Assumptions C05_rate_corrupt1.
Print Assumptions C05_rate_dupl0.
Print Assumptions C05_link_controls_frame.
Print Assumptions C05_invariant_reachable.
