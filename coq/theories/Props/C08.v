(* C08  A crash isolates a node and recovery starts clean (simulation).
   Theorems about Model/Sim.v proved in Proofs/SimCrashP.v (statements in Props/C08.statements.txt, pinned). No
   assumption on time or draws; `crash_order` (the heap's iteration order at a crash) is any permutation.
   - C08_crash_cancels_inflight: crash_node cancels every queue event from or to the node (messages in both
     directions and its timers), changes nothing else (other nodes, network, queue content, clock), logs
     NodeCrashed and one MessageDropped per live message from the node.
   - C08_cancelled_never_delivered / C08_dead_not_traced: a cancelled id is never handed to a handler by any later
     script (ids are never reused), also after recovery.
   - C08_silent_while_crashed / C08_silent_between: while crashed no handler of the node runs (the node entry is
     unchanged except that read_local_messages still drains an outbox - found while proving, see
     C08_crashed_outbox_* examples in the proof file); send_local_message to it panics.
   - C08_fresh_after_recover / C08_recover_then_add: recovery clears the processes, restores the handler, leaves
     the queue alone; a re-added process starts from ProcessEntry::new.
   - C08_others_unaffected; C08_crash_isolates: the composite statement for scripts pre ++ crash ++ mid ++ recover
     ++ post.
   Outside the property text (shown, not claimed): a message sent to the node WHILE it is down is delivered after
   recovery if still in flight. *)
From ASV Require Import Base.Util Base.Msg Base.Log Model.Sim Spec.SimSpec Proofs.SimCrashP.

Definition C08_invariant_reachable := @reachable_inv.
Definition C08_crash_cancels_inflight := @crash_cancels_inflight.
Definition C08_cancelled_never_delivered := @cancelled_never_delivered.
Definition C08_dead_not_traced := @dead_not_traced_run.
Definition C08_silent_while_crashed := @silent_while_crashed.
Definition C08_send_local_crashed_panics := @send_local_crashed_panics.
Definition C08_silent_between := @silent_between.
Definition C08_fresh_after_recover := @fresh_after_recover.
Definition C08_recover_then_add := @recover_then_add.
Definition C08_others_unaffected := @others_unaffected.
Definition C08_crash_isolates := @crash_isolates.

Print Assumptions C08_invariant_reachable.
Print Assumptions C08_crash_cancels_inflight.
Print Assumptions C08_cancelled_never_delivered.
Print Assumptions C08_dead_not_traced.
Print Assumptions C08_silent_while_crashed.
Print Assumptions C08_send_local_crashed_panics.
Print Assumptions C08_silent_between.
Print Assumptions C08_fresh_after_recover.
Print Assumptions C08_recover_then_add.
Print Assumptions C08_others_unaffected.
Print Assumptions C08_crash_isolates.
