(* C11  Visited-state caching does not change what is explored.
   Proofs: EqBisim.v, McSearch.v, Gen/ExtractedOK.v.
   - C11_eq_fields: the fields the hand-written Eq / Hash of McState and ProcessEntryState read, and the derives
     of the store types, are the ones the model's mcstate_eqb compares (re-extracted from the source on every run).
   - C11_eq_spec / C11_eq_equiv: mcstate_eqb = equality of the pending-event store (with options and ordering
     constraints), of every process state, local outbox and crash flag; an equivalence relation.
   - C11_eq_bisim (take_choice_eq / mc_expand_eq): two states the checker treats as equal - same network, on the
     invariant StInv (the per-process pending-timer map is determined by the store) - have pairwise equal
     successors, for clock-independent handlers and state-respecting ctx.rand().
   - C11_invariant_preserved: StInv is preserved by every step that does not override a pending timer (F10).
   - C11_modes_agree_*: Full, Partial (no hash collision: modelled as Full) and Disabled evaluate state-based
     predicates on the same set of states modulo equality and return the same verdict.
   KNOWN FINDINGS: F14 - a handler that reads the clock breaks the bisimulation (equal states at different depths
   get different clock readings): C11_clock_refuted.  F10 - after set_timer on a pending timer the pending-timer
   map is no longer determined by the store: C11_ptimers_refuted shows equal states with different successors. *)
From ASV Require Import Base.Util Base.Msg Base.Log Model.Store Model.McSys Model.Search Model.McRun
     Proofs.EqBisim Proofs.SearchCorrect Proofs.SearchRel Proofs.McSearch Gen.ExtractedOK.

Definition C11_eq_fields := eq_fields_ok.
Definition C11_eq_spec := @mcstate_eqb_spec.
Definition C11_eq_refl := @mcstate_eqb_refl.
Definition C11_eq_sym := @mcstate_eqb_sym.
Definition C11_eq_trans := @mcstate_eqb_trans.
Definition C11_eq_bisim_step := @take_choice_eq.
Definition C11_eq_bisim := @mc_expand_eq.
Definition C11_invariant_preserved := @take_choice_inv.
Definition C11_invariant_initial := @StInv_init.
Definition C11_invariant_successors := @mc_expand_inv.
Definition C11_verdict_compat := @verdict_compat.
Definition C11_generic_modes_agree_states := @modes_agree_states.
Definition C11_generic_modes_agree_verdict := @modes_agree_verdict.
Definition C11_mc_modes_agree_states := @mc_modes_agree_states.
Definition C11_mc_modes_agree_verdict := @mc_modes_agree_verdict.
Definition C11_run_modes_agree_states := @run_modes_agree_states.
Definition C11_run_modes_agree_verdict := @run_modes_agree_verdict.
Definition C11_clock_refuted := @Witness.clock_dependence_refutes_bisim.
Definition C11_ptimers_refuted := @Witness.ptimers_dependence_refutes_bisim.

Print Assumptions C11_eq_fields.
Print Assumptions C11_eq_spec.
Print Assumptions C11_eq_refl.
Print Assumptions C11_eq_sym.
Print Assumptions C11_eq_trans.
Print Assumptions C11_eq_bisim_step.
Print Assumptions C11_eq_bisim.
Print Assumptions C11_invariant_preserved.
Print Assumptions C11_invariant_initial.
Print Assumptions C11_invariant_successors.
Print Assumptions C11_verdict_compat.
Print Assumptions C11_generic_modes_agree_states.
Print Assumptions C11_generic_modes_agree_verdict.
Print Assumptions C11_mc_modes_agree_states.
Print Assumptions C11_mc_modes_agree_verdict.
Print Assumptions C11_run_modes_agree_states.
Print Assumptions C11_run_modes_agree_verdict.
Print Assumptions C11_clock_refuted.
Print Assumptions C11_ptimers_refuted.
