(* C16  Staged exploration composes.
   Proofs: SearchCorrect.v / SearchRel.v (generic, incl. non-empty initial cache), McSearch.v (MC instance,
   run_impl, run_starts, run_from_states), Restore.v.
   - C16_collected_exact: the collected set = the evaluated states satisfying collect, modulo the checker's
     equality, each being one of the evaluated states (so it carries its own trace and depth).
   - C16_status_counts: in Debug mode the counters equal the number of evaluated states that ended in goal resp.
     prune with that status; outside Debug mode no counters; summed over start states (statistics are per run
     since fix F5): C16_run_from_states_stats.
   - C16_union: running from several start states with the shared cache evaluates exactly (modulo equality) the
     union of what is reachable from each start state after the callback; generic (C16_generic_union) and for
     run_starts / run_from_states (C16_run_from_states_staged); start states of equal depth are taken in an order
     that does not depend on hash iteration (fix F2; C01).
   - C16_rolled_back: the checker is rolled back (fix F6; = C09_run_from_states_rolls_back).
   Hypotheses as C03; staged theorems additionally: all start states share one network setting. *)
From ASV Require Import Base.Util Model.Search Model.McRun Proofs.SearchCorrect Proofs.SearchRel Proofs.McSearch Proofs.Restore.

Definition C16_generic_collected_exact := @collected_exact.
Definition C16_generic_status_counts := @status_counts.
Definition C16_generic_status_counts_off := @status_counts_off.
Definition C16_generic_staged_run := @staged_run.
Definition C16_generic_union := @union_of_roots.
Definition C16_relativised_union := @union_of_roots_rel.
Definition C16_mc_collected_exact := @mc_collected_exact.
Definition C16_mc_status_counts := @mc_status_counts.
Definition C16_mc_union := @mc_union_of_roots.
Definition C16_run_collected_exact := @run_collected_exact.
Definition C16_run_status_counts := @run_status_counts.
Definition C16_run_status_counts_off := @run_status_counts_off.
Definition C16_run_impl_staged := @run_impl_staged.
Definition C16_run_from_states_staged := @run_from_states_staged.
Definition C16_run_from_states_stats := @run_from_states_stats.
Definition C16_rolled_back := @run_from_states_rolls_back.

Print Assumptions C16_generic_collected_exact.
Print Assumptions C16_generic_status_counts.
Print Assumptions C16_generic_status_counts_off.
Print Assumptions C16_generic_staged_run.
Print Assumptions C16_generic_union.
Print Assumptions C16_relativised_union.
Print Assumptions C16_mc_collected_exact.
Print Assumptions C16_mc_status_counts.
Print Assumptions C16_mc_union.
Print Assumptions C16_run_collected_exact.
Print Assumptions C16_run_status_counts.
Print Assumptions C16_run_status_counts_off.
Print Assumptions C16_run_impl_staged.
Print Assumptions C16_run_from_states_staged.
Print Assumptions C16_run_from_states_stats.
Print Assumptions C16_rolled_back.
