(* C02  Every model-checked path is a genuine execution.
   "Genuine execution" = an execution of the reference semantics Spec/RefSys.v: the system layer run over the
   one-list specification of pending events (each step consumes one offered message copy or timer, lets the handler
   react, applies only the faults the copy's budget permits; an operation the specification does not allow is an
   error).  Proofs: Proofs/SysLift.v, RefWf.v, McCompose.v, McSearchRef.v, McSearch.v.  Statements pinned in
   Props/C02.statements.txt.  Hypotheses: handler_closed (processes send only to known processes); the start
   configuration is related to a well-formed reference configuration (C02_init_related_awf: true of every system
   with an empty store; snapshots: see C15).
   - C02_step_bisim: from related well-formed states the model of the code and the reference semantics offer the
     same choices, every choice succeeds on both sides (no panic), and the results are related and well-formed.
   - C02_path_sound: every path of the model of the checker is a path of the reference semantics (with equal
     process states, outboxes, crash flags, network, depth and TRACE: SysR), hence every state handed to
     predicates, returned in an error or collected is reached by a genuine execution.
   - C02_trace_extends: the trace a state carries is its parent's trace plus the log entries of exactly that step,
     starting with the entry of the event consumed; depth + 1.
   - C02_error_reproduces: a reported error's trace is the trace of a reachable state whose verdict is that error;
     C02_error_is_reference_verdict: it is the verdict of a configuration of the reference semantics.
   - C02_reach_is_reference: a state is reachable for the search iff it is the image of a reference execution
     through non-final states (both directions).
   KNOWN FINDING F10 (set_timer on a pending timer leaves the old TimerFired event pending; the overridden timer can
   still fire): the reference semantics, which shares the system layer, has the same ghost event, so these theorems
   do not exclude it; it is the subject of C07, where it is listed. *)
From ASV Require Import Base.Util Base.Msg Base.Log Model.Store Spec.StoreSpec Model.McSys Spec.RefSys Model.Search Model.McRun
     Proofs.SysLift Proofs.RefWf Proofs.McCompose Proofs.McSearch Proofs.McSearchRef.

Definition C02_step_bisim := @step_bisim.
Definition C02_expand_bisim := @expand_bisim.
Definition C02_path_sound := @csteps_ref.
Definition C02_path_no_panic := @csteps_no_panic.
Definition C02_trace_extends := @take_choice_trace.
Definition C02_trace_along_paths := @csteps_trace.
Definition C02_error_reproduces := @run_err_genuine.
Definition C02_error_is_reference_verdict := @mc_err_ref.
Definition C02_reach_is_reference := @reach_iff_gsteps.
Definition C02_reach_ref := @mc_reach_ref.
Definition C02_init_related_awf := @init_related_awf.

Print Assumptions C02_step_bisim.
Print Assumptions C02_expand_bisim.
Print Assumptions C02_path_sound.
Print Assumptions C02_path_no_panic.
Print Assumptions C02_trace_extends.
Print Assumptions C02_trace_along_paths.
Print Assumptions C02_error_reproduces.
Print Assumptions C02_error_is_reference_verdict.
Print Assumptions C02_reach_is_reference.
Print Assumptions C02_reach_ref.
Print Assumptions C02_init_related_awf.
