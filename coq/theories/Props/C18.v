(* C18  Python processes behave exactly like equivalent Rust processes.   PARTIAL.
   Proved (Model/PyBridge.v, Proofs/PyBridgeP.v): the relay logic of python/anysystem.py Context +
   PyProcess::handle_proc_actions: for any list of calls a Python handler makes, the framework issues exactly the
   sends, then the local sends, then the timer operations that were called, each group in issue order with the same
   arguments; a negative delay is rejected on the Python side (nothing is relayed); the (name, delay, once)
   encoding with delay = -1 for cancel decodes to the operation that was issued.
   Consequently a Python process whose methods are functions of (attributes, input) is an instance of the abstract
   `handler` of the other theorems, issuing its actions grouped by kind.
   NOT modelled (covered by the twin runs of the check only): CPython's pickle / copy.deepcopy / json, pyo3
   conversions, exception propagation. *)
From ASV Require Import Base.Util Base.Msg Base.Log Model.PyBridge Proofs.PyBridgeP.

Definition C18_relay := @relay_spec.
Definition C18_negative_delay_raises := @negative_delay_raises.
Definition C18_decode_encode := @decode_encode.

Print Assumptions C18_relay.
Print Assumptions C18_negative_delay_raises.
Print Assumptions C18_decode_encode.
