(* C14  Crashing a node in model checking silences it on every path.
   Proofs: RefWf.v (on the reference semantics), McCompose.v (transferred to the model of the code), StoreRefine.v.
   - C14_crash: McSystem::crash_node from a well-formed state succeeds (no store assertion), removes exactly the
     pending events that touch a process of the node (messages in both directions and timers; the others keep id,
     event, options and relative order), appends McNodeCrashed and one McMessageDropped per removed message (per
     process in name order, ids ascending), disconnects the node; the node becomes Silent.
   - C14_stays_silent: on every path afterwards the node's entry is unchanged (no handler ran), no pending event
     touches its processes, it stays disconnected; C14_sends_dropped: any message later sent to or from the node is
     dropped unconditionally.
   - side condition (found while proving, RefWfEx.ex_reset): McNetwork::reset after the crash reconnects the node;
     a message to it then stays pending and its delivery trips the "crashed node" assertion. *)
From ASV Require Import Base.Util Base.Msg Base.Log Model.Store Spec.StoreSpec Model.McSys Spec.RefSys
     Proofs.RefWf Proofs.RefWfEx Proofs.McCompose.

Definition C14_crash_reference := @cb_crash_ok.
Definition C14_crash := @crash_bisim.
Definition C14_crash_trace := @cb_crash_trace.
Definition C14_stays_silent_reference := @silent_forever.
Definition C14_stays_silent := @csteps_silent.
Definition C14_crash_then_silent := @crash_then_silent.
Definition C14_sends_dropped := @silent_send_dropped.
Definition C14_no_panic := @csteps_no_panic.
Definition C14_reset_after_crash_refuted := @ex_reset.

Print Assumptions C14_crash_reference.
Print Assumptions C14_crash.
Print Assumptions C14_crash_trace.
Print Assumptions C14_stays_silent_reference.
Print Assumptions C14_stays_silent.
Print Assumptions C14_crash_then_silent.
Print Assumptions C14_sends_dropped.
Print Assumptions C14_no_panic.
Print Assumptions C14_reset_after_crash_refuted.
