(* C07  The timer API contract holds identically in simulation and model checking.
   SIMULATOR half (Model/Sim.v; Proofs/SimTimerP.v, SimLogP.v): in every reachable state, for processes of live
   nodes, the pending-timer map and the live TimerFired queue events are in bijection, at most one per (process,
   name); set_timer on a pending name cancels the old event (never delivered afterwards) and installs a new one;
   set_timer_once on a pending name changes nothing; cancel_timer cancels and frees the name (no effect on a free
   name); a firing frees the name before the handler runs; each TimerSet id has at most one TimerFired entry and
   none after an override or cancel.
   MODEL-CHECKING half (Model/McSys.v; Proofs/RefWf.v, EqBisim.v, McCompose.v): the bookkeeping invariant (a name
   in the pending-timer map points, through the store's name map, to a pending TimerFired event of that process
   and name) holds on every path (AWf / TimOK), so set_timer_once is ignored exactly while the name is in the map,
   cancel_timer removes the event the name map points to, firing frees the name; and on paths without override of
   a pending timer the map is exactly the set of pending timer events (StInv / PtDet): one pending instance per
   name, each fires at most once.
   KNOWN FINDING F10: in model checking set_timer on a pending name pushes a second TimerFired event and leaves the
   old one pending ("ghost"): it fires too - one extra firing compared with the contract and the simulator
   (C07_mc_override_refuted: both firing orders of the ghost scenario are reachable).  Not repairable without
   changing tests/test_python_mc.rs::python_runtime_error. *)
From ASV Require Import Base.Util Base.Msg Base.Log Model.Sim Spec.SimSpec Model.Store Model.McSys
     Proofs.SimBaseP Proofs.SimTimerP Proofs.SimLogP Proofs.RefWf Proofs.RefWfEx Proofs.EqBisim.

Definition C07_sim_invariant_reachable := @timer_reachable.
Definition C07_sim_at_most_one_pending := @timer_unique.
Definition C07_sim_set_replaces := @set_replaces.
Definition C07_sim_set_once_ignored := @set_once_ignored.
Definition C07_sim_set_fresh := @set_fresh.
Definition C07_sim_cancel_prevents := @cancel_prevents.
Definition C07_sim_cancel_noop := @cancel_noop.
Definition C07_sim_fire_removes := @fire_removes.
Definition C07_sim_cancelled_never_delivered := @SimTimerP.cancelled_never_delivered.
Definition C07_sim_fires_at_most_once := @fires_at_most_once.
Definition C07_mc_bookkeeping_invariant := @take_choice_awf.
Definition C07_mc_map_determined_by_store := @take_choice_inv.
Definition C07_mc_override_refuted := @ex_ghost.

Print Assumptions C07_sim_invariant_reachable.
Print Assumptions C07_sim_at_most_one_pending.
Print Assumptions C07_sim_set_replaces.
Print Assumptions C07_sim_set_once_ignored.
Print Assumptions C07_sim_set_fresh.
Print Assumptions C07_sim_cancel_prevents.
Print Assumptions C07_sim_cancel_noop.
Print Assumptions C07_sim_fire_removes.
Print Assumptions C07_sim_cancelled_never_delivered.
Print Assumptions C07_sim_fires_at_most_once.
Print Assumptions C07_mc_bookkeeping_invariant.
Print Assumptions C07_mc_map_determined_by_store.
Print Assumptions C07_mc_override_refuted.
