(* C10  BFS and DFS agree, and BFS counterexamples are shortest.
   Proofs: SearchCorrect.v / SearchShortest.v (generic), SearchRel.v (relativised), McSearch.v (MC instance, through
   run). Same hypotheses as C03 (state-based predicates etc.).
   - same states: if both return Ok, their evaluated states cover each other modulo the checker's equality;
     collected sets likewise (C16_collected_exact on both sides);
   - same verdict: it cannot be that one returns Ok and the other Err;
   - BFS shortest: if BFS reports an error at a state reached in n steps, no state reachable in fewer steps is bad
     or a dead end (every visited mode). *)
From ASV Require Import Base.Util Model.Search Model.McRun Proofs.SearchCorrect Proofs.SearchShortest Proofs.SearchRel Proofs.McSearch.

Definition C10_generic_same_states := @bfs_dfs_same_states.
Definition C10_generic_same_verdict := @bfs_dfs_same_verdict.
Definition C10_generic_bfs_shortest := @bfs_shortest.
Definition C10_relativised_same_states := @bfs_dfs_same_states_rel.
Definition C10_relativised_bfs_shortest := @bfs_shortest_rel.
Definition C10_mc_same_states := @mc_bfs_dfs_same_states.
Definition C10_mc_same_verdict := @mc_bfs_dfs_same_verdict.
Definition C10_mc_bfs_shortest := @mc_bfs_shortest.
Definition C10_run_same_states := @run_modes_agree_states.
Definition C10_run_same_verdict := @run_modes_agree_verdict.
Definition C10_run_err_shortest := @run_err_shortest.

Print Assumptions C10_generic_same_states.
Print Assumptions C10_generic_same_verdict.
Print Assumptions C10_generic_bfs_shortest.
Print Assumptions C10_relativised_same_states.
Print Assumptions C10_relativised_bfs_shortest.
Print Assumptions C10_mc_same_states.
Print Assumptions C10_mc_same_verdict.
Print Assumptions C10_mc_bfs_shortest.
Print Assumptions C10_run_same_states.
Print Assumptions C10_run_same_verdict.
Print Assumptions C10_run_err_shortest.
