(* C03  Model checking is exhaustive up to user pruning and its verdict is correct.
   Proofs: Proofs/SearchCorrect.v + SearchRel.v (generic BFS/DFS over any graph, any visited mode, fuel excluded),
   EqBisim.v (the checker's equality is a bisimulation on the invariant), McSearch.v (the MC instance and the lift
   through run_impl / run), McSearchRef.v + McCompose.v (the searched graph IS the reference semantics' graph).
   Hypotheses, all explicit in the statements: state-based predicates (equal results on states the checker treats
   as equal); clock-independent handlers and state-respecting ctx.rand() (else: C11_clock_refuted); the equality
   tests reflect equality; override-freedom of the explored steps (known finding F10); runs that return (fuel
   exhaustion and panics excluded).
   - C03_generic_*: for ANY graph: Ok => every reachable state (expansion stops at goal / prune states) has a
     checked representative and none is bad or a dead end; Err => the reported state is reachable and has that verdict.
   - C03_mc_verdict / C03_run_verdict: the same for the model of the checker, through run_impl.
   - C03_ok_on_reference / C03_reach_is_reference: stated on the reference semantics: the invariant is evaluated on
     every configuration reachable through deliveries, timer firings and permitted faults.
   - C03_offered_complete (= C02_step_bisim): every step the reference semantics enables is taken. *)
From ASV Require Import Base.Util Base.Msg Base.Log Model.Store Model.McSys Model.Search Model.McRun
     Proofs.SearchCorrect Proofs.SearchRel Proofs.EqBisim Proofs.McCompose Proofs.McSearch Proofs.McSearchRef.

Definition C03_generic_sound := @search_sound.
Definition C03_generic_complete := @search_complete.
Definition C03_generic_error_sound := @search_error_sound.
Definition C03_generic_verdict := @search_verdict.
Definition C03_relativised_complete := @search_complete_rel.
Definition C03_relativised_verdict := @search_verdict_rel.
Definition C03_mc_search_sound := @mc_search_sound.
Definition C03_mc_search_complete := @mc_search_complete.
Definition C03_mc_error_sound := @mc_error_sound.
Definition C03_mc_verdict := @mc_verdict.
Definition C03_run_ok_sound_complete := @run_ok_sound_complete.
Definition C03_run_verdict := @run_verdict.
Definition C03_run_err_genuine := @run_err_genuine.
Definition C03_ok_on_reference := @mc_ok_ref.
Definition C03_reach_is_reference := @reach_iff_gsteps.
Definition C03_offered_complete := @step_bisim.
Definition C03_expand_never_panics := @mc_expand_total.

Print Assumptions C03_generic_sound.
Print Assumptions C03_generic_complete.
Print Assumptions C03_generic_error_sound.
Print Assumptions C03_generic_verdict.
Print Assumptions C03_relativised_complete.
Print Assumptions C03_relativised_verdict.
Print Assumptions C03_mc_search_sound.
Print Assumptions C03_mc_search_complete.
Print Assumptions C03_mc_error_sound.
Print Assumptions C03_mc_verdict.
Print Assumptions C03_run_ok_sound_complete.
Print Assumptions C03_run_verdict.
Print Assumptions C03_run_err_genuine.
Print Assumptions C03_ok_on_reference.
Print Assumptions C03_reach_is_reference.
Print Assumptions C03_offered_complete.
Print Assumptions C03_expand_never_panics.
