(* C19  Built-in predicates mean what their documentation says.
   Model: Model/Predicates.v (one function per predicate of src/mc/predicates.rs, loops with early returns as in the
   code).  Specification: Spec/PredSpec.v (propositions written from the doc comments).  Proofs: Proofs/PredP.v.
   For every McState and all parameters each predicate returns exactly the value its documented definition gives
   (statements pinned in Props/C19.statements.txt).  The wall-clock predicate time_limit is not modelled.
   KNOWN FINDING F11: invariants::state_depth_current_run compares the LENGTH of the current-run trace (which also
   counts McStarted and every send / timer entry) with the limit, not the depth since the run started:
   C19_state_depth_current_run_refuted; what it does compute: C19_state_depth_current_run_computes. *)
From ASV Require Import Base.Util Base.Msg Base.Log Model.Store Model.McSys Model.Predicates Spec.PredSpec Proofs.PredP.

Definition C19_current_run_trace := @current_run_trace_spec.
Definition C19_current_run_unique := @CurrentRun_unique.
Definition C19_inv_state_depth := @inv_state_depth_spec.
Definition C19_inv_received_messages := @inv_received_messages_spec.
Definition C19_inv_received_messages_none := @inv_received_messages_none.
Definition C19_all_invariants := @all_invariants_spec.
Definition C19_goal_got_n_local_messages := @goal_got_n_local_messages_spec.
Definition C19_goal_no_events := @goal_no_events_spec.
Definition C19_goal_depth_reached := @goal_depth_reached_spec.
Definition C19_goal_always_ok := @goal_always_ok_spec.
Definition C19_goal_event_happened := @goal_event_happened_n_times_current_run_spec.
Definition C19_any_goal := @any_goal_spec.
Definition C19_all_goals := @all_goals_spec.
Definition C19_prune_state_depth := @prune_state_depth_spec.
Definition C19_prune_sent_messages_limit := @prune_sent_messages_limit_spec.
Definition C19_prune_event_happened := @prune_event_happened_n_times_current_run_spec.
Definition C19_prune_events_limit := @prune_events_limit_spec.
Definition C19_prune_events_limit_per_proc := @prune_events_limit_per_proc_spec.
Definition C19_prune_proc_permutations := @prune_proc_permutations_spec_gen.
Definition C19_prune_proc_permutations_no_panic := @perm_scan_no_panic.
Definition C19_any_prune := @any_prune_spec.
Definition C19_collect_got_n_local_messages := @collect_got_n_local_messages_spec.
Definition C19_collect_event_happened := @collect_event_happened_n_times_current_run_spec.
Definition C19_collect_no_events := @collect_no_events_spec.
Definition C19_collect_state_depth := @collect_state_depth_spec.
Definition C19_collect_events_limit := @collect_events_limit_spec.
Definition C19_any_collect := @any_collect_spec.
Definition C19_all_collects := @all_collects_spec.
Definition C19_default_invariant := @default_invariant_spec.
Definition C19_default_goal := @default_goal_spec.
Definition C19_default_prune := @default_prune_spec.
Definition C19_default_collect := @default_collect_spec.
Definition C19_state_depth_current_run_refuted := @state_depth_current_run_refuted_any_depth0.
Definition C19_state_depth_current_run_computes := @inv_state_depth_current_run_computes.

Print Assumptions C19_current_run_trace.
Print Assumptions C19_current_run_unique.
Print Assumptions C19_inv_state_depth.
Print Assumptions C19_inv_received_messages.
Print Assumptions C19_inv_received_messages_none.
Print Assumptions C19_all_invariants.
Print Assumptions C19_goal_got_n_local_messages.
Print Assumptions C19_goal_no_events.
Print Assumptions C19_goal_depth_reached.
Print Assumptions C19_goal_always_ok.
Print Assumptions C19_goal_event_happened.
Print Assumptions C19_any_goal.
Print Assumptions C19_all_goals.
Print Assumptions C19_prune_state_depth.
Print Assumptions C19_prune_sent_messages_limit.
Print Assumptions C19_prune_event_happened.
Print Assumptions C19_prune_events_limit.
Print Assumptions C19_prune_events_limit_per_proc.
Print Assumptions C19_prune_proc_permutations.
Print Assumptions C19_prune_proc_permutations_no_panic.
Print Assumptions C19_any_prune.
Print Assumptions C19_collect_got_n_local_messages.
Print Assumptions C19_collect_event_happened.
Print Assumptions C19_collect_no_events.
Print Assumptions C19_collect_state_depth.
Print Assumptions C19_collect_events_limit.
Print Assumptions C19_any_collect.
Print Assumptions C19_all_collects.
Print Assumptions C19_default_invariant.
Print Assumptions C19_default_goal.
Print Assumptions C19_default_prune.
Print Assumptions C19_default_collect.
Print Assumptions C19_state_depth_current_run_refuted.
Print Assumptions C19_state_depth_current_run_computes.
