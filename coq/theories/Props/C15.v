(* C15  Snapshot hand-off preserves the simulated state.
   Model: Model/Snapshot.v (ModelChecker::new with fixes F3 and F4).  Proofs: Proofs/SnapshotP.v (on top of the
   simulator invariants SimBaseP / SimTimerP / SimTimeP / SimCrashP and of RefWf / SysLift / McCompose).
   - C15_nodes / C15_net: every process entry (state, event log, outbox, pending-timer map, counters), clock skew and
     crash flag, the three rates, max delay, disabled links and process locations are carried over; the trace is
     the simulator's trace; crashed nodes are additionally disconnected (as McSystem::crash_node does).
   - C15_events: the pending events of the snapshot are, in real firing order (time, then id), each live queue
     event exactly once: messages to processes of non-crashed nodes with NoFailures(max_delay), timers with their
     REMAINING delay; cancelled events and messages to crashed nodes do not appear; the store's name map points to
     each pending timer.
   - C15_timer_order: pending timers of one process are released in exactly their real firing order;
     C15_timer_not_stronger: a snapshot timer withholds a timer set later in the checker only if it really fires no
     later (remaining <= d  =>  fire time <= now' + d for every later now'), over any time algebra with the stated laws.
   - C15_related / C15_start_ok: the snapshot of every reachable simulator state in which every located process is
     installed is related to a well-formed reference configuration, so all model-checking theorems (C02, C03, ...)
     apply to explorations started from snapshots, and no explored step panics.
   - Found while proving (C15_recover_without_readd_refuted): after recover_node the network still locates the
     cleared processes; until they are re-added the snapshot is not well-formed: a message to such a process panics
     in the checker exactly as it does in the simulator (same failure on both sides; excluded by `Installed`).
   - KNOWN FINDING F15 (C15_routes_differ_refuted): the clause 'consequently the two routes visit the same states' is
     false: a handler that sets timer 1 (delay 2) and then timer 0 (delay 0): the snapshot lists the two pending timers
     in real firing order (timer 1 withheld behind timer 0), the callback route in insertion order (nothing withheld,
     both orders explored): same processes, same network, same pending timers, different offered sets. *)
From ASV Require Import Base.Util Base.Msg Base.Log Model.Sim Model.McSys Model.Snapshot Spec.TimeLaws Spec.SimSpec Proofs.SnapshotP Proofs.RoutesEx.

Definition C15_nodes := @snapshot_nodes.
Definition C15_net := @snapshot_net.
Definition C15_crashed_disconnected := @snapshot_crashed_disconnected.
Definition C15_events := @snapshot_events_ref.
Definition C15_events_exist := @snapshot_reachable_ok.
Definition C15_events_sorted := @q_dump_sorted.
Definition C15_name_map_exact := @snapshot_amap_reachable.
Definition C15_timer_order := @snapshot_timer_order.
Definition C15_timer_not_stronger := @snapshot_timer_remaining.
Definition C15_related := @snapshot_related.
Definition C15_awf := @snapshot_awf.
Definition C15_start_ok := @snapshot_start_ok.
Definition C15_installed_without_recover := @registered_no_recover.
Definition C15_recover_without_readd_refuted := @SnapEx.s2_checker_panics.
Definition C15_routes_differ_refuted := @RoutesEx.routes_differ.
Definition C15_routes_same_processes := @RoutesEx.routes_same_processes.
Definition C15_routes_pending := @RoutesEx.routes_pending.
Definition C15_routes_prefix_reachable := @RoutesEx.sA_reachable.

Print Assumptions C15_nodes.
Print Assumptions C15_net.
Print Assumptions C15_crashed_disconnected.
Print Assumptions C15_events.
Print Assumptions C15_events_exist.
Print Assumptions C15_events_sorted.
Print Assumptions C15_name_map_exact.
Print Assumptions C15_timer_order.
Print Assumptions C15_timer_not_stronger.
Print Assumptions C15_related.
Print Assumptions C15_awf.
Print Assumptions C15_start_ok.
Print Assumptions C15_installed_without_recover.
Print Assumptions C15_recover_without_readd_refuted.
Print Assumptions C15_routes_differ_refuted.
Print Assumptions C15_routes_same_processes.
Print Assumptions C15_routes_pending.
Print Assumptions C15_routes_prefix_reachable.
