(* C20  The pending-event store never loses, duplicates or wedges events.
   Statements only; proofs are `exact` of lemmas in Proofs/.  Model: Model/Store.v (PendingEvents +
   DependencyResolver, one function per Rust function, panics as results).  Specification: Spec/StoreSpec.v
   (one list of pending events in insertion order).  T / tleb: any type of delays with any comparison. *)
From ASV Require Import Base.Util Base.Msg Model.Store Spec.StoreSpec
     Proofs.UtilP Proofs.StoreSpecP Proofs.StoreRefine Proofs.C20Lemmas.

Section C20.
  Context {T : Type} (tleb : T -> T -> bool).

  (* Refinement: on every legal operation sequence from the empty store the model of the code never panics and
     returns, after every operation, exactly the specification's return value, live events (by id), offered set
     in both ordering modes, and id counter. *)
  Theorem C20_refines : forall (ops : list (sop T)) (a : astore T) (outs : list (sout T * sobs T)),
      arun tleb aempty ops = Some (a, outs) -> exists s, run tleb empty ops = Ok (s, outs).
  Proof. exact (store_refines tleb). Qed.

  Theorem C20_no_panic : forall (ops : list (sop T)) (a : astore T) outs,
      arun tleb aempty ops = Some (a, outs) -> is_ok (run tleb empty ops) = true.
  Proof. exact (no_panic tleb). Qed.

  (* The offered set is exactly: the oldest of each group of identical messages plus every timer with no earlier
     pending timer of the same process of less-or-equal delay (withheld_by = same_group || blocks). *)
  Theorem C20_offered : forall (s : store T) (a : astore T), Reached tleb s a ->
      offered s false = Ok (aoffered_set tleb a) /\ offered s true = Ok (aoffered tleb a true) /\
      evs s = alive a /\ next s = anext a /\
      forall i, In i (aoffered_set tleb a) <->
                exists e pre post, pend a = pre ++ (i, e) :: post /\
                                   forallb (fun o => negb (withheld_by tleb (snd o) e)) pre = true.
  Proof. exact (offered_model tleb). Qed.

  (* Whenever anything is pending something is offered (both modes). *)
  Theorem C20_live : forall (s : store T) (a : astore T) (mf : bool), Reached tleb s a ->
      evs s <> [] -> exists l, offered s mf = Ok l /\ l <> [].
  Proof. exact (live_model tleb). Qed.

  (* Every pending event is offered after finitely many consumptions of offered events. *)
  Theorem C20_progress : forall (a : astore T) i e, AInv a -> In (i, e) (pend a) ->
      exists idl a', pops_to tleb a idl a' /\ Forall (fun j => j <> i) idl /\ In i (aoffered_set tleb a').
  Proof. exact (progress tleb). Qed.

  (* Consumed or cancelled events never reappear unless explicitly re-inserted; ids stay unique and fresh. *)
  Theorem C20_no_resurrection : forall (a a' : astore T) o out i,
      legal a o = true -> astep a o = (a', out) -> pending_id a' i = true ->
      pending_id a i = true \/ (exists e, o = OPush e /\ i = anext a) \/ (exists e, o = OPushFixed e i).
  Proof. exact no_resurrection. Qed.

  Theorem C20_ids_unique : forall ops (a : astore T) outs, arun tleb aempty ops = Some (a, outs) ->
      NoDup (map fst (pend a)) /\ Forall (fun p => fst p < anext a) (pend a).
  Proof. exact (ainv_arun tleb). Qed.
End C20.

(* non-vacuity: a legal sequence with a duplicate (pop + push_with_fixed_id + push), two timers of one process
   (the second withheld), a cancel and a process cancel *)
Definition ex_m : msg := {| tip := [65]; data := [34; 120; 34] |}.
Definition ex_ops : list (sop N) :=
  [OPush (EMsg ex_m 1 2 (Possible true 2 true)); OPush (ETimer 2 0 5); OPush (ETimer 2 1 7);
   OPop 0; OPushFixed (EMsg ex_m 1 2 (Possible true 1 true)) 0; OPush (EMsg ex_m 1 2 (Possible true 0 true));
   OCancelTimer 2 0; OCancelProc 1].
Example C20_nonvacuous :
  exists a outs, arun N.leb aempty ex_ops = Some (a, outs) /\
                 map (fun x => ob_offered (snd x)) outs =
                 [Ok [0]; Ok [0; 1]; Ok [0; 1]; Ok [1]; Ok [0; 1]; Ok [0; 1]; Ok [0; 2]; Ok [2]].
Proof. eexists. eexists. split; vm_compute; reflexivity. Qed.

Print Assumptions C20_refines.
Print Assumptions C20_no_panic.
Print Assumptions C20_offered.
Print Assumptions C20_live.
Print Assumptions C20_progress.
Print Assumptions C20_no_resurrection.
Print Assumptions C20_ids_unique.
