(* C04  The simulator's own execution is always among the model-checked ones.      PARTIAL.
   The full statement - for every simulator state, draw stream and k, the first k steps of the continued
   simulation are, up to stuttering, a path of the checker's exploration from the snapshot - needs a simulation
   between the timed simulator model and the reference semantics that is NOT proved here.  Proved are its
   ingredients; the statement itself is checked on the implementation by the hand-off inclusion monitor
   (tools/suites.py suite_handoff: every process-visible state the continued simulation passes through must be
   among the states the checker evaluated).
   Ingredients (all machine-checked):
   - C04_start_ok (= C15_start_ok): from the snapshot of a reachable simulator state the checker's graph is the
     reference semantics' graph and the search is exhaustive on it (C02, C03).
   - C04_blocker_fires_first / C04_snapshot_timer_order / C04_snapshot_timer_not_stronger: the timer-order reduction
     never withholds the timer that real time fires next (timers set in the checker; timers pending at the snapshot
     among themselves; snapshot timers against later ones).
   - C04_fate_permitted (= C12_agrees_with_sim): every fate the simulator draws for a send is one of the alternatives
     the checker explores for that send.
   - C04_queue_minimum: the simulator always handles the (time, id)-minimum live event.
   KNOWN FINDINGS: F13 (a corruptible copy withheld behind an identical older copy: witness in corpus/), F10 through
   the hand-off (stale overridden timer withholds the new one). *)
From ASV Require Import Base.Util Base.Msg Base.Log Model.Sim Model.McSys Spec.TimeLaws
     Proofs.TimerOrder Proofs.SnapshotP Proofs.FateAgree Proofs.SimTimeP.

Definition C04_start_ok := @snapshot_start_ok.
Definition C04_blocker_fires_first := @blocker_fires_first.
Definition C04_fired_timer_unblocked := @fired_timer_unblocked.
Definition C04_snapshot_timer_order := @snapshot_timer_order.
Definition C04_snapshot_timer_not_stronger := @snapshot_timer_remaining.
Definition C04_fate_permitted := @sim_fate_permitted.
Definition C04_queue_minimum := @q_next_some.

Print Assumptions C04_start_ok.
Print Assumptions C04_blocker_fires_first.
Print Assumptions C04_fired_timer_unblocked.
Print Assumptions C04_snapshot_timer_order.
Print Assumptions C04_snapshot_timer_not_stronger.
Print Assumptions C04_fate_permitted.
Print Assumptions C04_queue_minimum.
