(* C04  The simulator's own execution is always among the model-checked ones.
   Proofs: Proofs/HandoffSimBase.v, HandoffSim.v (stage 1), HandoffSim2Base.v, HandoffSim2.v (stage 2), on top of
   SnapshotP.v (the snapshot), SimTimeP / SimTimerP / SimNetP (simulator invariants), RefWf.v (reference semantics).
   Statements as Coq prints them: Props/C04.statements.txt (pinned) and Proofs/HandoffSim.statements.txt.

   C04_stage3 / C04_stage2 (the main theorems; stage 3 = stage 2 with corruption allowed, see below): let s0 be ANY reachable simulator state in which every located process is installed,
   m0 its snapshot (ModelChecker::new) over the reference semantics; then for every run s1 .. sk of simulator steps
   from s0 - whatever delays within the bounds, drops, duplications and cut links the draws produce - there is ONE
   path of offered choices of the checker  m0 ->* m1 ->* ... ->* mk  (the checker may take extra duplication steps that
   change no process) such that si and mi agree on the process-visible state: same nodes, crash flags, skews; per
   process the same user state, local outbox, pending-timer names and message counters (ProjEq / C04_projeq_spec).
   Hence every process-visible state the simulation passes through is visited by the checker.
   Hypotheses (each explicit in the statement):
     - time_laws + `t - c <= d -> t <= c + d` (snapshot timers carry their remaining delay); draws in [0,1);
     - handler_agree: the same user code in both engines, independent of clock readings and random draws
       (the quantifier text of C04);  handler_closed: sends only to known processes;
     - override-free steps (known finding F10): no set_timer on a name that is pending when the handler runs
       (SimRunOF; C04_stage2_once: the static form "only set_timer_once");
     - C04_stage2: corruption rate 0.  C04_stage3: corruption allowed under CorrSide (vacuous at rate 0:
       C04_corrside_rate0; stage 2 is derived from stage 3: C04_stage2_from_stage3): the checker's `rate > 0.` test
       agrees with the rate; no process sends to one destination both a message m and a message equal to corrupt(m)
       that corruption would change again; every message in flight at the hand-off is same-node or unchanged by
       corruption.  These exclude exactly the shape of known finding F13 (a corruptible copy withheld behind an
       identical older copy that cannot be corrupted) - found while proving: corrupt is not idempotent, so F13 can
       also arise dynamically from a process that sends both m and corrupt(m).  The checker pays for every corrupted
       send eagerly: after the delivery step it splits the oldest identical pending copy down to one and corrupts it;
     - Routed s0 \/ NoCrash s0: in-flight messages are addressed to the node their destination lives on now (fails
       only after crash + recover + re-adding a process ON ANOTHER NODE; there snapshot and simulator disagree);
     - the continuation consists of step calls (no crash / recover / link operation during the continuation).
   C04_safe ("model checking never declares safe a system that the simulator can break", Proofs/HandoffSafe.v): if
   the checker's run on the snapshot (over the model of the CODE's store, any strategy, visited mode, fuel) returns Ok
   for predicates that are functions of the process-visible projection, then every state of every override-free
   simulator run from s0 - s0 included - satisfies the invariant, unless a strictly earlier state of the run is a goal or
   prune state (where the exploration legitimately stops).  C04_safe_plain: without goal / prune predicates the
   invariant holds at EVERY state the simulation passes through.  C04_breakable_never_ok: the contrapositive.
   C04_safe3 / C04_safe3_plain / C04_breakable_never_ok3 (Proofs/HandoffSafe3.v): the same with corruption allowed under
   CorrSide (C04_safe is re-derived from C04_safe3); C04_example_safe3: an instance with corruption rate 1 in which the
   checker's run returns Ok after exploring the corrupted delivery.
   C04_safe_once / C04_safe_steps: static set_timer_once form, System::steps(k) form.  C04_example_safe: an instance
   in which the checker's run really returns Ok.
   C04_stage1 is the fault-free special case (all rates 0, nothing cut): exactly one checker step per simulator step.
   C04_*_steps are the same for System::steps(k).  C04_example_*: the hypotheses are satisfiable (crashed node, cut
   link, duplication rate 1, handlers that re-arm timers after cancelling).
   Outside the theorem and left to the inclusion monitor of the check: positive corruption rate without identical
   copies in flight, overriding programs on paths where the override does not matter, and the implementation itself
   (correspondence).  KNOWN FINDINGS F13 and F10 (through the hand-off) are exactly the excluded cases. *)
From ASV Require Import Base.Util Base.Msg Base.Log Model.Sim Model.McSys Spec.TimeLaws
     Proofs.TimerOrder Proofs.SnapshotP Proofs.FateAgree Proofs.SimTimeP
     Proofs.HandoffSimBase Proofs.HandoffSim Proofs.HandoffSimEx Proofs.HandoffSim2Base Proofs.HandoffSim2 Proofs.HandoffSim2Ex
     Proofs.HandoffSafe Proofs.HandoffSafeEx Proofs.HandoffSim3Base Proofs.HandoffSim3 Proofs.HandoffSim3Ex Proofs.HandoffSafe3 Proofs.HandoffSafe3Ex.

Definition C04_safe3 := @HandoffSafe3.C04_safe3.
Definition C04_safe3_plain := @HandoffSafe3.C04_safe3_plain.
Definition C04_breakable_never_ok3 := @HandoffSafe3.C04_breakable_never_ok3.
Definition C04_safe_from_safe3 := @HandoffSafe3.C04_safe_from_safe3.
Definition C04_example_safe3 := @HandoffSafe3Ex.example_safe3.
Definition C04_safe := @HandoffSafe.C04_safe.
Definition C04_safe_plain := @HandoffSafe.C04_safe_plain.
Definition C04_breakable_never_ok := @HandoffSafe.C04_breakable_never_ok.
Definition C04_safe_once := @HandoffSafe.C04_safe_once.
Definition C04_safe_steps := @HandoffSafe.C04_safe_steps.
Definition C04_example_safe := @HandoffSafeEx.example_safe.
Definition C04_example_safe_runs := @HandoffSafeEx.example_run.
Definition C04_stage3 := @HandoffSim3.C04_stage3.
Definition C04_stage3_once := @HandoffSim3.C04_stage3_once.
Definition C04_stage3_steps := @HandoffSim3.C04_stage3_steps.
Definition C04_corrside_rate0 := @HandoffSim3.corrside_rate0.
Definition C04_stage2_from_stage3 := @HandoffSim3.C04_stage2_from_stage3.
Definition C04_example_stage3 := @Handoff3Ex.example_steps3.
Definition C04_stage2 := @HandoffSim2.C04_stage2.
Definition C04_stage2_once := @HandoffSim2.C04_stage2_once.
Definition C04_stage2_steps := @HandoffSim2.C04_stage2_steps.
Definition C04_stage2_one_step := @HandoffSim2.step_sim2.
Definition C04_stage2_from_snapshot := @HandoffSim2.rel_snapshot2.
Definition C04_stage1 := @HandoffSim.C04_stage1.
Definition C04_stage1_steps := @HandoffSim.C04_stage1_steps.
Definition C04_projeq_spec := @HandoffSim.ProjEq_spec.
Definition C04_example_stage1 := @HandoffEx.example_steps.
Definition C04_example_stage1_runs := @HandoffEx.example_three_steps.
Definition C04_example_stage2 := @Handoff2Ex.example_steps2.
Definition C04_example_stage2_runs := @Handoff2Ex.example_four_steps.
(* ingredients, also used by C13 (b) *)
Definition C04_start_ok := @snapshot_start_ok.
Definition C04_blocker_fires_first := @blocker_fires_first.
Definition C04_snapshot_timer_order := @snapshot_timer_order.
Definition C04_snapshot_timer_not_stronger := @snapshot_timer_remaining.
Definition C04_fate_permitted := @sim_fate_permitted.
Definition C04_queue_minimum := @q_next_some.

Print Assumptions C04_safe3.
Print Assumptions C04_safe3_plain.
Print Assumptions C04_breakable_never_ok3.
Print Assumptions C04_safe_from_safe3.
Print Assumptions C04_example_safe3.
Print Assumptions C04_safe.
Print Assumptions C04_safe_plain.
Print Assumptions C04_breakable_never_ok.
Print Assumptions C04_safe_once.
Print Assumptions C04_safe_steps.
Print Assumptions C04_example_safe.
Print Assumptions C04_example_safe_runs.
Print Assumptions C04_stage3.
Print Assumptions C04_stage3_once.
Print Assumptions C04_stage3_steps.
Print Assumptions C04_corrside_rate0.
Print Assumptions C04_stage2_from_stage3.
Print Assumptions C04_example_stage3.
Print Assumptions C04_stage2.
Print Assumptions C04_stage2_once.
Print Assumptions C04_stage2_steps.
Print Assumptions C04_stage2_one_step.
Print Assumptions C04_stage2_from_snapshot.
Print Assumptions C04_stage1.
Print Assumptions C04_stage1_steps.
Print Assumptions C04_projeq_spec.
Print Assumptions C04_example_stage1.
Print Assumptions C04_example_stage1_runs.
Print Assumptions C04_example_stage2.
Print Assumptions C04_example_stage2_runs.
Print Assumptions C04_start_ok.
Print Assumptions C04_blocker_fires_first.
Print Assumptions C04_snapshot_timer_order.
Print Assumptions C04_snapshot_timer_not_stronger.
Print Assumptions C04_fate_permitted.
Print Assumptions C04_queue_minimum.
