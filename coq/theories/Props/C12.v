(* C12  The checker explores exactly the permitted network fates, as the simulator.
   Theorems about Model/McSys.v (McNetwork::send_message, Strategy::process_event) from Proofs/McNetP.v and the
   agreement with the simulator's network (Model/Sim.v) from Proofs/FateAgree.v.  Statements pinned in
   Props/C12.statements.txt.
   - C12_classify: send_message returns NoFailures iff same node; the unconditional MessageDropped iff the
     sender's outgoing traffic, the receiver's incoming traffic or the directed link is disabled; otherwise
     PossibleFailures{drop_rate > 0, if dupl_rate == 0 then 0 else DUPL_COUNT, corrupt_rate > 0}.
   - C12_alternatives: the alternatives of an offered event are: deliver; drop iff droppable; corrupt iff
     corruptible; split iff budget > 0; nothing else; inside a node and for timers: delivery only.
   - C12_budget_*: the potential 1 + budget of a copy is preserved by a split and at most 3 initially, so one send
     yields at most 1 + DUPL_COUNT = 3 deliveries; a corrupted copy is re-inserted with can_be_corrupted = false
     (Model/McSys.take_choice), so each copy is corrupted at most once.
   - C12_agrees_with_sim: every fate the simulator can draw for a send (dropped / 1..3 copies, payload intact or
     Msg.corrupt_msg) is permitted by the checker's classification of the same send under the same settings, the
     corrupted payload is the same function Msg.corrupt_msg, and the copy bounds coincide (3). *)
From ASV Require Import Base.Util Base.Msg Base.Log Model.Store Model.McSys Model.Sim Spec.TimeLaws
     Proofs.McNetP Proofs.FateAgree Gen.ExtractedOK.

Definition C12_classify := @net_send_classify.
Definition C12_same_node_only_delivered := @same_node_only_delivered.
Definition C12_cut_unconditional_loss := @cut_unconditional_loss.
Definition C12_alternatives := @alternatives_spec.
Definition C12_budget_split := @dup_preserves_potential.
Definition C12_budget_initial := @initial_potential_bound.
Definition C12_agrees_with_sim := @sim_fate_permitted.
(* the constants and the regex the model is written against are the ones in the source (regenerated every run) *)
Definition C12_dupl_count_extracted := dupl_count_ok.
Definition C12_corrupt_regex_extracted := corrupt_regex_ok.

Print Assumptions C12_classify.
Print Assumptions C12_same_node_only_delivered.
Print Assumptions C12_cut_unconditional_loss.
Print Assumptions C12_alternatives.
Print Assumptions C12_budget_split.
Print Assumptions C12_budget_initial.
Print Assumptions C12_agrees_with_sim.
Print Assumptions C12_dupl_count_extracted.
Print Assumptions C12_corrupt_regex_extracted.
