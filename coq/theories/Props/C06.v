(* C06  Simulated time: delays, ordering, clocks and stepping are exact.
   Theorems about Model/Sim.v proved in Proofs/SimTimeP.v (statements in Props/C06.statements.txt, pinned), over
   any time algebra satisfying Spec/TimeLaws.time_laws (instance: integers; binary64 laws are assumed, see DESIGN).
   - C06_time_invariant: in every reachable state no live event is scheduled before the clock.
   - C06_next_is_minimum / C06_handled_monotone / C06_handled_sorted: step handles the (time, id)-minimum live
     event and sets the clock to its time; consecutive handled events have non-decreasing times, ties in id
     (= creation) order; an event created later has a larger id.
   - C06_clock_monotone: the clock never goes back over a script (needs non-negative durations: a NEGATIVE
     step_for_duration moves the clock backwards - counterexample C06_negative_duration_refuted).
   - C06_send_arrival: a copy arrives at send time + d with min <= d <= max of the settings at the send; exactly
     the send time inside a node.  C06_timer_fires_at: a timer fires exactly at set time + delay.
     C06_handler_clock: the handler's clock argument is global time + the node's skew.
   - contracts: step, steps, step_until_no_events, step_for_duration (clock left at t0+d, exactly the events with
     time <= t0+d handled incl. those created meanwhile, result = events remain), step_until_local_message (stops
     at the first point the outbox is non-empty, checking before each step) and _max_steps. *)
From ASV Require Import Base.Util Base.Msg Base.Log Model.Sim Spec.TimeLaws Spec.SimSpec Proofs.SimTimeP.

Definition C06_time_invariant := @Reachable_TimeInv.
Definition C06_next_is_minimum := @q_next_some.
Definition C06_handled_monotone := @handled_monotone.
Definition C06_handled_sorted := @handled_sorted.
Definition C06_clock_monotone := @run_ops_mono.
Definition C06_negative_duration_refuted := @neg_duration_clock_back.
Definition C06_send_arrival := @send_arrival.
Definition C06_timer_fires_at := @timer_fires_at.
Definition C06_handler_clock := @deliver_handler_clock.
Definition C06_step := @step_contract.
Definition C06_steps := @steps_contract.
Definition C06_until_no_events := @until_no_events_op_contract.
Definition C06_duration := @duration_contract.
Definition C06_until_local := @until_local_contract.
Definition C06_until_local_no_step := @until_local_no_step.
Definition C06_until_local_max := @until_local_max_contract.

Print Assumptions C06_time_invariant.
Print Assumptions C06_next_is_minimum.
Print Assumptions C06_handled_monotone.
Print Assumptions C06_handled_sorted.
Print Assumptions C06_clock_monotone.
Print Assumptions C06_negative_duration_refuted.
Print Assumptions C06_send_arrival.
Print Assumptions C06_timer_fires_at.
Print Assumptions C06_handler_clock.
Print Assumptions C06_step.
Print Assumptions C06_steps.
Print Assumptions C06_until_no_events.
Print Assumptions C06_duration.
Print Assumptions C06_until_local.
Print Assumptions C06_until_local_no_step.
Print Assumptions C06_until_local_max.
