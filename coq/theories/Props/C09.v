(* C09  Exploration never leaks between branches, runs, or into the source System.
   Statements only. Model: Model/McSys.v (get_state / set_state copy the fields of McSystem, McNode and
   ProcessEntry one by one, as src/mc/system.rs, src/mc/node.rs do), Model/McRun.v (run_impl, run_from_states).
   The statements hold for every store instance `so` (the model of PendingEvents and the reference semantics),
   every handler, clock, predicate set, strategy, visited mode and fuel.
   Not expressible in a value-passing model (covered by the repeated-run / twin-run monitors only, see DESIGN):
   aliasing between the checker's copies and the source System (Rc, Python objects). *)
From ASV Require Import Base.Util Base.Msg Base.Log Model.Store Model.McSys Model.Search Model.McRun Model.Script Proofs.Restore
  Proofs.LogAgree Proofs.LogAgreeEx.

Section C09.
  Context {T SE : Type} (so : @store_ops T SE).
  Variable teqb : T -> T -> bool.
  Variables tgt0 teq0 : T -> bool.
  Variable t0 : T.
  Variable clock : N -> T -> T.
  Context {PS : Type}.
  Variable ps_eqb : PS -> PS -> bool.
  Variable handler : N -> PS -> input -> T -> (nat -> T) -> PS * list (action T).
  Variable DS : Type.
  Variable mc_rand : DS -> nat -> T.
  Variable ds_of : @mcstate T SE PS -> DS.
  Variable tr_cmp : list (logentry T) -> list (logentry T) -> comparison.

  (* Restore is exact: writing the saved state back into ANY system of the same frame (same node and process
     names, clock skews and ordering mode - the things set_state does not touch) gives back the saved system:
     process states, event logs, outboxes, pending-timer maps, counters, crash flags, network settings, pending
     events, depth and trace are all restored. *)
  Theorem C09_restore_exact : forall (s s' : @mcsys T SE PS),
      wf_sys s -> wf_sys s' -> same_frame s s' -> set_state s' (get_state s) = Ok s.
  Proof. exact (@set_get_state T SE PS). Qed.

  (* Exploring one branch has no effect on its siblings: after each step the system is exactly what it was. *)
  Theorem C09_siblings : forall (s : @mcsys T SE PS) c s'' st,
      wf_sys s -> search_step so tgt0 teq0 t0 clock handler DS mc_rand ds_of s c = Ok (s'', st) -> s'' = s.
  Proof. exact (search_step_restores so tgt0 teq0 t0 clock handler DS mc_rand ds_of). Qed.

  Theorem C09_expand_restores : forall (s s' : @mcsys T SE PS) l,
      wf_sys s -> expand_sys so tgt0 teq0 t0 clock handler DS mc_rand ds_of s = Ok (s', l) -> s' = s.
  Proof. exact (expand_sys_restores so tgt0 teq0 t0 clock handler DS mc_rand ds_of). Qed.

  (* When a run returns - Ok, Err, out of fuel or panic inside the search - the checker is back in its initial
     state, including the event ordering mode a callback may have changed. *)
  Theorem C09_run_rolls_back : forall cf pr (sys : @mcsys T SE PS) cb ss sys' res ss',
      wf_sys sys ->
      run_impl so teqb tgt0 teq0 t0 clock ps_eqb handler DS mc_rand ds_of cf pr sys cb ss = Ok (sys', res, ss') ->
      sys' = sys.
  Proof. exact (run_impl_rolls_back so teqb tgt0 teq0 t0 clock ps_eqb handler DS mc_rand ds_of). Qed.

  Theorem C09_run_from_states_rolls_back : forall ord cf pr (sys : @mcsys T SE PS) cb starts sys' res ss',
      wf_sys sys ->
      run_from_states so teqb tgt0 teq0 t0 clock ps_eqb handler DS mc_rand ds_of tr_cmp ord cf pr sys cb starts
      = Ok (sys', res, ss') -> sys' = sys.
  Proof. exact (run_from_states_rolls_back so teqb tgt0 teq0 t0 clock ps_eqb handler DS mc_rand ds_of tr_cmp). Qed.

  (* hence repeating the run gives the identical result *)
  Theorem C09_repeat_identical : forall cf pr (sys : @mcsys T SE PS) cb sys' res ss',
      wf_sys sys ->
      run so teqb tgt0 teq0 t0 clock ps_eqb handler DS mc_rand ds_of cf pr sys cb = Ok (sys', res, ss') ->
      run so teqb tgt0 teq0 t0 clock ps_eqb handler DS mc_rand ds_of cf pr sys' cb = Ok (sys', res, ss').
  Proof. exact (run_twice_same so teqb tgt0 teq0 t0 clock ps_eqb handler DS mc_rand ds_of). Qed.

  (* Event logs are restored with the states: on every state the checker reaches or restores, the event log of a
     process tells exactly the network deliveries that process was invoked for.  For any handler that keeps a
     record of its deliveries (`rec`, one key `dkey m from` per delivery; the processes for which `tracks` holds):
     one expansion keeps the invariant of the system and hands only states with the invariant to the predicates;
     restoring ANY such state - an ancestor, a sibling, a state of another branch popped from the BFS queue, a
     start state of a staged run - gives a system with the invariant; so do the callback operations. *)
  Theorem C09_event_log_expansion : forall (tracks : N -> bool) (K : Type) (dkey : msg -> N -> K) (rec : PS -> list K),
      (forall proc st i time rnd, tracks proc = true ->
         rec (fst (handler proc st i time rnd)) = rec st ++ match i with InMsg m from => [dkey m from] | _ => [] end) ->
      forall (s s2 : @mcsys T SE PS) sts,
      expand_sys so tgt0 teq0 t0 clock handler DS mc_rand ds_of s = Ok (s2, sts) ->
      SysInv tracks dkey rec s -> SysInv tracks dkey rec s2 /\ List.Forall (StateInv tracks dkey rec) sts.
  Proof. exact (expand_sys_inv so tgt0 teq0 t0 clock handler DS mc_rand ds_of). Qed.

  Theorem C09_event_log_restore_any : forall (tracks : N -> bool) (K : Type) (dkey : msg -> N -> K) (rec : PS -> list K)
      (s : @mcsys T SE PS) st s',
      set_state s st = Ok s' -> SysInv tracks dkey rec s -> StateInv tracks dkey rec st -> SysInv tracks dkey rec s'.
  Proof. exact (@set_state_inv T SE PS). Qed.

  Theorem C09_event_log_saved : forall (tracks : N -> bool) (K : Type) (dkey : msg -> N -> K) (rec : PS -> list K)
      (s : @mcsys T SE PS), SysInv tracks dkey rec s -> StateInv tracks dkey rec (get_state s).
  Proof. exact (@get_state_inv T SE PS). Qed.

  Theorem C09_event_log_callback : forall (tracks : N -> bool) (K : Type) (dkey : msg -> N -> K) (rec : PS -> list K),
      (forall proc st i time rnd, tracks proc = true ->
         rec (fst (handler proc st i time rnd)) = rec st ++ match i with InMsg m from => [dkey m from] | _ => [] end) ->
      forall ops (s s' : @mcsys T SE PS),
      cb_run so tgt0 teq0 t0 clock handler DS mc_rand ds_of s ops = Ok s' ->
      SysInv tracks dkey rec s -> SysInv tracks dkey rec s'.
  Proof. intros tracks K dkey rec H ops. exact (cb_run_inv so tgt0 teq0 t0 clock handler DS mc_rand ds_of tracks dkey rec H ops). Qed.
End C09.

(* the table-driven process of the correspondence harness keeps such a record (what the monitor
   C09:event_log_restored compares with the event log of every explored state) *)
Theorem C09_script_records : forall (T : Type) (progs : list (N * prog T)) proc st i time rnd,
    script_tracks progs proc = true ->
    script_rec (fst (progs_handler progs proc st i time rnd))
    = script_rec st ++ match i with InMsg m from => [script_dkey m from] | _ => [] end.
Proof. exact (@script_handler_records). Qed.

(* non-vacuity: a concrete two-process system has the invariant, and after the callback and one expansion a
   successor state carries a non-empty event log whose delivery is the one the process recorded *)
Definition C09_event_log_example_init := l_init_inv.
Definition C09_event_log_example_successor := l_successor_nontrivial.

Print Assumptions C09_restore_exact.
Print Assumptions C09_siblings.
Print Assumptions C09_expand_restores.
Print Assumptions C09_run_rolls_back.
Print Assumptions C09_run_from_states_rolls_back.
Print Assumptions C09_repeat_identical.
Print Assumptions C09_event_log_expansion.
Print Assumptions C09_event_log_restore_any.
Print Assumptions C09_event_log_saved.
Print Assumptions C09_event_log_callback.
Print Assumptions C09_script_records.
Print Assumptions C09_event_log_example_init.
Print Assumptions C09_event_log_example_successor.
