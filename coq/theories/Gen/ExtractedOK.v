(* Proof obligations tying Gen/Extracted.v (regenerated from /repo/src on every check) to the values the
   model is written against. Each is closed by computation; a source edit that changes one of them breaks
   this file, hence every property that depends on it. *)
From Coq Require Import String List NArith.
From ASV Require Import Gen.Extracted.
Import ListNotations.
Open Scope string_scope.

(* the regex the scanner Msg.corrupt implements, and its replacement *)
Definition modelled_re : string := """[^""]+""".
Definition modelled_repl : string := "\""\""".
Definition modelled_dupl_count : N := 2%N.

Lemma corrupt_regex_ok :
  sim_corrupt_re = [modelled_re] /\ mc_corrupt_re = [modelled_re] /\
  sim_corrupt_repl = [modelled_repl] /\ mc_corrupt_repl = [modelled_repl].
Proof. repeat split; reflexivity. Qed.

Lemma dupl_count_ok : dupl_count = modelled_dupl_count.
Proof. reflexivity. Qed.

Lemma net_defaults_ok :
  net_defaults = [("min_delay", "1."); ("max_delay", "1."); ("drop_rate", "0."); ("dupl_rate", "0.");
                  ("corrupt_rate", "0.")].
Proof. reflexivity. Qed.

Lemma get_message_count_ok :
  get_message_count_body =
  "{ if self.ctx.rand() >= self.dupl_rate { 1 } else { (self.ctx.rand() * 2.).ceil() as u32 + 1 } }".
Proof. reflexivity. Qed.

Lemma approx_event_time_ok : approx_event_time_body = "{ depth as f64 / 10.0 }".
Proof. reflexivity. Qed.

(* the store: fields of PendingEvents / DependencyResolver / TimerInfo mirrored by Model.Store.store *)
Lemma store_fields_ok :
  fields_PendingEvents = ["events"; "timer_mapping"; "available_events"; "resolver"; "id_counter"] /\
  fields_DependencyResolver = ["timers"; "messages"; "proc_timers"] /\
  fields_TimerInfo = ["proc"; "delay"; "blockers"].
Proof. repeat split; reflexivity. Qed.

(* state equality: derived Eq/Hash on the store types, hand-written on McState and ProcessEntryState *)
Lemma eq_fields_ok :
  mcstate_eq_fields = ["events"; "node_states"] /\ mcstate_hash_fields = ["events"; "node_states"] /\
  pes_eq_fields = ["local_outbox"; "proc_state"] /\ pes_hash_fields = ["local_outbox"; "proc_state"] /\
  fields_McNodeState = ["proc_states"; "is_crashed"] /\
  In "Eq" derives_PendingEvents /\ In "Hash" derives_PendingEvents /\
  In "Eq" derives_DependencyResolver /\ In "Hash" derives_DependencyResolver /\
  In "Eq" derives_TimerInfo /\ In "Hash" derives_TimerInfo /\
  In "Eq" derives_McNodeState /\ In "Hash" derives_McNodeState /\
  In "Eq" derives_McEvent /\ In "Eq" derives_DeliveryOptions /\ In "Eq" derives_Message.
Proof. repeat split; try reflexivity; cbn; tauto. Qed.

(* save / restore *)
Lemma state_fields_ok :
  fields_McSystem = ["nodes"; "net"; "events"; "depth"; "event_ordering_mode"; "trace_handler"] /\
  fields_McNode = ["name"; "processes"; "trace_handler"; "clock_skew"; "is_crashed"] /\
  fields_ProcessEntry = ["proc_impl"; "event_log"; "local_outbox"; "pending_timers"; "sent_message_count";
                         "received_message_count"; "last_state"] /\
  fields_McState = ["node_states"; "network"; "events"; "depth"; "trace"] /\
  fields_ProcessEntryState = ["proc_state"; "event_log"; "local_outbox"; "pending_timers"; "sent_message_count";
                              "received_message_count"] /\
  pe_get_state_fields = ["proc_state"; "event_log"; "local_outbox"; "pending_timers"; "sent_message_count";
                         "received_message_count"] /\
  pe_set_state_fields = ["proc_impl"; "event_log"; "local_outbox"; "pending_timers"; "sent_message_count";
                         "received_message_count"] /\
  mcsys_set_state_fields = ["depth"; "events"; "net"; "nodes"; "trace_handler"] /\
  mcsys_get_state_fields = ["depth"; "events"; "net"; "nodes"; "trace_handler"] /\
  fields_McNetwork = ["corrupt_rate"; "dupl_rate"; "drop_rate"; "drop_incoming"; "drop_outgoing"; "disabled_links";
                      "proc_locations"; "max_delay"].
Proof. repeat split; reflexivity. Qed.

(* search: order of the fault alternatives and of the predicate tests *)
Lemma search_order_ok :
  process_event_alternatives = ["Id"; "Id"; "drop_event"; "corruption_event"; "duplication_event"; "Id"] /\
  process_event_guards = ["can_be_dropped"; "can_be_corrupted"; "max_dupl_count > 0"] /\
  check_state_order = ["collect"; "invariant"; "goal"; "prune"; "is_empty"].
Proof. repeat split; reflexivity. Qed.

(* every place where the code iterates a hash collection; each is modelled by an explicit order oracle,
   proved order-insensitive, or returns a name list that is not among C01's observables (DESIGN 2.2) *)
Definition modelled_hash_iter_sites : list (string * string * string) :=
  [("mc/model_checker.rs", "run_from_states_with_change", "states");
   ("mc/node.rs", "get_state", "processes");
   ("mc/strategy.rs", "combine", "collected_states");
   ("mc/strategy.rs", "combine", "statuses");
   ("mc/system.rs", "crash_node", "processes");
   ("mc/system.rs", "get_state", "nodes");
   ("mc/system.rs", "nodes", "nodes");
   ("node.rs", "process_names", "processes");
   ("system.rs", "nodes", "nodes");
   ("system.rs", "process_names", "proc_nodes");
   ("system.rs", "recover_node", "proc_nodes")].
Lemma hash_iter_sites_ok : hash_iter_sites = modelled_hash_iter_sites.
Proof. reflexivity. Qed.
