(* Model of ModelChecker::new (src/mc/model_checker.rs, with fixes F3 and F4): the model-checking system that
   captures the current state of a simulation. *)
From ASV Require Import Base.Util Base.Msg Base.Log Model.Store Model.McSys Model.Sim.

Section Snapshot.
  Context {T : Type} (ops : time_ops T).
  Context {SE : Type} (so : @store_ops T SE).
  Context {PS : Type}.

  Definition snap_node (nd : @simnode T PS) : @mcnode T PS :=
    {| nd_procs := sd_procs nd; nd_skew := sd_skew nd; nd_crashed := sd_crashed nd |}.

  (* McNetwork::new + disconnect_node for every crashed node *)
  Definition snap_net (s : @simsys T PS) : @mcnet T :=
    let n := y_net s in
    let crashed := map fst (filter (fun p => sd_crashed (snd p)) (y_nodes s)) in
    {| n_corrupt := sn_corrupt n; n_dupl := sn_dupl n; n_drop := sn_drop n;
       n_drop_in := fold_left (fun acc x => nins x acc) crashed (sn_drop_in n);
       n_drop_out := fold_left (fun acc x => nins x acc) crashed (sn_drop_out n);
       n_links := sn_links n; n_loc := sn_loc n; n_maxdelay := sn_max n |}.

  Definition node_crashed (s : @simsys T PS) (node : N) : result bool :=
    match sget N.compare node (y_nodes s) with Some nd => Ok (sd_crashed nd) | None => Panic 80 end.

  (* the live queue events in firing order become pending events: messages with NoFailures(max_delay) unless their
     destination node is crashed, timers with their REMAINING delay *)
  Fixpoint snap_events (s : @simsys T PS) (st : SE) (l : list (@qevent T)) : result SE :=
    match l with
    | [] => Ok st
    | e :: r =>
      match q_data e with
      | QMsg _ m src _ dst _ =>
        match sget N.compare dst (sn_loc (y_net s)) with
        | None => Panic 81                       (* proc_locations[dst] *)
        | Some dn =>
          do c <- node_crashed s dn;
          if c then snap_events s st r
          else do (st', _) <- so_push so st (EMsg m src dst (NoFailures (sn_max (y_net s)))); snap_events s st' r
        end
      | QTimer proc timer =>
        do (st', _) <- so_push so st (ETimer proc timer (tsub ops (q_time e) (q_clock (y_q s))));
        snap_events s st' r
      end
    end.

  Definition snapshot (s : @simsys T PS) : result (@mcsys T SE PS) :=
    do st <- snap_events s (so_empty so) (q_dump ops (y_q s));
    Ok {| s_nodes := map (fun p => (fst p, snap_node (snd p))) (y_nodes s);
          s_net := snap_net s; s_events := st; s_depth := 0; s_mf := false; s_trace := y_log s |}.
End Snapshot.
