(* The executable instance of the model-checking model used by the correspondence check:
   time values are the bit patterns of non-negative finite binary64 numbers (their order is the order of the
   patterns), the clock is a table supplied with the scenario, processes are Script programs, and
   model-checking-mode ctx.rand() is never called (draw-free programs). *)
From ASV Require Import Base.Util Base.Msg Base.Log Model.Store Spec.StoreSpec Model.McSys Spec.RefSys Model.Search
     Model.McRun Model.Script Model.DebugFmt.

Definition TT := N.
Definition i_tgt0 (b : N) : bool := negb (N.eqb b 0).
Definition i_teq0 (b : N) : bool := N.eqb b 0.
Definition clock_of (tab : list ((N * N) * N)) (depth skew : N) : N :=
  match sget tkey_cmp (depth, skew) tab with Some b => b | None => 0 end.

(* the two store instances: the model of the code (c_) and the reference semantics (a_) *)
Definition c_ops : @store_ops N (store N) := concrete_ops N.leb (@store_eqb N).
Definition a_ops : @store_ops N (astore N) := abstract_ops N.leb (@sevent_eqb N).
Definition i_sys := @mcsys N (store N) (pstate N).
Definition i_state := @mcstate N (store N) (pstate N).
Definition r_sys := @mcsys N (astore N) (pstate N).
Definition r_state := @mcstate N (astore N) (pstate N).

Section Inst.
  Variable tab : list ((N * N) * N).
  Variable progs : list (N * prog N).
  Let h := progs_handler (T := N) progs.
  Definition i_cb_run := cb_run c_ops i_tgt0 i_teq0 0 (clock_of tab) h unit (fun _ _ => 0) (fun _ => tt).
  Definition i_run := run c_ops N.eqb i_tgt0 i_teq0 0 (clock_of tab) (pstate_eqb N.eqb) h unit (fun _ _ => 0) (fun _ => tt).
  Definition i_run_from_states :=
    run_from_states c_ops N.eqb i_tgt0 i_teq0 0 (clock_of tab) (pstate_eqb N.eqb) h unit (fun _ _ => 0) (fun _ => tt)
                    (tr_cmp (T := N)).
  Definition i_state_eqb := mcstate_eqb c_ops N.eqb (pstate_eqb N.eqb).
  Definition i_take_choice := take_choice c_ops i_tgt0 i_teq0 0 (clock_of tab) h unit (fun _ _ => 0) (fun _ => tt).
  Definition i_all_choices := all_choices c_ops (PS := pstate N).
  Definition i_get_state := get_state (T := N) (SE := store N) (PS := pstate N).
  Definition i_set_state := set_state (T := N) (SE := store N) (PS := pstate N).
  (* the same functions over the reference semantics *)
  Definition r_cb_run := cb_run a_ops i_tgt0 i_teq0 0 (clock_of tab) h unit (fun _ _ => 0) (fun _ => tt).
  Definition r_run := run a_ops N.eqb i_tgt0 i_teq0 0 (clock_of tab) (pstate_eqb N.eqb) h unit (fun _ _ => 0) (fun _ => tt).
  Definition r_run_from_states :=
    run_from_states a_ops N.eqb i_tgt0 i_teq0 0 (clock_of tab) (pstate_eqb N.eqb) h unit (fun _ _ => 0) (fun _ => tt)
                    (tr_cmp (T := N)).
  Definition r_take_choice := take_choice a_ops i_tgt0 i_teq0 0 (clock_of tab) h unit (fun _ _ => 0) (fun _ => tt).
  Definition r_all_choices := all_choices a_ops (PS := pstate N).
  Definition r_get_state := get_state (T := N) (SE := astore N) (PS := pstate N).
End Inst.
