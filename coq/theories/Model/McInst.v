(* The executable instance of the model-checking model used by the correspondence check:
   time values are the bit patterns of non-negative finite binary64 numbers (their order is the order of the
   patterns), the clock is a table supplied with the scenario, processes are Script programs, and
   model-checking-mode ctx.rand() is never called (draw-free programs). *)
From ASV Require Import Base.Util Base.Msg Base.Log Model.Store Model.McSys Model.Search Model.McRun Model.Script
     Model.DebugFmt.

Definition TT := N.
Definition i_tgt0 (b : N) : bool := negb (N.eqb b 0).
Definition i_teq0 (b : N) : bool := N.eqb b 0.
Definition clock_of (tab : list ((N * N) * N)) (depth skew : N) : N :=
  match sget tkey_cmp (depth, skew) tab with Some b => b | None => 0 end.

Definition i_sys := @mcsys N (pstate N).
Definition i_state := @mcstate N (pstate N).

Section Inst.
  Variable tab : list ((N * N) * N).
  Variable progs : list (N * prog N).
  Let h := progs_handler (T := N) progs.
  Definition i_cb_run := cb_run N.leb i_tgt0 i_teq0 0 (clock_of tab) h unit (fun _ _ => 0) (fun _ => tt).
  Definition i_run := run N.leb N.eqb i_tgt0 i_teq0 0 (clock_of tab) (pstate_eqb N.eqb) h unit (fun _ _ => 0) (fun _ => tt).
  Definition i_run_from_states :=
    run_from_states N.leb N.eqb i_tgt0 i_teq0 0 (clock_of tab) (pstate_eqb N.eqb) h unit (fun _ _ => 0) (fun _ => tt)
                    (tr_cmp (T := N)).
  Definition i_state_eqb := mcstate_eqb (T := N) N.eqb (pstate_eqb N.eqb).
  Definition i_take_choice := take_choice N.leb i_tgt0 i_teq0 0 (clock_of tab) h unit (fun _ _ => 0) (fun _ => tt).
  Definition i_all_choices := all_choices (T := N) (PS := pstate N).
  Definition i_get_state := get_state (T := N) (PS := pstate N).
  Definition i_set_state := set_state (T := N) (PS := pstate N).
End Inst.
