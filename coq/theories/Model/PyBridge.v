(* Model of the Python bridge (C18): python/anysystem.py Context (records the calls of a handler in three lists;
   rejects negative delays) and src/python/mod.rs PyProcess::handle_proc_actions (relays the three lists to the
   Rust Context: all sends, then all local sends, then all timer operations; a timer operation is the triple
   (name, delay, once) with delay = -1 standing for cancel_timer). *)
From ASV Require Import Base.Util Base.Msg Base.Log.

Section PyBridge.
  Context {T : Type}.
  Variable tneg1 : T.                     (* -1 *)
  Variable tlt0 : T -> bool.              (* delay < 0 *)

  Inductive pycall :=
  | PySend (m : msg) (dst : N)
  | PyLocal (m : msg)
  | PySetTimer (name : N) (delay : T)
  | PySetTimerOnce (name : N) (delay : T)
  | PyCancel (name : N).

  Record pyctx := { py_sent : list (msg * N); py_local : list msg; py_timers : list (N * T * bool) }.
  Definition pyctx0 : pyctx := {| py_sent := []; py_local := []; py_timers := [] |}.

  (* one call on the Python Context; None = the call raises (ValueError: negative delay) *)
  Definition py_call (c : pyctx) (k : pycall) : option pyctx :=
    match k with
    | PySend m dst => Some {| py_sent := py_sent c ++ [(m, dst)]; py_local := py_local c; py_timers := py_timers c |}
    | PyLocal m => Some {| py_sent := py_sent c; py_local := py_local c ++ [m]; py_timers := py_timers c |}
    | PySetTimer n d => if tlt0 d then None
                        else Some {| py_sent := py_sent c; py_local := py_local c; py_timers := py_timers c ++ [(n, d, false)] |}
    | PySetTimerOnce n d => if tlt0 d then None
                            else Some {| py_sent := py_sent c; py_local := py_local c; py_timers := py_timers c ++ [(n, d, true)] |}
    | PyCancel n => Some {| py_sent := py_sent c; py_local := py_local c; py_timers := py_timers c ++ [(n, tneg1, false)] |}
    end.
  Fixpoint py_run (c : pyctx) (ks : list pycall) : option pyctx :=
    match ks with
    | [] => Some c
    | k :: r => match py_call c k with Some c' => py_run c' r | None => None end
    end.

  (* handle_proc_actions *)
  Definition decode_timer (t : N * T * bool) : action T :=
    let '(n, d, once) := t in
    if tlt0 d then ATimerCancel n else ATimerSet n d once.
  Definition relay (c : pyctx) : list (action T) :=
    map (fun p => ASend (fst p) (snd p)) (py_sent c) ++ map (fun m => ALocal m) (py_local c) ++ map decode_timer (py_timers c).

  (* what was issued, by kind, in issue order *)
  Definition sends_of (ks : list pycall) : list (action T) :=
    flat_map (fun k => match k with PySend m d => [ASend m d] | _ => [] end) ks.
  Definition locals_of (ks : list pycall) : list (action T) :=
    flat_map (fun k => match k with PyLocal m => [ALocal m] | _ => [] end) ks.
  Definition timers_of (ks : list pycall) : list (action T) :=
    flat_map (fun k => match k with
                       | PySetTimer n d => [ATimerSet n d false]
                       | PySetTimerOnce n d => [ATimerSet n d true]
                       | PyCancel n => [ATimerCancel n]
                       | _ => []
                       end) ks.
End PyBridge.
