(* Model of src/mc/pending_events.rs (PendingEvents) and src/mc/dependency.rs (DependencyResolver).
   One Gallina function per Rust function; every unwrap/assert/index is a Panic result.
   Definitions only. *)
From ASV Require Import Base.Util Base.Msg.

Section Store.
  (* time values of timer delays: only compared *)
  Context {T : Type} (tleb : T -> T -> bool).

  Definition id := N.

  (* DeliveryOptions *)
  Inductive dopts :=
  | NoFailures (max_delay : T)
  | Possible (can_drop : bool) (dupl : N) (can_corrupt : bool).

  (* the two McEvent variants that are ever stored *)
  Inductive sevent :=
  | EMsg (m : msg) (src dst : N) (o : dopts)
  | ETimer (proc name : N) (delay : T).

  Definition mkey : Type := msg * (N * N).
  Definition mkey_cmp : mkey -> mkey -> comparison :=
    cmp_pair msg_cmp (cmp_pair N.compare N.compare).
  Definition tkey_cmp : N * N -> N * N -> comparison := cmp_pair N.compare N.compare.

  Record tinfo := { ti_proc : N; ti_delay : T; ti_blockers : list id }.

  Record store := {
    evs : list (id * sevent);            (* events: BTreeMap<McEventId, McEvent> *)
    tmap : list ((N * N) * id);          (* timer_mapping: BTreeMap<(proc, timer), id> *)
    avail : list id;                     (* available_events: BTreeSet *)
    r_timers : list (id * tinfo);        (* resolver.timers *)
    r_msgs : list (mkey * list id);      (* resolver.messages: group -> VecDeque *)
    r_ptimers : list (N * list id);      (* resolver.proc_timers: proc -> BTreeSet *)
    next : id }.                         (* id_counter *)

  Definition empty : store :=
    {| evs := []; tmap := []; avail := []; r_timers := []; r_msgs := []; r_ptimers := []; next := 0 |}.

  Definition set_evs (s : store) x := {| evs := x; tmap := tmap s; avail := avail s; r_timers := r_timers s;
                                         r_msgs := r_msgs s; r_ptimers := r_ptimers s; next := next s |}.
  Definition set_tmap (s : store) x := {| evs := evs s; tmap := x; avail := avail s; r_timers := r_timers s;
                                          r_msgs := r_msgs s; r_ptimers := r_ptimers s; next := next s |}.
  Definition set_avail (s : store) x := {| evs := evs s; tmap := tmap s; avail := x; r_timers := r_timers s;
                                           r_msgs := r_msgs s; r_ptimers := r_ptimers s; next := next s |}.
  Definition set_next (s : store) x := {| evs := evs s; tmap := tmap s; avail := avail s; r_timers := r_timers s;
                                          r_msgs := r_msgs s; r_ptimers := r_ptimers s; next := x |}.

  (* ---------------- DependencyResolver ---------------- *)

  (* add_timer: blockers = timers of the process with delay <= the new delay; panics on a duplicate id *)
  Definition add_timer (s : store) (proc : N) (delay : T) (i : id) : result (store * bool) :=
    let pts := match sget N.compare proc (r_ptimers s) with Some l => l | None => [] end in
    let blockers := filter (fun j => match sget N.compare j (r_timers s) with
                                     | Some t => tleb (ti_delay t) delay
                                     | None => false   (* self.timers[id] would panic; see add_timer_index_ok *)
                                     end) pts in
    if negb (forallb (fun j => shas N.compare j (r_timers s)) pts) then Panic 6 else
    match sget N.compare i (r_timers s) with
    | Some _ => Panic 1
    | None =>
      Ok ({| evs := evs s; tmap := tmap s; avail := avail s;
             r_timers := sins N.compare i {| ti_proc := proc; ti_delay := delay; ti_blockers := blockers |}
                              (r_timers s);
             r_msgs := r_msgs s;
             r_ptimers := sins N.compare proc (nins i pts) (r_ptimers s);
             next := next s |},
          match blockers with [] => true | _ => false end)
    end.

  Definition rm_blocker (i : id) (t : tinfo) : tinfo :=
    {| ti_proc := ti_proc t; ti_delay := ti_delay t; ti_blockers := nrem i (ti_blockers t) |}.

  (* remove_timer: returns the timers of the process that have no blockers left *)
  Definition remove_timer (s : store) (i : id) : result (store * list id) :=
    match sget N.compare i (r_timers s) with
    | None => Panic 2
    | Some t =>
      match sget N.compare (ti_proc t) (r_ptimers s) with
      | None => Panic 3
      | Some pts =>
        if negb (nmem i pts) then Panic 4 else
        let pts' := nrem i pts in
        let timers1 := srem N.compare i (r_timers s) in
        if negb (forallb (fun j => shas N.compare j timers1) pts') then Panic 7 else
        let timers2 := map (fun p => if nmem (fst p) pts' then (fst p, rm_blocker i (snd p)) else p) timers1 in
        let unblocked := filter (fun j => match sget N.compare j timers2 with
                                          | Some t' => match ti_blockers t' with [] => true | _ => false end
                                          | None => false
                                          end) pts' in
        Ok ({| evs := evs s; tmap := tmap s; avail := avail s; r_timers := timers2; r_msgs := r_msgs s;
               r_ptimers := match pts' with
                            | [] => srem N.compare (ti_proc t) (r_ptimers s)
                            | _ => sins N.compare (ti_proc t) pts' (r_ptimers s)
                            end;
               next := next s |}, unblocked)
      end
    end.

  Definition add_message (s : store) (k : mkey) (i : id) : store * bool :=
    let q := match sget mkey_cmp k (r_msgs s) with Some l => l | None => [] end in
    ({| evs := evs s; tmap := tmap s; avail := avail s; r_timers := r_timers s;
        r_msgs := sins mkey_cmp k (q ++ [i]) (r_msgs s); r_ptimers := r_ptimers s; next := next s |},
     match q with [] => true | _ => false end).

  (* remove_message_by_id: removes id i from its group; returns the new front if i was the front *)
  Definition remove_message_by_id (s : store) (k : mkey) (i : id) : result (store * option id) :=
    match sget mkey_cmp k (r_msgs s) with
    | None => Panic 5
    | Some q =>
      let was_front := match q with j :: _ => N.eqb j i | [] => false end in
      let q' := filter (fun j => negb (N.eqb j i)) q in
      Ok ({| evs := evs s; tmap := tmap s; avail := avail s; r_timers := r_timers s;
             r_msgs := match q' with [] => srem mkey_cmp k (r_msgs s) | _ => sins mkey_cmp k q' (r_msgs s) end;
             r_ptimers := r_ptimers s; next := next s |},
          match q' with
          | [] => None
          | j :: _ => if was_front then Some j else None
          end)
    end.

  (* ---------------- PendingEvents ---------------- *)

  Definition push_fixed (s : store) (e : sevent) (i : id) : result store :=
    match sget N.compare i (evs s) with
    | Some _ => Panic 10
    | None =>
      match e with
      | EMsg m src dst _ =>
        let '(s1, a) := add_message s (m, (src, dst)) i in
        let s2 := if a then set_avail s1 (nins i (avail s1)) else s1 in
        Ok (set_evs s2 (sins N.compare i e (evs s2)))
      | ETimer p n d =>
        let s0 := set_tmap s (sins tkey_cmp (p, n) i (tmap s)) in
        do (s1, a) <- add_timer s0 p d i;
        let s2 := if a then set_avail s1 (nins i (avail s1)) else s1 in
        Ok (set_evs s2 (sins N.compare i e (evs s2)))
      end
    end.

  Definition push (s : store) (e : sevent) : result (store * id) :=
    let i := next s in
    do s' <- push_fixed (set_next s (i + 1)) e i;
    Ok (s', i).

  Definition pop (s : store) (i : id) : result (store * sevent) :=
    match sget N.compare i (evs s) with
    | None => Panic 20
    | Some e =>
      let s1 := set_avail (set_evs s (srem N.compare i (evs s))) (nrem i (avail s)) in
      match e with
      | ETimer _ _ _ =>
        do (s2, unb) <- remove_timer s1 i;
        Ok (set_avail s2 (nunion (avail s2) unb), e)
      | EMsg m src dst _ =>
        do (s2, nxt) <- remove_message_by_id s1 (m, (src, dst)) i;
        match nxt with
        | None => Ok (s2, e)
        | Some j => Ok (set_avail s2 (nins j (avail s2)), e)
        end
      end
    end.

  Definition cancel_timer (s : store) (p n : N) : result store :=
    match sget tkey_cmp (p, n) (tmap s) with
    | None => Ok s
    | Some i =>
      do (s2, _) <- pop (set_tmap s (srem tkey_cmp (p, n) (tmap s))) i;
      Ok s2
    end.

  Definition touches (p : N) (e : sevent) : bool :=
    match e with
    | EMsg _ src dst _ => N.eqb src p || N.eqb dst p
    | ETimer q _ _ => N.eqb q p
    end.

  (* the dropped messages, in id order, each with the id it had *)
  Fixpoint pops (s : store) (ids : list id) (acc : list (id * sevent)) : result (store * list (id * sevent)) :=
    match ids with
    | [] => Ok (s, rev acc)
    | i :: r =>
      do (s', e) <- pop s i;
      pops s' r (match e with EMsg _ _ _ _ => (i, e) :: acc | ETimer _ _ _ => acc end)
    end.
  Definition cancel_proc (s : store) (p : N) : result (store * list (id * sevent)) :=
    pops s (map fst (filter (fun ie => touches p (snd ie)) (evs s))) [].

  Definition is_msg_id (s : store) (i : id) : bool :=
    match sget N.compare i (evs s) with Some (EMsg _ _ _ _) => true | _ => false end.

  (* available_events(mode); the assertion "available non-empty or no events" is Panic 30 *)
  Definition offered (s : store) (messages_first : bool) : result (list id) :=
    match avail s, evs s with
    | [], _ :: _ => Panic 30
    | _, _ =>
      if messages_first then
        match filter (is_msg_id s) (avail s) with
        | [] => Ok (avail s)
        | l => Ok l
        end
      else Ok (avail s)
    end.

  Definition is_empty (s : store) : result bool :=
    match avail s, evs s with
    | [], _ :: _ => Panic 30
    | [], [] => Ok true
    | _ :: _, _ => Ok false
    end.

  (* ---------------- operation sequences (the API as the rest of the crate uses it) ---------------- *)
  Inductive sop :=
  | OPush (e : sevent)
  | OPushFixed (e : sevent) (i : id)
  | OPop (i : id)
  | OCancelTimer (p n : N)
  | OCancelProc (p : N).

  Inductive sout :=
  | RId (i : id)
  | RUnit
  | REvent (e : sevent)
  | RDropped (l : list (id * sevent)).

  Definition step (s : store) (o : sop) : result (store * sout) :=
    match o with
    | OPush e => do (s', i) <- push s e; Ok (s', RId i)
    | OPushFixed e i => do s' <- push_fixed s e i; Ok (s', RId i)
    | OPop i => do (s', e) <- pop s i; Ok (s', REvent e)
    | OCancelTimer p n => do s' <- cancel_timer s p n; Ok (s', RUnit)
    | OCancelProc p => do (s', l) <- cancel_proc s p; Ok (s', RDropped l)
    end.

  (* what an outside observer can see of a store *)
  Record sobs := { ob_live : list (id * sevent); ob_offered : result (list id); ob_offered_mf : result (list id);
                   ob_next : id }.
  Definition observe (s : store) : sobs :=
    {| ob_live := evs s; ob_offered := offered s false; ob_offered_mf := offered s true; ob_next := next s |}.

  Fixpoint run (s : store) (ops : list sop) : result (store * list (sout * sobs)) :=
    match ops with
    | [] => Ok (s, [])
    | o :: r =>
      do (s1, out) <- step s o;
      do (s2, outs) <- run s1 r;
      Ok (s2, (out, observe s1) :: outs)
    end.
End Store.

Arguments dopts T : clear implicits.
Arguments sevent T : clear implicits.
Arguments store T : clear implicits.
Arguments tinfo T : clear implicits.
Arguments sop T : clear implicits.
Arguments sout T : clear implicits.
Arguments sobs T : clear implicits.
Arguments empty {T}.
