(* Model of the simulator: the external simcore queue (modelled, not verified), src/network.rs (Network),
   src/node.rs (Node, ProcessEntry), src/system.rs (System), src/logger.rs (the trace).
   One Gallina function per Rust function; panics are results.  Definitions only. *)
From ASV Require Import Base.Util Base.Msg Base.Log.

(* the operations on f64 the simulator performs *)
Record time_ops (T : Type) := {
  tadd : T -> T -> T;
  tsub : T -> T -> T;
  tmul : T -> T -> T;
  tltb : T -> T -> bool;          (* <  *)
  tleb : T -> T -> bool;          (* <= *)
  tz : T;                         (* 0.0 *)
  ttwo : T;                       (* 2.0 *)
  tone : T;                       (* 1.0 *)
  tneg_eps_le : T -> bool }.      (* delay >= -1e-12 *)
Arguments tadd {T}. Arguments tsub {T}. Arguments tmul {T}. Arguments tltb {T}. Arguments tleb {T}.
Arguments tz {T}. Arguments ttwo {T}. Arguments tone {T}. Arguments tneg_eps_le {T}.

Section Sim.
  Context {T : Type} (ops : time_ops T).
  Context {PS : Type}.
  Variable handler : N -> PS -> input -> T -> (nat -> T) -> PS * list (action T) * nat.   (* + draws consumed *)
  Variable init_state : N -> PS.            (* the state a freshly added process starts in *)
  Variable draws : nat -> T.                (* the Pcg64 stream of the simulation, in [0,1) *)

  Notation logentry := (logentry T).
  Notation pentry := (pentry T PS).
  Notation action := (action T).

  Definition tmax0 (x : T) : T := if tltb ops x (tz ops) then tz ops else x.      (* delay.max(0.) *)

  (* ---------------- simcore: event queue ---------------- *)
  Inductive qdata :=
  | QMsg (id : N) (m : msg) (src src_node dst dst_node : N)
  | QTimer (proc timer : N).
  Record qevent := { q_id : N; q_time : T; q_src : N; q_dst : N; q_data : qdata }.

  Record simq := {
    q_clock : T;
    q_events : list qevent;          (* the heap's content (no particular order) *)
    q_canceled : list N;             (* canceled_events: sorted set *)
    q_count : N;                     (* event_count *)
    q_rand : nat }.                  (* number of draws consumed from the stream *)

  Definition q_with (q : simq) clock evs canc cnt rnd :=
    {| q_clock := clock; q_events := evs; q_canceled := canc; q_count := cnt; q_rand := rnd |}.

  Definition q_draw (q : simq) : T * simq :=
    (draws (q_rand q), q_with q (q_clock q) (q_events q) (q_canceled q) (q_count q) (S (q_rand q))).

  (* add_event: id = event_count; time = clock + max(delay, 0); panics when delay < -EPSILON *)
  Definition q_add (q : simq) (d : qdata) (src dst : N) (delay : T) : result (simq * N) :=
    if tneg_eps_le ops delay then
      let e := {| q_id := q_count q; q_time := tadd ops (q_clock q) (tmax0 delay); q_src := src; q_dst := dst;
                  q_data := d |} in
      Ok (q_with q (q_clock q) (q_events q ++ [e]) (q_canceled q) (q_count q + 1) (q_rand q), q_count q)
    else Panic 60.

  (* heap order: smaller time first, ties by smaller id *)
  Definition ev_before (a b : qevent) : bool :=
    tltb ops (q_time a) (q_time b) || (negb (tltb ops (q_time b) (q_time a)) && N.ltb (q_id a) (q_id b)).
  Fixpoint q_min (l : list qevent) : option qevent :=
    match l with
    | [] => None
    | e :: r => match q_min r with
                | None => Some e
                | Some m => if ev_before e m then Some e else Some m
                end
    end.
  Definition q_remove (i : N) (l : list qevent) : list qevent := filter (fun e => negb (N.eqb (q_id e) i)) l.

  (* next_event: pop the minimum; a cancelled one is dropped (and leaves the cancel set), the search continues *)
  Fixpoint q_next_fuel (fuel : nat) (q : simq) : simq * option qevent :=
    match fuel with
    | O => (q, None)
    | S f =>
      match q_min (q_events q) with
      | None => (q, None)
      | Some e =>
        let evs := q_remove (q_id e) (q_events q) in
        if nmem (q_id e) (q_canceled q) then
          q_next_fuel f (q_with q (q_clock q) evs (nrem (q_id e) (q_canceled q)) (q_count q) (q_rand q))
        else (q_with q (q_time e) evs (q_canceled q) (q_count q) (q_rand q), Some e)
      end
    end.
  Definition q_next (q : simq) : simq * option qevent := q_next_fuel (S (length (q_events q))) q.

  (* peek_event: drops cancelled heads, returns the next live event without popping it *)
  Fixpoint q_peek_fuel (fuel : nat) (q : simq) : simq * option qevent :=
    match fuel with
    | O => (q, None)
    | S f =>
      match q_min (q_events q) with
      | None => (q, None)
      | Some e =>
        if nmem (q_id e) (q_canceled q) then
          q_peek_fuel f (q_with q (q_clock q) (q_remove (q_id e) (q_events q)) (nrem (q_id e) (q_canceled q))
                                (q_count q) (q_rand q))
        else (q, Some e)
      end
    end.
  Definition q_peek (q : simq) : simq * option qevent := q_peek_fuel (S (length (q_events q))) q.

  Definition q_cancel (q : simq) (i : N) : simq :=
    q_with q (q_clock q) (q_events q) (nins i (q_canceled q)) (q_count q) (q_rand q).
  Definition q_cancel_pred (q : simq) (p : qevent -> bool) : simq :=
    q_with q (q_clock q) (q_events q)
           (fold_left (fun acc e => if p e then nins (q_id e) acc else acc) (q_events q) (q_canceled q))
           (q_count q) (q_rand q).
  (* dump_events: live events in queue order *)
  Definition q_live (q : simq) : list qevent := filter (fun e => negb (nmem (q_id e) (q_canceled q))) (q_events q).
  Fixpoint q_insert_sorted (e : qevent) (l : list qevent) : list qevent :=
    match l with
    | [] => [e]
    | x :: r => if ev_before e x then e :: l else x :: q_insert_sorted e r
    end.
  Definition q_dump (q : simq) : list qevent := fold_left (fun acc e => q_insert_sorted e acc) (q_live q) [].

  (* ---------------- Network ---------------- *)
  Record simnet := {
    sn_min : T; sn_max : T; sn_drop : T; sn_dupl : T; sn_corrupt : T;
    sn_node_ids : list (N * N);         (* node name -> component id *)
    sn_loc : list (N * N);              (* proc -> node *)
    sn_drop_in : list N; sn_drop_out : list N; sn_links : list (N * N);
    sn_net_count : N; sn_msg_count : N; sn_traffic : N }.

  Definition net0 : simnet :=
    {| sn_min := tone ops; sn_max := tone ops; sn_drop := tz ops; sn_dupl := tz ops; sn_corrupt := tz ops;
       sn_node_ids := []; sn_loc := []; sn_drop_in := []; sn_drop_out := []; sn_links := [];
       sn_net_count := 0; sn_msg_count := 0; sn_traffic := 0 |}.

  Definition pair_eqb (a b : N * N) : bool := N.eqb (fst a) (fst b) && N.eqb (snd a) (snd b).
  Definition pair_cmp : N * N -> N * N -> comparison := cmp_pair N.compare N.compare.
  Fixpoint pins (x : N * N) (l : list (N * N)) : list (N * N) :=
    match l with
    | [] => [x]
    | y :: r => match pair_cmp x y with Lt => x :: l | Eq => l | Gt => y :: pins x r end
    end.
  Definition prem (x : N * N) (l : list (N * N)) : list (N * N) := filter (fun y => negb (pair_eqb x y)) l.

  (* the fate of one send between different nodes, as a function of the draws (C05 / C12) *)
  Inductive fate :=
  | FDropped
  | FCopies (m : msg) (delays : list T).      (* payload (possibly corrupted) and one delay per copy *)

  Definition link_cut (n : simnet) (sn dn : N) : bool :=
    nmem sn (sn_drop_out n) || nmem dn (sn_drop_in n) || existsb (pair_eqb (sn, dn)) (sn_links n).

  (* number of copies: 1, or ceil(r2 * 2) + 1 when r1 < dupl_rate *)
  Definition ceil2 (x : T) : N :=                (* ceil of x in [0, 2) *)
    if tleb ops x (tz ops) then 0 else if tleb ops x (tone ops) then 1 else 2.

  Fixpoint copy_delays (k : nat) (n : simnet) (q : simq) : list T * simq :=
    match k with
    | O => ([], q)
    | S k' =>
      let '(r, q1) := q_draw q in
      let d := tadd ops (sn_min n) (tmul ops r (tsub ops (sn_max n) (sn_min n))) in
      let '(ds, q2) := copy_delays k' n q1 in
      (d :: ds, q2)
    end.

  Definition net_fate (n : simnet) (q : simq) (m : msg) (sn dn : N) : fate * simq :=
    let '(r0, q0) := q_draw q in                                       (* message_is_dropped draws first *)
    if tltb ops r0 (sn_drop n) || link_cut n sn dn then (FDropped, q0)
    else
      let '(r1, q1) := q_draw q0 in                                    (* corrupt_if_needed *)
      let m' := if tltb ops r1 (sn_corrupt n) then corrupt_msg m else m in
      let '(r2, q2) := q_draw q1 in                                    (* get_message_count *)
      if negb (tltb ops r2 (sn_dupl n)) then
        let '(ds, q3) := copy_delays 1 n q2 in (FCopies m' ds, q3)
      else
        let '(r3, q3) := q_draw q2 in
        let cnt := ceil2 (tmul ops r3 (ttwo ops)) + 1 in
        let '(ds, q4) := copy_delays (N.to_nat cnt) n q3 in (FCopies m' ds, q4).

  Fixpoint emit_copies (q : simq) (d : qdata) (src dst : N) (delays : list T) : result simq :=
    match delays with
    | [] => Ok q
    | dl :: r => do (q1, _) <- q_add q d src dst dl; emit_copies q1 d src dst r
    end.

  Definition net_bump (n : simnet) (cross : bool) (size : N) : simnet :=
    {| sn_min := sn_min n; sn_max := sn_max n; sn_drop := sn_drop n; sn_dupl := sn_dupl n; sn_corrupt := sn_corrupt n;
       sn_node_ids := sn_node_ids n; sn_loc := sn_loc n; sn_drop_in := sn_drop_in n; sn_drop_out := sn_drop_out n;
       sn_links := sn_links n;
       sn_net_count := if cross then sn_net_count n + 1 else sn_net_count n;
       sn_msg_count := sn_msg_count n + 1;
       sn_traffic := if cross then sn_traffic n + size else sn_traffic n |}.

  (* Network::send_message *)
  Definition net_send (n : simnet) (q : simq) (m : msg) (src dst : N) : result (simnet * simq * list logentry) :=
    match sget N.compare src (sn_loc n), sget N.compare dst (sn_loc n) with
    | Some sn, Some dn =>
      match sget N.compare sn (sn_node_ids n), sget N.compare dn (sn_node_ids n) with
      | Some sid, Some did =>
        let mid := sn_msg_count n in
        let now := q_clock q in
        let sent := LMessageSent now mid sn src dn dst m in
        if N.eqb sn dn then
          do (q1, _) <- q_add q (QMsg mid m src sn dst dn) sid did (tz ops);
          Ok (net_bump n false 0, q1, [sent])
        else
          let '(f, q1) := net_fate n q m sn dn in
          match f with
          | FDropped => Ok (net_bump n true (msg_size m), q1, [sent; LMessageDropped now mid sn src dn dst m])
          | FCopies m' ds =>
            do q2 <- emit_copies q1 (QMsg mid m' src sn dst dn) sid did ds;
            Ok (net_bump n true (msg_size m), q2, [sent])
          end
      | _, _ => Panic 61
      end
    | _, _ => Panic 62
    end.

  (* ---------------- Node ---------------- *)
  Record simnode := {
    sd_id : N;
    sd_procs : list (N * pentry);
    sd_skew : T;
    sd_crashed : bool;
    sd_lcount : N }.                   (* local_message_count *)

  Definition pe_new (proc : N) : pentry :=
    {| pe_state := init_state proc; pe_evlog := []; pe_outbox := []; pe_ptimers := []; pe_sent := 0; pe_recv := 0 |}.
  Definition pe_with (p : pentry) st ev ob pt se re : pentry :=
    {| pe_state := st; pe_evlog := ev; pe_outbox := ob; pe_ptimers := pt; pe_sent := se; pe_recv := re |}.

  (* the mutable world a handler's actions act on *)
  Record world := { w_q : simq; w_net : simnet; w_log : list logentry }.

  (* handle_process_actions, one action *)
  Definition node_action (nname : N) (nid : N) (proc : N) (time : T) (p : pentry) (lcount : N) (w : world) (a : action)
    : result (pentry * N * world) :=
    let ev := pe_evlog p ++ [(time, action_event proc a)] in
    match a with
    | ASend m dst =>
      do (n', q', logs) <- net_send (w_net w) (w_q w) m proc dst;
      Ok (pe_with p (pe_state p) ev (pe_outbox p) (pe_ptimers p) (pe_sent p + 1) (pe_recv p), lcount,
          {| w_q := q'; w_net := n'; w_log := w_log w ++ logs |})
    | ALocal m =>
      Ok (pe_with p (pe_state p) ev (pe_outbox p ++ [m]) (pe_ptimers p) (pe_sent p) (pe_recv p), lcount + 1,
          {| w_q := w_q w; w_net := w_net w; w_log := w_log w ++ [LLocalMessageSent time nname proc lcount m] |})
    | ATimerSet name delay once =>
      match sget N.compare name (pe_ptimers p) with
      | Some old =>
        if once then Ok (pe_with p (pe_state p) ev (pe_outbox p) (pe_ptimers p) (pe_sent p) (pe_recv p), lcount, w)
        else
          let q1 := q_cancel (w_q w) old in
          do (q2, i) <- q_add q1 (QTimer proc name) nid nid delay;
          Ok (pe_with p (pe_state p) ev (pe_outbox p) (sins N.compare name i (pe_ptimers p)) (pe_sent p) (pe_recv p),
              lcount, {| w_q := q2; w_net := w_net w; w_log := w_log w ++ [LTimerSet time i name nname proc delay] |})
      | None =>
        do (q2, i) <- q_add (w_q w) (QTimer proc name) nid nid delay;
        Ok (pe_with p (pe_state p) ev (pe_outbox p) (sins N.compare name i (pe_ptimers p)) (pe_sent p) (pe_recv p),
            lcount, {| w_q := q2; w_net := w_net w; w_log := w_log w ++ [LTimerSet time i name nname proc delay] |})
      end
    | ATimerCancel name =>
      match sget N.compare name (pe_ptimers p) with
      | Some i =>
        Ok (pe_with p (pe_state p) ev (pe_outbox p) (srem N.compare name (pe_ptimers p)) (pe_sent p) (pe_recv p), lcount,
            {| w_q := q_cancel (w_q w) i; w_net := w_net w; w_log := w_log w ++ [LTimerCancelled time i name nname proc] |})
      | None => Ok (pe_with p (pe_state p) ev (pe_outbox p) (pe_ptimers p) (pe_sent p) (pe_recv p), lcount, w)
      end
    end.

  Fixpoint node_actions (nname nid proc : N) (time : T) (p : pentry) (lcount : N) (w : world) (acts : list action)
    : result (pentry * N * world) :=
    match acts with
    | [] => Ok (p, lcount, w)
    | a :: r =>
      do (p1, lc1, w1) <- node_action nname nid proc time p lcount w a;
      node_actions nname nid proc time p1 lc1 w1 r
    end.

  Inductive hkind := HMsg (mid : N) (m : msg) (from from_node : N) | HTimer (name : N) | HLocal (m : msg).

  (* Node::on_message_received / on_timer_fired / on_local_message_received *)
  Definition node_handle (nname : N) (nd : simnode) (proc : N) (k : hkind) (w : world) : result (simnode * world) :=
    let time := q_clock (w_q w) in
    (* the log entry comes before the process lookup (which panics for an unknown process) *)
    let pre_log := match k with
                   | HMsg mid m from fnode => [LMessageReceived time mid fnode from nname proc m]
                   | HLocal m => [LLocalMessageReceived time nname proc (sd_lcount nd) m]
                   | HTimer _ => []
                   end in
    let lc0 := match k with HLocal _ => sd_lcount nd + 1 | _ => sd_lcount nd end in
    match sget N.compare proc (sd_procs nd) with
    | None => Panic 63
    | Some p =>
      let '(p1, tlog) :=
        match k with
        | HMsg _ m from _ =>
          (pe_with p (pe_state p) (pe_evlog p ++ [(time, PMessageReceived m from proc)]) (pe_outbox p) (pe_ptimers p)
                   (pe_sent p) (pe_recv p + 1), [])
        | HLocal m =>
          (pe_with p (pe_state p) (pe_evlog p ++ [(time, PLocalMessageReceived m)]) (pe_outbox p) (pe_ptimers p)
                   (pe_sent p) (pe_recv p), [])
        | HTimer name =>
          match sget N.compare name (pe_ptimers p) with
          | Some tid => (pe_with p (pe_state p) (pe_evlog p) (pe_outbox p) (srem N.compare name (pe_ptimers p))
                                 (pe_sent p) (pe_recv p), [LTimerFired time tid name nname proc])
          | None => (p, [])
          end
        end in
      let inp := match k with HMsg _ m from _ => InMsg m from | HTimer name => InTimer name | HLocal m => InLocal m end in
      let q := w_q w in
      let '(st', acts, used) := handler proc (pe_state p1) inp (tadd ops time (sd_skew nd))
                                        (fun i => draws (q_rand q + i)) in
      let q' := q_with q (q_clock q) (q_events q) (q_canceled q) (q_count q) (q_rand q + used) in
      let p2 := pe_with p1 st' (pe_evlog p1) (pe_outbox p1) (pe_ptimers p1) (pe_sent p1) (pe_recv p1) in
      let w1 := {| w_q := q'; w_net := w_net w; w_log := w_log w ++ pre_log ++ tlog |} in
      do (p3, lc, w2) <- node_actions nname (sd_id nd) proc time p2 lc0 w1 acts;
      Ok ({| sd_id := sd_id nd; sd_procs := sins N.compare proc p3 (sd_procs nd); sd_skew := sd_skew nd;
             sd_crashed := sd_crashed nd; sd_lcount := lc |}, w2)
    end.

  (* ---------------- System ---------------- *)
  Record simsys := {
    y_q : simq;
    y_net : simnet;
    y_nodes : list (N * simnode);           (* nodes: name -> node *)
    y_proc_nodes : list (N * N);            (* proc_nodes: proc -> node name *)
    y_handlers : list (N * bool);           (* component id -> handler present *)
    y_ncomp : N;                            (* number of registered components ("net" is 0) *)
    y_log : list logentry }.

  Definition sys0 : simsys :=
    {| y_q := {| q_clock := tz ops; q_events := []; q_canceled := []; q_count := 0; q_rand := O |};
       y_net := net0; y_nodes := []; y_proc_nodes := []; y_handlers := []; y_ncomp := 1; y_log := [] |}.

  Definition y_with (s : simsys) q net nodes log :=
    {| y_q := q; y_net := net; y_nodes := nodes; y_proc_nodes := y_proc_nodes s; y_handlers := y_handlers s;
       y_ncomp := y_ncomp s; y_log := log |}.

  Definition now (s : simsys) : T := q_clock (y_q s).

  Definition net_with_sets (n : simnet) di do_ li :=
    {| sn_min := sn_min n; sn_max := sn_max n; sn_drop := sn_drop n; sn_dupl := sn_dupl n; sn_corrupt := sn_corrupt n;
       sn_node_ids := sn_node_ids n; sn_loc := sn_loc n; sn_drop_in := di; sn_drop_out := do_; sn_links := li;
       sn_net_count := sn_net_count n; sn_msg_count := sn_msg_count n; sn_traffic := sn_traffic n |}.
  Definition net_with_params (n : simnet) mn mx dr du co :=
    {| sn_min := mn; sn_max := mx; sn_drop := dr; sn_dupl := du; sn_corrupt := co;
       sn_node_ids := sn_node_ids n; sn_loc := sn_loc n; sn_drop_in := sn_drop_in n; sn_drop_out := sn_drop_out n;
       sn_links := sn_links n;
       sn_net_count := sn_net_count n; sn_msg_count := sn_msg_count n; sn_traffic := sn_traffic n |}.

  Inductive snetop :=
  | SSetDelay (d : T) | SSetDelays (mn mx : T) | SSetDrop (r : T) | SSetDupl (r : T) | SSetCorrupt (r : T)
  | SDropIncoming (n : N) | SPassIncoming (n : N) | SDropOutgoing (n : N) | SPassOutgoing (n : N)
  | SDisconnect (n : N) | SConnect (n : N) | SDisableLink (a b : N) | SEnableLink (a b : N)
  | SPartition (g1 g2 : list N) | SReset.

  (* the setters of rates and delays do not log; the link controls do *)
  Definition snet_apply (n : simnet) (t : T) (o : snetop) : simnet * list logentry :=
    match o with
    | SSetDelay d => (net_with_params n d d (sn_drop n) (sn_dupl n) (sn_corrupt n), [])
    | SSetDelays mn mx => (net_with_params n mn mx (sn_drop n) (sn_dupl n) (sn_corrupt n), [])
    | SSetDrop r => (net_with_params n (sn_min n) (sn_max n) r (sn_dupl n) (sn_corrupt n), [])
    | SSetDupl r => (net_with_params n (sn_min n) (sn_max n) (sn_drop n) r (sn_corrupt n), [])
    | SSetCorrupt r => (net_with_params n (sn_min n) (sn_max n) (sn_drop n) (sn_dupl n) r, [])
    | SDropIncoming x => (net_with_sets n (nins x (sn_drop_in n)) (sn_drop_out n) (sn_links n), [LDropIncoming t x])
    | SPassIncoming x => (net_with_sets n (nrem x (sn_drop_in n)) (sn_drop_out n) (sn_links n), [LPassIncoming t x])
    | SDropOutgoing x => (net_with_sets n (sn_drop_in n) (nins x (sn_drop_out n)) (sn_links n), [LDropOutgoing t x])
    | SPassOutgoing x => (net_with_sets n (sn_drop_in n) (nrem x (sn_drop_out n)) (sn_links n), [LPassOutgoing t x])
    | SDisconnect x => (net_with_sets n (nins x (sn_drop_in n)) (nins x (sn_drop_out n)) (sn_links n), [LNodeDisconnected t x])
    | SConnect x => (net_with_sets n (nrem x (sn_drop_in n)) (nrem x (sn_drop_out n)) (sn_links n), [LNodeConnected t x])
    | SDisableLink a b => (net_with_sets n (sn_drop_in n) (sn_drop_out n) (pins (a, b) (sn_links n)), [LLinkDisabled t a b])
    | SEnableLink a b => (net_with_sets n (sn_drop_in n) (sn_drop_out n) (prem (a, b) (sn_links n)), [LLinkEnabled t a b])
    | SPartition g1 g2 =>
      (net_with_sets n (sn_drop_in n) (sn_drop_out n)
         (fold_left (fun acc a => fold_left (fun acc b => pins (b, a) (pins (a, b) acc)) g2 acc) g1 (sn_links n)),
       [LNetworkPartition t g1 g2])
    | SReset => (net_with_sets n [] [] [], [LNetworkReset t])
    end.

  (* API calls *)
  Inductive sop :=
  | YAddNode (name : N)
  | YAddProcess (proc node : N)
  | YSetSkew (node : N) (skew : T)
  | YNet (o : snetop)
  | YSendLocal (proc : N) (m : msg)
  | YReadLocal (proc : N)
  | YCrash (node : N)
  | YRecover (node : N)
  | YStep
  | YSteps (n : N)
  | YStepUntilNoEvents
  | YStepForDuration (d : T)
  | YStepUntilLocal (proc : N)
  | YStepUntilLocalMax (proc : N) (max_steps : N)
  | YStepUntilLocalTimeout (proc : N) (timeout : T).

  Inductive sret :=
  | RetUnit
  | RetBool (b : bool)
  | RetMsgs (l : list msg)
  | RetLocal (r : option (list msg)).     (* Ok(messages) | Err("No messages") *)

  Definition set_handler (s : simsys) (cid : N) (b : bool) : simsys :=
    {| y_q := y_q s; y_net := y_net s; y_nodes := y_nodes s; y_proc_nodes := y_proc_nodes s;
       y_handlers := sins N.compare cid b (y_handlers s); y_ncomp := y_ncomp s; y_log := y_log s |}.

  (* Simulation::step: next event, delivered through the handler of its destination if there is one *)
  Definition deliver (s : simsys) (e : qevent) : result simsys :=
    match sget N.compare (q_dst e) (y_handlers s) with
    | Some true =>
      (* find the node with this component id *)
      match find (fun p => N.eqb (sd_id (snd p)) (q_dst e)) (y_nodes s) with
      | None => Panic 64
      | Some (nname, nd) =>
        let w := {| w_q := y_q s; w_net := y_net s; w_log := y_log s |} in
        do (nd', w') <-
           match q_data e with
           | QMsg mid m src src_node dst _ => node_handle nname nd dst (HMsg mid m src src_node) w
           | QTimer proc timer => node_handle nname nd proc (HTimer timer) w
           end;
        Ok (y_with s (w_q w') (w_net w') (sins N.compare nname nd' (y_nodes s)) (w_log w'))
      end
    | _ => Ok s        (* log_undelivered_event *)
    end.

  Definition step (s : simsys) : result (simsys * bool) :=
    let '(q', oe) := q_next (y_q s) in
    let s1 := y_with s q' (y_net s) (y_nodes s) (y_log s) in
    match oe with
    | None => Ok (s1, false)
    | Some e => do s2 <- deliver s1 e; Ok (s2, true)
    end.

  (* out of fuel = Panic 69: the theorems exclude it, the harness never reaches it *)
  Fixpoint steps_fuel (fuel : nat) (s : simsys) (n : N) : result (simsys * bool) :=
    match fuel with
    | O => Panic 69
    | S f =>
      if N.eqb n 0 then Ok (s, true) else
      do (s1, b) <- step s;
      if b then steps_fuel f s1 (n - 1) else Ok (s1, false)
    end.
  Fixpoint until_no_events (fuel : nat) (s : simsys) : result simsys :=
    match fuel with
    | O => Panic 69
    | S f => do (s1, b) <- step s; if b then until_no_events f s1 else Ok s1
    end.
  Definition set_clock (s : simsys) (t : T) : simsys :=
    let q := y_q s in
    y_with s (q_with q t (q_events q) (q_canceled q) (q_count q) (q_rand q)) (y_net s) (y_nodes s) (y_log s).
  Fixpoint until_time (fuel : nat) (s : simsys) (t : T) : result (simsys * bool) :=
    match fuel with
    | O => Panic 69
    | S f =>
      let '(q', oe) := q_peek (y_q s) in
      let s1 := y_with s q' (y_net s) (y_nodes s) (y_log s) in
      match oe with
      | None => Ok (set_clock s1 t, false)
      | Some e => if tltb ops t (q_time e) then Ok (set_clock s1 t, true)
                  else do (s2, _) <- step s1; until_time f s2 t
      end
    end.

  Definition node_of_proc (s : simsys) (proc : N) : result (N * simnode) :=
    match sget N.compare proc (y_proc_nodes s) with
    | None => Panic 65
    | Some nname => match sget N.compare nname (y_nodes s) with
                    | None => Panic 66
                    | Some nd => Ok (nname, nd)
                    end
    end.

  (* Node::read_local_messages: drains the outbox; None when empty; panics for a process the node does not have *)
  Definition read_local (s : simsys) (proc : N) : result (simsys * option (list msg)) :=
    do (nname, nd) <- node_of_proc s proc;
    match sget N.compare proc (sd_procs nd) with
    | None => Panic 63
    | Some p =>
      match pe_outbox p with
      | [] => Ok (s, None)
      | l =>
        let p' := pe_with p (pe_state p) (pe_evlog p) [] (pe_ptimers p) (pe_sent p) (pe_recv p) in
        let nd' := {| sd_id := sd_id nd; sd_procs := sins N.compare proc p' (sd_procs nd); sd_skew := sd_skew nd;
                      sd_crashed := sd_crashed nd; sd_lcount := sd_lcount nd |} in
        Ok (y_with s (y_q s) (y_net s) (sins N.compare nname nd' (y_nodes s)) (y_log s), Some l)
      end
    end.

  Fixpoint until_local (fuel : nat) (s : simsys) (proc : N) : result (simsys * option (list msg)) :=
    match fuel with
    | O => Panic 69
    | S f =>
      do (s1, r) <- read_local s proc;
      match r with
      | Some l => Ok (s1, Some l)
      | None => do (s2, b) <- step s1; if b then until_local f s2 proc else Ok (s2, None)
      end
    end.
  Fixpoint until_local_max (fuel : nat) (s : simsys) (proc : N) (steps max_steps : N)
    : result (simsys * option (list msg)) :=
    match fuel with
    | O => Panic 69
    | S f =>
      if N.ltb steps max_steps then
        do (s1, b) <- step s;
        if b then
          do (s2, r) <- read_local s1 proc;
          match r with
          | Some l => Ok (s2, Some l)
          | None => until_local_max f s2 proc (steps + 1) max_steps
          end
        else Ok (s1, None)
      else Ok (s, None)
    end.
  Fixpoint until_local_timeout (fuel : nat) (s : simsys) (proc : N) (end_time : T)
    : result (simsys * option (list msg)) :=
    match fuel with
    | O => Panic 69
    | S f =>
      if tltb ops (now s) end_time then
        do (s1, r) <- read_local s proc;
        match r with
        | Some l => Ok (s1, Some l)
        | None => do (s2, b) <- step s1; if b then until_local_timeout f s2 proc end_time else Ok (s2, None)
        end
      else Ok (s, None)
    end.

  Definition is_qmsg (e : qevent) : bool := match q_data e with QMsg _ _ _ _ _ _ => true | _ => false end.

  (* crash_node (with fix F8): the dropped messages are logged in the heap's iteration order, which the model does
     not know: `crash_order` is that order (any permutation of its argument) *)
  Variable crash_order : list qevent -> list qevent.

  Definition sim_op (fuel : nat) (s : simsys) (o : sop) : result (simsys * sret) :=
    match o with
    | YAddNode name =>
      if shas N.compare name (y_nodes s) then Panic 70 else
      let cid := y_ncomp s in
      let nd := {| sd_id := cid; sd_procs := []; sd_skew := tz ops; sd_crashed := false; sd_lcount := 0 |} in
      let n := y_net s in
      let n' := {| sn_min := sn_min n; sn_max := sn_max n; sn_drop := sn_drop n; sn_dupl := sn_dupl n;
                   sn_corrupt := sn_corrupt n; sn_node_ids := sins N.compare name cid (sn_node_ids n);
                   sn_loc := sn_loc n; sn_drop_in := sn_drop_in n; sn_drop_out := sn_drop_out n; sn_links := sn_links n;
                   sn_net_count := sn_net_count n; sn_msg_count := sn_msg_count n; sn_traffic := sn_traffic n |} in
      Ok ({| y_q := y_q s; y_net := n'; y_nodes := sins N.compare name nd (y_nodes s);
             y_proc_nodes := y_proc_nodes s; y_handlers := sins N.compare cid true (y_handlers s);
             y_ncomp := cid + 1; y_log := y_log s ++ [LNodeStarted (now s) name cid] |}, RetUnit)
    | YAddProcess proc node =>
      match sget N.compare node (y_nodes s) with
      | None => Panic 71
      | Some nd =>
        if shas N.compare proc (y_proc_nodes s) then Panic 72 else
        let nd' := {| sd_id := sd_id nd; sd_procs := sins N.compare proc (pe_new proc) (sd_procs nd);
                      sd_skew := sd_skew nd; sd_crashed := sd_crashed nd; sd_lcount := sd_lcount nd |} in
        let n := y_net s in
        let n' := {| sn_min := sn_min n; sn_max := sn_max n; sn_drop := sn_drop n; sn_dupl := sn_dupl n;
                     sn_corrupt := sn_corrupt n; sn_node_ids := sn_node_ids n;
                     sn_loc := sins N.compare proc node (sn_loc n); sn_drop_in := sn_drop_in n;
                     sn_drop_out := sn_drop_out n; sn_links := sn_links n;
                     sn_net_count := sn_net_count n; sn_msg_count := sn_msg_count n; sn_traffic := sn_traffic n |} in
        Ok ({| y_q := y_q s; y_net := n'; y_nodes := sins N.compare node nd' (y_nodes s);
               y_proc_nodes := sins N.compare proc node (y_proc_nodes s); y_handlers := y_handlers s;
               y_ncomp := y_ncomp s; y_log := y_log s ++ [LProcessStarted (now s) node proc] |}, RetUnit)
      end
    | YSetSkew node skew =>
      match sget N.compare node (y_nodes s) with
      | None => Panic 71
      | Some nd =>
        let nd' := {| sd_id := sd_id nd; sd_procs := sd_procs nd; sd_skew := skew; sd_crashed := sd_crashed nd;
                      sd_lcount := sd_lcount nd |} in
        Ok (y_with s (y_q s) (y_net s) (sins N.compare node nd' (y_nodes s)) (y_log s), RetUnit)
      end
    | YNet o' =>
      let '(n', logs) := snet_apply (y_net s) (now s) o' in
      Ok (y_with s (y_q s) n' (y_nodes s) (y_log s ++ logs), RetUnit)
    | YSendLocal proc m =>
      do (nname, nd) <- node_of_proc s proc;
      if sd_crashed nd then Panic 73 else
      let w := {| w_q := y_q s; w_net := y_net s; w_log := y_log s |} in
      do (nd', w') <- node_handle nname nd proc (HLocal m) w;
      Ok (y_with s (w_q w') (w_net w') (sins N.compare nname nd' (y_nodes s)) (w_log w'), RetUnit)
    | YReadLocal proc =>
      do (s', r) <- read_local s proc;
      Ok (s', RetMsgs (match r with Some l => l | None => [] end))
    | YCrash node =>
      match sget N.compare node (y_nodes s) with
      | None => Panic 71
      | Some nd =>
        let nd' := {| sd_id := sd_id nd; sd_procs := sd_procs nd; sd_skew := sd_skew nd; sd_crashed := true;
                      sd_lcount := sd_lcount nd |} in
        let cid := sd_id nd in
        let t := now s in
        (* messages still in flight from the node are dropped and logged (those cancelled earlier are not) *)
        let from_node := filter (fun e => N.eqb (q_src e) cid) (q_live (y_q s)) in
        let drops := flat_map (fun e => match q_data e with
                                        | QMsg mid m src sn dst dn => [LMessageDropped t mid sn src dn dst m]
                                        | QTimer _ _ => []
                                        end) (crash_order from_node) in
        let q1 := q_cancel_pred (y_q s) (fun e => N.eqb (q_src e) cid) in
        (* remove_handler(Incoming): the handler goes, pending events to the node are cancelled *)
        let q2 := q_cancel_pred q1 (fun e => N.eqb (q_dst e) cid) in
        let s1 := y_with s q2 (y_net s) (sins N.compare node nd' (y_nodes s)) (y_log s ++ [LNodeCrashed t node] ++ drops) in
        Ok (set_handler s1 cid false, RetUnit)
      end
    | YRecover node =>
      match sget N.compare node (y_nodes s) with
      | None => Panic 71
      | Some nd =>
        if negb (sd_crashed nd) then Panic 74 else
        let nd' := {| sd_id := sd_id nd; sd_procs := []; sd_skew := sd_skew nd; sd_crashed := false;
                      sd_lcount := sd_lcount nd |} in
        match sget N.compare (sd_id nd) (y_handlers s) with
        | Some true => Panic 75            (* add_handler asserts that there is none *)
        | _ =>
          let s1 := set_handler s (sd_id nd) true in
          Ok ({| y_q := y_q s1; y_net := y_net s1; y_nodes := sins N.compare node nd' (y_nodes s1);
                 y_proc_nodes := filter (fun pn => negb (N.eqb (snd pn) node)) (y_proc_nodes s1);
                 y_handlers := y_handlers s1; y_ncomp := y_ncomp s1;
                 y_log := y_log s1 ++ [LNodeRecovered (now s) node] |}, RetUnit)
        end
      end
    | YStep => do (s', b) <- step s; Ok (s', RetBool b)
    | YSteps n => do (s', b) <- steps_fuel fuel s n; Ok (s', RetBool b)
    | YStepUntilNoEvents => do s' <- until_no_events fuel s; Ok (s', RetUnit)
    | YStepForDuration d => do (s', b) <- until_time fuel s (tadd ops (now s) d); Ok (s', RetBool b)
    | YStepUntilLocal proc =>
      do _ <- node_of_proc s proc;
      do (s', r) <- until_local fuel s proc; Ok (s', RetLocal r)
    | YStepUntilLocalMax proc mx =>
      do _ <- node_of_proc s proc;
      do (s1, r) <- read_local s proc;
      match r with
      | Some l => Ok (s1, RetLocal (Some l))
      | None => do (s', r') <- until_local_max fuel s1 proc 0 mx; Ok (s', RetLocal r')
      end
    | YStepUntilLocalTimeout proc timeout =>
      do _ <- node_of_proc s proc;
      do (s', r) <- until_local_timeout fuel s proc (tadd ops (now s) timeout); Ok (s', RetLocal r)
    end.
End Sim.
