(* Model of src/mc/predicates.rs (the library invariants, goals, prunes, collects and their combinators) and of
   McState::current_run_trace (src/mc/state.rs).  Each predicate returns a boolean:
     invariants: true = Err(..) (violated);  goals / prunes: true = Some(status);  collects: the boolean itself.
   A predicate that indexes a node / process that does not exist panics in the code: `None` here.
   The wall-clock predicate time_limit is not modelled.  Definitions only. *)
From ASV Require Import Base.Util Base.Msg Base.Log Model.Store Model.McSys.

Section Predicates.
  Context {T SE PS : Type} (so : @store_ops T SE).
  Notation mcstate := (@mcstate T SE PS).
  Notation logentry := (logentry T).

  Definition is_started (e : logentry) : bool := match e with LMcStarted => true | _ => false end.

  (* current_run_trace: the suffix starting at the LAST McStarted entry (the whole trace if there is none) *)
  Fixpoint current_run (tr : list logentry) : list logentry :=
    match tr with
    | [] => []
    | e :: r => if is_started e && negb (existsb is_started r) then tr else
                if existsb is_started r then current_run r else tr
    end.
  Definition current_run_trace (st : mcstate) : list logentry := current_run (st_trace st).

  Definition count (p : logentry -> bool) (l : list logentry) : nat := length (filter p l).
  Definition events_empty (st : mcstate) : bool :=
    match so_is_empty so (st_events st) with Ok b => b | Panic _ => false end.

  Definition proc_entry (st : mcstate) (node proc : N) : option (pentry T PS) :=
    match sget N.compare node (st_nodes st) with
    | None => None
    | Some ns => sget N.compare proc (ns_procs ns)
    end.

  (* ---------------- defaults ---------------- *)
  Definition default_prune (_ : mcstate) : bool := false.
  Definition default_goal (_ : mcstate) : bool := false.
  Definition default_invariant (_ : mcstate) : bool := false.
  Definition default_collect (_ : mcstate) : bool := false.

  (* ---------------- invariants (true = violated) ---------------- *)
  Definition all_invariants (rules : list (mcstate -> bool)) (st : mcstate) : bool := existsb (fun r => r st) rules.
  Definition inv_state_depth (d : N) (st : mcstate) : bool := N.ltb d (st_depth st).
  (* as coded: compares the LENGTH of the current-run trace with the limit (finding F11) *)
  Definition inv_state_depth_current_run (d : N) (st : mcstate) : bool :=
    N.ltb d (N.of_nat (length (current_run_trace st))).

  (* received_messages(node, proc, expected): data strings of the local outbox against a set of expected strings *)
  Fixpoint first_bad (expected : list str) (seen : list str) (l : list str) : bool :=
    match l with
    | [] => false
    | d :: r => if existsb (str_eqb d) seen then true               (* duplicated *)
                else if negb (existsb (str_eqb d) expected) then true  (* not expected *)
                else first_bad expected (d :: seen) r
    end.
  Definition inv_received_messages (node proc : N) (expected : list str) (st : mcstate) : option bool :=
    match proc_entry st node proc with
    | None => None
    | Some pe =>
      let got := map data (pe_outbox pe) in
      Some (if Nat.ltb (length expected) (length got) then true
            else if Nat.ltb (length got) (length expected) && events_empty st then true
            else first_bad expected [] got)
    end.

  (* ---------------- goals (true = reached) ---------------- *)
  Definition any_goal (gs : list (mcstate -> bool)) (st : mcstate) : bool := existsb (fun g => g st) gs.
  Definition all_goals (gs : list (mcstate -> bool)) (st : mcstate) : bool := forallb (fun g => g st) gs.
  Definition goal_got_n_local_messages (node proc : N) (n : nat) (st : mcstate) : option bool :=
    match proc_entry st node proc with
    | None => None
    | Some pe => Some (Nat.eqb (length (pe_outbox pe)) n)
    end.
  Definition goal_no_events (st : mcstate) : bool := events_empty st.
  Definition goal_depth_reached (d : N) (st : mcstate) : bool := N.leb d (st_depth st).
  Definition goal_always_ok (_ : mcstate) : bool := true.
  Definition goal_event_happened_n_times_current_run (p : logentry -> bool) (n : nat) (st : mcstate) : bool :=
    Nat.leb n (count p (current_run_trace st)).

  (* ---------------- prunes (true = pruned) ---------------- *)
  Definition any_prune (ps : list (mcstate -> bool)) (st : mcstate) : bool := existsb (fun p => p st) ps.
  Definition prune_state_depth (d : N) (st : mcstate) : bool := N.ltb d (st_depth st).
  Definition prune_sent_messages_limit (k : N) (st : mcstate) : bool :=
    existsb (fun nn => existsb (fun pp => N.ltb k (pe_sent (snd pp))) (ns_procs (snd nn))) (st_nodes st).
  Definition prune_event_happened_n_times_current_run (p : logentry -> bool) (n : nat) (st : mcstate) : bool :=
    Nat.leb n (count p (current_run_trace st)).
  Definition prune_events_limit (p : logentry -> bool) (limit : nat) (st : mcstate) : bool :=
    Nat.ltb limit (count p (st_trace st)).
  Definition prune_events_limit_per_proc (p : logentry -> N -> bool) (procs : list N) (limit : nat) (st : mcstate) : bool :=
    existsb (fun proc => Nat.ltb limit (count (fun e => p e proc) (st_trace st))) procs.

  (* proc_permutations: the process an entry "mentions": the SENDER of a received message, the owner of a timer *)
  Definition mention (e : logentry) : option N :=
    match e with
    | LMcMessageReceived _ src _ => Some src
    | LMcTimerFired proc _ => Some proc
    | _ => None
    end.
  Fixpoint perm_scan (procs : list N) (used : list N) (waiting : nat) (tr : list logentry) : bool :=
    match tr with
    | [] => false
    | e :: r =>
      match mention e with
      | None => perm_scan procs used waiting r
      | Some p =>
        if nmem p used || negb (nmem p procs) then perm_scan procs used waiting r
        else match nth_error procs waiting with
             | Some q => if N.eqb q p then perm_scan procs (p :: used) (S waiting) r else true
             | None => true      (* index out of range would panic; unreachable for duplicate-free lists *)
             end
      end
    end.
  Definition prune_proc_permutations (procs : list N) (st : mcstate) : bool :=
    perm_scan procs [] O (current_run_trace st).

  (* ---------------- collects ---------------- *)
  Definition collect_got_n_local_messages := goal_got_n_local_messages.
  Definition any_collect (cs : list (mcstate -> bool)) (st : mcstate) : bool := existsb (fun c => c st) cs.
  Definition all_collects (cs : list (mcstate -> bool)) (st : mcstate) : bool := forallb (fun c => c st) cs.
  Definition collect_event_happened_n_times_current_run := goal_event_happened_n_times_current_run.
  Definition collect_no_events (st : mcstate) : bool := events_empty st.
  Definition collect_state_depth (d : N) (st : mcstate) : bool := N.ltb d (st_depth st).
  Definition collect_events_limit := prune_events_limit.
End Predicates.
