(* Model of the search strategies: src/mc/strategy.rs (check_state, have_visited/mark_visited, statistics),
   src/mc/strategies/bfs.rs, src/mc/strategies/dfs.rs — over an abstract state graph.
   The MC instance (St := mcstate, expand := successors through McSystem) is in Model/McRun.v. *)
From ASV Require Import Base.Util.

Section Search.
  Variable St : Type.
  Variable veq : St -> St -> bool.              (* the checker's state equality (Eq / Hash of McState) *)
  Variable expand : St -> result (list St).     (* set_state + available_events + process_event for each *)
  Variable enabled_ok : St -> result unit.      (* available_events() as Dfs::dfs evaluates it before check_state *)
  Variable no_events : St -> result bool.       (* state.events.is_empty() *)
  (* user predicates; statuses and error messages are numbers *)
  Variable p_collect : St -> bool.
  Variable p_inv : St -> option N.
  Variable p_goal : St -> option N.
  Variable p_prune : St -> option N.
  Variable debug : bool.                        (* ExecutionMode::Debug *)

  Inductive vmode := VFull | VPartial | VDisabled.
  Variable vm : vmode.

  Definition dead_end_msg : N := 0.             (* "nothing left to do to reach the goal" *)

  Record sstate := {
    ss_visited : list St;                       (* Full: the states; Partial: their hashes (no collision assumed) *)
    ss_statuses : list (N * N);                 (* status -> count (Debug mode only) *)
    ss_collected : list St;                     (* HashSet<McState>: first inserted representative is kept *)
    ss_checked : list St }.                     (* ghost: the states handed to check_state, latest first *)

  Definition ss_empty : sstate := {| ss_visited := []; ss_statuses := []; ss_collected := []; ss_checked := [] |}.

  Definition mem (s : St) (l : list St) : bool := existsb (veq s) l.

  Definition have_visited (ss : sstate) (s : St) : bool :=
    match vm with VDisabled => false | _ => mem s (ss_visited ss) end.
  Definition mark_visited (ss : sstate) (s : St) : sstate :=
    match vm with
    | VDisabled => ss
    | _ => if mem s (ss_visited ss) then ss
           else {| ss_visited := s :: ss_visited ss; ss_statuses := ss_statuses ss; ss_collected := ss_collected ss;
                   ss_checked := ss_checked ss |}
    end.

  Definition bump (status : N) (l : list (N * N)) : list (N * N) :=
    match sget N.compare status l with
    | Some c => sins N.compare status (c + 1) l
    | None => sins N.compare status 1 l
    end.
  Definition on_final (ss : sstate) (status : N) : sstate :=
    if debug then {| ss_visited := ss_visited ss; ss_statuses := bump status (ss_statuses ss);
                     ss_collected := ss_collected ss; ss_checked := ss_checked ss |}
    else ss.

  Inductive verdict := VErr (msg : N) | VFinal | VGo.

  (* check_state: collect, invariant, goal, prune, dead end - in this order *)
  Definition check_state (ss : sstate) (s : St) : result (sstate * verdict) :=
    let ss1 := {| ss_visited := ss_visited ss; ss_statuses := ss_statuses ss;
                  ss_collected := if p_collect s then (if mem s (ss_collected ss) then ss_collected ss
                                                       else ss_collected ss ++ [s])
                                  else ss_collected ss;
                  ss_checked := s :: ss_checked ss |} in
    match p_inv s with
    | Some m => Ok (ss1, VErr m)
    | None =>
      match p_goal s with
      | Some st => Ok (on_final ss1 st, VFinal)
      | None =>
        match p_prune s with
        | Some st => Ok (on_final ss1 st, VFinal)
        | None => do e <- no_events s; if e then Ok (ss1, VErr dead_end_msg) else Ok (ss1, VGo)
        end
      end
    end.

  Inductive outcome :=
  | ODone (ss : sstate)
  | OErr (msg : N) (s : St) (ss : sstate)      (* McError { message, trace of s } *)
  | OFuel
  | OPanic (tag : N).

  (* search_step for each discovered successor: mark + enqueue unless visited *)
  Fixpoint add_new (succs : list St) (ss : sstate) (q : list St) : sstate * list St :=
    match succs with
    | [] => (ss, q)
    | x :: r => if have_visited ss x then add_new r ss q else add_new r (mark_visited ss x) (q ++ [x])
    end.

  Fixpoint bfs (fuel : nat) (q : list St) (ss : sstate) : outcome :=
    match fuel with
    | O => OFuel
    | S f =>
      match q with
      | [] => ODone ss
      | s :: q' =>
        match check_state ss s with
        | Panic t => OPanic t
        | Ok (ss1, VErr m) => OErr m s ss1
        | Ok (ss1, VFinal) => bfs f q' ss1
        | Ok (ss1, VGo) =>
          match expand s with
          | Panic t => OPanic t
          | Ok succs => let '(ss2, q2) := add_new succs ss1 q' in bfs f q2 ss2
          end
        end
      end
    end.

  Fixpoint dfs (fuel : nat) (s : St) (ss : sstate) : outcome :=
    match fuel with
    | O => OFuel
    | S f =>
      match enabled_ok s with
      | Panic t => OPanic t
      | Ok _ =>
        match check_state ss s with
        | Panic t => OPanic t
        | Ok (ss1, VErr m) => OErr m s ss1
        | Ok (ss1, VFinal) => ODone ss1
        | Ok (ss1, VGo) =>
          match expand s with
          | Panic t => OPanic t
          | Ok succs =>
            (fix go (l : list St) (ss : sstate) : outcome :=
               match l with
               | [] => ODone ss
               | x :: r =>
                 if have_visited ss x then go r ss
                 else match dfs f x (mark_visited ss x) with
                      | ODone ss' => go r ss'
                      | o => o
                      end
               end) succs ss1
          end
        end
      end
    end.

  Inductive strategy := Bfs | Dfs.
  (* Strategy::run from the (already marked) start state *)
  Definition run_strategy (st : strategy) (fuel : nat) (s0 : St) (ss : sstate) : outcome :=
    match st with
    | Bfs => bfs fuel [s0] ss
    | Dfs => dfs fuel s0 ss
    end.

  (* Strategy::reset (after fix F5): the statistics are per run; the visited cache is kept *)
  Definition reset (ss : sstate) : sstate :=
    {| ss_visited := ss_visited ss; ss_statuses := []; ss_collected := []; ss_checked := ss_checked ss |}.

  (* McStats::combine *)
  Definition combine_statuses (a b : list (N * N)) : list (N * N) :=
    fold_left (fun acc p => match sget N.compare (fst p) acc with
                            | Some c => sins N.compare (fst p) (c + snd p) acc
                            | None => sins N.compare (fst p) (snd p) acc
                            end) b a.
  Definition combine_collected (a b : list St) : list St :=
    fold_left (fun acc s => if mem s acc then acc else acc ++ [s]) b a.
End Search.
Arguments ODone {St} ss.
Arguments OErr {St} msg s ss.
Arguments OFuel {St}.
Arguments OPanic {St} tag.
