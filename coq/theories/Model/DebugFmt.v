(* The order of traces used to break depth ties between start states (fix F2 sorts by (depth, format!("{:?}", trace))).
   debug_entry renders the Mc* log entries exactly as #[derive(Debug)] does, for the harness's name scheme
   (processes p%03d, nodes n%03d, timers t%03d); simulation entries (which all start states of one checker share)
   are rendered by a tag only. *)
From ASV Require Import Base.Util Base.Msg Base.Log.
From Coq Require Import String Ascii.

Section DebugFmt.
  Context {T : Type}.

  Definition bytes_of_string (s : string) : list N := map (fun a => N_of_ascii a) (list_ascii_of_string s).
  Definition digit (n : N) : N := 48 + n mod 10.
  Definition name3 (prefix : N) (n : N) : list N :=
    [34; prefix; digit (n / 100); digit (n / 10); digit n; 34].      (* "p007" with the quotes *)
  Definition pn := name3 112.  (* p *)
  Definition nn := name3 110.  (* n *)
  Definition tn := name3 116.  (* t *)
  Definition dmsg (m : msg) : list N := tip m ++ [32] ++ data m.
  Definition B := bytes_of_string.

  Definition debug_entry (e : logentry T) : list N :=
    match e with
    | LMcStarted => B "McStarted"
    | LMcMessageSent m s d => B "McMessageSent { msg: " ++ dmsg m ++ B ", src: " ++ pn s ++ B ", dst: " ++ pn d ++ B " }"
    | LMcMessageReceived m s d =>
      B "McMessageReceived { msg: " ++ dmsg m ++ B ", src: " ++ pn s ++ B ", dst: " ++ pn d ++ B " }"
    | LMcLocalMessageSent m p => B "McLocalMessageSent { msg: " ++ dmsg m ++ B ", proc: " ++ pn p ++ B " }"
    | LMcLocalMessageReceived m p => B "McLocalMessageReceived { msg: " ++ dmsg m ++ B ", proc: " ++ pn p ++ B " }"
    | LMcMessageDropped m s d =>
      B "McMessageDropped { msg: " ++ dmsg m ++ B ", src: " ++ pn s ++ B ", dst: " ++ pn d ++ B " }"
    | LMcMessageDuplicated m s d =>
      B "McMessageDuplicated { msg: " ++ dmsg m ++ B ", src: " ++ pn s ++ B ", dst: " ++ pn d ++ B " }"
    | LMcMessageCorrupted m cm s d =>
      B "McMessageCorrupted { msg: " ++ dmsg m ++ B ", corrupted_msg: " ++ dmsg cm ++ B ", src: " ++ pn s
        ++ B ", dst: " ++ pn d ++ B " }"
    | LMcTimerSet p t => B "McTimerSet { proc: " ++ pn p ++ B ", timer: " ++ tn t ++ B " }"
    | LMcTimerFired p t => B "McTimerFired { proc: " ++ pn p ++ B ", timer: " ++ tn t ++ B " }"
    | LMcTimerCancelled p t => B "McTimerCancelled { proc: " ++ pn p ++ B ", timer: " ++ tn t ++ B " }"
    | LMcNodeCrashed n => B "McNodeCrashed { node: " ++ nn n ++ B " }"
    | _ => B "Sim"
    end.

  (* Debug of Vec<LogEntry>: "[" e1 ", " e2 ... "]" *)
  Fixpoint debug_trace_tail (l : list (logentry T)) : list N :=
    match l with
    | [] => [93]
    | e :: r => [44; 32] ++ debug_entry e ++ debug_trace_tail r
    end.
  Definition debug_trace (l : list (logentry T)) : list N :=
    match l with
    | [] => [91; 93]
    | e :: r => [91] ++ debug_entry e ++ debug_trace_tail r
    end.
  Definition tr_cmp (a b : list (logentry T)) : comparison := cmp_list N.compare (debug_trace a) (debug_trace b).
End DebugFmt.
