(* The executable instance of the simulator model: binary64 times as bit patterns (Flocq), Script processes,
   the draw stream supplied with the scenario. *)
From ASV Require Import Base.Util Base.Msg Base.Log Model.Store Spec.StoreSpec Model.McSys Model.Script Model.Sim Base.TimeF64
     Model.McInst Model.Snapshot.

Definition y_sys := @simsys N (pstate N).

Section SimInst.
  Variable progs : list (N * prog N).
  Variable stream : list N.                          (* the first draws of Pcg64::seed_from_u64(seed) *)
  Definition draws_of (i : nat) : N := nth i stream 0.
  Definition y_handler (proc : N) (st : pstate N) (inp : input) (t : N) (r : nat -> N) : pstate N * list (action N) * nat :=
    let p := match sget N.compare proc progs with Some p => p | None => inert end in
    let '(st', acts) := script_handler p st inp t r in
    (st', acts, pg_ndraws p).
  Definition y_op := sim_op f64_ops y_handler (fun _ => pstate0) draws_of (fun l => l).
  Definition y_sys0 : y_sys := sys0 f64_ops.
  Definition y_dump (s : y_sys) := q_dump f64_ops (y_q s).
End SimInst.

(* ModelChecker::new on the executable instances *)
Definition y_snapshot : y_sys -> result i_sys := snapshot f64_ops c_ops.
Definition y_snapshot_ref : y_sys -> result r_sys := snapshot f64_ops a_ops.
