(* The battery of library-predicate evaluations used by the correspondence check of C19: the same list of
   predicate instances is evaluated by the Rust harness with the real anysystem::mc::predicates on every state the
   model checker hands to the invariant. *)
From ASV Require Import Base.Util Base.Msg Base.Log Model.Store Model.McSys Model.Script Model.Predicates Model.McInst.

Definition is_recv (e : logentry N) : bool := match e with LMcMessageReceived _ _ _ => true | _ => false end.
Definition is_fired (e : logentry N) : bool := match e with LMcTimerFired _ _ => true | _ => false end.
Definition recv_by (e : logentry N) (p : N) : bool :=
  match e with LMcMessageReceived _ _ dst => N.eqb dst p | _ => false end.
Definition involves (e : logentry N) (p : N) : bool :=
  match e with LMcMessageReceived _ src dst => N.eqb dst p || N.eqb src p | _ => false end.

Section Battery.
  Variables n0 n1 : N.            (* the nodes of processes 0 and 1 *)
  Variables d0 d1 : str.          (* two payload data strings *)
  Notation st := i_state.
  Let ob (b : bool) : option bool := Some b.

  Definition pred_battery (s : st) : list (option bool) :=
    (* invariants: true = Err *)
    map (fun d => ob (inv_state_depth d s)) [0; 1; 2; 3; 5] ++
    map (fun d => ob (inv_state_depth_current_run d s)) [1; 2; 4; 8] ++
    [inv_received_messages c_ops n0 0 [] s; inv_received_messages c_ops n0 0 [d0] s;
     inv_received_messages c_ops n0 0 [d0; d1] s; inv_received_messages c_ops n1 1 [d1] s;
     inv_received_messages c_ops n1 0 [d0] s] ++                       (* wrong node: the code panics *)
    (* goals *)
    flat_map (fun n => [goal_got_n_local_messages n0 0 n s; goal_got_n_local_messages n1 1 n s]) [O; 1; 2]%nat ++
    [ob (goal_no_events c_ops s); ob (goal_always_ok s)] ++
    map (fun d => ob (goal_depth_reached d s)) [0; 2; 4] ++
    flat_map (fun n => [ob (goal_event_happened_n_times_current_run is_recv n s);
                        ob (goal_event_happened_n_times_current_run is_fired n s)]) [1; 2; 3]%nat ++
    (* prunes *)
    map (fun d => ob (prune_state_depth d s)) [0; 2; 4] ++
    map (fun k => ob (prune_sent_messages_limit k s)) [0; 1; 2] ++
    map (fun l => ob (prune_events_limit is_recv l s)) [O; 1; 3]%nat ++
    map (fun l => ob (prune_events_limit_per_proc recv_by [0; 1] l s)) [O; 1; 2]%nat ++
    map (fun l => ob (prune_events_limit_per_proc involves [0; 1] l s)) [1; 2]%nat ++
    map (fun l => ob (prune_events_limit_per_proc involves [1; 0] l s)) [1; 2]%nat ++
    [ob (prune_events_limit_per_proc involves [2; 1; 0] 1%nat s)] ++
    map (fun n => ob (prune_event_happened_n_times_current_run is_recv n s)) [1; 2]%nat ++
    [ob (prune_proc_permutations [0; 1] s); ob (prune_proc_permutations [1; 0] s);
     ob (prune_proc_permutations [0; 1; 2] s); ob (prune_proc_permutations [2; 0] s)] ++
    (* collects *)
    map (fun d => ob (collect_state_depth d s)) [0; 2] ++
    [ob (collect_no_events c_ops s); collect_got_n_local_messages n0 0 1%nat s;
     ob (collect_events_limit is_fired 0%nat s); ob (collect_event_happened_n_times_current_run is_fired 1%nat s)] ++
    (* combinators *)
    [ob (all_invariants [inv_state_depth 2; inv_state_depth_current_run 4] s);
     ob (any_goal [goal_no_events c_ops; goal_depth_reached 3] s);
     ob (all_goals [goal_no_events c_ops; goal_depth_reached 3] s);
     ob (any_prune [prune_state_depth 4; prune_sent_messages_limit 1] s);
     ob (any_collect [collect_state_depth 3; collect_no_events c_ops] s);
     ob (all_collects [collect_state_depth 1; collect_no_events c_ops] s);
     ob (default_invariant s); ob (default_goal s); ob (default_prune s); ob (default_collect s)].
End Battery.
