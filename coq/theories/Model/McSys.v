(* Model of the model-checking engine's system layer:
   src/mc/network.rs (McNetwork), src/mc/node.rs (McNode, ProcessEntryState, McNodeState),
   src/mc/system.rs (McSystem), src/mc/state.rs (McState).  Definitions only. *)
From ASV Require Import Base.Util Base.Msg Base.Log Model.Store.

(* The operations of the pending-event store the system layer uses. Two instances: the model of the code's
   PendingEvents (Model/Store.v, `concrete_ops`) and the one-list specification (Spec/StoreSpec.v, `abstract_ops`
   in Spec/RefSys.v). Everything below is written once against this interface. *)
Record store_ops {T : Type} (SE : Type) := {
  so_empty : SE;
  so_push : SE -> sevent T -> result (SE * id);
  so_push_fixed : SE -> sevent T -> id -> result SE;
  so_pop : SE -> id -> result (SE * sevent T);
  so_cancel_timer : SE -> N -> N -> result SE;
  so_cancel_proc : SE -> N -> result (SE * list (id * sevent T));
  so_offered : SE -> bool -> result (list id);
  so_get : SE -> id -> option (sevent T);
  so_is_empty : SE -> result bool;
  so_live : SE -> list (id * sevent T);
  so_eqb : (T -> T -> bool) -> SE -> SE -> bool }.
Arguments so_empty {T SE}.
Arguments so_push {T SE}.
Arguments so_push_fixed {T SE}.
Arguments so_pop {T SE}.
Arguments so_cancel_timer {T SE}.
Arguments so_cancel_proc {T SE}.
Arguments so_offered {T SE}.
Arguments so_get {T SE}.
Arguments so_is_empty {T SE}.
Arguments so_live {T SE}.
Arguments so_eqb {T SE}.

Section McSys.
  Context {T : Type}.
  Context {SE : Type} (so : @store_ops T SE).
  (* time algebra as far as the checker needs it *)
  Variable tgt0 : T -> bool.           (* rate > 0. *)
  Variable teq0 : T -> bool.           (* rate == 0. *)
  Variable t0 : T.                     (* 0.0 *)
  Variable clock : N -> T -> T.        (* depth, skew |-> depth as f64 / 10.0 + skew *)
  (* user processes *)
  Context {PS : Type}.
  Variable handler : N -> PS -> input -> T -> (nat -> T) -> PS * list (action T).
  (* ctx.rand() in model-checking mode: a Pcg64 seeded with the hash of the current state; uninterpreted *)
  Variable DS : Type.
  Variable mc_rand : DS -> nat -> T.

  Notation sevent := (sevent T).
  Notation logentry := (logentry T).
  Notation pentry := (pentry T PS).
  Notation action := (action T).

  (* ---------------- McNetwork ---------------- *)
  Record mcnet := {
    n_corrupt : T; n_dupl : T; n_drop : T;
    n_drop_in : list N; n_drop_out : list N;           (* HashSet<String>: kept sorted *)
    n_links : list (N * N);                             (* disabled links, sorted *)
    n_loc : list (N * N);                               (* proc -> node *)
    n_maxdelay : T }.

  Definition dupl_count : N := 2.

  Definition pair_eqb (a b : N * N) : bool := N.eqb (fst a) (fst b) && N.eqb (snd a) (snd b).
  Fixpoint pins (x : N * N) (l : list (N * N)) : list (N * N) :=
    match l with
    | [] => [x]
    | y :: r => match tkey_cmp x y with
                | Lt => x :: l
                | Eq => l
                | Gt => y :: pins x r
                end
    end.

  Inductive netop :=
  | NSetDrop (r : T) | NSetDupl (r : T) | NSetCorrupt (r : T)
  | NDropIncoming (n : N) | NDropOutgoing (n : N) | NDisconnect (n : N)
  | NDisableLink (a b : N) | NPartition (g1 g2 : list N) | NReset.

  Definition net_with_sets (n : mcnet) di do_ li :=
    {| n_corrupt := n_corrupt n; n_dupl := n_dupl n; n_drop := n_drop n; n_drop_in := di; n_drop_out := do_;
       n_links := li; n_loc := n_loc n; n_maxdelay := n_maxdelay n |}.
  Definition net_with_rates (n : mcnet) c d dr :=
    {| n_corrupt := c; n_dupl := d; n_drop := dr; n_drop_in := n_drop_in n; n_drop_out := n_drop_out n;
       n_links := n_links n; n_loc := n_loc n; n_maxdelay := n_maxdelay n |}.

  Definition net_apply (n : mcnet) (o : netop) : mcnet :=
    match o with
    | NSetDrop r => net_with_rates n (n_corrupt n) (n_dupl n) r
    | NSetDupl r => net_with_rates n (n_corrupt n) r (n_drop n)
    | NSetCorrupt r => net_with_rates n r (n_dupl n) (n_drop n)
    | NDropIncoming x => net_with_sets n (nins x (n_drop_in n)) (n_drop_out n) (n_links n)
    | NDropOutgoing x => net_with_sets n (n_drop_in n) (nins x (n_drop_out n)) (n_links n)
    | NDisconnect x => net_with_sets n (nins x (n_drop_in n)) (nins x (n_drop_out n)) (n_links n)
    | NDisableLink a b => net_with_sets n (n_drop_in n) (n_drop_out n) (pins (a, b) (n_links n))
    | NPartition g1 g2 =>
      net_with_sets n (n_drop_in n) (n_drop_out n)
        (fold_left (fun acc a => fold_left (fun acc b => pins (b, a) (pins (a, b) acc)) g2 acc) g1 (n_links n))
    | NReset => net_with_sets n [] [] []
    end.

  (* what send_message produces *)
  Inductive sent :=
  | SEvent (e : sevent)                      (* MessageReceived with its delivery options *)
  | SDropped (m : msg) (src dst : N).        (* MessageDropped { receive_event_id: None } *)

  Definition net_send (n : mcnet) (m : msg) (src dst : N) : result sent :=
    match sget N.compare src (n_loc n), sget N.compare dst (n_loc n) with
    | Some sn, Some dn =>
      if N.eqb sn dn then Ok (SEvent (EMsg m src dst (NoFailures (n_maxdelay n))))
      else if negb (nmem sn (n_drop_out n)) && negb (nmem dn (n_drop_in n))
              && negb (existsb (pair_eqb (sn, dn)) (n_links n))
      then Ok (SEvent (EMsg m src dst
                         (Possible (tgt0 (n_drop n)) (if teq0 (n_dupl n) then 0 else dupl_count)
                                   (tgt0 (n_corrupt n)))))
      else Ok (SDropped m src dst)
    | _, _ => Panic 40        (* proc_locations[proc] *)
    end.

  (* ---------------- McNode ---------------- *)
  Record mcnode := {
    nd_procs : list (N * pentry);      (* processes, by name *)
    nd_skew : T;
    nd_crashed : bool }.

  (* events a node hands to McSystem::add_events *)
  Inductive nevent :=
  | NEMsg (m : msg) (src dst : N)
  | NETimer (proc name : N) (delay : T)
  | NECancel (proc name : N).

  Definition pe_with (p : pentry) st ev ob pt se re : pentry :=
    {| pe_state := st; pe_evlog := ev; pe_outbox := ob; pe_ptimers := pt; pe_sent := se; pe_recv := re |}.

  (* one action of handle_process_actions on the process entry *)
  Definition node_action (proc : N) (time : T) (p : pentry) (a : action)
    : pentry * list nevent * list logentry :=
    let ev := pe_evlog p ++ [(time, action_event proc a)] in
    match a with
    | ASend m dst =>
      (pe_with p (pe_state p) ev (pe_outbox p) (pe_ptimers p) (pe_sent p + 1) (pe_recv p),
       [NEMsg m proc dst], [LMcMessageSent m proc dst])
    | ALocal m =>
      (pe_with p (pe_state p) ev (pe_outbox p ++ [m]) (pe_ptimers p) (pe_sent p) (pe_recv p),
       [], [LMcLocalMessageSent m proc])
    | ATimerSet name delay once =>
      if negb once || negb (shas N.compare name (pe_ptimers p)) then
        (pe_with p (pe_state p) ev (pe_outbox p) (sins N.compare name 0 (pe_ptimers p)) (pe_sent p) (pe_recv p),
         [NETimer proc name delay], [LMcTimerSet proc name])
      else (pe_with p (pe_state p) ev (pe_outbox p) (pe_ptimers p) (pe_sent p) (pe_recv p), [], [])
    | ATimerCancel name =>
      if shas N.compare name (pe_ptimers p) then
        (pe_with p (pe_state p) ev (pe_outbox p) (srem N.compare name (pe_ptimers p)) (pe_sent p) (pe_recv p),
         [NECancel proc name], [LMcTimerCancelled proc name])
      else (pe_with p (pe_state p) ev (pe_outbox p) (pe_ptimers p) (pe_sent p) (pe_recv p), [], [])
    end.

  Fixpoint node_actions (proc : N) (time : T) (p : pentry) (acts : list action)
    : pentry * list nevent * list logentry :=
    match acts with
    | [] => (p, [], [])
    | a :: r =>
      let '(p1, e1, l1) := node_action proc time p a in
      let '(p2, e2, l2) := node_actions proc time p1 r in
      (p2, e1 ++ e2, l1 ++ l2)
    end.

  Definition nd_with_procs (nd : mcnode) ps := {| nd_procs := ps; nd_skew := nd_skew nd; nd_crashed := nd_crashed nd |}.

  Inductive hkind := HMsg (m : msg) (from : N) | HTimer (name : N) | HLocal (m : msg).

  (* on_message_received / on_timer_fired / on_local_message_received *)
  Definition node_handle (nd : mcnode) (proc : N) (k : hkind) (depth : N) (ds : DS)
    : result (mcnode * list nevent * list logentry) :=
    if nd_crashed nd then Panic 41 else
    match sget N.compare proc (nd_procs nd) with
    | None => Panic 42
    | Some p =>
      let time := clock depth (nd_skew nd) in
      let p1 :=
        match k with
        | HMsg m from =>
          pe_with p (pe_state p) (pe_evlog p ++ [(t0, PMessageReceived m from proc)]) (pe_outbox p) (pe_ptimers p)
                  (pe_sent p) (pe_recv p + 1)
        | HTimer name =>
          pe_with p (pe_state p) (pe_evlog p) (pe_outbox p) (srem N.compare name (pe_ptimers p)) (pe_sent p) (pe_recv p)
        | HLocal _ => p
        end in
      let inp := match k with HMsg m from => InMsg m from | HTimer name => InTimer name | HLocal m => InLocal m end in
      let '(st', acts) := handler proc (pe_state p1) inp time (mc_rand ds) in
      let p2 := pe_with p1 st' (pe_evlog p1) (pe_outbox p1) (pe_ptimers p1) (pe_sent p1) (pe_recv p1) in
      (* the time stamp of the actions in the event log: 0.0, except for local messages: the event time *)
      let atime := match k with HLocal _ => clock depth t0 | _ => t0 end in
      let '(p3, evs, logs) := node_actions proc atime p2 acts in
      Ok (nd_with_procs nd (sins N.compare proc p3 (nd_procs nd)), evs, logs)
    end.

  (* ---------------- McState ---------------- *)
  Record mcnodestate := { ns_procs : list (N * pentry); ns_crashed : bool }.
  Record mcstate := {
    st_nodes : list (N * mcnodestate);
    st_net : mcnet;
    st_events : SE;
    st_depth : N;
    st_trace : list logentry }.

  (* ---------------- McSystem ---------------- *)
  Record mcsys := {
    s_nodes : list (N * mcnode);
    s_net : mcnet;
    s_events : SE;
    s_depth : N;
    s_mf : bool;                        (* event_ordering_mode = MessagesFirst *)
    s_trace : list logentry }.

  Definition sys_with (s : mcsys) nodes net events depth trace :=
    {| s_nodes := nodes; s_net := net; s_events := events; s_depth := depth; s_mf := s_mf s; s_trace := trace |}.

  Definition node_get_state (nd : mcnode) : mcnodestate := {| ns_procs := nd_procs nd; ns_crashed := nd_crashed nd |}.
  Definition get_state (s : mcsys) : mcstate :=
    {| st_nodes := map (fun p => (fst p, node_get_state (snd p))) (s_nodes s);
       st_net := s_net s; st_events := s_events s; st_depth := s_depth s; st_trace := s_trace s |}.

  (* ProcessEntry::set_state: every saved field is written back *)
  Definition proc_set_state (_old : pentry) (st : pentry) : pentry :=
    pe_with st (pe_state st) (pe_evlog st) (pe_outbox st) (pe_ptimers st) (pe_sent st) (pe_recv st).
  Fixpoint procs_set_state (ps : list (N * pentry)) (sts : list (N * pentry)) : result (list (N * pentry)) :=
    match sts with
    | [] => Ok ps
    | (name, st) :: r =>
      match sget N.compare name ps with
      | None => Panic 43
      | Some old => procs_set_state (sins N.compare name (proc_set_state old st) ps) r
      end
    end.
  Definition node_set_state (nd : mcnode) (ns : mcnodestate) : result mcnode :=
    do ps <- procs_set_state (nd_procs nd) (ns_procs ns);
    Ok {| nd_procs := ps; nd_skew := nd_skew nd; nd_crashed := ns_crashed ns |}.
  Fixpoint nodes_set_state (nodes : list (N * mcnode)) (sts : list (N * mcnodestate)) : result (list (N * mcnode)) :=
    match sts with
    | [] => Ok nodes
    | (name, ns) :: r =>
      match sget N.compare name nodes with
      | None => Panic 44
      | Some nd => do nd' <- node_set_state nd ns; nodes_set_state (sins N.compare name nd' nodes) r
      end
    end.
  Definition set_state (s : mcsys) (st : mcstate) : result mcsys :=
    do nodes <- nodes_set_state (s_nodes s) (st_nodes st);
    Ok (sys_with s nodes (st_net st) (st_events st) (st_depth st) (st_trace st)).

  Definition sevent_log (e : sevent) : logentry :=
    match e with
    | EMsg m src dst _ => LMcMessageReceived m src dst
    | ETimer p n _ => LMcTimerFired p n
    end.

  (* the projection of the state that DefaultHasher sees; handed to mc_rand *)
  Variable ds_of : mcstate -> DS.

  (* add_events *)
  Fixpoint add_events (s : mcsys) (evs : list nevent) : result mcsys :=
    match evs with
    | [] => Ok s
    | e :: r =>
      do s1 <-
        match e with
        | NEMsg m src dst =>
          do x <- net_send (s_net s) m src dst;
          match x with
          | SEvent ev => do (st, _) <- so_push so (s_events s) ev;
                         Ok (sys_with s (s_nodes s) (s_net s) st (s_depth s) (s_trace s))
          | SDropped m' src' dst' =>
            Ok (sys_with s (s_nodes s) (s_net s) (s_events s) (s_depth s) (s_trace s ++ [LMcMessageDropped m' src' dst']))
          end
        | NETimer p n d =>
          do (st, _) <- so_push so (s_events s) (ETimer p n d);
          Ok (sys_with s (s_nodes s) (s_net s) st (s_depth s) (s_trace s))
        | NECancel p n =>
          do st <- so_cancel_timer so (s_events s) p n;
          Ok (sys_with s (s_nodes s) (s_net s) st (s_depth s) (s_trace s))
        end;
      add_events s1 r
    end.

  Definition deliver (s : mcsys) (proc : N) (k : hkind) : result mcsys :=
    match sget N.compare proc (n_loc (s_net s)) with
    | None => Panic 40
    | Some nname =>
      match sget N.compare nname (s_nodes s) with
      | None => Panic 45
      | Some nd =>
        do (nd', evs, logs) <- node_handle nd proc k (s_depth s) (ds_of (get_state s));
        add_events (sys_with s (sins N.compare nname nd' (s_nodes s)) (s_net s) (s_events s) (s_depth s)
                             (s_trace s ++ logs)) evs
      end
    end.

  (* what McSystem::apply_event is called with *)
  Inductive applied :=
  | ApEvent (e : sevent)
  | ApDropped (m : msg) (src dst : N)
  | ApDuplicated (m : msg) (src dst : N)
  | ApCorrupted (m cm : msg) (src dst : N).

  Definition applied_log (a : applied) : logentry :=
    match a with
    | ApEvent e => sevent_log e
    | ApDropped m s d => LMcMessageDropped m s d
    | ApDuplicated m s d => LMcMessageDuplicated m s d
    | ApCorrupted m cm s d => LMcMessageCorrupted m cm s d
    end.

  Definition apply_event (s : mcsys) (a : applied) : result mcsys :=
    let s1 := sys_with s (s_nodes s) (s_net s) (s_events s) (s_depth s + 1) (s_trace s ++ [applied_log a]) in
    match a with
    | ApEvent (EMsg m src dst _) => deliver s1 dst (HMsg m src)
    | ApEvent (ETimer p n _) => deliver s1 p (HTimer n)
    | _ => Ok s1
    end.

  (* send_local_message(node, proc, msg): no depth increment *)
  Definition send_local (s : mcsys) (node proc : N) (m : msg) : result mcsys :=
    let s1 := sys_with s (s_nodes s) (s_net s) (s_events s) (s_depth s) (s_trace s ++ [LMcLocalMessageReceived m proc]) in
    match sget N.compare node (s_nodes s1) with
    | None => Panic 45
    | Some nd =>
      (* the state hash is taken before the trace entry is pushed; the trace is not hashed *)
      do (nd', evs, logs) <- node_handle nd proc (HLocal m) (s_depth s) (ds_of (get_state s));
      add_events (sys_with s1 (sins N.compare node nd' (s_nodes s1)) (s_net s1) (s_events s1) (s_depth s1)
                           (s_trace s1 ++ logs)) evs
    end.

  (* crash_node: processes in sorted name order (fix F1) *)
  Fixpoint crash_procs (st : SE) (procs : list N) (tr : list logentry) : result (SE * list logentry) :=
    match procs with
    | [] => Ok (st, tr)
    | p :: r =>
      do (st', dropped) <- so_cancel_proc so st p;
      crash_procs st' r
        (tr ++ map (fun ie => match snd ie with
                              | EMsg m src dst _ => LMcMessageDropped m src dst
                              | ETimer pr n _ => LMcTimerFired pr n   (* unreachable: cancel_proc returns messages *)
                              end) dropped)
    end.
  Definition crash_node (s : mcsys) (node : N) : result mcsys :=
    let tr := s_trace s ++ [LMcNodeCrashed node] in
    let net := net_apply (s_net s) (NDisconnect node) in
    match sget N.compare node (s_nodes s) with
    | None => Panic 45
    | Some nd =>
      do (st, tr') <- crash_procs (s_events s) (map fst (nd_procs nd)) tr;
      let nd' := {| nd_procs := nd_procs nd; nd_skew := nd_skew nd; nd_crashed := true |} in
      Ok (sys_with s (sins N.compare node nd' (s_nodes s)) net st (s_depth s) tr')
    end.

  Definition available (s : mcsys) : result (list id) := so_offered so (s_events s) (s_mf s).

  (* preliminary callback operations *)
  Inductive cbop :=
  | CbLocal (node proc : N) (m : msg)
  | CbCrash (node : N)
  | CbMode (messages_first : bool)
  | CbNet (o : netop).

  Definition cb_apply (s : mcsys) (o : cbop) : result mcsys :=
    match o with
    | CbLocal node proc m => send_local s node proc m
    | CbCrash node => crash_node s node
    | CbMode mf => Ok {| s_nodes := s_nodes s; s_net := s_net s; s_events := s_events s; s_depth := s_depth s;
                         s_mf := mf; s_trace := s_trace s |}
    | CbNet o' => Ok (sys_with s (s_nodes s) (net_apply (s_net s) o') (s_events s) (s_depth s) (s_trace s))
    end.
  Fixpoint cb_run (s : mcsys) (ops : list cbop) : result mcsys :=
    match ops with
    | [] => Ok s
    | o :: r => do s' <- cb_apply s o; cb_run s' r
    end.

  (* ---------------- the strategy's transition function (src/mc/strategy.rs) ---------------- *)
  Inductive choice :=
  | ChDeliver (i : id)         (* EventOrId::Id: normal delivery / timer firing *)
  | ChDrop (i : id)
  | ChCorrupt (i : id)
  | ChDup (i : id).

  (* process_event: the alternatives for one offered id, in the order the code tries them *)
  Definition alternatives (s : mcsys) (i : id) : result (list choice) :=
    match so_get so (s_events s) i with
    | None => Panic 50
    | Some (EMsg _ _ _ (Possible can_drop dupl can_corrupt)) =>
      Ok ([ChDeliver i] ++ (if can_drop then [ChDrop i] else []) ++ (if can_corrupt then [ChCorrupt i] else [])
          ++ (if N.ltb 0 dupl then [ChDup i] else []))
    | Some _ => Ok [ChDeliver i]
    end.

  Definition with_events (s : mcsys) (st : SE) := sys_with s (s_nodes s) (s_net s) st (s_depth s) (s_trace s).

  (* search_step without the save/restore: the system after taking the choice *)
  Definition take_choice (s : mcsys) (c : choice) : result mcsys :=
    match c with
    | ChDeliver i =>
      do (st, e) <- so_pop so (s_events s) i;
      apply_event (with_events s st) (ApEvent e)
    | ChDrop i =>
      do (st, e) <- so_pop so (s_events s) i;
      match e with
      | EMsg m src dst _ => apply_event (with_events s st) (ApDropped m src dst)
      | _ => Panic 51
      end
    | ChCorrupt i =>
      do (st, e) <- so_pop so (s_events s) i;
      match e with
      | EMsg m src dst o =>
        let o' := match o with Possible d k _ => Possible d k false | x => x end in
        do st' <- so_push_fixed so st (EMsg (corrupt_msg m) src dst o') i;
        apply_event (with_events s st') (ApCorrupted m (corrupt_msg m) src dst)
      | _ => Panic 52
      end
    | ChDup i =>
      do (st, e) <- so_pop so (s_events s) i;
      match e with
      | EMsg m src dst (Possible d k c) =>
        (* duplicate_event: the copy with max_dupl_count - 1 goes back under the same id (u32 underflow = panic),
           the original with max_dupl_count 0 is pushed as a new event *)
        if N.eqb k 0 then Panic 53 else
        do st1 <- so_push_fixed so st (EMsg m src dst (Possible d (N.pred k) c)) i;
        do (st2, _) <- so_push so st1 (EMsg m src dst (Possible d 0 c));
        apply_event (with_events s st2) (ApDuplicated m src dst)
      | _ => Panic 54
      end
    end.

  (* search_step: save, take the choice, read the new state, restore *)
  Definition search_step (s : mcsys) (c : choice) : result (mcsys * mcstate) :=
    let saved := get_state s in
    do s' <- take_choice s c;
    let new_state := get_state s' in
    do s'' <- set_state s' saved;
    Ok (s'', new_state).

  Fixpoint steps_of (s : mcsys) (cs : list choice) : result (mcsys * list mcstate) :=
    match cs with
    | [] => Ok (s, [])
    | c :: r =>
      do (s1, st) <- search_step s c;
      do (s2, sts) <- steps_of s1 r;
      Ok (s2, st :: sts)
    end.

  Definition all_choices (s : mcsys) : result (list choice) :=
    do ids <- available s;
    (fix go (l : list id) : result (list choice) :=
       match l with
       | [] => Ok []
       | i :: r => do a <- alternatives s i; do b <- go r; Ok (a ++ b)
       end) ids.

  (* all successor states of the system's current state, in the order the code discovers them *)
  Definition expand_sys (s : mcsys) : result (mcsys * list mcstate) :=
    do cs <- all_choices s;
    steps_of s cs.
End McSys.

(* the model of the code's store as an instance of the interface *)
Section Concrete.
  Context {T : Type} (tleb : T -> T -> bool).
  Definition concrete_ops (store_eqb : (T -> T -> bool) -> store T -> store T -> bool) : @store_ops T (store T) :=
    {| so_empty := empty;
       so_push := push tleb; so_push_fixed := push_fixed tleb; so_pop := pop; so_cancel_timer := cancel_timer;
       so_cancel_proc := cancel_proc; so_offered := offered; so_get := fun s i => sget N.compare i (evs s);
       so_is_empty := is_empty; so_live := @evs T; so_eqb := store_eqb |}.
End Concrete.
