(* Model of src/mc/model_checker.rs: run_impl, run / run_with_change, run_from_states_with_change,
   instantiating the generic search of Model/Search.v with the McSystem transition function. *)
From ASV Require Import Base.Util Base.Msg Base.Log Model.Store Model.McSys Model.Search.

Definition pairN_eqb {A} (e : A -> A -> bool) (x y : N * A) : bool := N.eqb (fst x) (fst y) && e (snd x) (snd y).

Section StoreEq.
  Context {T : Type}.
  Variable teqb : T -> T -> bool.
  (* ---------------- the checker's state equality: McState::eq = events == && node_states == ---------------- *)
  Definition dopts_eqb (a b : dopts T) : bool :=
    match a, b with
    | NoFailures x, NoFailures y => teqb x y
    | Possible d1 k1 c1, Possible d2 k2 c2 => Bool.eqb d1 d2 && N.eqb k1 k2 && Bool.eqb c1 c2
    | _, _ => false
    end.
  Definition sevent_eqb (a b : sevent T) : bool :=
    match a, b with
    | EMsg m1 s1 d1 o1, EMsg m2 s2 d2 o2 => msg_eqb m1 m2 && N.eqb s1 s2 && N.eqb d1 d2 && dopts_eqb o1 o2
    | ETimer p1 n1 d1, ETimer p2 n2 d2 => N.eqb p1 p2 && N.eqb n1 n2 && teqb d1 d2
    | _, _ => false
    end.
  Definition tinfo_eqb (a b : tinfo T) : bool :=
    N.eqb (ti_proc a) (ti_proc b) && teqb (ti_delay a) (ti_delay b) && list_eqb N.eqb (ti_blockers a) (ti_blockers b).
  (* derived Eq on PendingEvents: all five fields, including the resolver's indexes *)
  Definition store_eqb (a b : store T) : bool :=
    list_eqb (pairN_eqb sevent_eqb) (evs a) (evs b)
    && list_eqb (fun x y => pair_eqb (fst x) (fst y) && N.eqb (snd x) (snd y)) (tmap a) (tmap b)
    && list_eqb N.eqb (avail a) (avail b)
    && list_eqb (pairN_eqb tinfo_eqb) (r_timers a) (r_timers b)
    && list_eqb (fun x y => is_eq (mkey_cmp (fst x) (fst y)) && list_eqb N.eqb (snd x) (snd y)) (r_msgs a) (r_msgs b)
    && list_eqb (pairN_eqb (list_eqb N.eqb)) (r_ptimers a) (r_ptimers b)
    && N.eqb (next a) (next b).
End StoreEq.

Section McRun.
  Context {T : Type}.
  Context {SE : Type} (so : @store_ops T SE).
  Variable teqb : T -> T -> bool.      (* equality of time values (OrderedFloat Eq) *)
  Variable tgt0 : T -> bool.
  Variable teq0 : T -> bool.
  Variable t0 : T.
  Variable clock : N -> T -> T.
  Context {PS : Type}.
  Variable ps_eqb : PS -> PS -> bool.  (* eq_with_dyn *)
  Variable handler : N -> PS -> input -> T -> (nat -> T) -> PS * list (action T).
  Variable DS : Type.
  Variable mc_rand : DS -> nat -> T.
  Variable ds_of : @mcstate T SE PS -> DS.

  Notation mcsys := (@mcsys T SE PS).
  Notation mcstate := (@mcstate T SE PS).
  Notation logentry := (logentry T).

  (* hand-written Eq on ProcessEntryState: process state and local outbox only *)
  Definition pentry_eqb (a b : pentry T PS) : bool :=
    ps_eqb (pe_state a) (pe_state b) && list_eqb msg_eqb (pe_outbox a) (pe_outbox b).
  Definition nodestate_eqb (a b : @mcnodestate T PS) : bool :=
    list_eqb (pairN_eqb pentry_eqb) (ns_procs a) (ns_procs b) && Bool.eqb (ns_crashed a) (ns_crashed b).
  Definition mcstate_eqb (a b : mcstate) : bool :=
    so_eqb so teqb (st_events a) (st_events b) && list_eqb (pairN_eqb nodestate_eqb) (st_nodes a) (st_nodes b).

  (* ---------------- the graph the strategies walk ---------------- *)
  (* sys0 supplies what McState does not carry: clock skews and the ordering mode *)
  Definition mc_expand (sys0 : mcsys) (st : mcstate) : result (list mcstate) :=
    do s1 <- set_state sys0 st;
    do (_, l) <- expand_sys so tgt0 teq0 t0 clock handler DS mc_rand ds_of s1;
    Ok l.
  Definition mc_enabled_ok (sys0 : mcsys) (st : mcstate) : result unit :=
    do _ <- so_offered so (st_events st) (s_mf sys0); Ok tt.
  Definition mc_no_events (st : mcstate) : result bool := so_is_empty so (st_events st).

  Record preds := {
    pr_collect : mcstate -> bool;
    pr_inv : mcstate -> option N;
    pr_goal : mcstate -> option N;
    pr_prune : mcstate -> option N }.

  Record config := { cf_strategy : strategy; cf_vm : vmode; cf_debug : bool; cf_fuel : nat }.

  Inductive mcresult :=
  | ROk (statuses : list (N * N)) (collected : list mcstate)
  | RErr (msg : N) (trace : list logentry)
  | RFuel
  | RPanic (tag : N).

  (* run_impl: returns the rolled-back system, the result, and the strategy state (visited cache, ghost log) *)
  Definition run_impl (cf : config) (pr : preds) (sys : mcsys) (cb : list (@cbop T)) (ss : sstate mcstate)
    : result (mcsys * mcresult * sstate mcstate) :=
    let initial_state := get_state sys in
    let initial_mode := s_mf sys in
    let s1 := {| s_nodes := s_nodes sys; s_net := s_net sys; s_events := s_events sys; s_depth := s_depth sys;
                 s_mf := s_mf sys; s_trace := s_trace sys ++ [LMcStarted] |} in
    do s2 <- cb_run so tgt0 teq0 t0 clock handler DS mc_rand ds_of s1 cb;
    let start := get_state s2 in
    let ss1 := mark_visited mcstate mcstate_eqb (cf_vm cf) ss start in
    let out := run_strategy mcstate mcstate_eqb (mc_expand s2) (mc_enabled_ok s2) mc_no_events
                 (pr_collect pr) (pr_inv pr) (pr_goal pr) (pr_prune pr) (cf_debug cf) (cf_vm cf)
                 (cf_strategy cf) (cf_fuel cf) start ss1 in
    (* McSystem is rolled back to the state before the run (set_state + ordering mode, fix F7) *)
    do s3 <- set_state s2 initial_state;
    let s4 := {| s_nodes := s_nodes s3; s_net := s_net s3; s_events := s_events s3; s_depth := s_depth s3;
                 s_mf := initial_mode; s_trace := s_trace s3 |} in
    match out with
    | ODone ss' => Ok (s4, ROk (ss_statuses _ ss') (ss_collected _ ss'), reset mcstate ss')
    | OErr m st ss' => Ok (s4, RErr m (st_trace st), reset mcstate ss')
    | OFuel => Ok (s4, RFuel, ss1)
    | OPanic t => Ok (s4, RPanic t, ss1)
    end.

  (* run / run_with_change: a fresh strategy *)
  Definition run (cf : config) (pr : preds) (sys : mcsys) (cb : list (@cbop T)) : result (mcsys * mcresult * sstate mcstate) :=
    run_impl cf pr sys cb (ss_empty mcstate).

  (* run_from_states_with_change.  ord = the iteration order of the HashSet of start states (any permutation);
     tr_cmp = the order of the Debug rendering of traces, used to break depth ties (fix F2). *)
  Variable tr_cmp : list logentry -> list logentry -> comparison.
  (* PendingEvents::ids(): the keys of the BTreeMap of pending events, increasing (fix F16: remaining ties - two
     states with the same depth and trace that differ in which of two same-named timer events was fired - are
     broken by the ids of the pending events) *)
  Fixpoint ninsert (x : N) (l : list N) : list N :=
    match l with
    | [] => [x]
    | y :: r => if N.leb x y then x :: l else y :: ninsert x r
    end.
  Definition nsort (l : list N) : list N := fold_right ninsert [] l.
  Definition pending_ids (st : mcstate) : list N := nsort (map fst (so_live so (st_events st))).
  Definition start_key (st : mcstate) : list logentry * list N := (st_trace st, pending_ids st).
  Definition start_cmp (a b : mcstate) : comparison :=
    match N.compare (st_depth a) (st_depth b) with
    | Eq => cmp_pair tr_cmp (cmp_list N.compare) (start_key a) (start_key b)
    | c => c
    end.
  (* stable insertion sort: later elements go after equal earlier ones *)
  Fixpoint insert_stable (x : mcstate) (l : list mcstate) : list mcstate :=
    match l with
    | [] => [x]
    | y :: r => match start_cmp x y with
                | Lt => x :: l
                | _ => y :: insert_stable x r
                end
    end.
  Definition sort_starts (l : list mcstate) : list mcstate := fold_left (fun acc x => insert_stable x acc) l [].

  Fixpoint run_starts (cf : config) (pr : preds) (sys : mcsys) (cb : list (@cbop T)) (starts : list mcstate)
           (ss : sstate mcstate) (stat : list (N * N)) (coll : list mcstate)
    : result (mcsys * mcresult * sstate mcstate) :=
    match starts with
    | [] => Ok (sys, ROk stat coll, ss)
    | st :: r =>
      do s1 <- set_state sys st;
      do (s2, res, ss') <- run_impl cf pr s1 cb ss;
      match res with
      | ROk stat' coll' =>
        run_starts cf pr s2 cb r ss' (combine_statuses stat stat') (combine_collected mcstate mcstate_eqb coll coll')
      | other => Ok (s2, other, ss')
      end
    end.

  Definition run_from_states (ord : list mcstate -> list mcstate) (cf : config) (pr : preds) (sys : mcsys)
             (cb : list (@cbop T)) (starts : list mcstate) : result (mcsys * mcresult * sstate mcstate) :=
    let initial_state := get_state sys in
    do (s1, res, ss) <- run_starts cf pr sys cb (sort_starts (ord starts)) (ss_empty mcstate) [] [];
    (* rolled back to the initial state, on Ok and on Err (fix F6) *)
    do s2 <- set_state s1 initial_state;
    Ok (s2, res, ss).
End McRun.
