(* The table-driven process used by the correspondence harness (DESIGN Appendix A.1): an instance of the
   abstract `handler`. Implemented a second time in Rust (harness/src/script_proc.rs) and in Python (C18). *)
From ASV Require Import Base.Util Base.Msg Base.Log.

Section Script.
  Context {T : Type}.
  Variable teqb : T -> T -> bool.

  Record prog := {
    pg_cap : N;                          (* number of invocations that may act *)
    pg_rows : list (list (action T));    (* non-empty *)
    pg_rectime : bool;                   (* record ctx.time() in the history *)
    pg_ndraws : nat;                     (* ctx.rand() calls per invocation *)
    pg_stateless : bool }.               (* the process never changes its state (no history, no counter): it
                                            always acts, choosing the row by the input alone *)

  Record hentry := { he_key : list N; he_time : option T; he_draws : list T }.
  Record pstate := { ps_idx : N; ps_hist : list hentry }.
  Definition pstate0 : pstate := {| ps_idx := 0; ps_hist := [] |}.

  Definition key_sep : N := 256.
  Definition input_key (i : input) : list N :=
    match i with
    | InMsg m from => [1; from] ++ tip m ++ [key_sep] ++ data m
    | InLocal m => [2] ++ tip m ++ [key_sep] ++ data m
    | InTimer name => [3; name]
    end.

  Definition two32 : N := 4294967296.
  Definition row_hash (idx : N) (key : list N) : N :=
    fold_left (fun h c => (h * 131 + c) mod two32) key ((idx * 31) mod two32).

  Definition script_handler (p : prog) (st : pstate) (i : input) (time : T) (rand : nat -> T)
    : pstate * list (action T) :=
    let key := input_key i in
    let draws := map rand (seq 0 (pg_ndraws p)) in
    let entry := {| he_key := key; he_time := if pg_rectime p then Some time else None; he_draws := draws |} in
    let hist := ps_hist st ++ [entry] in
    if pg_stateless p then
      let h := row_hash 0 key in
      let nrows := N.of_nat (length (pg_rows p)) in
      (st, nth (N.to_nat (h mod nrows)) (pg_rows p) [])
    else
    if N.ltb (ps_idx st) (pg_cap p) then
      let h := row_hash (ps_idx st) key in
      let nrows := N.of_nat (length (pg_rows p)) in
      let row := nth (N.to_nat (h mod nrows)) (pg_rows p) [] in
      ({| ps_idx := ps_idx st + 1; ps_hist := hist |}, row)
    else ({| ps_idx := ps_idx st; ps_hist := hist |}, []).

  Definition hentry_eqb (a b : hentry) : bool :=
    list_eqb N.eqb (he_key a) (he_key b) && opt_eqb teqb (he_time a) (he_time b)
    && list_eqb teqb (he_draws a) (he_draws b).
  Definition pstate_eqb (a b : pstate) : bool :=
    N.eqb (ps_idx a) (ps_idx b) && list_eqb hentry_eqb (ps_hist a) (ps_hist b).

  (* a system's programs, by process name; unknown names get the inert program *)
  Definition inert : prog := {| pg_cap := 0; pg_rows := [[]]; pg_rectime := false; pg_ndraws := O; pg_stateless := false |}.
  Definition progs_handler (progs : list (N * prog)) (proc : N) : pstate -> input -> T -> (nat -> T) -> pstate * list (action T) :=
    script_handler (match sget N.compare proc progs with Some p => p | None => inert end).
End Script.
Arguments prog T : clear implicits.
Arguments hentry T : clear implicits.
Arguments pstate T : clear implicits.
Arguments pstate0 {T}.
