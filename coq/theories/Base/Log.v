(* Log entries (src/logger.rs LogEntry), process events (src/node.rs ProcessEvent), process API.
   T is the type of time values. Names (nodes, processes, timers) are numbers. *)
From ASV Require Import Base.Util Base.Msg.

Section Log.
  Context {T : Type}.

  Inductive logentry :=
  (* simulation *)
  | LNodeStarted (t : T) (node node_id : N)
  | LProcessStarted (t : T) (node proc : N)
  | LLocalMessageSent (t : T) (node proc cnt : N) (m : msg)        (* msg_id = node-proc-cnt *)
  | LLocalMessageReceived (t : T) (node proc cnt : N) (m : msg)
  | LMessageSent (t : T) (msg_id src_node src_proc dst_node dst_proc : N) (m : msg)
  | LMessageReceived (t : T) (msg_id src_node src_proc dst_node dst_proc : N) (m : msg)
  | LMessageDropped (t : T) (msg_id src_node src_proc dst_node dst_proc : N) (m : msg)
  | LNodeDisconnected (t : T) (node : N)
  | LNodeConnected (t : T) (node : N)
  | LNodeCrashed (t : T) (node : N)
  | LNodeRecovered (t : T) (node : N)
  | LTimerSet (t : T) (timer_id timer_name node proc : N) (delay : T)
  | LTimerFired (t : T) (timer_id timer_name node proc : N)
  | LTimerCancelled (t : T) (timer_id timer_name node proc : N)
  | LLinkDisabled (t : T) (from to : N)
  | LLinkEnabled (t : T) (from to : N)
  | LDropIncoming (t : T) (node : N)
  | LPassIncoming (t : T) (node : N)
  | LDropOutgoing (t : T) (node : N)
  | LPassOutgoing (t : T) (node : N)
  | LNetworkPartition (t : T) (g1 g2 : list N)
  | LNetworkReset (t : T)
  (* model checking *)
  | LMcStarted
  | LMcMessageSent (m : msg) (src dst : N)
  | LMcMessageReceived (m : msg) (src dst : N)
  | LMcLocalMessageSent (m : msg) (proc : N)
  | LMcLocalMessageReceived (m : msg) (proc : N)
  | LMcMessageDropped (m : msg) (src dst : N)
  | LMcMessageDuplicated (m : msg) (src dst : N)
  | LMcMessageCorrupted (m cm : msg) (src dst : N)
  | LMcTimerSet (proc timer : N)
  | LMcTimerFired (proc timer : N)
  | LMcTimerCancelled (proc timer : N)
  | LMcNodeCrashed (node : N).

  (* what a handler is called with, and what it may issue through the Context *)
  Inductive input :=
  | InMsg (m : msg) (from : N)
  | InLocal (m : msg)
  | InTimer (name : N).

  Inductive action :=
  | ASend (m : msg) (dst : N)
  | ALocal (m : msg)
  | ATimerSet (name : N) (delay : T) (once : bool)
  | ATimerCancel (name : N).

  (* ProcessEvent as stored in the per-process event log *)
  Inductive pevent :=
  | PMessageSent (m : msg) (src dst : N)
  | PMessageReceived (m : msg) (src dst : N)
  | PLocalMessageSent (m : msg)
  | PLocalMessageReceived (m : msg)
  | PTimerSet (name : N) (delay : T) (once : bool)
  | PTimerFired (name : N)
  | PTimerCancelled (name : N).

  Definition action_event (proc : N) (a : action) : pevent :=
    match a with
    | ASend m dst => PMessageSent m proc dst
    | ALocal m => PLocalMessageSent m
    | ATimerSet n d o => PTimerSet n d o
    | ATimerCancel n => PTimerCancelled n
    end.

  (* ProcessEntry (src/node.rs), with the user process state PS *)
  Record pentry {PS : Type} := {
    pe_state : PS;
    pe_evlog : list (T * pevent);
    pe_outbox : list msg;
    pe_ptimers : list (N * N);          (* pending_timers: name -> event id (always 0 in model checking) *)
    pe_sent : N;
    pe_recv : N }.
End Log.
Arguments logentry T : clear implicits.
Arguments input : clear implicits.
Arguments action T : clear implicits.
Arguments pevent T : clear implicits.
Arguments pentry T PS : clear implicits.
