(* Messages and the corruption function (model of the regex QUOTE [^QUOTE]+ QUOTE replaced by QUOTE QUOTE). *)
From ASV Require Import Base.Util.

(* A string is the list of its bytes. *)
Definition str := list N.
Record msg := { tip : str; data : str }.
Definition str_cmp : str -> str -> comparison := cmp_list N.compare.
Definition str_eqb (a b : str) : bool := is_eq (str_cmp a b).
Definition msg_cmp (a b : msg) : comparison :=
  match str_cmp (tip a) (tip b) with Eq => str_cmp (data a) (data b) | c => c end.
Definition msg_eqb (a b : msg) : bool := is_eq (msg_cmp a b).
Definition msg_size (m : msg) : N := N.of_nat (length (tip m)) + N.of_nat (length (data m)).

(* corrupt: replace every leftmost, non-overlapping match of  QUOTE [^QUOTE]+ QUOTE  by  QUOTE QUOTE.
   scan state: outside a candidate / inside a candidate that started at a quote, with the bytes seen since. *)
Definition quote : N := 34.
Fixpoint corrupt_in (acc : list N) (l : list N) : list N :=
  (* a quote was seen; acc = non-quote bytes since (reversed) *)
  match l with
  | [] => quote :: rev acc                      (* no closing quote: nothing replaced *)
  | c :: r =>
    if N.eqb c quote then
      match acc with
      | [] => quote :: corrupt_in [] r          (* an empty pair does not match; rescan from the second quote *)
      | _ => quote :: quote :: corrupt_out r    (* match replaced by an empty pair *)
      end
    else corrupt_in (c :: acc) r
  end
with corrupt_out (l : list N) : list N :=
  match l with
  | [] => []
  | c :: r => if N.eqb c quote then corrupt_in [] r else c :: corrupt_out r
  end.
Definition corrupt (s : str) : str := corrupt_out s.
Definition corrupt_msg (m : msg) : msg := {| tip := tip m; data := corrupt (data m) |}.
