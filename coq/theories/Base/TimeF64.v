(* binary64 arithmetic on bit patterns, through Flocq's IEEE754 formalisation (pure Gallina, extracts with
   ExtrOcamlBasic).  Used by the executable instance of the simulator model so that times are bit-exact. *)
From Coq Require Import ZArith NArith Bool.
From Flocq Require Import IEEE754.BinarySingleNaN IEEE754.Binary IEEE754.Bits.
From ASV Require Import Model.Sim.
Open Scope N_scope.

Definition b64 (x : N) : binary64 := b64_of_bits (Z.of_N x).
Definition bits (f : binary64) : N := Z.to_N (bits_of_b64 f).

Definition f_add (a b : N) : N := bits (b64_plus mode_NE (b64 a) (b64 b)).
Definition f_sub (a b : N) : N := bits (b64_minus mode_NE (b64 a) (b64 b)).
Definition f_mul (a b : N) : N := bits (b64_mult mode_NE (b64 a) (b64 b)).
Definition f_div (a b : N) : N := bits (b64_div mode_NE (b64 a) (b64 b)).
Definition f_lt (a b : N) : bool := match b64_compare (b64 a) (b64 b) with Some Lt => true | _ => false end.
Definition f_le (a b : N) : bool := match b64_compare (b64 a) (b64 b) with Some Lt | Some Eq => true | _ => false end.

Definition bits_0 : N := 0.
Definition bits_1 : N := 4607182418800017408.          (* 0x3FF0000000000000 *)
Definition bits_2 : N := 4611686018427387904.          (* 0x4000000000000000 *)
Definition bits_10 : N := 4621819117588971520.         (* 0x4024000000000000 *)
Definition bits_neg_eps : N := 13650858631089744401.   (* -1e-12 *)

Definition f64_ops : time_ops N :=
  {| tadd := f_add; tsub := f_sub; tmul := f_mul; tltb := f_lt; tleb := f_le; tz := bits_0; ttwo := bits_2;
     tone := bits_1; tneg_eps_le := fun d => f_le bits_neg_eps d |}.

(* sanity: 0.1 + 0.2 and 1.5 * 2.0 *)
Example f_add_01_02 : f_add 4591870180066957722 4596373779694328218 = 4599075939470750516.
Proof. vm_compute. reflexivity. Qed.
Example f_mul_15_2 : f_mul 4609434218613702656 bits_2 = 4613937818241073152.
Proof. vm_compute. reflexivity. Qed.
Example f_lt_ex : f_lt bits_1 bits_2 = true /\ f_le bits_2 bits_2 = true /\ f_lt bits_2 bits_1 = false.
Proof. vm_compute. auto. Qed.
