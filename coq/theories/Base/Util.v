(* Base definitions shared by the whole model: result monad, sorted sets of N, sorted association lists.
   Definitions only; lemmas live in Proofs/. *)
From Coq Require Export List NArith Bool.
Export ListNotations.
Open Scope N_scope.

Inductive result (A : Type) : Type := Ok (a : A) | Panic (tag : N).
Arguments Ok {A} a.
Arguments Panic {A} tag.

Definition bind {A B} (r : result A) (f : A -> result B) : result B :=
  match r with Ok a => f a | Panic t => Panic t end.
Notation "'do' x <- r ; k" := (bind r (fun x => k)) (at level 200, x pattern, r at level 100, k at level 200).

Definition is_ok {A} (r : result A) : bool := match r with Ok _ => true | Panic _ => false end.

(* ---- sorted sets of N (BTreeSet<usize>) ---- *)
Fixpoint nins (x : N) (l : list N) : list N :=
  match l with
  | [] => [x]
  | y :: r => match N.compare x y with
              | Lt => x :: l
              | Eq => l
              | Gt => y :: nins x r
              end
  end.
Definition nrem (x : N) (l : list N) : list N := filter (fun y => negb (N.eqb x y)) l.
Definition nmem (x : N) (l : list N) : bool := existsb (N.eqb x) l.
Definition nunion (a b : list N) : list N := fold_left (fun acc x => nins x acc) b a.
Definition nsort (l : list N) : list N := fold_left (fun acc x => nins x acc) l [].

(* ---- comparisons ---- *)
Definition cmp_pair {A B} (ca : A -> A -> comparison) (cb : B -> B -> comparison) (x y : A * B) : comparison :=
  match ca (fst x) (fst y) with Eq => cb (snd x) (snd y) | c => c end.
Fixpoint cmp_list {A} (c : A -> A -> comparison) (x y : list A) : comparison :=
  match x, y with
  | [], [] => Eq
  | [], _ :: _ => Lt
  | _ :: _, [] => Gt
  | a :: x', b :: y' => match c a b with Eq => cmp_list c x' y' | r => r end
  end.
Definition is_eq (c : comparison) : bool := match c with Eq => true | _ => false end.

(* ---- association lists sorted by key (BTreeMap) ---- *)
Section SMap.
  Context {K V : Type} (cmp : K -> K -> comparison).
  Fixpoint sins (k : K) (v : V) (l : list (K * V)) : list (K * V) :=
    match l with
    | [] => [(k, v)]
    | (k', v') :: r => match cmp k k' with
                       | Lt => (k, v) :: l
                       | Eq => (k, v) :: r
                       | Gt => (k', v') :: sins k v r
                       end
    end.
  Fixpoint sget (k : K) (l : list (K * V)) : option V :=
    match l with
    | [] => None
    | (k', v') :: r => if is_eq (cmp k k') then Some v' else sget k r
    end.
  Definition srem (k : K) (l : list (K * V)) : list (K * V) :=
    filter (fun p => negb (is_eq (cmp k (fst p)))) l.
  Definition shas (k : K) (l : list (K * V)) : bool :=
    match sget k l with Some _ => true | None => false end.
End SMap.

Definition list_eqb {A} (eqb : A -> A -> bool) : list A -> list A -> bool :=
  fix go (x y : list A) : bool :=
    match x, y with
    | [], [] => true
    | a :: x', b :: y' => eqb a b && go x' y'
    | _, _ => false
    end.
Definition opt_eqb {A} (eqb : A -> A -> bool) (x y : option A) : bool :=
  match x, y with Some a, Some b => eqb a b | None, None => true | _, _ => false end.
