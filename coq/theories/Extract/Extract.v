(* Extraction of the executable model for the correspondence check.
   Directives: ExtrOcamlBasic only (bool, option, list, prod, unit, sumbool -> OCaml natives). No Extract Constant. *)
From Coq Require Extraction.
From Coq Require Import ExtrOcamlBasic.
From ASV Require Import Base.Util Base.Msg Base.Log Model.Store Spec.StoreSpec Model.McSys Spec.RefSys Model.Search Model.McRun Model.Script Model.DebugFmt Model.McInst Model.Sim Base.TimeF64 Model.SimInst Model.Predicates Model.PredInst.
Extraction Language OCaml.
Separate Extraction
  Util.nins Util.nsort
  Msg.corrupt Msg.corrupt_msg Msg.msg_size
  Store.empty Store.step Store.observe Store.offered Store.is_empty Store.run Store.cancel_proc Store.push Store.pop
  Store.push_fixed Store.cancel_timer
  StoreSpec.aempty StoreSpec.legal StoreSpec.astep StoreSpec.aobserve StoreSpec.arun
  McInst.i_cb_run McInst.i_run McInst.i_run_from_states McInst.i_state_eqb McInst.i_take_choice McInst.i_all_choices
  McInst.i_get_state McInst.i_set_state McInst.r_cb_run McInst.r_run McInst.r_run_from_states McInst.r_take_choice McInst.r_all_choices McInst.r_get_state
  McInst.c_ops McInst.a_ops
  PredInst.pred_battery
  SimInst.y_snapshot SimInst.y_snapshot_ref
  SimInst.y_op SimInst.y_sys0 SimInst.y_dump SimInst.draws_of TimeF64.f_add TimeF64.f_sub TimeF64.f_mul TimeF64.f_div TimeF64.f_lt TimeF64.f_le McInst.clock_of Script.pstate0 McSys.net_send McSys.net_apply McSys.alternatives
  DebugFmt.debug_trace
  BinNat.N.leb BinNat.N.add BinNat.N.mul BinNat.N.eqb BinNat.N.compare.
