(* Extraction of the executable model for the correspondence check.
   Directives: ExtrOcamlBasic only (bool, option, list, prod, unit, sumbool -> OCaml natives). No Extract Constant. *)
From Coq Require Extraction.
From Coq Require Import ExtrOcamlBasic.
From ASV Require Import Base.Util Base.Msg Model.Store Spec.StoreSpec.
Extraction Language OCaml.
Separate Extraction
  Util.nins Util.nsort
  Msg.corrupt Msg.corrupt_msg Msg.msg_size
  Store.empty Store.step Store.observe Store.offered Store.is_empty Store.run Store.cancel_proc Store.push Store.pop
  Store.push_fixed Store.cancel_timer
  StoreSpec.aempty StoreSpec.legal StoreSpec.astep StoreSpec.aobserve StoreSpec.arun
  BinNat.N.leb BinNat.N.add BinNat.N.mul BinNat.N.eqb BinNat.N.compare.
