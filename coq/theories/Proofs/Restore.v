(* Exact restoration of the McSystem state (src/mc/system.rs get_state/set_state, src/mc/strategy.rs search_step,
   src/mc/model_checker.rs run_impl / run_from_states_with_change) in the model of Model/McSys.v and Model/McRun.v.

   Definitions
     wf_sys s          the node map and every node's process map are strictly sorted by name (BTreeMap)
     same_frame s s'   s and s' agree on what set_state does NOT write: node names (and their order), per node the
                       clock skew and the process names, and the event ordering mode s_mf
     frame_nomf s s'   same_frame without the s_mf component
     state_fits s st   st has exactly the node names of s and per node exactly its process names

   Main results (all for an arbitrary store interface `so`, handler, clock, ...)
     T1  set_get_state          wf_sys s -> wf_sys s' -> same_frame s s' -> set_state s' (get_state s) = Ok s
         set_get_state_nomf     the same with frame_nomf: the result is s with the ordering mode of s'
         set_state_fits         wf_sys s -> state_fits s st ->
                                exists s', set_state s st = Ok s' /\ get_state s' = st /\ same_frame s s' /\ wf_sys s'
         get_state_inj          same_frame a b -> get_state a = get_state b -> a = b
     T2  *_frame                node_handle, add_events, deliver, apply_event, send_local, crash_node, cb_apply, cb_run,
                                take_choice, set_state: an Ok result preserves wf_sys and same_frame
                                (cb_apply / cb_run: frame_nomf; CbMode changes s_mf and nothing else)
     T3  search_step_restores, steps_of_restores, expand_sys_restores
     T4  run_impl_rolls_back    whatever the result (ROk, RErr, RFuel, RPanic)
         run_impl_total         run_impl returns Ok exactly when the preliminary callback does (no restore panic)
     T5  run_starts_frame, run_from_states_rolls_back (and _fits: the literal requested form)
         run_starts_total, run_from_states_total: if every start state fits, `ord` invents no state and the
                                preliminary callback does not fail, run_from_states returns Ok (sys, _, _)
     T6  run_twice_same, run_from_states_twice_same

   Deviations from the requested statements: none is weaker.
     * T5 is proved WITHOUT the hypotheses "every start state fits sys" and "ord is a permutation": the statement is
       conditional on run_from_states returning Ok, and whenever set_state returns Ok it has preserved the frame
       (set_state_frame), so the final restore is exact for arbitrary start states and an arbitrary `ord`.
       What state_fits buys is the absence of set_state panics; that is set_state_fits.
     * T1 is additionally proved up to the ordering mode (set_get_state_nomf), which is what run_impl needs:
       the callback may change s_mf, set_state does not restore it, run_impl writes it back explicitly (fix F7).
   No statement was found to be false for the model. *)
From Coq Require Import List NArith Bool Lia.
From ASV Require Import Base.Util Base.Msg Base.Log Model.Store Model.McSys Model.Search Model.McRun Proofs.UtilP.
Import ListNotations.
Open Scope N_scope.

(* ------------------------------------------------------------------------------------------ *)
(* inversion of monadic code                                                                   *)
(* ------------------------------------------------------------------------------------------ *)

Local Ltac binv H :=
  match type of H with
  | bind ?r _ = Ok _ => let E := fresh "E" in destruct r eqn:E; cbn [bind] in H; [|discriminate H]
  | Ok _ = Ok _ => inversion H; subst; clear H
  | Panic _ = Ok _ => discriminate H
  | (let '(_, _) := ?p in _) = Ok _ => destruct p
  end.

(* ------------------------------------------------------------------------------------------ *)
(* association lists keyed by N: keys, pairwise relations, folds of sins                       *)
(* ------------------------------------------------------------------------------------------ *)

Local Notation sgetN := (sget N.compare).
Local Notation sinsN := (sins N.compare).
Local Notation ssortedN := (ssorted N.compare).

Section Keys.
  Context {V : Type}.

  Lemma sget_some_key k (v : V) l : sgetN k l = Some v -> In k (map fst l).
  Proof.
    intros H. apply (sget_some_in _ CmpSpec_N) in H. apply in_map_iff. exists (k, v). auto.
  Qed.

  Lemma sget_key_some k (l : list (N * V)) : In k (map fst l) -> exists v, sgetN k l = Some v.
  Proof.
    intros H. destruct (sgetN k l) as [v|] eqn:E; eauto.
    apply (sget_none_iff _ CmpSpec_N) in E. contradiction.
  Qed.

  (* overwriting an existing key of a sorted list keeps the keys *)
  Lemma map_fst_sins k (v v' : V) l : ssortedN l -> sgetN k l = Some v -> map fst (sinsN k v' l) = map fst l.
  Proof.
    induction l as [|[k0 v0] r IH]; intros Hs; cbn [sins sget]; [discriminate|].
    apply ssorted_inv in Hs. destruct Hs as [Hf Hs].
    destruct (N.compare k k0) eqn:E; cbn [is_eq map fst]; intros Hg.
    - apply N.compare_eq_iff in E. subst. reflexivity.
    - exfalso. rewrite (sget_lt_none N.compare) in Hg; [discriminate|].
      rewrite Forall_forall in *. intros q Hq. eapply (cmp_lt_trans _ CmpSpec_N); eauto.
    - f_equal. apply IH; auto.
  Qed.

  Lemma Forall_snd_sins (P : V -> Prop) k v l :
    P v -> Forall (fun p => P (snd p)) l -> Forall (fun p => P (snd p)) (sinsN k v l).
  Proof.
    intros Hv Hl. rewrite Forall_forall in *. intros q Hq. apply in_sins in Hq. destruct Hq as [->|Hq]; auto.
  Qed.

  Lemma sget_Forall_snd (P : V -> Prop) k v l : Forall (fun p => P (snd p)) l -> sgetN k l = Some v -> P v.
  Proof.
    intros Hl Hg. apply (sget_some_in _ CmpSpec_N) in Hg. rewrite Forall_forall in Hl. apply (Hl (k, v)). auto.
  Qed.
End Keys.

Section Keys2.
  Context {V W : Type}.

  (* sortedness is a property of the keys *)
  Lemma ssorted_keys (l : list (N * V)) (l' : list (N * W)) : map fst l = map fst l' -> ssortedN l -> ssortedN l'.
  Proof.
    revert l'. induction l as [|[k v] r IH]; intros [|[k' w] r'] He Hs; try discriminate; try constructor.
    - cbn in He. inversion He; subst. apply ssorted_inv in Hs. destruct Hs as [Hf Hs].
      apply (Forall_map fst (fun x => N.compare k' x = Lt)). rewrite <- H1.
      apply (Forall_map fst (fun x => N.compare k' x = Lt)). exact Hf.
    - cbn in He. inversion He; subst. apply ssorted_inv in Hs. destruct Hs as [Hf Hs]. eapply IH; eauto.
  Qed.

  Lemma sget_keys_none k (l : list (N * V)) (l' : list (N * W)) :
    map fst l = map fst l' -> sgetN k l = None -> sgetN k l' = None.
  Proof.
    intros He H. apply (sget_none_iff _ CmpSpec_N). rewrite <- He. apply (sget_none_iff _ CmpSpec_N). exact H.
  Qed.

  Lemma sget_map_snd (g : V -> W) k (l : list (N * V)) :
    sgetN k (map (fun p => (fst p, g (snd p))) l) = option_map g (sgetN k l).
  Proof.
    induction l as [|[k0 v0] r IH]; cbn; auto.
    destruct (is_eq (N.compare k k0)); auto.
  Qed.

  Lemma map_fst_map_snd (g : V -> W) (l : list (N * V)) : map fst (map (fun p => (fst p, g (snd p))) l) = map fst l.
  Proof. rewrite map_map. reflexivity. Qed.

  (* same keys in the same order, values related pairwise *)
  Definition keyrel (R : V -> W -> Prop) (l : list (N * V)) (l' : list (N * W)) : Prop :=
    Forall2 (fun p q => fst p = fst q /\ R (snd p) (snd q)) l l'.

  Lemma keyrel_keys R l l' : keyrel R l l' -> map fst l = map fst l'.
  Proof. induction 1 as [|p q l l' [Hk _] _ IH]; cbn; congruence. Qed.

  Lemma keyrel_sget R l l' k v : keyrel R l l' -> sgetN k l = Some v -> exists w, sgetN k l' = Some w /\ R v w.
  Proof.
    induction 1 as [|[k1 v1] [k2 w2] l l' [Hk HR] _ IH]; cbn [sget]; [discriminate|].
    cbn in Hk, HR. subst k2. destruct (is_eq (N.compare k k1)); auto.
    intros H. inversion H; subst. eauto.
  Qed.

  Lemma keyrel_sget_r R l l' k w : keyrel R l l' -> sgetN k l' = Some w -> exists v, sgetN k l = Some v /\ R v w.
  Proof.
    induction 1 as [|[k1 v1] [k2 w2] l l' [Hk HR] _ IH]; cbn [sget]; [discriminate|].
    cbn in Hk, HR. subst k2. destruct (is_eq (N.compare k k1)); auto.
    intros H. inversion H; subst. eauto.
  Qed.

  Lemma keyrel_impl (R R' : V -> W -> Prop) l l' : (forall a b, R a b -> R' a b) -> keyrel R l l' -> keyrel R' l l'.
  Proof. intros Hi. induction 1 as [|p q l l' [Hk HR] _ IH]; constructor; auto. Qed.
End Keys2.

Lemma keyrel_refl {V} (R : V -> V -> Prop) l : (forall v, R v v) -> keyrel R l l.
Proof. intros Hr. induction l; constructor; auto. Qed.

Lemma keyrel_flip {V W} (R : V -> W -> Prop) l l' : keyrel R l l' -> keyrel (fun w v => R v w) l' l.
Proof. induction 1 as [|p q l l' [Hk HR] _ IH]; constructor; auto. Qed.

Lemma keyrel_trans {U V W} (R : U -> V -> Prop) (R' : V -> W -> Prop) (R'' : U -> W -> Prop) l l' l'' :
  (forall a b c, R a b -> R' b c -> R'' a c) -> keyrel R l l' -> keyrel R' l' l'' -> keyrel R'' l l''.
Proof.
  intros Ht H. revert l''. induction H as [|p q l l' [Hk HR] _ IH]; intros l'' H'.
  - inversion H'; subst. constructor.
  - inversion H' as [|q' c l0 l1 [Hk' HR'] Hrest]; subst. constructor.
    + split; [congruence|eauto].
    + apply IH. exact Hrest.
Qed.

Lemma keyrel_sins {V} (R : V -> V -> Prop) k v v' l :
  (forall x, R x x) -> ssortedN l -> sgetN k l = Some v -> R v v' -> keyrel R l (sinsN k v' l).
Proof.
  intros Hr. induction l as [|[k0 v0] r IH]; intros Hs; cbn [sins sget]; [discriminate|].
  apply ssorted_inv in Hs. destruct Hs as [Hf Hs].
  destruct (N.compare k k0) eqn:E; cbn [is_eq]; intros Hg HR.
  - apply N.compare_eq_iff in E. subst. inversion Hg; subst. constructor; [split; auto|]. apply keyrel_refl; auto.
  - exfalso. rewrite (sget_lt_none N.compare) in Hg; [discriminate|].
    rewrite Forall_forall in *. intros q Hq. eapply (cmp_lt_trans _ CmpSpec_N); eauto.
  - constructor; [split; auto|]. apply IH; auto.
Qed.

(* the common shape of procs_set_state and nodes_set_state: overwrite the entries named by a saved list *)
Section GSet.
  Context {V W : Type} (f : V -> W -> result V) (tag : N).

  Fixpoint gset (l : list (N * V)) (sts : list (N * W)) : result (list (N * V)) :=
    match sts with
    | [] => Ok l
    | (k, w) :: r =>
      match sgetN k l with
      | None => Panic tag
      | Some v => do v' <- f v w; gset (sinsN k v' l) r
      end
    end.

  (* whatever the saved list is: if the fold succeeds, keys and order are kept and every value moved along R *)
  Lemma gset_frame (P : V -> Prop) (R : V -> V -> Prop) :
    (forall v, R v v) -> (forall a b c, R a b -> R b c -> R a c) ->
    (forall v w v', P v -> f v w = Ok v' -> P v' /\ R v v') ->
    forall sts l r, ssortedN l -> Forall (fun p => P (snd p)) l -> gset l sts = Ok r ->
      ssortedN r /\ Forall (fun p => P (snd p)) r /\ keyrel R l r.
  Proof.
    intros Hrefl Htrans Hf. induction sts as [|[k w] rest IH]; intros l r Hs HP Hg; cbn [gset] in Hg.
    - binv Hg. split; [|split]; auto. apply keyrel_refl; auto.
    - destruct (sgetN k l) as [v|] eqn:Ek; [|discriminate].
      binv Hg. rename a into v'.
      assert (Pv : P v) by (eapply sget_Forall_snd; eauto).
      destruct (Hf v w v' Pv E) as [Pv' Rv].
      apply IH in Hg.
      + destruct Hg as (A & B & C). split; [|split]; auto.
        eapply keyrel_trans; [exact Htrans | | exact C]. eapply keyrel_sins; eauto.
      + apply ssorted_sins; auto. apply CmpSpec_N.
      + apply Forall_snd_sins; auto.
  Qed.

  (* the saved list names distinct existing keys, and f succeeds with value h on them:
     the fold succeeds and the result is known by lookup *)
  Lemma gset_exact (h : V -> W -> V) :
    forall sts l, ssortedN l -> NoDup (map fst sts) -> (forall k, In k (map fst sts) -> In k (map fst l)) ->
      (forall k v w, sgetN k l = Some v -> In (k, w) sts -> f v w = Ok (h v w)) ->
      exists r, gset l sts = Ok r /\ ssortedN r /\ map fst r = map fst l /\
        forall k, sgetN k r = match sgetN k l with
                              | None => None
                              | Some v => match sgetN k sts with Some w => Some (h v w) | None => Some v end
                              end.
  Proof.
    induction sts as [|[k w] rest IH]; intros l Hs Hnd Hin Hf.
    - exists l. cbn. split; [|split; [|split]]; auto. intros k. destruct (sgetN k l); auto.
    - cbn [map fst] in Hnd. inversion Hnd as [|? ? Hnk Hnd']; subst.
      destruct (sget_key_some k l) as [v Ek]; [apply Hin; cbn; auto|].
      assert (Ef : f v w = Ok (h v w)) by (apply (Hf k); cbn; auto).
      destruct (IH (sinsN k (h v w) l)) as (r & Hr1 & Hr2 & Hr3 & Hr4); auto.
      + apply ssorted_sins; auto. apply CmpSpec_N.
      + intros k' Hk'. rewrite (map_fst_sins k v) by auto. apply Hin. cbn; auto.
      + intros k' v0 w0 Hg0 Hin0.
        assert (Hne : k <> k').
        { intros ->. apply Hnk. apply in_map_iff. exists (k', w0). auto. }
        rewrite (sget_sins_neq _ CmpSpec_N) in Hg0 by auto.
        apply (Hf k'); cbn; auto.
      + exists r. cbn [gset]. rewrite Ek, Ef. cbn [bind]. split; [exact Hr1|]. split; [exact Hr2|]. split.
        * rewrite Hr3. apply (map_fst_sins k v); auto.
        * intros k'. rewrite Hr4. cbn [sget]. rewrite (sget_sins _ CmpSpec_N).
          destruct (is_eq (N.compare k' k)) eqn:Ek'.
          -- apply (is_eq_true _ CmpSpec_N) in Ek'. subst k'. rewrite Ek.
             assert (Hn : sgetN k rest = None) by (apply (sget_none_iff _ CmpSpec_N); auto).
             rewrite Hn. reflexivity.
          -- reflexivity.
  Qed.
End GSet.

(* ------------------------------------------------------------------------------------------ *)
(* the system layer                                                                            *)
(* ------------------------------------------------------------------------------------------ *)

Section Restore.
  Context {T : Type}.
  Context {SE : Type} (so : @store_ops T SE).
  Variable teqb : T -> T -> bool.
  Variable tgt0 : T -> bool.
  Variable teq0 : T -> bool.
  Variable t0 : T.
  Variable clock : N -> T -> T.
  Context {PS : Type}.
  Variable ps_eqb : PS -> PS -> bool.
  Variable handler : N -> PS -> input -> T -> (nat -> T) -> PS * list (action T).
  Variable DS : Type.
  Variable mc_rand : DS -> nat -> T.
  Variable ds_of : @mcstate T SE PS -> DS.
  Variable tr_cmp : list (logentry T) -> list (logentry T) -> comparison.

  Notation mcsys := (@mcsys T SE PS).
  Notation mcstate := (@mcstate T SE PS).
  Notation mcnode := (@mcnode T PS).
  Notation mcnodestate := (@mcnodestate T PS).
  Notation pentry := (pentry T PS).

  Local Notation node_handleM := (node_handle t0 clock handler DS mc_rand).
  Local Notation add_eventsM := (add_events so tgt0 teq0 (PS := PS)).
  Local Notation deliverM := (deliver so tgt0 teq0 t0 clock handler DS mc_rand ds_of).
  Local Notation apply_eventM := (apply_event so tgt0 teq0 t0 clock handler DS mc_rand ds_of).
  Local Notation send_localM := (send_local so tgt0 teq0 t0 clock handler DS mc_rand ds_of).
  Local Notation crash_nodeM := (crash_node so (PS := PS)).
  Local Notation cb_applyM := (cb_apply so tgt0 teq0 t0 clock handler DS mc_rand ds_of).
  Local Notation cb_runM := (cb_run so tgt0 teq0 t0 clock handler DS mc_rand ds_of).
  Local Notation take_choiceM := (take_choice so tgt0 teq0 t0 clock handler DS mc_rand ds_of).
  Local Notation search_stepM := (search_step so tgt0 teq0 t0 clock handler DS mc_rand ds_of).
  Local Notation steps_ofM := (steps_of so tgt0 teq0 t0 clock handler DS mc_rand ds_of).
  Local Notation expand_sysM := (expand_sys so tgt0 teq0 t0 clock handler DS mc_rand ds_of).
  Local Notation run_implM := (run_impl so teqb tgt0 teq0 t0 clock ps_eqb handler DS mc_rand ds_of).
  Local Notation runM := (run so teqb tgt0 teq0 t0 clock ps_eqb handler DS mc_rand ds_of).
  Local Notation run_startsM := (run_starts so teqb tgt0 teq0 t0 clock ps_eqb handler DS mc_rand ds_of).
  Local Notation run_from_statesM := (run_from_states so teqb tgt0 teq0 t0 clock ps_eqb handler DS mc_rand ds_of tr_cmp).

  (* ---------------- definitions ---------------- *)
  Definition procs_wf (l : list (N * mcnode)) : Prop := Forall (fun p => ssortedN (nd_procs (snd p))) l.
  Definition wf_nodes (l : list (N * mcnode)) : Prop := ssortedN l /\ procs_wf l.
  Definition wf_sys (s : mcsys) : Prop := wf_nodes (s_nodes s).

  (* what set_state leaves alone in a node: the skew and the process names *)
  Definition node_frame (nd nd' : mcnode) : Prop :=
    nd_skew nd = nd_skew nd' /\ map fst (nd_procs nd) = map fst (nd_procs nd').
  Definition nodes_frame (l l' : list (N * mcnode)) : Prop := keyrel node_frame l l'.
  Definition frame_nomf (s s' : mcsys) : Prop :=
    map fst (s_nodes s) = map fst (s_nodes s') /\ nodes_frame (s_nodes s) (s_nodes s').
  Definition same_frame (s s' : mcsys) : Prop :=
    map fst (s_nodes s) = map fst (s_nodes s') /\ nodes_frame (s_nodes s) (s_nodes s') /\ s_mf s = s_mf s'.

  Definition node_fits (nd : mcnode) (ns : mcnodestate) : Prop := map fst (ns_procs ns) = map fst (nd_procs nd).
  Definition state_fits (s : mcsys) (st : mcstate) : Prop :=
    map fst (st_nodes st) = map fst (s_nodes s) /\ keyrel node_fits (s_nodes s) (st_nodes st).

  Definition set_mf (s : mcsys) (mf : bool) : mcsys :=
    {| s_nodes := s_nodes s; s_net := s_net s; s_events := s_events s; s_depth := s_depth s; s_mf := mf;
       s_trace := s_trace s |}.

  (* ---------------- the frame relations are equivalences ---------------- *)
  Lemma node_frame_refl nd : node_frame nd nd.
  Proof. split; reflexivity. Qed.
  Lemma node_frame_sym a b : node_frame a b -> node_frame b a.
  Proof. intros [H1 H2]. split; auto. Qed.
  Lemma node_frame_trans a b c : node_frame a b -> node_frame b c -> node_frame a c.
  Proof. intros [H1 H2] [H3 H4]. split; congruence. Qed.

  Lemma nodes_frame_refl l : nodes_frame l l.
  Proof. apply keyrel_refl. apply node_frame_refl. Qed.
  Lemma nodes_frame_sym l l' : nodes_frame l l' -> nodes_frame l' l.
  Proof. intros H. apply keyrel_flip in H. eapply keyrel_impl; [|exact H]. cbn. intros a b. apply node_frame_sym. Qed.
  Lemma nodes_frame_trans l l' l'' : nodes_frame l l' -> nodes_frame l' l'' -> nodes_frame l l''.
  Proof. apply keyrel_trans. apply node_frame_trans. Qed.

  Lemma frame_nomf_refl s : frame_nomf s s.
  Proof. split; [reflexivity|apply nodes_frame_refl]. Qed.
  Lemma frame_nomf_sym s s' : frame_nomf s s' -> frame_nomf s' s.
  Proof. intros [H1 H2]. split; [auto|apply nodes_frame_sym; auto]. Qed.
  Lemma frame_nomf_trans s s' s'' : frame_nomf s s' -> frame_nomf s' s'' -> frame_nomf s s''.
  Proof. intros [H1 H2] [H3 H4]. split; [congruence|eapply nodes_frame_trans; eauto]. Qed.

  Lemma same_frame_nomf s s' : same_frame s s' -> frame_nomf s s'.
  Proof. intros (H1 & H2 & _). split; auto. Qed.
  Lemma same_frame_intro s s' : frame_nomf s s' -> s_mf s = s_mf s' -> same_frame s s'.
  Proof. intros [H1 H2] H3. split; [|split]; auto. Qed.
  Lemma same_frame_mf s s' : same_frame s s' -> s_mf s = s_mf s'.
  Proof. intros (_ & _ & H). exact H. Qed.

  Lemma same_frame_refl s : same_frame s s.
  Proof. apply same_frame_intro; [apply frame_nomf_refl|reflexivity]. Qed.
  Lemma same_frame_sym s s' : same_frame s s' -> same_frame s' s.
  Proof. intros H. apply same_frame_intro; [apply frame_nomf_sym, same_frame_nomf, H|symmetry; apply same_frame_mf, H]. Qed.
  Lemma same_frame_trans s s' s'' : same_frame s s' -> same_frame s' s'' -> same_frame s s''.
  Proof.
    intros H1 H2. apply same_frame_intro.
    - eapply frame_nomf_trans; apply same_frame_nomf; eauto.
    - apply same_frame_mf in H1. apply same_frame_mf in H2. congruence.
  Qed.

  Lemma frame_nomf_set_mf s mf : frame_nomf s (set_mf s mf).
  Proof. exact (frame_nomf_refl s). Qed.
  Lemma wf_sys_set_mf s mf : wf_sys s -> wf_sys (set_mf s mf).
  Proof. auto. Qed.
  Lemma get_state_set_mf s mf : get_state (set_mf s mf) = get_state s.
  Proof. reflexivity. Qed.
  Lemma set_mf_same s : set_mf s (s_mf s) = s.
  Proof. destruct s; reflexivity. Qed.

  (* ---------------- building frames from the shape of the node map ---------------- *)
  Lemma wf_nodes_sins l k nd nd' :
    wf_nodes l -> sgetN k l = Some nd -> ssortedN (nd_procs nd') -> node_frame nd nd' ->
    wf_nodes (sinsN k nd' l) /\ map fst l = map fst (sinsN k nd' l) /\ nodes_frame l (sinsN k nd' l).
  Proof.
    intros [Hs Hp] Hg Hs' Hf. split; [split|split].
    - apply ssorted_sins; auto. apply CmpSpec_N.
    - apply (Forall_snd_sins (fun nd => ssortedN (nd_procs nd))); auto.
    - symmetry. eapply map_fst_sins; eauto.
    - eapply keyrel_sins; eauto. apply node_frame_refl.
  Qed.

  Lemma frame_same_nodes s s' :
    s_nodes s' = s_nodes s -> s_mf s' = s_mf s -> wf_sys s -> wf_sys s' /\ same_frame s s'.
  Proof.
    intros Hn Hm Hw. unfold wf_sys, same_frame. rewrite Hn, Hm. split; auto.
    split; [|split]; auto. apply nodes_frame_refl.
  Qed.

  Lemma frame_upd_node s s' k nd nd' :
    s_nodes s' = sinsN k nd' (s_nodes s) -> s_mf s' = s_mf s ->
    sgetN k (s_nodes s) = Some nd -> (ssortedN (nd_procs nd) -> ssortedN (nd_procs nd') /\ node_frame nd nd') ->
    wf_sys s -> wf_sys s' /\ same_frame s s'.
  Proof.
    intros Hn Hm Hg Hnd Hw. unfold wf_sys, same_frame. rewrite Hn, Hm.
    destruct Hnd as [Hs' Hf]; [eapply (sget_Forall_snd (fun nd => ssortedN (nd_procs nd))); [apply Hw|eauto]|].
    destruct (wf_nodes_sins _ k nd nd' Hw Hg Hs' Hf) as (A & B & C). auto.
  Qed.

  (* ---------------- set_state: the two folds are instances of gset ---------------- *)
  Lemma procs_set_state_gset (ps sts : list (N * pentry)) :
    procs_set_state ps sts = gset (fun old st => Ok (proc_set_state old st)) 43 ps sts.
  Proof.
    revert ps. induction sts as [|[k st] r IH]; intros ps; cbn [procs_set_state gset]; [reflexivity|].
    destruct (sgetN k ps); [|reflexivity]. cbn [bind]. apply IH.
  Qed.

  Lemma nodes_set_state_gset (l : list (N * mcnode)) (sts : list (N * mcnodestate)) :
    nodes_set_state l sts = gset node_set_state 44 l sts.
  Proof.
    revert l. induction sts as [|[k st] r IH]; intros l; cbn [nodes_set_state gset]; [reflexivity|].
    destruct (sgetN k l) as [nd|]; [|reflexivity]. destruct (node_set_state nd st); cbn [bind]; [apply IH|reflexivity].
  Qed.

  (* ProcessEntry::set_state writes every field: the entry becomes the saved one *)
  Lemma proc_set_state_eq (old st : pentry) : proc_set_state old st = st.
  Proof. destruct st; reflexivity. Qed.

  Lemma procs_set_state_frame (ps sts r : list (N * pentry)) :
    ssortedN ps -> procs_set_state ps sts = Ok r -> ssortedN r /\ map fst ps = map fst r.
  Proof.
    intros Hs H. rewrite procs_set_state_gset in H.
    destruct (gset_frame (fun old st : pentry => Ok (proc_set_state old st)) 43 (fun _ => True) (fun _ _ => True))
      with (sts := sts) (l := ps) (r := r) as (A & _ & C); auto.
    - rewrite Forall_forall. auto.
    - split; auto. eapply keyrel_keys; eauto.
  Qed.

  Lemma procs_set_state_exact (ps sts : list (N * pentry)) :
    ssortedN ps -> map fst sts = map fst ps -> procs_set_state ps sts = Ok sts.
  Proof.
    intros Hs Hk. rewrite procs_set_state_gset.
    destruct (gset_exact (fun old st => Ok (proc_set_state old st)) 43 proc_set_state sts ps)
      as (r & Hr1 & Hr2 & Hr3 & Hr4); auto.
    - rewrite Hk. apply (ssorted_NoDup _ CmpSpec_N). auto.
    - intros k. rewrite Hk. auto.
    - rewrite Hr1. f_equal. apply (ssorted_ext _ CmpSpec_N); auto.
      + eapply ssorted_keys; [|exact Hs]. auto.
      + intros k. rewrite Hr4.
        destruct (sgetN k ps) as [v|] eqn:E1.
        * destruct (sgetN k sts) as [w|] eqn:E2.
          -- rewrite proc_set_state_eq. reflexivity.
          -- apply (sget_keys_none k sts ps Hk) in E2. congruence.
        * symmetry. apply (sget_keys_none k ps sts); auto.
  Qed.

  Definition node_step (nd nd' : mcnode) : Prop := ssortedN (nd_procs nd') /\ node_frame nd nd'.

  Lemma node_set_state_frame nd ns nd' :
    ssortedN (nd_procs nd) -> node_set_state nd ns = Ok nd' -> ssortedN (nd_procs nd') /\ node_frame nd nd'.
  Proof.
    intros Hs H. unfold node_set_state in H. binv H. binv H.
    apply procs_set_state_frame in E; auto. destruct E as [A B]. cbn. split; [|split]; auto.
  Qed.

  Definition node_restored (nd : mcnode) (ns : mcnodestate) : mcnode :=
    {| nd_procs := ns_procs ns; nd_skew := nd_skew nd; nd_crashed := ns_crashed ns |}.

  Lemma node_set_state_exact nd ns :
    ssortedN (nd_procs nd) -> node_fits nd ns -> node_set_state nd ns = Ok (node_restored nd ns).
  Proof.
    intros Hs Hf. unfold node_set_state. rewrite procs_set_state_exact; auto.
  Qed.

  Lemma node_get_restored nd ns : node_get_state (node_restored nd ns) = ns.
  Proof. destruct ns; reflexivity. Qed.

  Lemma nodes_set_state_frame l sts r :
    wf_nodes l -> nodes_set_state l sts = Ok r -> wf_nodes r /\ map fst l = map fst r /\ nodes_frame l r.
  Proof.
    intros [Hs Hp] H. rewrite nodes_set_state_gset in H.
    destruct (gset_frame node_set_state 44 (fun nd => ssortedN (nd_procs nd)) node_frame) with (sts := sts) (l := l) (r := r)
      as (A & B & C); auto.
    - apply node_frame_refl.
    - apply node_frame_trans.
    - intros v w v'. apply node_set_state_frame.
    - split; [split; auto|]. split; auto. eapply keyrel_keys; eauto.
  Qed.

  Lemma nodes_set_state_exact l sts :
    wf_nodes l -> map fst sts = map fst l -> keyrel node_fits l sts ->
    exists r, nodes_set_state l sts = Ok r /\ ssortedN r /\ map fst r = map fst l /\
      forall k, sgetN k r = match sgetN k l with
                            | None => None
                            | Some nd => match sgetN k sts with Some ns => Some (node_restored nd ns) | None => Some nd end
                            end.
  Proof.
    intros [Hs Hp] Hk Hf. rewrite nodes_set_state_gset.
    assert (Hss : ssortedN sts) by (eapply ssorted_keys; [symmetry; exact Hk|exact Hs]).
    apply gset_exact; auto.
    - rewrite Hk. apply (ssorted_NoDup _ CmpSpec_N). auto.
    - intros k. rewrite Hk. auto.
    - intros k nd ns Hg Hin. apply (sget_in _ CmpSpec_N) in Hin; auto.
      destruct (keyrel_sget _ _ _ _ _ Hf Hg) as (ns' & Hg' & Hfit).
      assert (ns' = ns) by congruence. subst ns'.
      apply node_set_state_exact; auto.
      eapply (sget_Forall_snd (fun nd => ssortedN (nd_procs nd))); eauto.
  Qed.

  (* T2 for set_state: whatever the saved state is, a successful set_state keeps the frame *)
  Theorem set_state_frame s st s' : set_state s st = Ok s' -> wf_sys s -> wf_sys s' /\ same_frame s s'.
  Proof.
    intros H Hw. unfold set_state in H. binv H. binv H.
    apply nodes_set_state_frame in E; auto. destruct E as (A & B & C).
    unfold wf_sys, same_frame. cbn [s_nodes s_mf sys_with]. auto.
  Qed.

  (* set_state on a fitting state cannot panic, and get_state reads back exactly what was written *)
  Theorem set_state_fits s st :
    wf_sys s -> state_fits s st ->
    exists s', set_state s st = Ok s' /\ get_state s' = st /\ same_frame s s' /\ wf_sys s'.
  Proof.
    intros Hw [Hk Hf].
    destruct (nodes_set_state_exact (s_nodes s) (st_nodes st) Hw Hk Hf) as (r & Hr1 & Hr2 & Hr3 & Hr4).
    exists (sys_with s r (st_net st) (st_events st) (st_depth st) (st_trace st)).
    assert (Hset : set_state s st = Ok (sys_with s r (st_net st) (st_events st) (st_depth st) (st_trace st))).
    { unfold set_state. rewrite Hr1. reflexivity. }
    split; [exact Hset|].
    destruct (set_state_frame _ _ _ Hset Hw) as [Hw' Hfr].
    split; [|split; auto].
    destruct st as [stn snet sev sd str]. unfold get_state. cbn [s_nodes s_net s_events s_depth s_trace sys_with].
    cbn [st_nodes st_net st_events st_depth st_trace] in *. f_equal.
    apply (ssorted_ext _ CmpSpec_N).
    - eapply ssorted_keys; [|exact Hr2]. symmetry. apply map_fst_map_snd.
    - eapply ssorted_keys; [|apply Hw]. symmetry. exact Hk.
    - intros k. rewrite sget_map_snd, Hr4.
      destruct (sgetN k (s_nodes s)) as [nd|] eqn:E1.
      + destruct (sgetN k stn) as [ns|] eqn:E2.
        * cbn. rewrite node_get_restored. reflexivity.
        * apply (sget_keys_none k stn (s_nodes s) Hk) in E2. congruence.
      + cbn. symmetry. apply (sget_keys_none k (s_nodes s) stn); auto.
  Qed.

  (* a system is determined by its frame and its state *)
  Lemma nodes_state_inj (l l' : list (N * mcnode)) :
    nodes_frame l l' ->
    map (fun p => (fst p, node_get_state (snd p))) l = map (fun p => (fst p, node_get_state (snd p))) l' -> l = l'.
  Proof.
    induction 1 as [|[k nd] [k' nd'] l l' [Hk [Hskew _]] _ IH]; cbn [map]; intros He; auto.
    inversion He as [[H1 H2 H3]]. cbn [fst snd] in *. f_equal; auto.
    destruct nd, nd'. unfold node_get_state in H2. cbn in *. inversion H2. subst. reflexivity.
  Qed.

  Theorem get_state_inj a b : same_frame a b -> get_state a = get_state b -> a = b.
  Proof.
    intros (_ & Hf & Hm) He. unfold get_state in He. inversion He as [[H1 H2 H3 H4 H5]].
    apply nodes_state_inj in H1; auto.
    destruct a, b. cbn in *. subst. reflexivity.
  Qed.

  Lemma frame_state_fits s s' : frame_nomf s s' -> state_fits s' (get_state s).
  Proof.
    intros [Hk Hf]. unfold state_fits, get_state. cbn [st_nodes]. split.
    - rewrite map_fst_map_snd. auto.
    - apply nodes_frame_sym in Hf. clear Hk. unfold nodes_frame, keyrel in *.
      induction Hf as [|[k' nd'] [k nd] l' l [Hkk [_ Hp]] _ IH]; cbn [map]; constructor; auto.
      cbn [fst snd] in *. split; auto. unfold node_fits, node_get_state. cbn [ns_procs]. auto.
  Qed.

  (* T1 up to the ordering mode, which set_state does not write *)
  Theorem set_get_state_nomf s s' :
    wf_sys s -> wf_sys s' -> frame_nomf s s' -> set_state s' (get_state s) = Ok (set_mf s (s_mf s')).
  Proof.
    intros Hw Hw' Hf.
    destruct (set_state_fits s' (get_state s) Hw' (frame_state_fits _ _ Hf)) as (s'' & Hset & Hget & Hfr & _).
    rewrite Hset. f_equal. symmetry. apply get_state_inj; auto.
    apply same_frame_intro.
    - eapply frame_nomf_trans; [|apply same_frame_nomf; exact Hfr].
      eapply frame_nomf_trans; [|exact Hf]. apply frame_nomf_sym. apply frame_nomf_set_mf.
    - cbn. apply same_frame_mf. exact Hfr.
  Qed.

  (* T1: restoring the saved state is exact *)
  Theorem set_get_state s s' : wf_sys s -> wf_sys s' -> same_frame s s' -> set_state s' (get_state s) = Ok s.
  Proof.
    intros Hw Hw' Hf. rewrite set_get_state_nomf; auto using same_frame_nomf.
    rewrite <- (same_frame_mf _ _ Hf). rewrite set_mf_same. reflexivity.
  Qed.

  (* ---------------- T2: the operations of the system layer keep the frame ---------------- *)
  Theorem node_handle_frame nd proc k depth ds nd' evs logs :
    node_handleM nd proc k depth ds = Ok (nd', evs, logs) ->
    ssortedN (nd_procs nd) -> ssortedN (nd_procs nd') /\ node_frame nd nd'.
  Proof.
    intros H Hs. unfold node_handle in H.
    destruct (nd_crashed nd); [discriminate|].
    destruct (sgetN proc (nd_procs nd)) as [p|] eqn:Eg; [|discriminate].
    cbv zeta in H.
    destruct (handler _ _ _ _ _) as [st' acts].
    destruct (node_actions _ _ _ _) as [[p3 evs0] logs0].
    inversion H; subst. unfold nd_with_procs, node_frame. cbn [nd_procs nd_skew]. split; [|split].
    - apply ssorted_sins; auto. apply CmpSpec_N.
    - reflexivity.
    - symmetry. eapply map_fst_sins; eauto.
  Qed.

  Lemma add_events_nodes evs : forall s s',
    add_eventsM s evs = Ok s' -> s_nodes s' = s_nodes s /\ s_mf s' = s_mf s.
  Proof.
    induction evs as [|e r IH]; intros s s' H; cbn [add_events] in H.
    - binv H. auto.
    - binv H. apply IH in H. destruct H as [H1 H2]. rewrite H1, H2. clear H1 H2 IH.
      destruct e as [m src dst|p n d|p n].
      + binv E. destruct a0 as [ev|m' src' dst'].
        * binv E. binv E. binv E. auto.
        * binv E. auto.
      + binv E. binv E. binv E. auto.
      + binv E. binv E. auto.
  Qed.

  Theorem add_events_frame s evs s' : add_eventsM s evs = Ok s' -> wf_sys s -> wf_sys s' /\ same_frame s s'.
  Proof. intros H. apply add_events_nodes in H. destruct H. apply frame_same_nodes; auto. Qed.

  Theorem deliver_frame s proc k s' : deliverM s proc k = Ok s' -> wf_sys s -> wf_sys s' /\ same_frame s s'.
  Proof.
    intros H. unfold deliver in H.
    destruct (sgetN proc (n_loc (s_net s))) as [nname|]; [|discriminate].
    destruct (sgetN nname (s_nodes s)) as [nd|] eqn:Eg; [|discriminate].
    binv H. destruct a as [[nd' evs] logs]. apply add_events_nodes in H. destruct H as [H1 H2].
    cbn [s_nodes s_mf sys_with] in H1, H2.
    eapply frame_upd_node; eauto. eapply node_handle_frame; eauto.
  Qed.

  Theorem apply_event_frame s a s' : apply_eventM s a = Ok s' -> wf_sys s -> wf_sys s' /\ same_frame s s'.
  Proof.
    intros H Hw. unfold apply_event in H.
    destruct a as [[m src dst o|p n d]|m src dst|m src dst|m cm src dst].
    - exact (deliver_frame _ _ _ _ H Hw).
    - exact (deliver_frame _ _ _ _ H Hw).
    - binv H. apply frame_same_nodes; auto.
    - binv H. apply frame_same_nodes; auto.
    - binv H. apply frame_same_nodes; auto.
  Qed.

  Theorem send_local_frame s node proc m s' :
    send_localM s node proc m = Ok s' -> wf_sys s -> wf_sys s' /\ same_frame s s'.
  Proof.
    intros H. unfold send_local in H. cbn [s_nodes s_net s_events s_depth s_trace sys_with] in H.
    destruct (sgetN node (s_nodes s)) as [nd|] eqn:Eg; [|discriminate].
    binv H. destruct a as [[nd' evs] logs]. apply add_events_nodes in H. destruct H as [H1 H2].
    cbn [s_nodes s_mf sys_with] in H1, H2.
    eapply frame_upd_node; eauto. eapply node_handle_frame; eauto.
  Qed.

  Theorem crash_node_frame s node s' : crash_nodeM s node = Ok s' -> wf_sys s -> wf_sys s' /\ same_frame s s'.
  Proof.
    intros H. unfold crash_node in H.
    destruct (sgetN node (s_nodes s)) as [nd|] eqn:Eg; [|discriminate].
    binv H. destruct a as [st tr']. binv H.
    eapply frame_upd_node; [reflexivity|reflexivity|exact Eg|].
    intros Hs. cbn [nd_procs]. split; auto. split; reflexivity.
  Qed.

  (* the preliminary callback: everything but CbMode keeps the ordering mode; CbMode changes nothing else *)
  Theorem cb_apply_frame s o s' :
    cb_applyM s o = Ok s' -> wf_sys s ->
    wf_sys s' /\ frame_nomf s s' /\
    match o with CbMode mf => s' = set_mf s mf | _ => s_mf s = s_mf s' end.
  Proof.
    intros H Hw. destruct o as [node proc m|node|mf|o']; cbn [cb_apply] in H.
    - destruct (send_local_frame _ _ _ _ _ H Hw) as [A B]. split; [|split]; auto using same_frame_nomf, same_frame_mf.
    - destruct (crash_node_frame _ _ _ H Hw) as [A B]. split; [|split]; auto using same_frame_nomf, same_frame_mf.
    - binv H. split; [|split]; auto. apply frame_nomf_set_mf.
    - binv H. split; [|split]; auto. exact (frame_nomf_refl s).
  Qed.

  Theorem cb_apply_same_frame s o s' :
    (forall mf, o <> CbMode mf) -> cb_applyM s o = Ok s' -> wf_sys s -> wf_sys s' /\ same_frame s s'.
  Proof.
    intros Ho H Hw. destruct (cb_apply_frame _ _ _ H Hw) as (A & B & C). split; auto.
    apply same_frame_intro; auto. destruct o; auto. exfalso. eapply Ho; eauto.
  Qed.

  Theorem cb_run_frame ops : forall s s', cb_runM s ops = Ok s' -> wf_sys s -> wf_sys s' /\ frame_nomf s s'.
  Proof.
    induction ops as [|o r IH]; intros s s' H Hw; cbn [cb_run] in H.
    - binv H. split; auto. apply frame_nomf_refl.
    - binv H. destruct (cb_apply_frame _ _ _ E Hw) as (A & B & _).
      destruct (IH _ _ H A) as [C D]. split; auto. eapply frame_nomf_trans; eauto.
  Qed.

  Theorem take_choice_frame s c s' : take_choiceM s c = Ok s' -> wf_sys s -> wf_sys s' /\ same_frame s s'.
  Proof.
    intros H Hw. destruct c as [i|i|i|i]; cbn [take_choice] in H; binv H; destruct a as [st e].
    - exact (apply_event_frame _ _ _ H Hw).
    - destruct e as [m src dst o|p n d]; [|discriminate]. exact (apply_event_frame _ _ _ H Hw).
    - destruct e as [m src dst o|p n d]; [|discriminate]. binv H. exact (apply_event_frame _ _ _ H Hw).
    - destruct e as [m src dst [x|d k c]|p n d]; try discriminate.
      destruct (N.eqb k 0); [discriminate|]. binv H. binv H. destruct a0 as [st2 i2].
      exact (apply_event_frame _ _ _ H Hw).
  Qed.

  (* ---------------- T3: every exploration step restores the system exactly ---------------- *)
  Theorem search_step_restores s c s'' st : wf_sys s -> search_stepM s c = Ok (s'', st) -> s'' = s.
  Proof.
    intros Hw H. unfold search_step in H. binv H. rename a into s1.
    destruct (take_choice_frame _ _ _ E Hw) as [Hw1 Hf].
    rewrite (set_get_state s s1) in H by auto. cbn [bind] in H. binv H. reflexivity.
  Qed.

  Theorem search_step_state s c s'' st :
    search_stepM s c = Ok (s'', st) -> exists s1, take_choiceM s c = Ok s1 /\ st = get_state s1.
  Proof.
    intros H. unfold search_step in H. binv H. binv H. binv H. eauto.
  Qed.

  Theorem steps_of_restores cs : forall s s' l, wf_sys s -> steps_ofM s cs = Ok (s', l) -> s' = s.
  Proof.
    induction cs as [|c r IH]; intros s s' l Hw H; cbn [steps_of] in H.
    - binv H. reflexivity.
    - binv H. destruct a as [s1 st]. binv H. destruct a as [s2 sts]. binv H.
      apply search_step_restores in E; auto. subst s1. eapply IH; eauto.
  Qed.

  Theorem expand_sys_restores s s' l : wf_sys s -> expand_sysM s = Ok (s', l) -> s' = s.
  Proof.
    intros Hw H. unfold expand_sys in H. binv H. eapply steps_of_restores; eauto.
  Qed.

  (* ---------------- T4: run_impl rolls the system back, whatever the result ---------------- *)
  Definition started (sys : mcsys) : mcsys :=
    {| s_nodes := s_nodes sys; s_net := s_net sys; s_events := s_events sys; s_depth := s_depth sys;
       s_mf := s_mf sys; s_trace := s_trace sys ++ [LMcStarted] |}.

  Lemma run_impl_restore sys cb s2 :
    wf_sys sys -> cb_runM (started sys) cb = Ok s2 ->
    set_state s2 (get_state sys) = Ok (set_mf sys (s_mf s2)).
  Proof.
    intros Hw Hcb.
    destruct (cb_run_frame _ _ _ Hcb Hw) as [Hw2 Hf2].
    apply set_get_state_nomf; auto.
  Qed.

  Theorem run_impl_rolls_back cf pr sys cb ss sys' res ss' :
    wf_sys sys -> run_implM cf pr sys cb ss = Ok (sys', res, ss') -> sys' = sys.
  Proof.
    intros Hw H. unfold run_impl in H. fold (started sys) in H. cbv zeta in H.
    binv H. rename a into s2.
    rewrite (run_impl_restore sys cb s2 Hw E) in H. cbn [bind] in H.
    assert (Hs4 : {| s_nodes := s_nodes (set_mf sys (s_mf s2)); s_net := s_net (set_mf sys (s_mf s2));
                     s_events := s_events (set_mf sys (s_mf s2)); s_depth := s_depth (set_mf sys (s_mf s2));
                     s_mf := s_mf sys; s_trace := s_trace (set_mf sys (s_mf s2)) |} = sys)
      by (destruct sys; reflexivity).
    rewrite Hs4 in H.
    destruct (run_strategy _ _ _ _ _ _ _ _ _ _ _ _ _ _ _); binv H; reflexivity.
  Qed.

  (* the only way run_impl itself can fail is a failing preliminary callback: the rollback never panics *)
  Theorem run_impl_total cf pr sys cb ss s2 :
    wf_sys sys -> cb_runM (started sys) cb = Ok s2 -> exists res ss', run_implM cf pr sys cb ss = Ok (sys, res, ss').
  Proof.
    intros Hw Hcb.
    destruct (run_implM cf pr sys cb ss) as [[[sys' res] ss']|t] eqn:H.
    - apply run_impl_rolls_back in H as Hr; auto. subst sys'. eauto.
    - exfalso. unfold run_impl in H. fold (started sys) in H. cbv zeta in H.
      rewrite Hcb in H. cbn [bind] in H.
      rewrite (run_impl_restore sys cb s2 Hw Hcb) in H. cbn [bind] in H.
      destruct (run_strategy _ _ _ _ _ _ _ _ _ _ _ _ _ _ _); discriminate.
  Qed.

  (* T6 *)
  Theorem run_twice_same cf pr sys cb sys' res ss' :
    wf_sys sys -> runM cf pr sys cb = Ok (sys', res, ss') -> runM cf pr sys' cb = Ok (sys', res, ss').
  Proof.
    intros Hw H. assert (Hs : sys' = sys) by (eapply run_impl_rolls_back; eauto). rewrite Hs at 1. exact H.
  Qed.

  (* ---------------- T5: run_from_states rolls the system back ---------------- *)
  (* the system run_starts hands back has the frame of the one it was given: every iteration is a set_state
     to a start state (frame kept if Ok) followed by a run_impl (exact rollback) *)
  Theorem run_starts_frame cf pr cb starts : forall sys ss stat coll sys' res ss',
    wf_sys sys -> run_startsM cf pr sys cb starts ss stat coll = Ok (sys', res, ss') ->
    wf_sys sys' /\ same_frame sys sys'.
  Proof.
    induction starts as [|st r IH]; intros sys ss stat coll sys' res ss' Hw H; cbn [run_starts] in H.
    - binv H. split; auto. apply same_frame_refl.
    - binv H. rename a into s1. binv H. destruct a as [[s2 res1] ss1].
      destruct (set_state_frame _ _ _ E Hw) as [Hw1 Hf1].
      assert (Hs2 : s2 = s1) by (eapply run_impl_rolls_back; eauto). subst s2.
      destruct res1 as [stat' coll'|m tr| |t].
      + destruct (IH _ _ _ _ _ _ _ Hw1 H) as [A B]. split; auto. eapply same_frame_trans; eauto.
      + binv H. auto.
      + binv H. auto.
      + binv H. auto.
  Qed.

  (* no hypothesis on the start states or on ord is needed: see the header *)
  Theorem run_from_states_rolls_back ord cf pr sys cb starts sys' res ss' :
    wf_sys sys -> run_from_statesM ord cf pr sys cb starts = Ok (sys', res, ss') -> sys' = sys.
  Proof.
    intros Hw H. unfold run_from_states in H. binv H. destruct a as [[s1 res1] ss1]. binv H. binv H.
    destruct (run_starts_frame _ _ _ _ _ _ _ _ _ _ _ Hw E) as [Hw1 Hf1].
    rewrite (set_get_state sys s1) in E0 by auto. binv E0. reflexivity.
  Qed.

  Theorem run_from_states_twice_same ord cf pr sys cb starts sys' res ss' :
    wf_sys sys -> run_from_statesM ord cf pr sys cb starts = Ok (sys', res, ss') ->
    run_from_statesM ord cf pr sys' cb starts = Ok (sys', res, ss').
  Proof.
    intros Hw H. assert (Hs : sys' = sys) by (eapply run_from_states_rolls_back; eauto). rewrite Hs at 1. exact H.
  Qed.

  (* the statement as requested, with the (unused) hypotheses on the start states *)
  Corollary run_from_states_rolls_back_fits ord cf pr sys cb starts sys' res ss' :
    wf_sys sys -> Forall (state_fits sys) (ord starts) ->
    run_from_statesM ord cf pr sys cb starts = Ok (sys', res, ss') -> sys' = sys.
  Proof. intros Hw _. apply run_from_states_rolls_back. exact Hw. Qed.

  (* ---------------- what state_fits is for: no panic from set_state anywhere in run_from_states ---------------- *)
  Lemma state_fits_frame s s1 st : frame_nomf s s1 -> state_fits s st -> state_fits s1 st.
  Proof.
    intros [Hk Hf] [Hk' Hfit]. split; [congruence|].
    apply nodes_frame_sym in Hf.
    eapply (keyrel_trans node_frame node_fits node_fits); [|exact Hf|exact Hfit].
    intros a b c [_ Hab] Hbc. unfold node_fits in *. congruence.
  Qed.

  Lemma in_insert_stable (x y : mcstate) l : In y (insert_stable so tr_cmp x l) -> y = x \/ In y l.
  Proof.
    induction l as [|z r IH]; cbn [insert_stable].
    - intros [H|[]]; auto.
    - destruct (start_cmp so tr_cmp x z); cbn [In]; intros H.
      + destruct H as [H|H]; auto. apply IH in H. tauto.
      + destruct H as [H|H]; auto.
      + destruct H as [H|H]; auto. apply IH in H. tauto.
  Qed.

  Lemma in_sort_starts (y : mcstate) l : In y (sort_starts so tr_cmp l) -> In y l.
  Proof.
    unfold sort_starts.
    assert (G : forall (l acc : list mcstate), In y (fold_left (fun acc x => insert_stable so tr_cmp x acc) l acc) -> In y acc \/ In y l).
    { clear l. induction l as [|x r IH]; cbn [fold_left]; intros acc H; auto.
      apply IH in H. destruct H as [H|H]; [|right; right; auto].
      apply in_insert_stable in H. destruct H as [->|H]; [right; left|left]; auto. }
    intros H. apply G in H. destruct H as [[]|H]. exact H.
  Qed.

  Theorem run_starts_total cf pr cb sys0 starts :
    (forall s1, wf_sys s1 -> same_frame sys0 s1 -> exists s2, cb_runM (started s1) cb = Ok s2) ->
    Forall (state_fits sys0) starts ->
    forall sys ss stat coll, wf_sys sys -> same_frame sys0 sys ->
      exists sys' res ss', run_startsM cf pr sys cb starts ss stat coll = Ok (sys', res, ss').
  Proof.
    intros Hcb. induction 1 as [|st r Hfit _ IH]; intros sys ss stat coll Hw Hf; cbn [run_starts].
    - eauto.
    - destruct (set_state_fits sys st Hw) as (s1 & Hset & _ & Hf1 & Hw1).
      { eapply state_fits_frame; [|exact Hfit]. apply same_frame_nomf. exact Hf. }
      assert (Hf01 : same_frame sys0 s1) by (eapply same_frame_trans; eauto).
      destruct (Hcb s1 Hw1 Hf01) as [s2 Hs2].
      destruct (run_impl_total cf pr s1 cb ss s2 Hw1 Hs2) as (res & ss1 & Hrun).
      rewrite Hset. cbn [bind]. rewrite Hrun. cbn [bind].
      destruct res; eauto.
  Qed.

  (* if every start state fits and the preliminary callback does not fail, run_from_states does not fail and
     returns the system it was given *)
  Theorem run_from_states_total ord cf pr sys cb starts :
    wf_sys sys -> Forall (state_fits sys) starts -> (forall l x, In x (ord l) -> In x l) ->
    (forall s1, wf_sys s1 -> same_frame sys s1 -> exists s2, cb_runM (started s1) cb = Ok s2) ->
    exists res ss', run_from_statesM ord cf pr sys cb starts = Ok (sys, res, ss').
  Proof.
    intros Hw Hfit Hord Hcb. unfold run_from_states.
    assert (Hfit' : Forall (state_fits sys) (sort_starts so tr_cmp (ord starts))).
    { rewrite Forall_forall in *. intros x Hx. apply Hfit. eapply Hord. apply in_sort_starts. exact Hx. }
    destruct (run_starts_total cf pr cb sys _ Hcb Hfit' sys (ss_empty mcstate) [] [] Hw (same_frame_refl sys))
      as (s1 & res & ss1 & Hrun).
    rewrite Hrun. cbn [bind].
    destruct (run_starts_frame _ _ _ _ _ _ _ _ _ _ _ Hw Hrun) as [Hw1 Hf1].
    rewrite (set_get_state sys s1) by auto. cbn [bind]. eauto.
  Qed.
End Restore.

Print Assumptions set_get_state.
Print Assumptions set_get_state_nomf.
Print Assumptions set_state_fits.
Print Assumptions get_state_inj.
Print Assumptions set_state_frame.
Print Assumptions node_handle_frame.
Print Assumptions add_events_frame.
Print Assumptions deliver_frame.
Print Assumptions apply_event_frame.
Print Assumptions send_local_frame.
Print Assumptions crash_node_frame.
Print Assumptions cb_apply_frame.
Print Assumptions cb_run_frame.
Print Assumptions take_choice_frame.
Print Assumptions search_step_restores.
Print Assumptions steps_of_restores.
Print Assumptions expand_sys_restores.
Print Assumptions run_impl_rolls_back.
Print Assumptions run_impl_total.
Print Assumptions run_starts_frame.
Print Assumptions run_from_states_rolls_back.
Print Assumptions run_twice_same.
Print Assumptions run_from_states_twice_same.
Print Assumptions run_from_states_rolls_back_fits.
Print Assumptions run_starts_total.
Print Assumptions run_from_states_total.
