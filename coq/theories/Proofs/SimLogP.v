(* PROPERTY C17 -- logs, event logs, counters and outboxes tell one consistent story
   (and the last theorem of the simulator half of C07, fires_at_most_once, which needs the trace invariants).

   Method.  SimBaseP.v presents every `sim_op` that returns Ok as a finite sequence of atomic transitions (`sstep`:
   pop an event, start a handler invocation, perform ONE action, peek, set the clock, drain an outbox, or a non-stepping
   API call); `reachable_inv` turns a per-transition invariant into an invariant of all Reachable states.  The handler
   is an arbitrary Section variable; no law of the time algebra is used.  The ONLY assumption is the Section hypothesis
       crash_perm : forall l, Permutation (crash_order l) l
   (the heap's iteration order at a crash is a permutation); it is used for L5 only (counting the logged drops).

   LogInv s  (record; `log_inv_reachable : Reachable s -> LogInv s`)
     li_base  BaseInv s        structural facts (SimBaseP.v)
     li_net   NetLogInv s      L2
     li_cnt   PInv Q_cnt s     L1      PInv Q s: for every process entry pe of p in sd_procs of a node nn:
     li_ev    PInv Q_ev s      L3              Q nn p (since p (y_log s)) pe,
     li_tm    PInv Q_tm s      L6      where `since p l` is the trace after the last LProcessStarted entry of p
     li_fate  FateInv s        L5      (since_spec).
     li_id    IdInv s          L6
   plus the ghost invariant PInv (Q_out g) for L4 (out_sstep/out_sstar) and FireInv (fire_reachable).

   Theorems (exact statements at the end of the Section)
   L1 sent_counter        pe_sent pe = cnt (sent_by p) (since p (y_log s)), pe_recv pe = cnt (recv_by p) (since p (y_log s))
                          for every installed process (also on crashed nodes).
   L2 network_counters    sn_msg_count = #LMessageSent, sn_net_count = #inter-node LMessageSent, sn_traffic = sum of
                          msg_size over those, and the k-th LMessageSent entry has msg_id k.
   L3 event_log_agrees    Agree nn p (pe_evlog pe) (trace entries owned by p since its start) (pe_ptimers pe):
                          an inductive merge relation saying entry by entry which event-log item corresponds to which
                          trace entry (equal times), which actions leave no trace entry (set_timer_once on a pending name,
                          cancel_timer on a free name) and that LTimerFired has no event-log item; it also determines the
                          pending-timer map.  Per invocation: Q_ev_pre (prologue of node_handle) and Q_ev_act (one
                          action), to be combined with SimBaseP.node_handle_sys.  Corollary event_log_messages: the message
                          items of the event log = the message entries of the trace (projection equality).
                          NOTE "event log = projection of the trace" is FALSE for timer actions (Example
                          ignored_actions_witness at the end of the file, evaluated by vm_compute): that is why L3 is
                          stated with Agree, as the task description anticipates.
   L4 outbox_reads        along any script from the empty System:
                            lsent p (since p (y_log s)) = returned p (labels of the script) ++ pe_outbox pe
                          where `returned p` replays the reads reported to the caller (YReadLocal and the YStepUntilLocal family) since
                          the last add_process of p;  read_local_spec: read_local returns exactly the outbox and empties it
                          (None and no change when it is empty).
   L5 one_fate            received i + dropped i + in_flight i <= 3, and = 0 for ids not yet sent;
      one_fate_step / new_fates_use_live_copies: along every API call, for every id already sent,
                            (new received) + (new dropped) + in_flight' <= in_flight
                          i.e. every new LMessageReceived/LMessageDropped entry consumes a distinct live copy (so a copy has
                          at most one fate, is never received twice, never received and dropped).
                          CHANGE w.r.t. the suggested formulation `received + dropped + live + silently_cancelled = emitted`:
                          `emitted` and `silently_cancelled` are not functions of the state and the trace (the number of
                          copies is not logged; copies addressed to a crashed node, or popped while the node has no handler,
                          vanish without a trace entry), so an equality would need ghost state.  The potential
                          phi = received + dropped + in_flight is its ghost-free form: phi <= emitted <= 3 at the send
                          (a send dropped at send time contributes exactly its one LMessageDropped entry) and phi never
                          increases afterwards (fate_sstep, for every atomic transition).
   L6 timer_ids           LTimerSet ids are strictly increasing along the trace and below q_count (they are queue ids);
      timer_refs          every LTimerFired / LTimerCancelled entry is preceded by an LTimerSet entry with the same id, name,
                          node and process;
      local_ids_distinct  the (node, count) parts of local message ids are pairwise distinct (hence node-proc-count too);
                          IdInv also bounds them by sd_lcount.
   C07 fires_at_most_once before an LTimerFired entry for id i (name n, node nn, process p) there is no LTimerFired or
                          LTimerCancelled entry with id i and no later LTimerSet entry of (n, nn, p) (an override). *)
From Coq Require Import List Arith NArith ZArith Bool Lia Permutation.
From ASV Require Import Base.Util Base.Msg Base.Log Proofs.UtilP Model.Sim Spec.TimeLaws Spec.SimSpec Proofs.SimBaseP Proofs.SimTimerP.
Import ListNotations.
Open Scope N_scope.

(* ================================================================================================ *)
(* counting                                                                                          *)
(* ================================================================================================ *)
Definition cnt {A} (f : A -> bool) (l : list A) : N := N.of_nat (length (filter f l)).
Definition sumN {A} (f : A -> N) (l : list A) : N := fold_right (fun e acc => f e + acc) 0 l.

Lemma cnt_nil {A} (f : A -> bool) : cnt f [] = 0.
Proof. reflexivity. Qed.

Lemma cnt_app {A} (f : A -> bool) l1 l2 : cnt f (l1 ++ l2) = cnt f l1 + cnt f l2.
Proof. unfold cnt. rewrite filter_app, app_length. lia. Qed.

Lemma cnt_cons {A} (f : A -> bool) x l : cnt f (x :: l) = (if f x then 1 else 0) + cnt f l.
Proof. unfold cnt. cbn. destruct (f x); cbn [length]; lia. Qed.

Lemma cnt_none {A} (f : A -> bool) l : (forall x, In x l -> f x = false) -> cnt f l = 0.
Proof.
  intros H. unfold cnt. replace (filter f l) with (@nil A); auto.
  symmetry. induction l as [|x r IH]; cbn; auto. rewrite H by (left; auto). apply IH. intros y Hy. apply H. right. auto.
Qed.

Lemma cnt_ext_in {A} (f g : A -> bool) l : (forall x, In x l -> f x = g x) -> cnt f l = cnt g l.
Proof. intros H. unfold cnt. rewrite (filter_ext_in _ _ _ H). reflexivity. Qed.

Lemma cnt_filter {A} (f g : A -> bool) l : cnt f (filter g l) = cnt (fun x => g x && f x) l.
Proof. unfold cnt. rewrite filter_filter. reflexivity. Qed.

Lemma cnt_perm {A} (f : A -> bool) l1 l2 : Permutation l1 l2 -> cnt f l1 = cnt f l2.
Proof.
  intros H. induction H; auto.
  - rewrite !cnt_cons. lia.
  - rewrite !cnt_cons. lia.
  - congruence.
Qed.

Lemma sumN_app {A} (f : A -> N) l1 l2 : sumN f (l1 ++ l2) = sumN f l1 + sumN f l2.
Proof.
  induction l1 as [|x r IH]; [reflexivity|]. cbn [app]. unfold sumN in *. cbn [fold_right]. rewrite IH. lia.
Qed.

Lemma sumN_zero {A} (f : A -> N) l : (forall x, In x l -> f x = 0) -> sumN f l = 0.
Proof.
  induction l as [|x r IH]; intros H; [reflexivity|]. unfold sumN in *. cbn [fold_right].
  rewrite H by (left; auto). rewrite IH; auto. intros y Hy. apply H. right. auto.
Qed.

Definition nseq (n : N) : list N := map N.of_nat (seq 0 (N.to_nat n)).

Lemma nseq_succ n : nseq (n + 1) = nseq n ++ [n].
Proof.
  unfold nseq. replace (N.to_nat (n + 1)) with (N.to_nat n + 1)%nat by lia.
  rewrite seq_app, map_app. cbn. rewrite N2Nat.id. reflexivity.
Qed.

Lemma flat_map_nil_in {A B} (f : A -> list B) l : (forall x, In x l -> f x = []) -> flat_map f l = [].
Proof.
  induction l as [|x r IH]; cbn; intros H; auto. rewrite H by auto. rewrite IH; auto.
Qed.

Lemma cnt_le_imp {A} (f g : A -> bool) l : (forall x, In x l -> f x = true -> g x = true) -> cnt f l <= cnt g l.
Proof.
  induction l as [|x r IH]; intros H; [cbn; lia|]. rewrite !cnt_cons.
  assert (cnt f r <= cnt g r) by (apply IH; intros y Hy; apply H; right; auto).
  specialize (H x (or_introl eq_refl)). destruct (f x), (g x); try lia.
Qed.

Lemma cnt_split {A} (f g : A -> bool) l : cnt f l = cnt (fun x => g x && f x) l + cnt (fun x => negb (g x) && f x) l.
Proof.
  induction l as [|x r IH]; [reflexivity|]. rewrite !cnt_cons, IH. destruct (g x), (f x); cbn [andb negb]; lia.
Qed.

Lemma cnt_filter_le {A} (f g : A -> bool) l : cnt f (filter g l) <= cnt f l.
Proof. rewrite cnt_filter. apply cnt_le_imp. intros x _ H. apply andb_true_iff in H. tauto. Qed.

Lemma cnt_le_length {A} (f : A -> bool) l : cnt f l <= N.of_nat (length l).
Proof.
  induction l as [|x r IH]; [cbn; lia|]. rewrite cnt_cons. cbn [length]. destruct (f x); lia.
Qed.

Lemma cnt_all {A} (f : A -> bool) l : (forall x, In x l -> f x = true) -> cnt f l = N.of_nat (length l).
Proof. intros H. unfold cnt. rewrite filter_id_in; auto. Qed.

Lemma app_eq_mid {A} (l l' l1 l2 : list A) e :
  l ++ l' = l1 ++ e :: l2 ->
  (exists l2a, l = l1 ++ e :: l2a /\ l2 = l2a ++ l') \/ (exists l1b, l1 = l ++ l1b /\ l' = l1b ++ e :: l2).
Proof.
  revert l1. induction l as [|x r IH]; intros l1 H.
  - right. exists l1. auto.
  - destruct l1 as [|y l1]; cbn in H.
    + inversion H; subst. left. exists r. auto.
    + inversion H; subst. destruct (IH _ H2) as [[l2a [E1 E2]]|[l1b [E1 E2]]].
      * left. exists l2a. subst. auto.
      * right. exists l1b. subst. auto.
Qed.

(* every element is fine with respect to the prefix before it *)
Definition prefix_ok {A} (P : list A -> A -> Prop) (l : list A) : Prop :=
  forall l1 e l2, l = l1 ++ e :: l2 -> P l1 e.

Lemma prefix_ok_nil {A} (P : list A -> A -> Prop) : prefix_ok P [].
Proof. intros l1 e l2 H. destruct l1; discriminate. Qed.

Lemma prefix_ok_app {A} (P : list A -> A -> Prop) l l' :
  prefix_ok P l -> (forall l1 e l2, l' = l1 ++ e :: l2 -> P (l ++ l1) e) -> prefix_ok P (l ++ l').
Proof.
  intros H1 H2 l1 e l2 E. apply app_eq_mid in E. destruct E as [[l2a [E1 E2]]|[l1b [E1 E2]]].
  - eapply H1; eauto.
  - subst l1. eapply H2; eauto.
Qed.

Section SimLog.
  Context {T : Type} (ops : time_ops T).
  Context {PS : Type}.
  Variable handler : N -> PS -> input -> T -> (nat -> T) -> PS * list (action T) * nat.
  Variable init_state : N -> PS.
  Variable draws : nat -> T.
  Variable crash_order : list (@qevent T) -> list (@qevent T).
  (* the only assumption on the heap's iteration order at a crash *)
  Hypothesis crash_perm : forall l, Permutation (crash_order l) l.

  Notation simq := (@simq T).
  Notation qevent := (@qevent T).
  Notation simnet := (@simnet T).
  Notation logentry := (logentry T).
  Notation pentry := (pentry T PS).
  Notation action := (action T).
  Notation simnode := (@simnode T PS).
  Notation world := (@world T).
  Notation simsys := (@simsys T PS).
  Notation node_action := (node_action ops draws).
  Notation sys_action := (sys_action ops draws).
  Notation sim_op := (sim_op ops handler init_state draws crash_order).
  Notation run_ops := (run_ops ops handler init_state draws crash_order).
  Notation Reachable := (Reachable ops handler init_state draws crash_order).
  Notation sstep := (sstep ops handler init_state draws crash_order).
  Notation sstar := (sstar ops handler init_state draws crash_order).

  (* ---------------- classification of trace entries ---------------- *)
  Definition is_sent (e : logentry) : bool := match e with LMessageSent _ _ _ _ _ _ _ => true | _ => false end.
  Definition is_cross (e : logentry) : bool :=
    match e with LMessageSent _ _ sn _ dn _ _ => negb (N.eqb sn dn) | _ => false end.
  Definition cross_size (e : logentry) : N :=
    match e with LMessageSent _ _ sn _ dn _ m => if N.eqb sn dn then 0 else msg_size m | _ => 0 end.
  Definition sent_ids (l : list logentry) : list N :=
    flat_map (fun e => match e with LMessageSent _ i _ _ _ _ _ => [i] | _ => [] end) l.

  Lemma sent_ids_app l1 l2 : sent_ids (l1 ++ l2) = sent_ids l1 ++ sent_ids l2.
  Proof. apply flat_map_app. Qed.

  Lemma sent_ids_none l : (forall e, In e l -> is_sent e = false) -> sent_ids l = [].
  Proof.
    intros H. apply flat_map_nil_in. intros e He. apply H in He. destruct e; try reflexivity; discriminate.
  Qed.

  Lemma is_cross_sent e : is_sent e = false -> is_cross e = false /\ cross_size e = 0.
  Proof. destruct e; cbn; auto; discriminate. Qed.

  (* ================================================================================================ *)
  (* L2: network counters                                                                             *)
  (* ================================================================================================ *)
  Record NetLogInv (s : simsys) : Prop := {
    nl_ids : sent_ids (y_log s) = nseq (sn_msg_count (y_net s));
    nl_msg : sn_msg_count (y_net s) = cnt is_sent (y_log s);
    nl_net : sn_net_count (y_net s) = cnt is_cross (y_log s);
    nl_traffic : sn_traffic (y_net s) = sumN cross_size (y_log s) }.

  (* what a transition appends to the trace, as far as LMessageSent entries and the network counters go *)
  Definition same_counters (n n' : simnet) : Prop :=
    sn_msg_count n' = sn_msg_count n /\ sn_net_count n' = sn_net_count n /\ sn_traffic n' = sn_traffic n.

  Definition sent_delta (s s' : simsys) : Prop :=
    exists l', y_log s' = y_log s ++ l' /\
      ((forall e, In e l' -> is_sent e = false) /\ same_counters (y_net s) (y_net s') \/
       exists t sn sp dn dp m rest,
         l' = LMessageSent t (sn_msg_count (y_net s)) sn sp dn dp m :: rest /\
         (forall e, In e rest -> is_sent e = false) /\
         sn_msg_count (y_net s') = sn_msg_count (y_net s) + 1 /\
         sn_net_count (y_net s') = (if N.eqb sn dn then sn_net_count (y_net s) else sn_net_count (y_net s) + 1) /\
         sn_traffic (y_net s') = (if N.eqb sn dn then sn_traffic (y_net s) else sn_traffic (y_net s) + msg_size m)).

  Lemma sent_delta_quiet (s s' : simsys) l' :
    y_log s' = y_log s ++ l' -> (forall e, In e l' -> is_sent e = false) -> same_counters (y_net s) (y_net s') ->
    sent_delta s s'.
  Proof. intros A B C. exists l'. split; auto. Qed.

  Lemma same_counters_refl (n : simnet) : same_counters n n.
  Proof. unfold same_counters. auto. Qed.

  Lemma netlog_delta (s s' : simsys) : NetLogInv s -> sent_delta s s' -> NetLogInv s'.
  Proof.
    intros [I1 I2 I3 I4] [l' [El H]]. destruct H as [[Hq [C1 [C2 C3]]]|H].
    - constructor; rewrite El, ?C1, ?C2, ?C3.
      + rewrite sent_ids_app, (sent_ids_none l'), app_nil_r; auto.
      + rewrite cnt_app, (cnt_none is_sent l'); auto. lia.
      + rewrite cnt_app, (cnt_none is_cross l'); [lia|]. intros e He. apply is_cross_sent. auto.
      + rewrite sumN_app, (sumN_zero cross_size l'); [lia|]. intros e He. apply is_cross_sent. auto.
    - destruct H as (t & sn & sp & dn & dp & m & rest & -> & Hr & C1 & C2 & C3).
      constructor; rewrite El, ?C1, ?C2, ?C3.
      + rewrite sent_ids_app. cbn [sent_ids flat_map]. fold (sent_ids rest).
        rewrite (sent_ids_none rest); auto. rewrite nseq_succ, I1. reflexivity.
      + rewrite cnt_app, cnt_cons, (cnt_none is_sent rest); auto. cbn [is_sent]. lia.
      + rewrite cnt_app, cnt_cons, (cnt_none is_cross rest).
        2:{ intros e He. apply is_cross_sent. auto. }
        cbn [is_cross]. destruct (N.eqb sn dn); cbn [negb]; lia.
      + rewrite sumN_app. cbn [sumN fold_right]. fold (sumN cross_size rest).
        rewrite (sumN_zero cross_size rest).
        2:{ intros e He. apply is_cross_sent. auto. }
        cbn [cross_size]. destruct (N.eqb sn dn); lia.
  Qed.
  (* ---------------- the entries the non-handler transitions append ---------------- *)
  Definition is_ctl (e : logentry) : bool :=
    match e with
    | LNodeStarted _ _ _ | LNodeDisconnected _ _ | LNodeConnected _ _ | LNodeCrashed _ _ | LNodeRecovered _ _
    | LLinkDisabled _ _ _ | LLinkEnabled _ _ _ | LDropIncoming _ _ | LPassIncoming _ _ | LDropOutgoing _ _
    | LPassOutgoing _ _ | LNetworkPartition _ _ _ | LNetworkReset _ => true
    | _ => false
    end.
  Definition is_dropped (e : logentry) : bool := match e with LMessageDropped _ _ _ _ _ _ _ => true | _ => false end.

  Lemma snet_apply_logs (n : simnet) t o n' logs :
    snet_apply n t o = (n', logs) ->
    same_counters n n' /\ (forall e, In e logs -> is_ctl e = true).
  Proof.
    destruct o; cbn; intros H; inv H; (split; [unfold same_counters; cbn; auto|]); intros e He;
      repeat (destruct He as [<-|He]; [reflexivity|]); contradiction.
  Qed.

  Definition crash_drops (t : T) (l : list qevent) : list logentry :=
    flat_map (fun e => match q_data e with
                       | QMsg mid m src sn dst dn => [LMessageDropped t mid sn src dn dst m]
                       | QTimer _ _ => []
                       end) l.

  Lemma crash_drops_dropped t l e : In e (crash_drops t l) -> is_dropped e = true.
  Proof.
    unfold crash_drops. intros H. apply in_flat_map in H. destruct H as [x [_ H]].
    destruct (q_data x); [|contradiction]. destruct H as [<-|[]]. reflexivity.
  Qed.

  (* the state after crash_node, spelled out *)
  Lemma crash_state (s : simsys) node s' r :
    sim_op 0 s (YCrash node) = Ok (s', r) ->
    exists nd, sget N.compare node (y_nodes s) = Some nd /\
      y_log s' = y_log s ++ LNodeCrashed (now s) node ::
                   crash_drops (now s) (crash_order (filter (fun e => N.eqb (q_src e) (sd_id nd)) (q_live (y_q s)))) /\
      y_net s' = y_net s /\
      y_q s' = q_cancel_pred (q_cancel_pred (y_q s) (fun e => N.eqb (q_src e) (sd_id nd)))
                             (fun e => N.eqb (q_dst e) (sd_id nd)) /\
      y_nodes s' = sins N.compare node {| sd_id := sd_id nd; sd_procs := sd_procs nd; sd_skew := sd_skew nd;
                                          sd_crashed := true; sd_lcount := sd_lcount nd |} (y_nodes s) /\
      y_proc_nodes s' = y_proc_nodes s.
  Proof.
    cbn [Sim.sim_op]. destruct (sget N.compare node (y_nodes s)) as [nd|]; [|discriminate]. intros H. inv H.
    exists nd. unfold set_handler, y_with. cbn. auto 10.
  Qed.

  Lemma recover_state (s : simsys) node s' r :
    sim_op 0 s (YRecover node) = Ok (s', r) ->
    exists nd, sget N.compare node (y_nodes s) = Some nd /\ sd_crashed nd = true /\
      y_log s' = y_log s ++ [LNodeRecovered (now s) node] /\ y_net s' = y_net s /\ y_q s' = y_q s /\
      y_nodes s' = sins N.compare node {| sd_id := sd_id nd; sd_procs := []; sd_skew := sd_skew nd;
                                          sd_crashed := false; sd_lcount := sd_lcount nd |} (y_nodes s) /\
      y_proc_nodes s' = filter (fun pn => negb (N.eqb (snd pn) node)) (y_proc_nodes s).
  Proof.
    cbn [Sim.sim_op]. destruct (sget N.compare node (y_nodes s)) as [nd|]; [|discriminate].
    destruct (negb (sd_crashed nd)) eqn:Hc; [discriminate|]. apply negb_false_iff in Hc.
    intros H. exists nd. split; auto. split; auto.
    destruct (sget N.compare (sd_id nd) (y_handlers s)) as [[|]|]; inv H; cbn; auto 10.
  Qed.

  (* one action: the pieces of sys_action *)
  Lemma sys_action_inv (s : simsys) nname proc a s' :
    sys_action s nname proc a = Ok s' ->
    exists nd p p' lc' w',
      sget N.compare nname (y_nodes s) = Some nd /\ sget N.compare proc (sd_procs nd) = Some p /\
      node_action nname (sd_id nd) proc (q_clock (y_q s)) p (sd_lcount nd) (world_of s) a = Ok (p', lc', w') /\
      s' = put_proc s nname nd proc p' lc' w'.
  Proof.
    unfold SimBaseP.sys_action. destruct (sget N.compare nname (y_nodes s)) as [nd|] eqn:Hn; [|discriminate].
    destruct (sget N.compare proc (sd_procs nd)) as [p|] eqn:Hp; [|discriminate].
    destruct (node_action _ _ _ _ _ _ _ _) as [[[p' lc'] w']|] eqn:E; [|discriminate]. cbn [bind]. intros H. inv H.
    exists nd, p, p', lc', w'. auto.
  Qed.

  Lemma pre_state_log (s : simsys) nname nd proc p k st' used :
    y_log (pre_state s nname nd proc p k st' used) =
    y_log s ++ pre_log nname nd proc k (q_clock (y_q s)) ++ snd (pre_pe nname proc (q_clock (y_q s)) p k).
  Proof. reflexivity. Qed.

  Lemma pre_entries_not_sent nname (nd : simnode) proc (p : pentry) k t e :
    In e (pre_log nname nd proc k t ++ snd (pre_pe nname proc t p k)) -> is_sent e = false.
  Proof.
    destruct k as [mid m from fn|tn|m]; cbn [pre_log pre_pe snd app].
    - intros [<-|[]]. reflexivity.
    - destruct (sget N.compare tn (pe_ptimers p)); cbn [snd]; intros H; [|contradiction].
      destruct H as [<-|[]]. reflexivity.
    - intros [<-|[]]. reflexivity.
  Qed.

  Lemma sstep_sent_delta (s : simsys) lab s' : BaseInv s -> sstep s lab s' -> sent_delta s s'.
  Proof.
    intros B H. destruct H.
    - apply (sent_delta_quiet _ _ []); [cbn; rewrite app_nil_r; reflexivity|intros e []|apply same_counters_refl].
    - eapply sent_delta_quiet; [rewrite pre_state_log; reflexivity| |apply same_counters_refl].
      apply pre_entries_not_sent.
    - eapply sent_delta_quiet; [rewrite pre_state_log; reflexivity| |apply same_counters_refl].
      apply pre_entries_not_sent.
    - apply sys_action_inv in H1. destruct H1 as (nd0 & p & p' & lc' & w' & Hn & Hp & E & ->).
      unfold put_proc. destruct a as [m dst|m|name delay once|name]; cbn [Sim.node_action] in E.
      + binv. apply net_send_spec in E0.
        destruct E0 as (sn & dn & sid & did & news & _ & _ & _ & _ & -> & _ & _ & _ & Hl).
        cbn [world_of w_q w_net w_log] in *. cbv zeta in Hl.
        eexists. cbn [y_with y_log y_net w_log w_net]. split; [reflexivity|]. right.
        destruct Hl as [[-> _]|[-> _]].
        * exists (q_clock (y_q s)), sn, proc, dn, dst, m, []. split; [reflexivity|]. split; [intros e []|].
          cbn [net_bump sn_msg_count sn_net_count sn_traffic]. destruct (N.eqb sn dn); cbn [negb]; auto.
        * exists (q_clock (y_q s)), sn, proc, dn, dst, m, [LMessageDropped (q_clock (y_q s)) (sn_msg_count (y_net s)) sn proc dn dst m].
          split; [reflexivity|]. split; [intros e [<-|[]]; reflexivity|].
          cbn [net_bump sn_msg_count sn_net_count sn_traffic]. destruct (N.eqb sn dn); cbn [negb]; auto.
      + inv E. eapply sent_delta_quiet; [reflexivity| |apply same_counters_refl]. intros e [<-|[]]. reflexivity.
      + destruct (sget N.compare name (pe_ptimers p)) as [old|].
        * destruct once.
          -- inv E. apply (sent_delta_quiet _ _ []); [cbn; rewrite app_nil_r; reflexivity|intros e []|apply same_counters_refl].
          -- binv. eapply sent_delta_quiet; [reflexivity| |apply same_counters_refl]. intros e [<-|[]]. reflexivity.
        * binv. eapply sent_delta_quiet; [reflexivity| |apply same_counters_refl]. intros e [<-|[]]. reflexivity.
      + destruct (sget N.compare name (pe_ptimers p)) as [i|]; inv E.
        * eapply sent_delta_quiet; [reflexivity| |apply same_counters_refl]. intros e [<-|[]]. reflexivity.
        * apply (sent_delta_quiet _ _ []); [cbn; rewrite app_nil_r; reflexivity|intros e []|apply same_counters_refl].
    - apply (sent_delta_quiet _ _ []); [cbn; rewrite app_nil_r; reflexivity|intros e []|apply same_counters_refl].
    - apply (sent_delta_quiet _ _ []); [cbn; rewrite app_nil_r; reflexivity|intros e []|apply same_counters_refl].
    - apply read_local_q in H. destruct H as (_ & E1 & E2).
      apply (sent_delta_quiet _ _ []); [rewrite app_nil_r; auto|intros e []|rewrite E2; apply same_counters_refl].
    - destruct o; try discriminate H.
      + cbn [Sim.sim_op] in H0. destruct (shas N.compare name (y_nodes s)); [discriminate|]. inv H0.
        eapply sent_delta_quiet; [reflexivity| |unfold same_counters; cbn; auto]. intros e [<-|[]]. reflexivity.
      + cbn [Sim.sim_op] in H0. destruct (sget N.compare node (y_nodes s)); [|discriminate].
        destruct (shas N.compare proc (y_proc_nodes s)); [discriminate|]. inv H0.
        eapply sent_delta_quiet; [reflexivity| |unfold same_counters; cbn; auto]. intros e [<-|[]]. reflexivity.
      + cbn [Sim.sim_op] in H0. destruct (sget N.compare node (y_nodes s)); [|discriminate]. inv H0.
        apply (sent_delta_quiet _ _ []); [cbn; rewrite app_nil_r; reflexivity|intros e []|apply same_counters_refl].
      + cbn [Sim.sim_op] in H0. destruct (snet_apply (y_net s) (now s) o) as [n' logs] eqn:E. inv H0.
        apply snet_apply_logs in E. destruct E as [E1 E2].
        eapply sent_delta_quiet; [reflexivity| |exact E1]. intros e He. apply E2 in He. destruct e; try discriminate; reflexivity.
      + apply crash_state in H0. destruct H0 as (nd & Hn & El & En & _).
        eapply sent_delta_quiet; [exact El| |rewrite En; apply same_counters_refl].
        intros e [<-|He]; [reflexivity|]. apply crash_drops_dropped in He. destruct e; try discriminate; reflexivity.
      + apply recover_state in H0. destruct H0 as (nd & Hn & Hc & El & En & _).
        eapply sent_delta_quiet; [exact El| |rewrite En; apply same_counters_refl].
        intros e [<-|[]]. reflexivity.
  Qed.

  Lemma netlog_sys0 : NetLogInv (sys0 ops).
  Proof. constructor; reflexivity. Qed.

  Theorem netlog_reachable s : Reachable s -> NetLogInv s.
  Proof.
    apply (reachable_inv ops handler init_state draws crash_order NetLogInv).
    - apply netlog_sys0.
    - intros s0 lab s1 B I H. eapply netlog_delta; eauto. eapply sstep_sent_delta; eauto.
  Qed.
  (* ================================================================================================ *)
  (* per-process view of the trace                                                                    *)
  (* ================================================================================================ *)
  (* the process a trace entry belongs to *)
  Definition owner (e : logentry) : option N :=
    match e with
    | LProcessStarted _ _ p | LLocalMessageSent _ _ p _ _ | LLocalMessageReceived _ _ p _ _ => Some p
    | LMessageSent _ _ _ sp _ _ _ => Some sp
    | LMessageReceived _ _ _ _ _ dp _ => Some dp
    | LTimerSet _ _ _ _ p _ | LTimerFired _ _ _ _ p | LTimerCancelled _ _ _ _ p => Some p
    | _ => None
    end.
  Definition is_start (p : N) (e : logentry) : bool :=
    match e with LProcessStarted _ _ q => N.eqb q p | _ => false end.
  (* the trace since the last (re)start of process p *)
  Definition since (p : N) (l : list logentry) : list logentry :=
    fold_left (fun acc e => if is_start p e then [] else acc ++ [e]) l [].

  Lemma is_start_owner p e : is_start p e = true -> owner e = Some p.
  Proof. destruct e; cbn; try discriminate. intros H. apply N.eqb_eq in H. subst. reflexivity. Qed.

  Lemma not_owner_not_start p e : owner e <> Some p -> is_start p e = false.
  Proof. intros H. destruct (is_start p e) eqn:E; auto. apply is_start_owner in E. contradiction. Qed.

  Lemma fold_since_nostart p l' : forall acc,
    (forall e, In e l' -> is_start p e = false) ->
    fold_left (fun acc e => if is_start p e then [] else acc ++ [e]) l' acc = acc ++ l'.
  Proof.
    induction l' as [|x r IH]; intros acc H; cbn [fold_left].
    - rewrite app_nil_r. reflexivity.
    - rewrite (H x) by (left; auto). rewrite IH by (intros e He; apply H; right; auto).
      rewrite <- app_assoc. reflexivity.
  Qed.

  Lemma since_app_nostart p l l' :
    (forall e, In e l' -> is_start p e = false) -> since p (l ++ l') = since p l ++ l'.
  Proof. intros H. unfold since. rewrite fold_left_app. apply fold_since_nostart. auto. Qed.

  Lemma since_snoc_start p l e : is_start p e = true -> since p (l ++ [e]) = [].
  Proof. intros H. unfold since. rewrite fold_left_app. cbn. rewrite H. reflexivity. Qed.

  (* `since p l` is the suffix of l after the last LProcessStarted entry of p *)
  Lemma since_spec p l :
    (forall e, In e (since p l) -> is_start p e = false) /\
    ((since p l = l /\ forall e, In e l -> is_start p e = false) \/
     exists pre e, is_start p e = true /\ l = pre ++ e :: since p l).
  Proof.
    induction l as [|x r IH] using rev_ind.
    - cbn. split; [intros e []|]. left. split; auto. intros e [].
    - destruct (is_start p x) eqn:E.
      + rewrite since_snoc_start by auto. split; [intros e []|]. right. exists r, x. auto.
      + rewrite since_app_nostart by (intros e [<-|[]]; auto). destruct IH as [IH1 IH2]. split.
        * intros e He. apply in_app_iff in He. destruct He as [He|[<-|[]]]; auto.
        * destruct IH2 as [[E1 E2]|[pre [e [E1 E2]]]].
          -- left. rewrite E1. split; auto. intros e He. apply in_app_iff in He. destruct He as [He|[<-|[]]]; auto.
          -- right. exists pre, e. split; auto. rewrite E2 at 1. rewrite <- app_assoc. reflexivity.
  Qed.

  (* the entries a handler invocation of process proc appends belong to proc (or to no process) *)
  Definition own_entries (proc : N) (l : list logentry) : Prop :=
    forall e, In e l -> (owner e = Some proc \/ owner e = None) /\ is_start proc e = false.

  Lemma own_nil proc : own_entries proc [].
  Proof. intros e []. Qed.

  Lemma pre_entries_own nname (nd : simnode) proc (p : pentry) k t :
    own_entries proc (pre_log nname nd proc k t ++ snd (pre_pe nname proc t p k)).
  Proof.
    intros e. destruct k as [mid m from fn|tn|m]; cbn [pre_log pre_pe snd app].
    - intros [<-|[]]. cbn. auto.
    - destruct (sget N.compare tn (pe_ptimers p)); cbn [snd]; intros H; [|contradiction].
      destruct H as [<-|[]]. cbn. auto.
    - intros [<-|[]]. cbn. auto.
  Qed.

  Lemma node_action_log nname nid proc time (p : pentry) lc (w : world) a p' lc' w' :
    node_action nname nid proc time p lc w a = Ok (p', lc', w') ->
    exists l', w_log w' = w_log w ++ l' /\ own_entries proc l'.
  Proof.
    destruct a as [m dst|m|name delay once|name]; cbn [Sim.node_action]; intros H.
    - binv. apply net_send_spec in E.
      destruct E as (sn & dn & sid & did & news & _ & _ & _ & _ & _ & _ & _ & _ & Hl). cbv zeta in Hl.
      eexists. cbn [w_log]. split; [reflexivity|].
      destruct Hl as [[-> _]|[-> _]]; intros e He.
      + destruct He as [<-|[]]. cbn. auto.
      + destruct He as [<-|[<-|[]]]; cbn; auto.
    - inv H. eexists. split; [reflexivity|]. intros e [<-|[]]. cbn. auto.
    - destruct (sget N.compare name (pe_ptimers p)) as [old|].
      + destruct once.
        * inv H. exists []. rewrite app_nil_r. split; auto. apply own_nil.
        * binv. eexists. split; [reflexivity|]. intros e [<-|[]]. cbn. auto.
      + binv. eexists. split; [reflexivity|]. intros e [<-|[]]. cbn. auto.
    - destruct (sget N.compare name (pe_ptimers p)) as [i|]; inv H.
      + eexists. split; [reflexivity|]. intros e [<-|[]]. cbn. auto.
      + exists []. rewrite app_nil_r. split; auto. apply own_nil.
  Qed.

  (* ---- generic per-process invariants: a property of (trace since the start of p, entry of p) ---- *)
  Section PInv.
    Variable Q : N -> N -> list logentry -> pentry -> Prop.     (* node, process, trace since its start, entry *)
    Hypothesis Q_frame : forall nn p l l' pe,
      Q nn p l pe -> (forall e, In e l' -> owner e <> Some p) -> Q nn p (l ++ l') pe.

    Definition PInv (s : simsys) : Prop :=
      forall nname nd p pe, sget N.compare nname (y_nodes s) = Some nd -> sget N.compare p (sd_procs nd) = Some pe ->
                            Q nname p (since p (y_log s)) pe.
    (* ... for all processes but one *)
    Definition PInvX (ex : N) (s : simsys) : Prop :=
      forall nname nd p pe, sget N.compare nname (y_nodes s) = Some nd -> sget N.compare p (sd_procs nd) = Some pe ->
                            p <> ex -> Q nname p (since p (y_log s)) pe.

    Lemma pinv_x ex s : PInv s -> PInvX ex s.
    Proof. intros I x nd p pe Hx Hp _. eapply I; eauto. Qed.

    (* no process entry changes, the trace grows by entries of other processes (or of none) *)
    Lemma pinv_sub (s s' : simsys) l' :
      PInv s -> y_log s' = y_log s ++ l' ->
      (forall x ndx' p pe, sget N.compare x (y_nodes s') = Some ndx' -> sget N.compare p (sd_procs ndx') = Some pe ->
         (exists ndx, sget N.compare x (y_nodes s) = Some ndx /\ sget N.compare p (sd_procs ndx) = Some pe) /\
         forall e, In e l' -> owner e <> Some p) ->
      PInv s'.
    Proof.
      intros I El Hs x ndx' p pe Hx Hp. destruct (Hs _ _ _ _ Hx Hp) as [[ndx [A1 A2]] Ho].
      rewrite El. rewrite since_app_nostart.
      - apply Q_frame; eauto.
      - intros e He. apply not_owner_not_start. auto.
    Qed.

    (* process proc of node nname gets a new entry, the trace grows by entries of proc (or of no process) *)
    Lemma pinv_put (s : simsys) nname nd proc p0 p lc (w : world) l' :
      BaseInv s -> PInvX proc s ->
      sget N.compare nname (y_nodes s) = Some nd -> sget N.compare proc (sd_procs nd) = Some p0 ->
      w_log w = y_log s ++ l' ->
      (forall e, In e l' -> (owner e = Some proc \/ owner e = None) /\ is_start proc e = false) ->
      Q nname proc (since proc (y_log s) ++ l') p ->
      PInv (put_proc s nname nd proc p lc w).
    Proof.
      intros B I Hn Hp El Ho HQ x ndx q pe. unfold put_proc. cbn [y_with y_nodes y_log]. rewrite El.
      rewrite sgetN_sins. destruct (N.eqb_spec x nname) as [->|Hne]; intros Hx Hq.
      - inv Hx. cbn [nd_put sd_procs] in Hq. rewrite sgetN_sins in Hq. destruct (N.eqb_spec q proc) as [->|Hqp].
        + inv Hq. rewrite since_app_nostart; auto. intros e He. apply Ho. auto.
        + rewrite since_app_nostart.
          * apply Q_frame; eauto. intros e He. destruct (Ho _ He) as [[E|E] _]; rewrite E; congruence.
          * intros e He. apply not_owner_not_start. destruct (Ho _ He) as [[E|E] _]; rewrite E; congruence.
      - assert (q <> proc).
        { intros ->. apply Hne. pose proof (bi_proc_fwd _ B _ _ _ _ Hx Hq). pose proof (bi_proc_fwd _ B _ _ _ _ Hn Hp).
          congruence. }
        rewrite since_app_nostart.
        + apply Q_frame; eauto. intros e He. destruct (Ho _ He) as [[E|E] _]; rewrite E; congruence.
        + intros e He. apply not_owner_not_start. destruct (Ho _ He) as [[E|E] _]; rewrite E; congruence.
    Qed.

    Lemma pinv_same_procs (s s' : simsys) l' :
      PInv s -> y_log s' = y_log s ++ l' -> (forall e, In e l' -> owner e = None) ->
      (forall x ndx' p pe, sget N.compare x (y_nodes s') = Some ndx' -> sget N.compare p (sd_procs ndx') = Some pe ->
         exists ndx, sget N.compare x (y_nodes s) = Some ndx /\ sget N.compare p (sd_procs ndx) = Some pe) ->
      PInv s'.
    Proof.
      intros I El Ho Hs. eapply pinv_sub; eauto. intros x ndx' p pe Hx Hp. split; eauto.
      intros e He. rewrite (Ho _ He). discriminate.
    Qed.

    Lemma pinv_pre_state (s : simsys) nname nd proc p k st' used :
      BaseInv s -> PInvX proc s ->
      sget N.compare nname (y_nodes s) = Some nd -> sget N.compare proc (sd_procs nd) = Some p ->
      Q nname proc (since proc (y_log s) ++ pre_log nname nd proc k (q_clock (y_q s)) ++
                                      snd (pre_pe nname proc (q_clock (y_q s)) p k))
             (set_state (fst (pre_pe nname proc (q_clock (y_q s)) p k)) st') ->
      PInv (pre_state s nname nd proc p k st' used).
    Proof.
      intros B I Hn Hp HQ. unfold pre_state. eapply pinv_put; eauto.
      - cbn [w_log]. reflexivity.
      - apply pre_entries_own.
    Qed.

    Lemma pinv_sys_action (s : simsys) nname proc a s' :
      BaseInv s -> PInvX proc s -> sys_action s nname proc a = Ok s' ->
      (forall nd p p' lc' w' l',
          sget N.compare nname (y_nodes s) = Some nd -> sget N.compare proc (sd_procs nd) = Some p ->
          node_action nname (sd_id nd) proc (q_clock (y_q s)) p (sd_lcount nd) (world_of s) a = Ok (p', lc', w') ->
          w_log w' = y_log s ++ l' -> Q nname proc (since proc (y_log s) ++ l') p') ->
      PInv s'.
    Proof.
      intros B I H HQ. apply sys_action_inv in H. destruct H as (nd & p & p' & lc' & w' & Hn & Hp & E & ->).
      destruct (node_action_log _ _ _ _ _ _ _ _ _ _ _ E) as [l' [El Ho]]. cbn [world_of w_log] in El.
      eapply pinv_put; eauto.
    Qed.
    Lemma is_ctl_owner e : is_ctl e = true -> owner e = None.
    Proof. destruct e; cbn; auto; discriminate. Qed.

    Lemma is_dropped_owner e : is_dropped e = true -> owner e = None.
    Proof. destruct e; cbn; auto; discriminate. Qed.

    (* the API calls that neither step nor add a process *)
    Lemma pinv_basic_noadd (s : simsys) o s' r :
      PInv s -> is_basic o = true -> (forall p n, o <> YAddProcess p n) -> sim_op 0 s o = Ok (s', r) -> PInv s'.
    Proof.
      intros I Hb Hna H. destruct o; try discriminate Hb.
      - cbn [Sim.sim_op] in H. destruct (shas N.compare name (y_nodes s)); [discriminate|]. inv H.
        eapply pinv_same_procs; [exact I|reflexivity| |]; cbn [y_log y_nodes].
        + intros e [<-|[]]. reflexivity.
        + intros x ndx' p pe. rewrite sgetN_sins. destruct (N.eqb x name); intros Hx Hp; eauto.
          inv Hx. cbn in Hp. discriminate.
      - exfalso. eapply Hna; eauto.
      - cbn [Sim.sim_op] in H. destruct (sget N.compare node (y_nodes s)) as [nd|] eqn:Hn; [|discriminate]. inv H.
        eapply (pinv_same_procs _ _ []); [exact I|cbn; rewrite app_nil_r; reflexivity| |]; cbn [y_with y_log y_nodes].
        + intros e [].
        + intros x ndx' p pe. rewrite sgetN_sins. destruct (N.eqb_spec x node) as [->|Hne]; intros Hx Hp; eauto.
          inv Hx. cbn in Hp. eauto.
      - cbn [Sim.sim_op] in H. destruct (snet_apply (y_net s) (now s) o) as [n' logs] eqn:E. inv H.
        apply snet_apply_logs in E. destruct E as [_ E].
        eapply pinv_same_procs; [exact I|reflexivity| |]; cbn [y_with y_log y_nodes].
        + intros e He. apply is_ctl_owner. auto.
        + eauto.
      - apply crash_state in H. destruct H as (nd & Hn & El & _ & _ & En & _).
        eapply pinv_same_procs; [exact I|exact El| |].
        + intros e [<-|He]; [reflexivity|]. apply is_dropped_owner. eapply crash_drops_dropped; eauto.
        + rewrite En. intros x ndx' p pe. rewrite sgetN_sins. destruct (N.eqb_spec x node) as [->|Hne]; intros Hx Hp; eauto.
          inv Hx. cbn in Hp. eauto.
      - apply recover_state in H. destruct H as (nd & Hn & Hc & El & _ & _ & En & _).
        eapply pinv_same_procs; [exact I|exact El| |].
        + intros e [<-|[]]. reflexivity.
        + rewrite En. intros x ndx' p pe. rewrite sgetN_sins. destruct (N.eqb_spec x node) as [->|Hne]; intros Hx Hp; eauto.
          inv Hx. cbn in Hp. discriminate.
    Qed.

    Lemma pinv_add_process (s : simsys) proc node s' r :
      BaseInv s -> PInvX proc s -> Q node proc [] (pe_new init_state proc) ->
      sim_op 0 s (YAddProcess proc node) = Ok (s', r) -> PInv s'.
    Proof.
      intros B I HQ H. cbn [Sim.sim_op] in H.
      destruct (sget N.compare node (y_nodes s)) as [nd|] eqn:Hn; [|discriminate].
      destruct (shas N.compare proc (y_proc_nodes s)) eqn:Hh; [discriminate|]. apply shas_false in Hh. inv H.
      intros x ndx q pe. cbn [y_nodes y_log]. rewrite sgetN_sins.
      assert (Hfr : forall ndq, sget N.compare x (y_nodes s) = Some ndq -> sget N.compare q (sd_procs ndq) = Some pe ->
                     Q x q (since q (y_log s ++ [LProcessStarted (now s) node proc])) pe).
      { intros ndq Hx Hq.
        assert (q <> proc) by (intros ->; pose proof (bi_proc_fwd _ B _ _ _ _ Hx Hq); congruence).
        rewrite since_app_nostart.
        - apply Q_frame; eauto. intros e [<-|[]]. cbn. congruence.
        - intros e [<-|[]]. cbn. apply N.eqb_neq. auto. }
      destruct (N.eqb_spec x node) as [->|Hne]; intros Hx Hq; eauto.
      inv Hx. cbn [sd_procs] in Hq. rewrite sgetN_sins in Hq. destruct (N.eqb_spec q proc) as [->|Hqp]; eauto.
      inv Hq. rewrite since_snoc_start; auto. cbn. apply N.eqb_refl.
    Qed.

    Lemma pinv_read (s : simsys) p l s' :
      BaseInv s -> PInvX p s -> read_local s p = Ok (s', Some l) ->
      (forall nname nd pe, sget N.compare nname (y_nodes s) = Some nd -> sget N.compare p (sd_procs nd) = Some pe ->
                           pe_outbox pe = l ->
                           Q nname p (since p (y_log s)) (pe_with pe (pe_state pe) (pe_evlog pe) [] (pe_ptimers pe) (pe_sent pe) (pe_recv pe))) ->
      PInv s'.
    Proof.
      intros B I H HQ. unfold read_local, node_of_proc in H.
      destruct (sget N.compare p (y_proc_nodes s)) as [nname|]; [|discriminate].
      destruct (sget N.compare nname (y_nodes s)) as [nd|] eqn:Hn; [|discriminate].
      cbn [bind] in H.
      destruct (sget N.compare p (sd_procs nd)) as [pe|] eqn:Hp; [|discriminate].
      destruct (pe_outbox pe) as [|m l0] eqn:Eo; inv H.
      match goal with |- PInv ?st =>
        change st with (put_proc s nname nd p (pe_with pe (pe_state pe) (pe_evlog pe) [] (pe_ptimers pe) (pe_sent pe) (pe_recv pe))
                                 (sd_lcount nd) (world_of s)) end.
      eapply (pinv_put _ _ _ _ _ _ _ _ []); [exact B|exact I|exact Hn|exact Hp| | |].
      - cbn. rewrite app_nil_r. reflexivity.
      - intros e [].
      - rewrite app_nil_r. eauto.
    Qed.

    Section PStep.
      Hypothesis Q_pre : forall nname (nd : simnode) proc (p : pentry) k t st' l,
        Q nname proc l p ->
        Q nname proc (l ++ pre_log nname nd proc k t ++ snd (pre_pe nname proc t p k)) (set_state (fst (pre_pe nname proc t p k)) st').
      Hypothesis Q_act : forall nname nid proc t (p : pentry) lc (w : world) a p' lc' w' l l',
        Q nname proc l p -> node_action nname nid proc t p lc w a = Ok (p', lc', w') -> w_log w' = w_log w ++ l' ->
        t = q_clock (w_q w) -> Q nname proc (l ++ l') p'.

      (* all transitions but the outbox reads and add_process, which get callbacks (they may change a ghost) *)
      Lemma pinv_sstep_gen (s : simsys) lab s' :
        BaseInv s -> PInv s -> sstep s lab s' ->
        (forall p n r, lab = LOp (YAddProcess p n) -> sim_op 0 s (YAddProcess p n) = Ok (s', r) -> PInv s') ->
        (forall p l, lab = LRead p l -> read_local s p = Ok (s', Some l) -> PInv s') ->
        PInv s'.
      Proof.
        intros B I H Hadd Hread. destruct H.
        - eapply (pinv_same_procs _ _ []); [exact I|cbn; rewrite app_nil_r; reflexivity|intros e0 []|cbn; eauto].
        - assert (B1 : BaseInv (with_q s q')).
          { apply q_next_spec in H; [|apply (qw_nodup _ _ (bi_q _ B))]. destruct H as [S _]. apply base_with_q_shrink; auto. }
          assert (I1 : PInv (with_q s q')).
          { eapply (pinv_same_procs _ _ []); [exact I|cbn; rewrite app_nil_r; reflexivity|intros e0 []|cbn; eauto]. }
          eapply pinv_pre_state; [exact B1|apply pinv_x; exact I1|eassumption|eassumption|]. apply Q_pre. eapply I1; eauto.
        - eapply pinv_pre_state; [exact B|apply pinv_x; exact I|eassumption|eassumption|]. apply Q_pre. eapply I; eauto.
        - eapply pinv_sys_action; [exact B|apply pinv_x; exact I|eassumption|]. intros nd0 p p' lc' w' l' Hn Hp E Elog.
          eapply Q_act; eauto.
        - eapply (pinv_same_procs _ _ []); [exact I|cbn; rewrite app_nil_r; reflexivity|intros e0 []|cbn; eauto].
        - eapply (pinv_same_procs _ _ []); [exact I|cbn; rewrite app_nil_r; reflexivity|intros e0 []|cbn; eauto].
        - eapply Hread; eauto.
        - destruct o; try discriminate H; try (eapply pinv_basic_noadd; eauto; intros; discriminate).
          eapply Hadd; eauto.
      Qed.

      Hypothesis Q_new : forall nn p, Q nn p [] (pe_new init_state p).
      Hypothesis Q_read : forall nn p l (pe : pentry),
        Q nn p l pe -> Q nn p l (pe_with pe (pe_state pe) (pe_evlog pe) [] (pe_ptimers pe) (pe_sent pe) (pe_recv pe)).

      Theorem pinv_sstep (s : simsys) lab s' : BaseInv s -> PInv s -> sstep s lab s' -> PInv s'.
      Proof.
        intros B I H. eapply pinv_sstep_gen; eauto.
        - intros p n r _ Ha. eapply pinv_add_process; [exact B|apply pinv_x; exact I|apply Q_new|exact Ha].
        - intros p l _ Hr. eapply pinv_read; [exact B|apply pinv_x; exact I|exact Hr|].
          intros nname nd pe Hn Hp _. apply Q_read. eapply I; eauto.
      Qed.

      Theorem pinv_reachable (s : simsys) : Reachable s -> PInv s.
      Proof.
        apply (reachable_inv ops handler init_state draws crash_order PInv).
        - intros nname nd p pe H. cbn in H. discriminate.
        - intros s0 lab s1 B I H. eapply pinv_sstep; eauto.
      Qed.
    End PStep.
  End PInv.

  (* changing the property for some processes (ghost updates) *)
  Lemma pinv_weaken (Q Q' : N -> N -> list logentry -> pentry -> Prop) (s : simsys) :
    PInv Q s -> (forall nn p l pe, Q nn p l pe -> Q' nn p l pe) -> PInv Q' s.
  Proof. intros I H x nd p pe Hx Hp. apply H. eapply I; eauto. Qed.

  Lemma pinv_weaken_x (Q Q' : N -> N -> list logentry -> pentry -> Prop) ex (s : simsys) :
    PInv Q s -> (forall nn p l pe, p <> ex -> Q nn p l pe -> Q' nn p l pe) -> PInvX Q' ex s.
  Proof. intros I H x nd p pe Hx Hp Hne. apply H; auto. eapply I; eauto. Qed.
  (* ================================================================================================ *)
  (* L1: the sent / received counters of a process                                                    *)
  (* ================================================================================================ *)
  Definition sent_by (p : N) (e : logentry) : bool :=
    match e with LMessageSent _ _ _ sp _ _ _ => N.eqb sp p | _ => false end.
  Definition recv_by (p : N) (e : logentry) : bool :=
    match e with LMessageReceived _ _ _ _ _ dp _ => N.eqb dp p | _ => false end.

  Definition Q_cnt (nn p : N) (l : list logentry) (pe : pentry) : Prop :=
    pe_sent pe = cnt (sent_by p) l /\ pe_recv pe = cnt (recv_by p) l.

  Lemma not_owner_cnt p e : owner e <> Some p -> sent_by p e = false /\ recv_by p e = false.
  Proof.
    intros H. destruct e; cbn in *; auto; split; auto; apply N.eqb_neq; congruence.
  Qed.

  Lemma Q_cnt_frame nn p l l' pe :
    Q_cnt nn p l pe -> (forall e, In e l' -> owner e <> Some p) -> Q_cnt nn p (l ++ l') pe.
  Proof.
    intros [A B] H. unfold Q_cnt. rewrite !cnt_app.
    rewrite (cnt_none (sent_by p) l'), (cnt_none (recv_by p) l'); [split; lia| |];
      intros e He; apply not_owner_cnt; auto.
  Qed.

  Lemma Q_cnt_pre nname (nd : simnode) proc (p : pentry) k t st' l :
    Q_cnt nname proc l p ->
    Q_cnt nname proc (l ++ pre_log nname nd proc k t ++ snd (pre_pe nname proc t p k))
          (set_state (fst (pre_pe nname proc t p k)) st').
  Proof.
    intros [A B]. unfold Q_cnt, set_state. cbn [pe_with pe_sent pe_recv].
    destruct k as [mid m from fn|tn|m]; cbn [pre_log pre_pe fst snd app pe_with pe_sent pe_recv].
    - rewrite !cnt_app, !cnt_cons, !cnt_nil. cbn [sent_by recv_by]. rewrite N.eqb_refl. split; lia.
    - destruct (sget N.compare tn (pe_ptimers p)); cbn [fst snd pe_with pe_sent pe_recv].
      + rewrite !cnt_app, !cnt_cons, !cnt_nil. cbn [sent_by recv_by]. split; lia.
      + rewrite app_nil_r. auto.
    - rewrite !cnt_app, !cnt_cons, !cnt_nil. cbn [sent_by recv_by]. split; lia.
  Qed.

  Lemma Q_cnt_act nname nid proc t (p : pentry) lc (w : world) a p' lc' w' l l' :
    Q_cnt nname proc l p -> node_action nname nid proc t p lc w a = Ok (p', lc', w') -> w_log w' = w_log w ++ l' ->
    t = q_clock (w_q w) -> Q_cnt nname proc (l ++ l') p'.
  Proof.
    intros [A B] E Elog _. unfold Q_cnt.
    destruct a as [m dst|m|name delay once|name]; cbn [Sim.node_action] in E.
    - binv. apply net_send_spec in E0.
      destruct E0 as (sn & dn & sid & did & news & _ & _ & _ & _ & _ & _ & _ & _ & Hl). cbv zeta in Hl.
      cbn [w_log] in Elog. apply app_inv_head in Elog. subst l'. cbn [pe_with pe_sent pe_recv].
      destruct Hl as [[-> _]|[-> _]]; rewrite !cnt_app, !cnt_cons, !cnt_nil; cbn [sent_by recv_by];
        rewrite N.eqb_refl; split; lia.
    - inv E. cbn [w_log] in Elog. apply app_inv_head in Elog. subst l'. cbn [pe_with pe_sent pe_recv].
      rewrite !cnt_app, !cnt_cons, !cnt_nil. cbn. split; lia.
    - destruct (sget N.compare name (pe_ptimers p)) as [old|].
      + destruct once.
        * inv E. rewrite <- (app_nil_r (w_log w')) in Elog at 1. apply app_inv_head in Elog. subst l'.
          rewrite app_nil_r. auto.
        * binv. cbn [w_log] in Elog. apply app_inv_head in Elog. subst l'. cbn [pe_with pe_sent pe_recv].
          rewrite !cnt_app, !cnt_cons, !cnt_nil. cbn. split; lia.
      + binv. cbn [w_log] in Elog. apply app_inv_head in Elog. subst l'. cbn [pe_with pe_sent pe_recv].
        rewrite !cnt_app, !cnt_cons, !cnt_nil. cbn. split; lia.
    - destruct (sget N.compare name (pe_ptimers p)) as [i|]; inv E.
      + cbn [w_log] in Elog. apply app_inv_head in Elog. subst l'. cbn [pe_with pe_sent pe_recv].
        rewrite !cnt_app, !cnt_cons, !cnt_nil. cbn. split; lia.
      + rewrite <- (app_nil_r (w_log w')) in Elog at 1. apply app_inv_head in Elog. subst l'.
        rewrite app_nil_r. auto.
  Qed.

  Theorem cnt_reachable s : Reachable s -> PInv Q_cnt s.
  Proof.
    apply pinv_reachable.
    - apply Q_cnt_frame.
    - apply Q_cnt_pre.
    - apply Q_cnt_act.
    - intros nn p. split; reflexivity.
    - intros nn p l pe H. exact H.
  Qed.
  (* ================================================================================================ *)
  (* L5: every emitted copy of a message has at most one recorded fate                                *)
  (* ================================================================================================ *)
  Definition recv_id (i : N) (e : logentry) : bool :=
    match e with LMessageReceived _ j _ _ _ _ _ => N.eqb j i | _ => false end.
  Definition drop_id (i : N) (e : logentry) : bool :=
    match e with LMessageDropped _ j _ _ _ _ _ => N.eqb j i | _ => false end.
  Definition msg_ev (i : N) (e : qevent) : bool :=
    match q_data e with QMsg j _ _ _ _ _ => N.eqb j i | QTimer _ _ => false end.

  Definition received (i : N) (s : simsys) : N := cnt (recv_id i) (y_log s).
  Definition dropped (i : N) (s : simsys) : N := cnt (drop_id i) (y_log s).
  Definition in_flight (i : N) (s : simsys) : N := cnt (msg_ev i) (q_live (y_q s)).
  (* recorded fates + copies that can still get one *)
  Definition phi (i : N) (s : simsys) : N := received i s + dropped i s + in_flight i s.

  Record FateInv (s : simsys) : Prop := {
    fi_bound : forall i, phi i s <= 3;
    fi_unsent : forall i, sn_msg_count (y_net s) <= i -> phi i s = 0 }.

  (* a transition never increases phi of a message that was already sent: a new LMessageReceived / LMessageDropped
     entry consumes a live copy; the trace only grows *)
  Definition fate_le (s s' : simsys) : Prop :=
    sn_msg_count (y_net s) <= sn_msg_count (y_net s') /\
    (forall i, i < sn_msg_count (y_net s) -> phi i s' <= phi i s) /\
    (exists l', y_log s' = y_log s ++ l').

  Lemma fate_le_refl s : fate_le s s.
  Proof. split; [lia|]. split; [intros; lia|]. exists []. rewrite app_nil_r. reflexivity. Qed.

  Lemma fate_le_trans a b c : fate_le a b -> fate_le b c -> fate_le a c.
  Proof.
    intros (A1 & A2 & [l1 A3]) (B1 & B2 & [l2 B3]). split; [lia|]. split.
    - intros i Hi. specialize (A2 i Hi). specialize (B2 i ltac:(lia)). lia.
    - exists (l1 ++ l2). rewrite B3, A3, app_assoc. reflexivity.
  Qed.

  Definition no_fate (e : logentry) : Prop := forall i, recv_id i e = false /\ drop_id i e = false.

  Lemma cnt_no_fate l i : (forall e, In e l -> no_fate e) -> cnt (recv_id i) l = 0 /\ cnt (drop_id i) l = 0.
  Proof. intros H. split; apply cnt_none; intros e He; apply (H e He i). Qed.

  (* the two shapes of a transition *)
  Definition fate_quiet (s s' : simsys) : Prop :=
    sn_msg_count (y_net s') = sn_msg_count (y_net s) /\ (forall i, phi i s' <= phi i s) /\
    (exists l', y_log s' = y_log s ++ l').
  Definition fate_send (s s' : simsys) : Prop :=
    sn_msg_count (y_net s') = sn_msg_count (y_net s) + 1 /\
    (forall i, i <> sn_msg_count (y_net s) -> phi i s' <= phi i s) /\
    phi (sn_msg_count (y_net s)) s' <= phi (sn_msg_count (y_net s)) s + 3 /\
    (exists l', y_log s' = y_log s ++ l').

  Lemma fate_shapes s s' : FateInv s -> fate_quiet s s' \/ fate_send s s' -> FateInv s' /\ fate_le s s'.
  Proof.
    intros [I1 I2] [(A1 & A2 & A3)|(A1 & A2 & A3 & A4)].
    - split; [constructor|].
      + intros i. specialize (A2 i). specialize (I1 i). lia.
      + intros i Hi. rewrite A1 in Hi. specialize (A2 i). specialize (I2 i Hi). lia.
      + split; [lia|]. split; auto.
    - split; [constructor|].
      + intros i. destruct (N.eq_dec i (sn_msg_count (y_net s))) as [->|Hne].
        * rewrite (I2 (sn_msg_count (y_net s))) in A3 by lia. lia.
        * specialize (A2 i Hne). specialize (I1 i). lia.
      + intros i Hi. rewrite A1 in Hi. specialize (A2 i ltac:(lia)). specialize (I2 i ltac:(lia)). lia.
      + split; [lia|]. split; auto. intros i Hi. apply A2. lia.
  Qed.

  (* the trace grows by entries that are no fates, the number of live copies does not grow *)
  Lemma fate_quiet_log (s s' : simsys) l' :
    y_log s' = y_log s ++ l' -> (forall e, In e l' -> no_fate e) ->
    (forall i, in_flight i s' <= in_flight i s) ->
    sn_msg_count (y_net s') = sn_msg_count (y_net s) -> fate_quiet s s'.
  Proof.
    intros El Hn Hq Hc. split; auto. split; [|eauto]. intros i. unfold phi, received, dropped.
    rewrite El, !cnt_app. destruct (cnt_no_fate l' i Hn) as [-> ->]. specialize (Hq i). lia.
  Qed.

  Lemma no_fate_pre_timer_local nname (nd : simnode) proc (p : pentry) k t e :
    (forall mid m from fn, k <> HMsg mid m from fn) ->
    In e (pre_log nname nd proc k t ++ snd (pre_pe nname proc t p k)) -> no_fate e.
  Proof.
    intros Hk. destruct k as [mid m from fn|tn|m]; cbn [pre_log pre_pe snd app].
    - exfalso. eapply Hk; eauto.
    - destruct (sget N.compare tn (pe_ptimers p)); cbn [snd]; intros H; [|contradiction].
      destruct H as [<-|[]]. intros i. cbn. auto.
    - intros [<-|[]]. intros i. cbn. auto.
  Qed.

  Lemma msg_ev_split i (l1 l2 : list qevent) e :
    cnt (msg_ev i) (l1 ++ e :: l2) = cnt (msg_ev i) (l1 ++ l2) + (if msg_ev i e then 1 else 0).
  Proof. rewrite !cnt_app, cnt_cons. lia. Qed.

  Lemma crash_drops_cnt t i (l : list qevent) : cnt (drop_id i) (crash_drops t l) = cnt (msg_ev i) l.
  Proof.
    induction l as [|e r IH]; [reflexivity|]. unfold crash_drops in *. cbn [flat_map].
    rewrite cnt_app, IH, cnt_cons. unfold msg_ev at 2. destruct (q_data e).
    - rewrite cnt_cons, cnt_nil. cbn [drop_id]. lia.
    - rewrite cnt_nil. lia.
  Qed.

  Lemma crash_drops_no_recv t i (l : list qevent) : cnt (recv_id i) (crash_drops t l) = 0.
  Proof.
    apply cnt_none. intros e He. apply crash_drops_dropped in He. destruct e; try discriminate; reflexivity.
  Qed.

  Lemma fate_sys_action (s : simsys) nname proc a s' :
    BaseInv s -> sys_action s nname proc a = Ok s' -> fate_quiet s s' \/ fate_send s s'.
  Proof.
    intros B H. apply sys_action_inv in H. destruct H as (nd & p & p' & lc' & w' & Hn & Hp & E & ->).
    pose proof (qw_canc _ _ (bi_q _ B)) as Hcl.
    assert (Hone : forall (e : logentry), (forall i, recv_id i e = false /\ drop_id i e = false) ->
                     forall x, In x [e] -> no_fate x) by (intros e He x [<-|[]]; exact He).
    destruct a as [m dst|m|name delay once|name]; cbn [Sim.node_action] in E.
    - right. binv. apply net_send_spec in E0.
      destruct E0 as (sn & dn & sid & did & news & _ & _ & _ & _ & -> & G & Hlen & D & Hl). cbv zeta in Hl.
      cbn [world_of w_q w_net w_log] in *. pose proof (q_grow_live _ _ _ Hcl G) as L.
      assert (Hnews : forall i, cnt (msg_ev i) news = if N.eqb (sn_msg_count (y_net s)) i then N.of_nat (length news) else 0).
      { intros i. destruct (N.eqb_spec (sn_msg_count (y_net s)) i) as [<-|Hne].
        - apply cnt_all. intros e He. apply D in He. destruct He as [[m' Hm] _]. unfold msg_ev. rewrite Hm.
          apply N.eqb_refl.
        - apply cnt_none. intros e He. apply D in He. destruct He as [[m' Hm] _]. unfold msg_ev. rewrite Hm.
          apply N.eqb_neq. auto. }
      unfold fate_send, phi, received, dropped, in_flight, put_proc.
      cbn [y_with y_net y_log y_q w_q w_net w_log net_bump sn_msg_count]. rewrite L.
      split; [reflexivity|]. split; [|split; [|eauto]].
      + intros i Hi. rewrite !cnt_app, Hnews. destruct (N.eqb_spec (sn_msg_count (y_net s)) i); [congruence|].
        destruct Hl as [[-> _]|[-> _]]; rewrite !cnt_cons, !cnt_nil; cbn [recv_id drop_id].
        * lia.
        * destruct (N.eqb_spec (sn_msg_count (y_net s)) i); [congruence|]. lia.
      + rewrite !cnt_app, Hnews, N.eqb_refl.
        destruct Hl as [[-> _]|[-> [-> _]]]; rewrite !cnt_cons, !cnt_nil; cbn [recv_id drop_id length].
        * lia.
        * rewrite N.eqb_refl. lia.
    - left. inv E. eapply fate_quiet_log; [reflexivity| | |reflexivity].
      + apply Hone. intros i. cbn. auto.
      + intros i. apply N.le_refl.
    - left. destruct (sget N.compare name (pe_ptimers p)) as [old|].
      + destruct once.
        * inv E. eapply (fate_quiet_log _ _ []); [cbn; rewrite app_nil_r; reflexivity|intros e []| |reflexivity].
          intros i. apply N.le_refl.
        * binv. cbn [world_of w_q] in E0. apply q_add_spec in E0. destruct E0 as [-> ->].
          eapply fate_quiet_log; [reflexivity| | |reflexivity].
          -- apply Hone. intros i. cbn. auto.
          -- intros i. unfold in_flight, put_proc. cbn [y_with y_q w_q].
             set (q1 := q_cancel (y_q s) old).
             assert (Hq1 : cnt (msg_ev i) (q_live q1) <= cnt (msg_ev i) (q_live (y_q s))).
             { unfold q1. rewrite q_live_cancel. apply cnt_filter_le. }
             etransitivity; [|exact Hq1].
             unfold q_live at 1. cbn [q_with q_events q_canceled]. rewrite filter_app, cnt_app.
             fold (q_live q1). cbn [filter].
             match goal with |- context [if ?c then _ else _] => destruct c end; rewrite ?cnt_cons, ?cnt_nil; cbn [msg_ev mk_ev q_data]; lia.
      + binv. cbn [world_of w_q] in E0. apply q_add_spec in E0. destruct E0 as [-> ->].
        eapply fate_quiet_log; [reflexivity| | |reflexivity].
        * apply Hone. intros i. cbn. auto.
        * intros i. unfold in_flight, put_proc. cbn [y_with y_q w_q].
          unfold q_live at 1. cbn [q_with q_events q_canceled]. rewrite filter_app, cnt_app.
          fold (q_live (y_q s)). cbn [filter].
          match goal with |- context [if ?c then _ else _] => destruct c end; rewrite ?cnt_cons, ?cnt_nil; cbn [msg_ev mk_ev q_data]; lia.
    - left. destruct (sget N.compare name (pe_ptimers p)) as [i0|]; inv E.
      + eapply fate_quiet_log; [reflexivity| | |reflexivity].
        * apply Hone. intros i. cbn. auto.
        * intros i. unfold in_flight, put_proc. cbn [y_with y_q w_q world_of]. rewrite q_live_cancel. apply cnt_filter_le.
      + eapply (fate_quiet_log _ _ []); [cbn; rewrite app_nil_r; reflexivity|intros e []| |reflexivity].
        intros i. apply N.le_refl.
  Qed.

  Lemma fate_basic (s : simsys) o s' r :
    BaseInv s -> is_basic o = true -> sim_op 0 s o = Ok (s', r) -> fate_quiet s s'.
  Proof.
    intros B Hb H.
    assert (Hctl : forall e, is_ctl e = true -> no_fate e) by (intros e He i; destruct e; try discriminate; cbn; auto).
    destruct o; try discriminate Hb.
    - cbn [Sim.sim_op] in H. destruct (shas N.compare name (y_nodes s)); [discriminate|]. inv H.
      eapply fate_quiet_log; [reflexivity| | |reflexivity].
      + intros e [<-|[]]. apply Hctl. reflexivity.
      + intros i. apply N.le_refl.
    - cbn [Sim.sim_op] in H. destruct (sget N.compare node (y_nodes s)); [|discriminate].
      destruct (shas N.compare proc (y_proc_nodes s)); [discriminate|]. inv H.
      eapply fate_quiet_log; [reflexivity| | |reflexivity].
      + intros e [<-|[]]. intros i. cbn. auto.
      + intros i. apply N.le_refl.
    - cbn [Sim.sim_op] in H. destruct (sget N.compare node (y_nodes s)); [|discriminate]. inv H.
      eapply (fate_quiet_log _ _ []); [cbn; rewrite app_nil_r; reflexivity|intros e []| |reflexivity].
      intros i. apply N.le_refl.
    - cbn [Sim.sim_op] in H. destruct (snet_apply (y_net s) (now s) o) as [n' logs] eqn:E. inv H.
      apply snet_apply_logs in E. destruct E as [[E0 _] E].
      eapply fate_quiet_log; [reflexivity| | |exact E0].
      + intros e He. apply Hctl. auto.
      + intros i. apply N.le_refl.
    - (* crash: the logged drops are exactly the live copies sent by the node; they and the copies addressed to the
         node stop being live *)
      apply crash_state in H. destruct H as (nd & Hn & El & En & Eq & _).
      pose proof (qw_nodup _ _ (bi_q _ B)) as Hnd.
      split; [rewrite En; reflexivity|]. split; [|eauto]. intros i. unfold phi, received, dropped, in_flight.
      rewrite El, Eq. rewrite !cnt_app, !cnt_cons. cbn [recv_id drop_id].
      rewrite crash_drops_no_recv, crash_drops_cnt, (cnt_perm _ _ _ (crash_perm _)).
      rewrite q_live_cancel_pred by exact Hnd. rewrite q_live_cancel_pred by exact Hnd.
      rewrite !cnt_filter.
      rewrite (cnt_split (msg_ev i) (fun e => N.eqb (q_src e) (sd_id nd)) (q_live (y_q s))).
      assert (cnt (fun x => negb (N.eqb (q_src x) (sd_id nd)) && (negb (N.eqb (q_dst x) (sd_id nd)) && msg_ev i x)) (q_live (y_q s))
              <= cnt (fun x => negb (N.eqb (q_src x) (sd_id nd)) && msg_ev i x) (q_live (y_q s))).
      { apply cnt_le_imp. intros x _ Hx. apply andb_true_iff in Hx. destruct Hx as [H1 H2].
        apply andb_true_iff in H2. destruct H2 as [_ H2]. rewrite H1, H2. reflexivity. }
      lia.
    - apply recover_state in H. destruct H as (nd & Hn & Hc & El & En & Eq & _).
      eapply fate_quiet_log; [exact El| | |rewrite En; reflexivity].
      + intros e [<-|[]]. apply Hctl. reflexivity.
      + intros i. unfold in_flight. rewrite Eq. lia.
  Qed.

  Lemma fate_sstep_shape (s : simsys) lab s' : BaseInv s -> sstep s lab s' -> fate_quiet s s' \/ fate_send s s'.
  Proof.
    intros B H. pose proof (qw_nodup _ _ (bi_q _ B)) as Hnd. destruct H.
    - left. eapply (fate_quiet_log _ _ []); [cbn; rewrite app_nil_r; reflexivity|intros e0 []| |reflexivity].
      intros i. unfold in_flight. cbn [with_q y_with y_q].
      apply q_next_spec in H; auto. destruct H as [_ H]. destruct oe as [e|].
      + destruct H as [_ [l1 [l2 [E1 E2]]]]. rewrite E1, E2, msg_ev_split. lia.
      + destruct H as [-> _]. lia.
    - left. apply q_next_spec in H; auto. destruct H as [_ [_ [l1 [l2 [E1 E2]]]]].
      split; [reflexivity|]. split; [|rewrite pre_state_log; eauto].
      intros i. unfold phi, received, dropped, in_flight. rewrite pre_state_log.
      change (q_live (y_q (pre_state (with_q s q') nname nd (fst (ev_kind e)) p (snd (ev_kind e)) st' used)))
        with (q_live q').
      change (y_log (with_q s q')) with (y_log s).
      rewrite E1, E2, msg_ev_split, !cnt_app. unfold ev_kind.
      destruct (q_data e) as [mid m src sn dst dn|pr tn] eqn:Ed; cbn [fst snd pre_log pre_pe app].
      + replace (msg_ev i e) with (N.eqb mid i) by (unfold msg_ev; rewrite Ed; reflexivity).
        rewrite !cnt_cons, !cnt_nil. cbn [recv_id drop_id]. destruct (N.eqb mid i); lia.
      + replace (msg_ev i e) with false by (unfold msg_ev; rewrite Ed; reflexivity).
        destruct (sget N.compare tn (pe_ptimers p)); cbn [snd]; rewrite ?cnt_cons, !cnt_nil; cbn [recv_id drop_id]; lia.
    - left. eapply fate_quiet_log; [rewrite pre_state_log; reflexivity| | |reflexivity].
      + intros e He. eapply no_fate_pre_timer_local; [|exact He]. intros; discriminate.
      + intros i. apply N.le_refl.
    - eapply fate_sys_action; eauto.
    - left. eapply (fate_quiet_log _ _ []); [cbn; rewrite app_nil_r; reflexivity|intros e0 []| |reflexivity].
      intros i. unfold in_flight. cbn [with_q y_with y_q]. apply q_peek_spec in H. destruct H as [_ [-> _]]. lia.
    - left. eapply (fate_quiet_log _ _ []); [cbn; rewrite app_nil_r; reflexivity|intros e0 []| |reflexivity].
      intros i. apply N.le_refl.
    - left. apply read_local_q in H. destruct H as (E1 & E2 & E3).
      eapply (fate_quiet_log _ _ []); [rewrite app_nil_r; exact E2|intros e0 []| |rewrite E3; reflexivity].
      intros i. unfold in_flight. rewrite E1. lia.
    - left. eapply fate_basic; eauto.
  Qed.

  Theorem fate_sstep (s : simsys) lab s' : BaseInv s -> FateInv s -> sstep s lab s' -> FateInv s' /\ fate_le s s'.
  Proof. intros B I H. apply fate_shapes; auto. eapply fate_sstep_shape; eauto. Qed.

  Lemma fate_sys0 : FateInv (sys0 ops).
  Proof. constructor; intros i; cbn; auto. lia. Qed.

  Theorem fate_reachable s : Reachable s -> FateInv s.
  Proof.
    apply (reachable_inv ops handler init_state draws crash_order FateInv).
    - apply fate_sys0.
    - intros s0 lab s1 B I H. eapply fate_sstep; eauto.
  Qed.

  Theorem fate_sstar (s : simsys) l s' : BaseInv s -> FateInv s -> sstar s l s' -> FateInv s' /\ fate_le s s'.
  Proof.
    intros B I H. induction H.
    - split; auto. apply fate_le_refl.
    - destruct (fate_sstep _ _ _ B I H) as [I1 L1].
      destruct (IHsstar (base_sstep _ _ _ _ _ _ _ _ B H) I1) as [I2 L2].
      split; auto. eapply fate_le_trans; eauto.
  Qed.
  (* ================================================================================================ *)
  (* L4: the outbox is what was sent locally and not yet read                                         *)
  (* ================================================================================================ *)
  Definition lsent (p : N) (l : list logentry) : list msg :=
    flat_map (fun e => match e with
                       | LLocalMessageSent _ _ q _ m => if N.eqb q p then [m] else []
                       | _ => []
                       end) l.

  Lemma lsent_app p l1 l2 : lsent p (l1 ++ l2) = lsent p l1 ++ lsent p l2.
  Proof. apply flat_map_app. Qed.

  Lemma lsent_none p l : (forall e, In e l -> owner e <> Some p) -> lsent p l = [].
  Proof.
    intros H. apply flat_map_nil_in. intros e He. apply H in He. destruct e; auto. cbn in He.
    destruct (N.eqb_spec proc p); auto. subst. congruence.
  Qed.

  (* g p: the messages returned to the user by reads of p's outbox since p was started *)
  Definition Q_out (g : N -> list msg) (nn p : N) (l : list logentry) (pe : pentry) : Prop :=
    lsent p l = g p ++ pe_outbox pe.

  Lemma Q_out_frame g nn p l l' pe :
    Q_out g nn p l pe -> (forall e, In e l' -> owner e <> Some p) -> Q_out g nn p (l ++ l') pe.
  Proof. unfold Q_out. intros A H. rewrite lsent_app, (lsent_none p l'), app_nil_r; auto. Qed.

  Lemma Q_out_pre g nname (nd : simnode) proc (p : pentry) k t st' l :
    Q_out g nname proc l p ->
    Q_out g nname proc (l ++ pre_log nname nd proc k t ++ snd (pre_pe nname proc t p k))
          (set_state (fst (pre_pe nname proc t p k)) st').
  Proof.
    unfold Q_out, set_state. cbn [pe_with pe_outbox]. intros A. rewrite lsent_app.
    destruct k as [mid m from fn|tn|m]; cbn [pre_log pre_pe fst snd app pe_with pe_outbox].
    - cbn. rewrite app_nil_r. auto.
    - destruct (sget N.compare tn (pe_ptimers p)); cbn [fst snd pe_with pe_outbox]; cbn; rewrite app_nil_r; auto.
    - cbn. rewrite app_nil_r. auto.
  Qed.

  Lemma Q_out_act g nname nid proc t (p : pentry) lc (w : world) a p' lc' w' l l' :
    Q_out g nname proc l p -> node_action nname nid proc t p lc w a = Ok (p', lc', w') -> w_log w' = w_log w ++ l' ->
    t = q_clock (w_q w) -> Q_out g nname proc (l ++ l') p'.
  Proof.
    unfold Q_out. intros A E Elog _. rewrite lsent_app.
    destruct a as [m dst|m|name delay once|name]; cbn [Sim.node_action] in E.
    - binv. apply net_send_spec in E0.
      destruct E0 as (sn & dn & sid & did & news & _ & _ & _ & _ & _ & _ & _ & _ & Hl). cbv zeta in Hl.
      cbn [w_log] in Elog. apply app_inv_head in Elog. subst l'. cbn [pe_with pe_outbox].
      destruct Hl as [[-> _]|[-> _]]; cbn; rewrite app_nil_r; auto.
    - inv E. cbn [w_log] in Elog. apply app_inv_head in Elog. subst l'. cbn [pe_with pe_outbox].
      cbn. rewrite N.eqb_refl, A. cbn [app]. rewrite <- app_assoc. reflexivity.
    - destruct (sget N.compare name (pe_ptimers p)) as [old|].
      + destruct once.
        * inv E. rewrite <- (app_nil_r (w_log w')) in Elog at 1. apply app_inv_head in Elog. subst l'.
          cbn. rewrite app_nil_r. auto.
        * binv. cbn [w_log] in Elog. apply app_inv_head in Elog. subst l'. cbn. rewrite app_nil_r. auto.
      + binv. cbn [w_log] in Elog. apply app_inv_head in Elog. subst l'. cbn. rewrite app_nil_r. auto.
    - destruct (sget N.compare name (pe_ptimers p)) as [i|]; inv E.
      + cbn [w_log] in Elog. apply app_inv_head in Elog. subst l'. cbn. rewrite app_nil_r. auto.
      + rewrite <- (app_nil_r (w_log w')) in Elog at 1. apply app_inv_head in Elog. subst l'.
        cbn. rewrite app_nil_r. auto.
  Qed.

  Definition upd (g : N -> list msg) (p : N) (v : list msg) : N -> list msg := fun x => if N.eqb x p then v else g x.

  (* how the labels of the transitions move the ghost *)
  Definition ghost_step (g : N -> list msg) (lab : @slabel T) : N -> list msg :=
    match lab with
    | LRead p l => upd g p (g p ++ l)
    | LOp (YAddProcess p _) => upd g p []
    | _ => g
    end.
  Lemma upd_eq g p v : upd g p v p = v.
  Proof. unfold upd. rewrite N.eqb_refl. reflexivity. Qed.

  Lemma upd_neq g p v x : x <> p -> upd g p v x = g x.
  Proof. unfold upd. intros H. destruct (N.eqb_spec x p); [contradiction|reflexivity]. Qed.

  Theorem out_sstep g (s : simsys) lab s' :
    BaseInv s -> PInv (Q_out g) s -> sstep s lab s' -> PInv (Q_out (ghost_step g lab)) s'.
  Proof.
    intros B I H.
    assert (Hplain : forall (lab0 : @slabel T),
               sstep s lab0 s' -> (forall p l, lab0 <> LRead p l) -> (forall p n, lab0 <> LOp (YAddProcess p n)) ->
               PInv (Q_out g) s').
    { intros lab0 H0 H1 H2. eapply (pinv_sstep_gen (Q_out g)); eauto.
      - apply Q_out_frame.
      - apply Q_out_pre.
      - apply Q_out_act.
      - intros p n r E. exfalso. eapply H2; eauto.
      - intros p l E. exfalso. eapply H1; eauto. }
    destruct lab as [|p l|o]; cbn [ghost_step].
    - eapply Hplain; eauto; intros; discriminate.
    - inversion H; subst.
      eapply (pinv_read (Q_out (upd g p (g p ++ l)))); [apply Q_out_frame|exact B| |eassumption|].
      + eapply pinv_weaken_x; [exact I|]. intros nn q lg pe Hne. unfold Q_out. rewrite upd_neq; auto.
      + intros nname nd pe Hn Hp Eo. unfold Q_out. cbn [pe_with pe_outbox]. rewrite upd_eq, app_nil_r, <- Eo.
        eapply I; eauto.
    - destruct o; try (eapply Hplain; eauto; intros; discriminate).
      inversion H; subst.
      eapply (pinv_add_process (Q_out (upd g proc []))); [apply Q_out_frame|exact B| | |eassumption].
      + eapply pinv_weaken_x; [exact I|]. intros nn q lg pe Hne. unfold Q_out. rewrite upd_neq; auto.
      + unfold Q_out. rewrite upd_eq. reflexivity.
  Qed.

  Theorem out_sstar g (s : simsys) labs s' :
    BaseInv s -> PInv (Q_out g) s -> sstar s labs s' -> PInv (Q_out (fold_left ghost_step labs g)) s'.
  Proof.
    intros B I H. revert g I. induction H; intros g I; [exact I|].
    rewrite fold_left_app.
    replace (fold_left ghost_step (lab_list lab) g) with (ghost_step g lab) by (destruct lab; reflexivity).
    apply IHsstar.
    - eapply base_sstep; eauto.
    - eapply out_sstep; eauto.
  Qed.

  (* the messages returned to the user for process p since its last start, along a script of API calls *)
  Definition returned (p : N) (labs : list (@slabel T)) : list msg := fold_left ghost_step labs (fun _ => []) p.

  (* read_local: returns exactly the outbox and empties it; None (and no change at all) when it is empty *)
  Theorem read_local_spec (s : simsys) p s' r :
    read_local s p = Ok (s', r) ->
    exists nname nd pe,
      sget N.compare p (y_proc_nodes s) = Some nname /\ sget N.compare nname (y_nodes s) = Some nd /\
      sget N.compare p (sd_procs nd) = Some pe /\
      ((pe_outbox pe = [] /\ r = None /\ s' = s) \/
       (pe_outbox pe <> [] /\ r = Some (pe_outbox pe) /\
        s' = put_proc s nname nd p (pe_with pe (pe_state pe) (pe_evlog pe) [] (pe_ptimers pe) (pe_sent pe) (pe_recv pe))
                      (sd_lcount nd) (world_of s))).
  Proof.
    unfold read_local, node_of_proc.
    destruct (sget N.compare p (y_proc_nodes s)) as [nname|] eqn:Hpn; [|discriminate].
    destruct (sget N.compare nname (y_nodes s)) as [nd|] eqn:Hn; [|discriminate]. cbn [bind].
    destruct (sget N.compare p (sd_procs nd)) as [pe|] eqn:Hp; [|discriminate].
    intros H. exists nname, nd, pe. split; [auto|]. split; [auto|]. split; [auto|].
    destruct (pe_outbox pe) as [|m l] eqn:Eo; inv H.
    - left. auto.
    - right. split; [discriminate|]. split; reflexivity.
  Qed.
  (* ================================================================================================ *)
  (* L3: the event log of a process and the trace agree                                               *)
  (* ================================================================================================ *)
  Definition owned (p : N) (e : logentry) : bool :=
    match owner e with Some q => N.eqb q p | None => false end.

  Lemma owned_false p e : owner e <> Some p -> owned p e = false.
  Proof. unfold owned. destruct (owner e) as [q|]; auto. intros H. apply N.eqb_neq. congruence. Qed.

  Lemma filter_owned_app_other p l l' :
    (forall e, In e l' -> owner e <> Some p) -> filter (owned p) (l ++ l') = filter (owned p) l.
  Proof.
    intros H. rewrite filter_app. replace (filter (owned p) l') with (@nil logentry); [apply app_nil_r|].
    symmetry. apply filter_nil_iff. apply existsb_false_iff. intros e He. apply owned_false. auto.
  Qed.

  (* Agree nn p evlog trace pending: `evlog` (event log of p) and `trace` (the trace entries that concern p since its
     start, in order) tell the same story, and `pending` is the set of pending timers it leaves.
     Every handler invocation on a message / local message is in both, with the same time and payload; every action is
     in the event log, and in the trace unless it is an ignored timer action (set_timer_once on a pending name,
     cancel_timer on a name that is not pending); timer firings are in the trace only. *)
  Inductive Agree (nn p : N) : list (T * pevent T) -> list logentry -> list (N * N) -> Prop :=
  | ag_nil : Agree nn p [] [] []
  | ag_recv ev tr pt t mid fn from m :
      Agree nn p ev tr pt ->
      Agree nn p (ev ++ [(t, PMessageReceived m from p)]) (tr ++ [LMessageReceived t mid fn from nn p m]) pt
  | ag_lrecv ev tr pt t c m :
      Agree nn p ev tr pt ->
      Agree nn p (ev ++ [(t, PLocalMessageReceived m)]) (tr ++ [LLocalMessageReceived t nn p c m]) pt
  | ag_fired ev tr pt t i n :
      sget N.compare n pt = Some i -> Agree nn p ev tr pt ->
      Agree nn p ev (tr ++ [LTimerFired t i n nn p]) (srem N.compare n pt)
  | ag_sent ev tr pt t mid sn dn dst m :
      Agree nn p ev tr pt ->
      Agree nn p (ev ++ [(t, PMessageSent m p dst)]) (tr ++ [LMessageSent t mid sn p dn dst m]) pt
  | ag_lsent ev tr pt t c m :
      Agree nn p ev tr pt ->
      Agree nn p (ev ++ [(t, PLocalMessageSent m)]) (tr ++ [LLocalMessageSent t nn p c m]) pt
  | ag_set ev tr pt t i n d once :
      sget N.compare n pt = None \/ once = false -> Agree nn p ev tr pt ->
      Agree nn p (ev ++ [(t, PTimerSet n d once)]) (tr ++ [LTimerSet t i n nn p d]) (sins N.compare n i pt)
  | ag_set_ignored ev tr pt t n d old :
      sget N.compare n pt = Some old -> Agree nn p ev tr pt ->
      Agree nn p (ev ++ [(t, PTimerSet n d true)]) tr pt
  | ag_cancel ev tr pt t i n :
      sget N.compare n pt = Some i -> Agree nn p ev tr pt ->
      Agree nn p (ev ++ [(t, PTimerCancelled n)]) (tr ++ [LTimerCancelled t i n nn p]) (srem N.compare n pt)
  | ag_cancel_none ev tr pt t n :
      sget N.compare n pt = None -> Agree nn p ev tr pt ->
      Agree nn p (ev ++ [(t, PTimerCancelled n)]) tr pt.

  Definition Q_ev (nn p : N) (l : list logentry) (pe : pentry) : Prop :=
    Agree nn p (pe_evlog pe) (filter (owned p) l) (pe_ptimers pe).

  Lemma Q_ev_frame nn p l l' pe :
    Q_ev nn p l pe -> (forall e, In e l' -> owner e <> Some p) -> Q_ev nn p (l ++ l') pe.
  Proof. unfold Q_ev. intros A H. rewrite filter_owned_app_other; auto. Qed.

  Lemma owned_self_eq p : N.eqb p p = true.
  Proof. apply N.eqb_refl. Qed.

  Lemma Q_ev_pre nname (nd : simnode) proc (p : pentry) k t st' l :
    Q_ev nname proc l p ->
    Q_ev nname proc (l ++ pre_log nname nd proc k t ++ snd (pre_pe nname proc t p k))
         (set_state (fst (pre_pe nname proc t p k)) st').
  Proof.
    unfold Q_ev, set_state. cbn [pe_with pe_evlog pe_ptimers]. intros A. rewrite filter_app.
    destruct k as [mid m from fn|tn|m]; cbn [pre_log pre_pe fst snd app pe_with pe_evlog pe_ptimers].
    - cbn [filter owned owner]. rewrite N.eqb_refl. constructor. auto.
    - destruct (sget N.compare tn (pe_ptimers p)) eqn:Et; cbn [fst snd pe_with pe_evlog pe_ptimers].
      + cbn [filter owned owner]. rewrite N.eqb_refl. constructor; auto.
      + cbn [filter]. rewrite app_nil_r. auto.
    - cbn [filter owned owner]. rewrite N.eqb_refl. constructor. auto.
  Qed.

  Lemma Q_ev_act nname nid proc t (p : pentry) lc (w : world) a p' lc' w' l l' :
    Q_ev nname proc l p -> node_action nname nid proc t p lc w a = Ok (p', lc', w') -> w_log w' = w_log w ++ l' ->
    t = q_clock (w_q w) -> Q_ev nname proc (l ++ l') p'.
  Proof.
    unfold Q_ev. intros A E Elog Et. rewrite filter_app.
    destruct a as [m dst|m|name delay once|name]; cbn [Sim.node_action] in E.
    - binv. apply net_send_spec in E0.
      destruct E0 as (sn & dn & sid & did & news & _ & _ & _ & _ & _ & _ & _ & _ & Hl). cbv zeta in Hl.
      cbn [w_log] in Elog. apply app_inv_head in Elog. subst l'. cbn [pe_with pe_evlog pe_ptimers action_event].
      destruct Hl as [[-> _]|[-> _]]; cbn [filter owned owner]; rewrite N.eqb_refl; constructor; auto.
    - inv E. cbn [w_log] in Elog. apply app_inv_head in Elog. subst l'. cbn [pe_with pe_evlog pe_ptimers action_event].
      cbn [filter owned owner]. rewrite N.eqb_refl. constructor. auto.
    - destruct (sget N.compare name (pe_ptimers p)) as [old|] eqn:Eo.
      + destruct once.
        * inv E. rewrite <- (app_nil_r (w_log w')) in Elog at 1. apply app_inv_head in Elog. subst l'.
          cbn [pe_with pe_evlog pe_ptimers action_event filter]. rewrite app_nil_r. econstructor; eauto.
        * binv. cbn [w_log] in Elog. apply app_inv_head in Elog. subst l'.
          cbn [pe_with pe_evlog pe_ptimers action_event]. cbn [filter owned owner]. rewrite N.eqb_refl.
          constructor; auto.
      + binv. cbn [w_log] in Elog. apply app_inv_head in Elog. subst l'.
        cbn [pe_with pe_evlog pe_ptimers action_event]. cbn [filter owned owner]. rewrite N.eqb_refl.
        constructor; auto.
    - destruct (sget N.compare name (pe_ptimers p)) as [i|] eqn:Ei; inv E.
      + cbn [w_log] in Elog. apply app_inv_head in Elog. subst l'.
        cbn [pe_with pe_evlog pe_ptimers action_event]. cbn [filter owned owner]. rewrite N.eqb_refl.
        constructor; auto.
      + rewrite <- (app_nil_r (w_log w')) in Elog at 1. apply app_inv_head in Elog. subst l'.
        cbn [pe_with pe_evlog pe_ptimers action_event filter]. rewrite app_nil_r. constructor; auto.
  Qed.

  (* a projection consequence of Agree: the message events of the event log are exactly the message entries of the
     trace, in the same order, with the same times and payloads *)
  Definition ev_msg_item (x : T * pevent T) : list (T * pevent T) :=
    match snd x with
    | PMessageReceived _ _ _ | PLocalMessageReceived _ | PMessageSent _ _ _ | PLocalMessageSent _ => [x]
    | _ => []
    end.
  Definition tr_msg_item (e : logentry) : list (T * pevent T) :=
    match e with
    | LMessageReceived t _ _ from _ dp m => [(t, PMessageReceived m from dp)]
    | LLocalMessageReceived t _ _ _ m => [(t, PLocalMessageReceived m)]
    | LMessageSent t _ _ sp _ dp m => [(t, PMessageSent m sp dp)]
    | LLocalMessageSent t _ _ _ m => [(t, PLocalMessageSent m)]
    | _ => []
    end.

  Lemma agree_messages nn p ev tr pt :
    Agree nn p ev tr pt -> flat_map ev_msg_item ev = flat_map tr_msg_item tr.
  Proof.
    induction 1; rewrite ?flat_map_app; cbn [flat_map ev_msg_item tr_msg_item snd app]; rewrite ?app_nil_r; congruence.
  Qed.

  Theorem ev_reachable s : Reachable s -> PInv Q_ev s.
  Proof.
    apply pinv_reachable.
    - apply Q_ev_frame.
    - apply Q_ev_pre.
    - apply Q_ev_act.
    - intros nn p. constructor.
    - intros nn p l pe H. exact H.
  Qed.
  (* ================================================================================================ *)
  (* L6: identifiers                                                                                  *)
  (* ================================================================================================ *)
  (* what one transition appends, as far as identifiers go *)
  Definition entry_ok (s s' : simsys) (e : logentry) : Prop :=
    match e with
    | LTimerSet _ i _ _ _ _ => q_count (y_q s) <= i < q_count (y_q s')
    | LTimerFired _ i n nn p | LTimerCancelled _ i n nn p =>
      exists nd pe, sget N.compare nn (y_nodes s) = Some nd /\ sget N.compare p (sd_procs nd) = Some pe /\
                    sget N.compare n (pe_ptimers pe) = Some i
    | LLocalMessageSent _ nn _ c _ | LLocalMessageReceived _ nn _ c _ =>
      exists nd nd', sget N.compare nn (y_nodes s) = Some nd /\ sget N.compare nn (y_nodes s') = Some nd' /\
                     sd_lcount nd <= c < sd_lcount nd'
    | _ => True
    end.
  Definition idful (e : logentry) : bool :=
    match e with
    | LTimerSet _ _ _ _ _ _ | LLocalMessageSent _ _ _ _ _ | LLocalMessageReceived _ _ _ _ _ => true
    | _ => false
    end.

  Record LogStep (s s' : simsys) (l' : list logentry) : Prop := {
    ls_log : y_log s' = y_log s ++ l';
    ls_lcount : forall nn nd, sget N.compare nn (y_nodes s) = Some nd ->
                  exists nd', sget N.compare nn (y_nodes s') = Some nd' /\ sd_lcount nd <= sd_lcount nd' /\ sd_id nd' = sd_id nd;
    ls_qcount : q_count (y_q s) <= q_count (y_q s');
    ls_entries : forall e, In e l' -> entry_ok s s' e;
    ls_one : (length (filter idful l') <= 1)%nat }.

  Lemma lcount_same_nodes (s s' : simsys) :
    y_nodes s' = y_nodes s ->
    forall nn nd, sget N.compare nn (y_nodes s) = Some nd ->
      exists nd', sget N.compare nn (y_nodes s') = Some nd' /\ sd_lcount nd <= sd_lcount nd' /\ sd_id nd' = sd_id nd.
  Proof. intros -> nn nd H. exists nd. split; auto. split; [lia|reflexivity]. Qed.

  Lemma lcount_upd (s s' : simsys) nname nd0 nd1 :
    y_nodes s' = sins N.compare nname nd1 (y_nodes s) -> sget N.compare nname (y_nodes s) = Some nd0 ->
    sd_lcount nd0 <= sd_lcount nd1 /\ sd_id nd1 = sd_id nd0 ->
    forall nn nd, sget N.compare nn (y_nodes s) = Some nd ->
      exists nd', sget N.compare nn (y_nodes s') = Some nd' /\ sd_lcount nd <= sd_lcount nd' /\ sd_id nd' = sd_id nd.
  Proof.
    intros -> H0 [Hle Hid] nn nd H. rewrite sgetN_sins. destruct (N.eqb_spec nn nname) as [->|Hne].
    - exists nd1. split; auto. assert (nd = nd0) by congruence. subst. auto.
    - exists nd. split; auto. split; [lia|reflexivity].
  Qed.

  Lemma logstep_quiet (s s' : simsys) l' :
    y_log s' = y_log s ++ l' -> (forall e, In e l' -> idful e = false /\ entry_ok s s' e) ->
    (forall nn nd, sget N.compare nn (y_nodes s) = Some nd ->
       exists nd', sget N.compare nn (y_nodes s') = Some nd' /\ sd_lcount nd <= sd_lcount nd' /\ sd_id nd' = sd_id nd) ->
    q_count (y_q s) <= q_count (y_q s') -> LogStep s s' l'.
  Proof.
    intros El He Hl Hq. constructor; auto.
    - intros e H. apply He. auto.
    - replace (filter idful l') with (@nil logentry); [cbn; lia|].
      symmetry. apply filter_nil_iff. apply existsb_false_iff. intros e H. apply He. auto.
  Qed.

  Lemma sys_action_logstep (s : simsys) nname proc a s' :
    BaseInv s -> sys_action s nname proc a = Ok s' -> exists l', LogStep s s' l'.
  Proof.
    intros B H. pose proof (sys_action_q_mono ops draws _ _ _ _ _ H) as [Hqc _].
    apply sys_action_inv in H. destruct H as (nd & p & p' & lc' & w' & Hn & Hp & E & ->).
    assert (Hlc : forall lc1, sd_lcount nd <= lc1 -> forall (p1 : pentry) (w1 : world) nn nd0,
               sget N.compare nn (y_nodes s) = Some nd0 ->
               exists nd', sget N.compare nn (y_nodes (put_proc s nname nd proc p1 lc1 w1)) = Some nd' /\
                           sd_lcount nd0 <= sd_lcount nd' /\ sd_id nd' = sd_id nd0).
    { intros lc1 Hle p1 w1. eapply lcount_upd; [reflexivity|exact Hn|split; [exact Hle|reflexivity]]. }
    destruct a as [m dst|m|name delay once|name]; cbn [Sim.node_action] in E.
    - binv. apply net_send_spec in E0.
      destruct E0 as (sn & dn & sid & did & news & _ & _ & _ & _ & _ & _ & _ & _ & Hl). cbv zeta in Hl.
      eexists. apply logstep_quiet; [reflexivity| |apply Hlc; lia|exact Hqc].
      cbn [w_log]. destruct Hl as [[-> _]|[-> _]]; intros e He.
      + destruct He as [<-|[]]. cbn. auto.
      + destruct He as [<-|[<-|[]]]; cbn; auto.
    - inv E. eexists. constructor; [reflexivity|apply Hlc; lia|exact Hqc| |cbn; lia].
      intros e [<-|[]]. cbn [entry_ok]. exists nd. eexists. split; auto.
      unfold put_proc. cbn [y_with y_nodes]. rewrite sgetN_sins, N.eqb_refl. split; [reflexivity|]. cbn. lia.
    - assert (Hset : forall q0 q2 i, q_count q0 = q_count (y_q s) ->
                q_add ops q0 (QTimer proc name) (sd_id nd) (sd_id nd) delay = Ok (q2, i) ->
                forall (p1 : pentry) n1,
                LogStep s (put_proc s nname nd proc p1 (sd_lcount nd)
                                    {| w_q := q2; w_net := n1; w_log := y_log s ++ [LTimerSet (q_clock (y_q s)) i name nname proc delay] |})
                        [LTimerSet (q_clock (y_q s)) i name nname proc delay]).
      { intros q0 q2 i Hc Ha p1 n1. apply q_add_spec in Ha. destruct Ha as [-> ->].
        constructor; [reflexivity|apply Hlc; lia| | |cbn; lia].
        - unfold put_proc. cbn. lia.
        - intros e [<-|[]]. cbn [entry_ok]. unfold put_proc. cbn. lia. }
      destruct (sget N.compare name (pe_ptimers p)) as [old|].
      + destruct once.
        * inv E. exists []. apply logstep_quiet; [cbn; rewrite app_nil_r; reflexivity|intros e []|apply Hlc; lia|exact Hqc].
        * binv. cbn [world_of w_q w_net w_log] in *. eexists. eapply Hset; [|exact E0]. reflexivity.
      + binv. cbn [world_of w_q w_net w_log] in *. eexists. eapply Hset; [|exact E0]. reflexivity.
    - destruct (sget N.compare name (pe_ptimers p)) as [i|] eqn:Ei; inv E.
      + eexists. apply logstep_quiet; [reflexivity| |apply Hlc; lia|exact Hqc].
        intros e [<-|[]]. split; [reflexivity|]. cbn [entry_ok]. eauto.
      + exists []. apply logstep_quiet; [cbn; rewrite app_nil_r; reflexivity|intros e []|apply Hlc; lia|exact Hqc].
  Qed.
  Lemma ctl_entry_ok (s s' : simsys) e : is_ctl e = true -> idful e = false /\ entry_ok s s' e.
  Proof. destruct e; try discriminate; cbn; auto. Qed.

  Lemma dropped_entry_ok (s s' : simsys) e : is_dropped e = true -> idful e = false /\ entry_ok s s' e.
  Proof. destruct e; try discriminate; cbn; auto. Qed.

  Lemma basic_logstep (s : simsys) o s' r :
    BaseInv s -> is_basic o = true -> sim_op 0 s o = Ok (s', r) -> exists l', LogStep s s' l'.
  Proof.
    intros B Hb H. pose proof (basic_q_mono ops handler init_state draws crash_order _ _ _ _ B Hb H) as [Hqc _].
    destruct o; try discriminate Hb.
    - cbn [Sim.sim_op] in H. destruct (shas N.compare name (y_nodes s)) eqn:Hh; [discriminate|].
      apply shas_false in Hh. inv H.
      eexists. apply logstep_quiet; [reflexivity| | |exact Hqc].
      + intros e [<-|[]]. apply ctl_entry_ok. reflexivity.
      + intros nn nd Hn. cbn [y_nodes]. rewrite sgetN_sins. destruct (N.eqb_spec nn name) as [->|Hne]; [congruence|].
        exists nd. split; auto. split; [lia|reflexivity].
    - cbn [Sim.sim_op] in H. destruct (sget N.compare node (y_nodes s)) as [nd0|] eqn:Hn0; [|discriminate].
      destruct (shas N.compare proc (y_proc_nodes s)); [discriminate|]. inv H.
      eexists. apply logstep_quiet; [reflexivity| | |exact Hqc].
      + intros e [<-|[]]. cbn. auto.
      + eapply lcount_upd; [reflexivity|exact Hn0|]. cbn. split; [lia|reflexivity].
    - cbn [Sim.sim_op] in H. destruct (sget N.compare node (y_nodes s)) as [nd0|] eqn:Hn0; [|discriminate]. inv H.
      exists []. apply logstep_quiet; [cbn; rewrite app_nil_r; reflexivity|intros e []| |exact Hqc].
      eapply lcount_upd; [reflexivity|exact Hn0|]. cbn. split; [lia|reflexivity].
    - cbn [Sim.sim_op] in H. destruct (snet_apply (y_net s) (now s) o) as [n' logs] eqn:E. inv H.
      apply snet_apply_logs in E. destruct E as [_ E].
      eexists. apply logstep_quiet; [reflexivity| |apply lcount_same_nodes; reflexivity|exact Hqc].
      intros e He. apply ctl_entry_ok. auto.
    - pose proof H as H'. apply crash_state in H'. destruct H' as (nd & Hn & El & _ & _ & En & _).
      eexists. apply logstep_quiet; [exact El| | |exact Hqc].
      + intros e [<-|He]; [apply ctl_entry_ok; reflexivity|]. apply dropped_entry_ok. eapply crash_drops_dropped; eauto.
      + eapply lcount_upd; [exact En|exact Hn|]. cbn. split; [lia|reflexivity].
    - pose proof H as H'. apply recover_state in H'. destruct H' as (nd & Hn & Hc & El & _ & _ & En & _).
      eexists. apply logstep_quiet; [exact El| | |exact Hqc].
      + intros e [<-|[]]. apply ctl_entry_ok. reflexivity.
      + eapply lcount_upd; [exact En|exact Hn|]. cbn. split; [lia|reflexivity].
  Qed.

  Theorem sstep_logstep (s : simsys) lab s' : BaseInv s -> sstep s lab s' -> exists l', LogStep s s' l'.
  Proof.
    intros B H. pose proof (sstep_q_mono ops handler init_state draws crash_order _ _ _ B H) as [Hqc _]. destruct H.
    - exists []. apply logstep_quiet; [cbn; rewrite app_nil_r; reflexivity|intros e0 []|apply lcount_same_nodes; reflexivity|exact Hqc].
    - eexists. apply logstep_quiet; [rewrite pre_state_log; reflexivity| | |exact Hqc].
      + unfold ev_kind. destruct (q_data e) as [mid m src sn dst dn|pr tn] eqn:Ed; cbn [fst snd pre_log pre_pe app].
        * intros x [<-|[]]. cbn. auto.
        * unfold ev_kind in H3. rewrite Ed in H3. cbn [fst] in H3.
          destruct (sget N.compare tn (pe_ptimers p)) as [tid|] eqn:Et; cbn [snd]; intros x Hx; [|contradiction].
          destruct Hx as [<-|[]]. split; [reflexivity|]. cbn [entry_ok]. eauto.
      + eapply lcount_upd; [reflexivity|exact H0|]. unfold ev_kind. destruct (q_data e); cbn; lia.
    - eexists. constructor; [rewrite pre_state_log; reflexivity| |exact Hqc| |cbn; lia].
      + eapply lcount_upd; [reflexivity|exact H0|]. cbn. split; [lia|reflexivity].
      + cbn [pre_log pre_pe snd app]. intros x [<-|[]]. cbn [entry_ok]. exists nd. eexists. split; auto.
        unfold pre_state, put_proc. cbn [y_with y_nodes]. rewrite sgetN_sins, N.eqb_refl. split; [reflexivity|]. cbn. lia.
    - eapply sys_action_logstep; eauto.
    - exists []. apply logstep_quiet; [cbn; rewrite app_nil_r; reflexivity|intros e0 []|apply lcount_same_nodes; reflexivity|exact Hqc].
    - exists []. apply logstep_quiet; [cbn; rewrite app_nil_r; reflexivity|intros e0 []|apply lcount_same_nodes; reflexivity|exact Hqc].
    - exists []. apply read_local_spec in H. destruct H as (nname & nd & pe & Hpn & Hn & Hp & [(_ & _ & ->)|(_ & _ & ->)]).
      + apply logstep_quiet; [rewrite app_nil_r; reflexivity|intros e0 []|apply lcount_same_nodes; reflexivity|lia].
      + apply logstep_quiet; [cbn; rewrite app_nil_r; reflexivity|intros e0 []| |exact Hqc].
        eapply lcount_upd; [reflexivity|exact Hn|]. cbn. split; [lia|reflexivity].
    - eapply basic_logstep; eauto.
  Qed.
  (* pending timers of a process were set by it: the LTimerSet entry is in the trace since its start *)
  Definition Q_tm (nn p : N) (l : list logentry) (pe : pentry) : Prop :=
    forall n i, sget N.compare n (pe_ptimers pe) = Some i -> exists t d, In (LTimerSet t i n nn p d) l.

  Lemma Q_tm_frame nn p l l' pe :
    Q_tm nn p l pe -> (forall e, In e l' -> owner e <> Some p) -> Q_tm nn p (l ++ l') pe.
  Proof. intros A _ n i H. destruct (A n i H) as [t [d Hin]]. exists t, d. apply in_app_iff. auto. Qed.

  Lemma Q_tm_pre nname (nd : simnode) proc (p : pentry) k t st' l :
    Q_tm nname proc l p ->
    Q_tm nname proc (l ++ pre_log nname nd proc k t ++ snd (pre_pe nname proc t p k))
         (set_state (fst (pre_pe nname proc t p k)) st').
  Proof.
    unfold Q_tm, set_state. cbn [pe_with pe_ptimers]. intros A n i.
    assert (Hold : forall X, sget N.compare n (pe_ptimers p) = Some i ->
              exists t0 d, In (LTimerSet t0 i n nname proc d) (l ++ X)).
    { intros X H. destruct (A n i H) as [t0 [d Hin]]. exists t0, d. apply in_app_iff. auto. }
    destruct k as [mid m from fn|tn|m]; cbn [pre_pe fst pe_with pe_ptimers]; auto.
    destruct (sget N.compare tn (pe_ptimers p)); cbn [fst pe_with pe_ptimers]; auto.
    rewrite sgetN_srem. destruct (N.eqb n tn); [discriminate|]. auto.
  Qed.

  Lemma Q_tm_act nname nid proc t (p : pentry) lc (w : world) a p' lc' w' l l' :
    Q_tm nname proc l p -> node_action nname nid proc t p lc w a = Ok (p', lc', w') -> w_log w' = w_log w ++ l' ->
    t = q_clock (w_q w) -> Q_tm nname proc (l ++ l') p'.
  Proof.
    unfold Q_tm. intros A E Elog _ n i.
    assert (Hold : sget N.compare n (pe_ptimers p) = Some i -> exists t0 d, In (LTimerSet t0 i n nname proc d) (l ++ l')).
    { intros H. destruct (A n i H) as [t0 [d Hin]]. exists t0, d. apply in_app_iff. auto. }
    destruct a as [m dst|m|name delay once|name]; cbn [Sim.node_action] in E.
    - binv. cbn [pe_with pe_ptimers]. auto.
    - inv E. cbn [pe_with pe_ptimers]. auto.
    - assert (Hnew : forall j, w_log w ++ [LTimerSet t j name nname proc delay] = w_log w ++ l' ->
                sget N.compare n (sins N.compare name j (pe_ptimers p)) = Some i ->
                exists t0 d, In (LTimerSet t0 i n nname proc d) (l ++ l')).
      { intros j Ej. apply app_inv_head in Ej. subst l'. rewrite sgetN_sins.
        destruct (N.eqb_spec n name) as [->|Hne]; intros H; auto.
        inv H. exists t, delay. apply in_app_iff. right. left. reflexivity. }
      destruct (sget N.compare name (pe_ptimers p)) as [old|].
      + destruct once.
        * inv E. cbn [pe_with pe_ptimers]. auto.
        * binv. cbn [pe_with pe_ptimers w_log] in *. eauto.
      + binv. cbn [pe_with pe_ptimers w_log] in *. eauto.
    - destruct (sget N.compare name (pe_ptimers p)) as [j|]; inv E; cbn [pe_with pe_ptimers]; auto.
      rewrite sgetN_srem. destruct (N.eqb n name); [discriminate|]. auto.
  Qed.

  Theorem tm_reachable s : Reachable s -> PInv Q_tm s.
  Proof.
    apply pinv_reachable.
    - apply Q_tm_frame.
    - apply Q_tm_pre.
    - apply Q_tm_act.
    - intros nn p n i H. cbn in H. discriminate.
    - intros nn p l pe H. exact H.
  Qed.

  Lemma in_since p l e : In e (since p l) -> In e l.
  Proof.
    destruct (since_spec p l) as [_ [[E _]|[pre [x [_ E]]]]].
    - rewrite E. auto.
    - intros H. rewrite E. apply in_app_iff. right. right. auto.
  Qed.

  (* ---- the identifier invariant ---- *)
  Definition tset_ids (l : list logentry) : list N :=
    flat_map (fun e => match e with LTimerSet _ i _ _ _ _ => [i] | _ => [] end) l.
  Definition local_ids (l : list logentry) : list (N * N) :=
    flat_map (fun e => match e with
                       | LLocalMessageSent _ nn _ c _ | LLocalMessageReceived _ nn _ c _ => [(nn, c)]
                       | _ => []
                       end) l.

  (* a timer id is larger than all timer ids set before *)
  Definition tset_incr (l1 : list logentry) (e : logentry) : Prop :=
    match e with LTimerSet _ i _ _ _ _ => forall j, In j (tset_ids l1) -> j < i | _ => True end.
  (* a fired / cancelled timer was set before, by the same process on the same node under the same name *)
  Definition tref_ok (l1 : list logentry) (e : logentry) : Prop :=
    match e with
    | LTimerFired _ i n nn p | LTimerCancelled _ i n nn p => exists t d, In (LTimerSet t i n nn p d) l1
    | _ => True
    end.
  (* the identifier node-process-count of a local message was not used before (already node-count is fresh) *)
  Definition local_fresh (l1 : list logentry) (e : logentry) : Prop :=
    match e with
    | LLocalMessageSent _ nn _ c _ | LLocalMessageReceived _ nn _ c _ => ~ In (nn, c) (local_ids l1)
    | _ => True
    end.

  Record IdInv (s : simsys) : Prop := {
    id_tset_incr : prefix_ok tset_incr (y_log s);
    id_tset_lt : forall i, In i (tset_ids (y_log s)) -> i < q_count (y_q s);
    id_tref : prefix_ok tref_ok (y_log s);
    id_local_fresh : prefix_ok local_fresh (y_log s);
    id_local_lt : forall nn c, In (nn, c) (local_ids (y_log s)) ->
                    exists nd, sget N.compare nn (y_nodes s) = Some nd /\ c < sd_lcount nd }.

  Lemma tset_ids_app l1 l2 : tset_ids (l1 ++ l2) = tset_ids l1 ++ tset_ids l2.
  Proof. apply flat_map_app. Qed.
  Lemma local_ids_app l1 l2 : local_ids (l1 ++ l2) = local_ids l1 ++ local_ids l2.
  Proof. apply flat_map_app. Qed.

  Lemma not_idful_ids l : (forall e, In e l -> idful e = false) -> tset_ids l = [] /\ local_ids l = [].
  Proof.
    intros H. split; apply flat_map_nil_in; intros e He; apply H in He; destruct e; try discriminate; reflexivity.
  Qed.

  (* at most one entry with an identifier: nothing with an identifier before it *)
  Lemma one_idful_before l1 e l2 :
    (length (filter idful (l1 ++ e :: l2)) <= 1)%nat -> idful e = true -> forall x, In x l1 -> idful x = false.
  Proof.
    rewrite filter_app, app_length. cbn [filter]. intros H He x Hx. rewrite He in H. cbn [length] in H.
    destruct (idful x) eqn:E; auto.
    assert (In x (filter idful l1)) by (apply filter_In; auto).
    destruct (filter idful l1); [contradiction|]. cbn [length] in H. lia.
  Qed.

  Lemma in_tset_ids i l : In i (tset_ids l) -> exists t n nn p d, In (LTimerSet t i n nn p d) l.
  Proof.
    unfold tset_ids. intros H. apply in_flat_map in H. destruct H as [e [He Hi]].
    destruct e; try contradiction. destruct Hi as [<-|[]]. eauto 10.
  Qed.

  Lemma in_local_ids nn c l :
    In (nn, c) (local_ids l) ->
    exists e, In e l /\ match e with
                         | LLocalMessageSent _ nn' _ c' _ | LLocalMessageReceived _ nn' _ c' _ => nn' = nn /\ c' = c
                         | _ => False
                         end.
  Proof.
    unfold local_ids. intros H. apply in_flat_map in H. destruct H as [e [He Hi]]. exists e. split; auto.
    destruct e; try contradiction; destruct Hi as [Hi|[]]; inv Hi; auto.
  Qed.

  Theorem id_sstep (s : simsys) lab s' :
    BaseInv s -> PInv Q_tm s -> IdInv s -> sstep s lab s' -> IdInv s'.
  Proof.
    intros B Itm [I1 I2 I3 I4 I5] H. destruct (sstep_logstep _ _ _ B H) as [l' [L1 L2 L3 L4 L5]].
    constructor; rewrite ?L1.
    - apply prefix_ok_app; auto. intros l1 e l2 El. destruct e; cbn [tset_incr]; auto.
      intros j Hj. rewrite tset_ids_app in Hj. apply in_app_iff in Hj.
      assert (He : entry_ok s s' (LTimerSet t timer_id timer_name node proc delay)) by (apply L4; rewrite El; apply in_app_iff; cbn; auto).
      cbn [entry_ok] in He. destruct Hj as [Hj|Hj].
      + apply I2 in Hj. lia.
      + rewrite El in L5. pose proof (one_idful_before _ _ _ L5 eq_refl) as Hb.
        destruct (not_idful_ids l1 Hb) as [E _]. rewrite E in Hj. contradiction.
    - intros i Hi. rewrite tset_ids_app in Hi. apply in_app_iff in Hi. destruct Hi as [Hi|Hi].
      + apply I2 in Hi. lia.
      + apply in_tset_ids in Hi. destruct Hi as (t & n & nn & p & d & Hin). apply L4 in Hin. cbn [entry_ok] in Hin. lia.
    - apply prefix_ok_app; auto. intros l1 e l2 El.
      assert (He : entry_ok s s' e) by (apply L4; rewrite El; apply in_app_iff; cbn; auto).
      destruct e; cbn [tref_ok]; auto; cbn [entry_ok] in He; destruct He as (nd & pe & Hn & Hp & Hi);
        destruct (Itm _ _ _ _ Hn Hp _ _ Hi) as [t0 [d Hin]]; exists t0, d; apply in_app_iff; left; eapply in_since; eauto.
    - apply prefix_ok_app; auto. intros l1 e l2 El.
      assert (He : entry_ok s s' e) by (apply L4; rewrite El; apply in_app_iff; cbn; auto).
      assert (Hfresh : forall nn c, idful e = true ->
                (exists nd nd', sget N.compare nn (y_nodes s) = Some nd /\ sget N.compare nn (y_nodes s') = Some nd' /\
                                sd_lcount nd <= c < sd_lcount nd') -> ~ In (nn, c) (local_ids (y_log s ++ l1))).
      { intros nn c Hid (nd & nd' & Hn & _ & Hc) Hin. rewrite local_ids_app in Hin. apply in_app_iff in Hin.
        destruct Hin as [Hin|Hin].
        - apply I5 in Hin. destruct Hin as [nd0 [Hn0 Hlt]]. assert (nd0 = nd) by congruence. subst. lia.
        - rewrite El in L5. pose proof (one_idful_before _ _ _ L5 Hid) as Hb.
          destruct (not_idful_ids l1 Hb) as [_ E]. rewrite E in Hin. contradiction. }
      destruct e; cbn [local_fresh]; auto; apply Hfresh; auto.
    - intros nn c Hin. rewrite local_ids_app in Hin. apply in_app_iff in Hin. destruct Hin as [Hin|Hin].
      + apply I5 in Hin. destruct Hin as [nd [Hn Hlt]]. destruct (L2 _ _ Hn) as [nd' [Hn' Hle]]. exists nd'. split; auto. lia.
      + apply in_local_ids in Hin. destruct Hin as [e [He Hm]]. apply L4 in He.
        destruct e; try contradiction; destruct Hm as [-> ->]; cbn [entry_ok] in He;
          destruct He as (nd & nd' & Hn & Hn' & Hc); exists nd'; split; auto; lia.
  Qed.

  Lemma id_sys0 : IdInv (sys0 ops).
  Proof.
    constructor; cbn; try apply prefix_ok_nil; intros; contradiction.
  Qed.

  Theorem id_reachable s : Reachable s -> IdInv s.
  Proof.
    intros HR.
    assert (H : PInv Q_tm s /\ IdInv s).
    { revert s HR. apply (reachable_inv ops handler init_state draws crash_order (fun s => PInv Q_tm s /\ IdInv s)).
      - split; [|apply id_sys0]. intros nname nd p pe H. cbn in H. discriminate.
      - intros s0 lab s1 B [I1 I2] H. split.
        + eapply (pinv_sstep Q_tm); eauto.
          * apply Q_tm_frame.
          * apply Q_tm_pre.
          * apply Q_tm_act.
          * intros nn p n i H0. cbn in H0. discriminate.
        + eapply id_sstep; eauto. }
    apply H.
  Qed.
  (* ================================================================================================ *)
  (* The invariant and the theorems of C17                                                            *)
  (* ================================================================================================ *)
  Record LogInv (s : simsys) : Prop := {
    li_base : BaseInv s;
    li_net : NetLogInv s;                 (* L2 *)
    li_cnt : PInv Q_cnt s;                (* L1 *)
    li_ev : PInv Q_ev s;                  (* L3 *)
    li_fate : FateInv s;                  (* L5 *)
    li_tm : PInv Q_tm s;                  (* L6: pending timers were set, by the same process on the same node *)
    li_id : IdInv s }.                    (* L6 *)

  Theorem log_inv_reachable s : Reachable s -> LogInv s.
  Proof.
    intros H. constructor.
    - eapply reachable_base; eauto.
    - apply netlog_reachable; auto.
    - apply cnt_reachable; auto.
    - apply ev_reachable; auto.
    - apply fate_reachable; auto.
    - apply tm_reachable; auto.
    - apply id_reachable; auto.
  Qed.

  (* ---- L1 ---- *)
  Theorem sent_counter s p nname nd pe :
    Reachable s ->
    sget N.compare p (y_proc_nodes s) = Some nname -> sget N.compare nname (y_nodes s) = Some nd ->
    sget N.compare p (sd_procs nd) = Some pe ->
    pe_sent pe = cnt (sent_by p) (since p (y_log s)) /\ pe_recv pe = cnt (recv_by p) (since p (y_log s)).
  Proof. intros HR _ Hn Hp. exact (cnt_reachable s HR _ _ _ _ Hn Hp). Qed.

  (* ---- L2 ---- *)
  Lemma nth_nseq n k i : nth_error (nseq n) k = Some i -> i = N.of_nat k.
  Proof.
    unfold nseq. intros H. rewrite nth_error_map in H.
    destruct (nth_error (seq 0 (N.to_nat n)) k) as [j|] eqn:E; cbn in H; [|discriminate]. inv H.
    assert (Hk : (k < length (seq 0 (N.to_nat n)))%nat) by (apply nth_error_Some; congruence).
    rewrite seq_length in Hk. rewrite (nth_error_nth' _ 0%nat) in E by (rewrite seq_length; auto).
    rewrite seq_nth in E by auto. inv E. reflexivity.
  Qed.

  Theorem network_counters s :
    Reachable s ->
    sn_msg_count (y_net s) = cnt is_sent (y_log s) /\
    sn_net_count (y_net s) = cnt is_cross (y_log s) /\
    sn_traffic (y_net s) = sumN cross_size (y_log s) /\
    (* the k-th LMessageSent entry (counting from 0) has message id k *)
    (forall k i, nth_error (sent_ids (y_log s)) k = Some i -> i = N.of_nat k).
  Proof.
    intros HR. destruct (netlog_reachable s HR) as [I1 I2 I3 I4]. repeat (split; [assumption|]).
    intros k i. rewrite I1. apply nth_nseq.
  Qed.

  (* ---- L3 ---- *)
  Theorem event_log_agrees s p nname nd pe :
    Reachable s -> sget N.compare nname (y_nodes s) = Some nd -> sget N.compare p (sd_procs nd) = Some pe ->
    Agree nname p (pe_evlog pe) (filter (owned p) (since p (y_log s))) (pe_ptimers pe).
  Proof. intros HR Hn Hp. exact (ev_reachable s HR _ _ _ _ Hn Hp). Qed.

  Corollary event_log_messages s p nname nd pe :
    Reachable s -> sget N.compare nname (y_nodes s) = Some nd -> sget N.compare p (sd_procs nd) = Some pe ->
    flat_map ev_msg_item (pe_evlog pe) = flat_map tr_msg_item (filter (owned p) (since p (y_log s))).
  Proof. intros HR Hn Hp. eapply agree_messages. eapply event_log_agrees; eauto. Qed.

  (* per invocation: node_handle = prologue + actions (SimBaseP.node_handle_sys / deliver_decomp); the prologue extends
     event log and trace as Q_ev_pre says, each action as Q_ev_act says (same time in both: the clock of the queue) *)
  Definition invocation_prologue_agrees := Q_ev_pre.
  Definition invocation_action_agrees := Q_ev_act.

  (* ---- L4 ---- *)
  Theorem outbox_reads fuel l s rets p nname nd pe :
    run_ops fuel (sys0 ops) l = Ok (s, rets) ->
    sget N.compare nname (y_nodes s) = Some nd -> sget N.compare p (sd_procs nd) = Some pe ->
    lsent p (since p (y_log s)) = returned p (run_reads l rets) ++ pe_outbox pe.
  Proof.
    intros H Hn Hp. apply run_ops_sstar in H; [|apply base_sys0].
    eapply (out_sstar (fun _ => [])) in H; [|apply base_sys0|].
    - exact (H _ _ _ _ Hn Hp).
    - intros x ndx q pex Hx. cbn in Hx. discriminate.
  Qed.

  (* ---- L5 ---- *)
  Theorem one_fate s i :
    Reachable s ->
    received i s + dropped i s + in_flight i s <= 3 /\
    (sn_msg_count (y_net s) <= i -> received i s = 0 /\ dropped i s = 0 /\ in_flight i s = 0).
  Proof.
    intros HR. destruct (fate_reachable s HR) as [I1 I2]. split; [apply I1|].
    intros Hi. specialize (I2 i Hi). unfold phi in I2. lia.
  Qed.

  (* along every API call: for a message that was already sent, every new LMessageReceived / LMessageDropped entry
     uses up one live copy (received + dropped + in_flight never grows), the trace is only extended *)
  Theorem one_fate_step fuel s o s' r :
    Reachable s -> sim_op fuel s o = Ok (s', r) -> fate_le s s'.
  Proof.
    intros HR H. pose proof (reachable_base _ _ _ _ _ _ HR) as B.
    apply sim_op_sstar in H; auto. eapply fate_sstar in H; eauto. apply H. apply fate_reachable. auto.
  Qed.

  Corollary new_fates_use_live_copies fuel s o s' r i :
    Reachable s -> sim_op fuel s o = Ok (s', r) -> i < sn_msg_count (y_net s) ->
    received i s <= received i s' /\ dropped i s <= dropped i s' /\
    (received i s' - received i s) + (dropped i s' - dropped i s) + in_flight i s' <= in_flight i s.
  Proof.
    intros HR H Hi. destruct (one_fate_step _ _ _ _ _ HR H) as (_ & H2 & [l' El]).
    specialize (H2 i Hi). unfold phi, received, dropped in *. rewrite El, !cnt_app in *. lia.
  Qed.

  (* ---- L6 ---- *)
  Theorem timer_ids s l1 t i n nn p d l2 :
    Reachable s -> y_log s = l1 ++ LTimerSet t i n nn p d :: l2 ->
    i < q_count (y_q s) /\ forall j, In j (tset_ids l1) -> j < i.
  Proof.
    intros HR E. destruct (id_reachable s HR) as [I1 I2 _ _ _]. split.
    - apply I2. rewrite E, tset_ids_app. apply in_app_iff. right. cbn. auto.
    - exact (I1 _ _ _ E).
  Qed.

  Theorem timer_refs s l1 e l2 :
    Reachable s -> y_log s = l1 ++ e :: l2 ->
    match e with
    | LTimerFired _ i n nn p | LTimerCancelled _ i n nn p => exists t d, In (LTimerSet t i n nn p d) l1
    | _ => True
    end.
  Proof. intros HR E. destruct (id_reachable s HR) as [_ _ I3 _ _]. exact (I3 _ _ _ E). Qed.

  Lemma prefix_ok_snoc {A} (P : list A -> A -> Prop) l e : prefix_ok P (l ++ [e]) -> prefix_ok P l /\ P l e.
  Proof.
    intros H. split.
    - intros l1 x l2 E. apply (H l1 x (l2 ++ [e])). rewrite E, <- app_assoc. reflexivity.
    - apply (H l e []). reflexivity.
  Qed.

  Theorem local_ids_distinct s : Reachable s -> NoDup (local_ids (y_log s)).
  Proof.
    intros HR. destruct (id_reachable s HR) as [_ _ _ I4 _]. revert I4. generalize (y_log s). clear.
    induction l as [|e r IH] using rev_ind; intros H.
    - constructor.
    - apply prefix_ok_snoc in H. destruct H as [H1 H2]. rewrite local_ids_app.
      destruct e; cbn [local_ids flat_map app]; rewrite ?app_nil_r; auto; apply NoDup_snoc; auto.
  Qed.
  (* ================================================================================================ *)
  (* C07, last part: every timer that is set fires at most once; none after an override or a cancel   *)
  (* ================================================================================================ *)
  Definition pending (s : simsys) (nn p n : N) : option N :=
    match sget N.compare nn (y_nodes s) with
    | Some nd => match sget N.compare p (sd_procs nd) with
                 | Some pe => sget N.compare n (pe_ptimers pe)
                 | None => None
                 end
    | None => None
    end.
  Definition is_timer_entry (e : logentry) : bool :=
    match e with LTimerSet _ _ _ _ _ _ | LTimerFired _ _ _ _ _ | LTimerCancelled _ _ _ _ _ => true | _ => false end.

  (* what a transition does, as far as timers are concerned *)
  Inductive tdelta (s s' : simsys) : list logentry -> Prop :=
  | td_quiet l' : (forall e, In e l' -> is_timer_entry e = false) -> tdelta s s' l'
  | td_set t i n nn p d nd :
      sget N.compare nn (y_nodes s) = Some nd -> sd_crashed nd = false -> i = q_count (y_q s) ->
      (forall e, In e (q_live (y_q s')) -> q_id e = i -> q_data e = QTimer p n /\ q_dst e = sd_id nd) ->
      (forall old, pending s nn p n = Some old -> dead_id old (y_q s')) ->
      tdelta s s' [LTimerSet t i n nn p d]
  | td_cancel t i n nn p :
      pending s nn p n = Some i -> dead_id i (y_q s') -> tdelta s s' [LTimerCancelled t i n nn p]
  | td_fired t i n nn p :
      pending s nn p n = Some i -> (exists e, In e (q_live (y_q s)) /\ q_id e = i) -> dead_id i (y_q s') ->
      tdelta s s' [LTimerFired t i n nn p].

  Lemma tdelta_nil s s' : tdelta s s' [].
  Proof. apply td_quiet. intros e []. Qed.

  Lemma sys_action_tdelta (s : simsys) nname nd proc a s' :
    BaseInv s -> TimerInv s -> sget N.compare nname (y_nodes s) = Some nd -> sd_crashed nd = false ->
    sys_action s nname proc a = Ok s' -> exists l', y_log s' = y_log s ++ l' /\ tdelta s s' l'.
  Proof.
    intros B I Hn Hc H.
    assert (B' : BaseInv s') by (eapply base_sys_action; eauto).
    pose proof H as H0. apply sys_action_inv in H0. destruct H0 as (nd0 & p & p' & lc' & w' & Hn0 & Hp & E & Es).
    assert (nd0 = nd) by congruence. subst nd0.
    assert (Hpend : forall n, pending s nname proc n = sget N.compare n (pe_ptimers p)).
    { intros n. unfold pending. rewrite Hn, Hp. reflexivity. }
    destruct a as [m dst|m|name delay once|name].
    - cbn [Sim.node_action] in E. binv. apply net_send_spec in E0.
      destruct E0 as (sn & dn & sid & did & news & _ & _ & _ & _ & _ & _ & _ & _ & Hl). cbv zeta in Hl.
      eexists. split; [reflexivity|]. apply td_quiet. cbn [w_log].
      destruct Hl as [[-> _]|[-> _]]; intros e He.
      + destruct He as [<-|[]]. reflexivity.
      + destruct He as [<-|[<-|[]]]; reflexivity.
    - cbn [Sim.node_action] in E. inv E. eexists. split; [reflexivity|]. apply td_quiet. intros e [<-|[]]. reflexivity.
    - destruct (sget N.compare name (pe_ptimers p)) as [old|] eqn:Eo.
      + destruct once.
        * destruct (set_once_ignored ops draws _ _ _ _ _ _ _ _ _ Hn Hp Eo H) as (_ & El & _).
          exists []. rewrite app_nil_r. split; auto. apply tdelta_nil.
        * destruct (set_replaces ops draws _ _ _ _ _ _ _ _ _ B I Hn Hc Hp Eo H) as (_ & Hd & Hne & Hin & El & _).
          eexists. split; [exact El|]. eapply td_set; eauto.
          -- intros e He Hid. assert (e = mk_ev ops (y_q s) (QTimer proc name) (sd_id nd) (sd_id nd) delay).
             { eapply (live_id_inj s'); eauto. }
             subst e. cbn. auto.
          -- intros o Ho. rewrite Hpend, Eo in Ho. inv Ho. exact Hd.
      + destruct (set_fresh ops draws _ _ _ _ _ _ _ _ _ B Hn Hp Eo H) as (Hin & El & _).
        eexists. split; [exact El|]. eapply td_set; eauto.
        * intros e He Hid. assert (e = mk_ev ops (y_q s) (QTimer proc name) (sd_id nd) (sd_id nd) delay).
          { eapply (live_id_inj s'); eauto. }
          subst e. cbn. auto.
        * intros o Ho. rewrite Hpend, Eo in Ho. discriminate.
    - destruct (sget N.compare name (pe_ptimers p)) as [i|] eqn:Ei.
      + destruct (cancel_prevents ops draws _ _ _ _ _ _ _ _ B I Hn Hc Hp Ei H) as (_ & Hd & El & _).
        eexists. split; [exact El|]. apply td_cancel; auto. rewrite Hpend. auto.
      + destruct (cancel_noop ops draws _ _ _ _ _ _ _ Hn Hp Ei H) as (_ & El & _).
        exists []. rewrite app_nil_r. split; auto. apply tdelta_nil.
  Qed.
  Lemma not_timer_quiet (s s' : simsys) l' :
    y_log s' = y_log s ++ l' -> (forall e, In e l' -> is_timer_entry e = false) ->
    exists l', y_log s' = y_log s ++ l' /\ tdelta s s' l'.
  Proof. intros E H. exists l'. split; auto. apply td_quiet. auto. Qed.

  Lemma sstep_tdelta (s : simsys) lab s' :
    BaseInv s -> TimerInv s -> sstep s lab s' -> exists l', y_log s' = y_log s ++ l' /\ tdelta s s' l'.
  Proof.
    intros B I H. pose proof (qw_nodup _ _ (bi_q _ B)) as Hnd. destruct H.
    - eapply (not_timer_quiet _ _ []); [cbn; rewrite app_nil_r; reflexivity|intros e0 []].
    - (* delivery *)
      pose proof (q_next_live _ _ _ _ Hnd H) as Hlive.
      pose proof (q_next_spec _ _ _ _ Hnd H) as [S [_ [l1 [l2 [E1 E2]]]]].
      eexists. split; [rewrite pre_state_log; reflexivity|].
      unfold ev_kind in *. destruct (q_data e) as [mid m src sn dst dn|pr tn] eqn:Ed; cbn [fst snd pre_log pre_pe app] in *.
      + apply td_quiet. intros x [<-|[]]. reflexivity.
      + destruct (ti_live_pending _ I _ _ _ _ _ H0 H1 Hlive Ed (eq_sym H2)) as [pe0 [A1 A2]].
        assert (pe0 = p) by congruence. subst pe0. rewrite A2. cbn [snd].
        apply td_fired.
        * unfold pending. rewrite H0, H3. exact A2.
        * exists e. auto.
        * split.
          -- change (q_count (y_q (pre_state (with_q s q') nname nd pr p (HTimer tn) st' used))) with (q_count q').
             rewrite (qs_count _ _ S). apply (live_lt s); auto.
          -- intros x Hx. change (q_live (y_q (pre_state (with_q s q') nname nd pr p (HTimer tn) st' used))) with (q_live q') in Hx.
             rewrite E2 in Hx. intros Eid. pose proof (q_live_nodup _ Hnd) as Hnl. rewrite E1 in Hnl.
             apply (NoDup_map_app_not_in q_id _ _ _ Hnl). rewrite <- Eid. apply in_map. auto.
    - eapply not_timer_quiet; [rewrite pre_state_log; reflexivity|].
      cbn [pre_log pre_pe snd app]. intros x [<-|[]]. reflexivity.
    - eapply sys_action_tdelta; eauto.
    - eapply (not_timer_quiet _ _ []); [cbn; rewrite app_nil_r; reflexivity|intros e0 []].
    - eapply (not_timer_quiet _ _ []); [cbn; rewrite app_nil_r; reflexivity|intros e0 []].
    - apply read_local_q in H. destruct H as (_ & E & _).
      eapply (not_timer_quiet _ _ []); [rewrite app_nil_r; exact E|intros e0 []].
    - destruct o; try discriminate H.
      + cbn [Sim.sim_op] in H0. destruct (shas N.compare name (y_nodes s)); [discriminate|]. inv H0.
        eapply not_timer_quiet; [reflexivity|]. intros e [<-|[]]. reflexivity.
      + cbn [Sim.sim_op] in H0. destruct (sget N.compare node (y_nodes s)); [|discriminate].
        destruct (shas N.compare proc (y_proc_nodes s)); [discriminate|]. inv H0.
        eapply not_timer_quiet; [reflexivity|]. intros e [<-|[]]. reflexivity.
      + cbn [Sim.sim_op] in H0. destruct (sget N.compare node (y_nodes s)); [|discriminate]. inv H0.
        eapply (not_timer_quiet _ _ []); [cbn; rewrite app_nil_r; reflexivity|intros e0 []].
      + cbn [Sim.sim_op] in H0. destruct (snet_apply (y_net s) (now s) o) as [n' logs] eqn:E. inv H0.
        apply snet_apply_logs in E. destruct E as [_ E].
        eapply not_timer_quiet; [reflexivity|]. intros e He. apply E in He. destruct e; try discriminate; reflexivity.
      + apply crash_state in H0. destruct H0 as (nd & Hn & El & _).
        eapply not_timer_quiet; [exact El|].
        intros e [<-|He]; [reflexivity|]. apply crash_drops_dropped in He. destruct e; try discriminate; reflexivity.
      + apply recover_state in H0. destruct H0 as (nd & Hn & Hc & El & _).
        eapply not_timer_quiet; [exact El|]. intros e [<-|[]]. reflexivity.
  Qed.

  (* x makes timer i (set under name n by process p of node nn) unable to fire *)
  Definition killer (i n nn p : N) (x : logentry) : Prop :=
    match x with
    | LTimerFired _ i' _ _ _ | LTimerCancelled _ i' _ _ _ => i' = i
    | LTimerSet _ j n' nn' p' _ => i < j /\ n' = n /\ nn' = nn /\ p' = p      (* a later set_timer on the same name *)
    | _ => False
    end.
  Definition fire_ok (l1 : list logentry) (e : logentry) : Prop :=
    match e with
    | LTimerFired _ i n nn p => forall x, In x l1 -> ~ killer i n nn p x
    | _ => True
    end.

  Record FireInv (s : simsys) : Prop := {
    fr_event : forall t i n nn p d e,
      In (LTimerSet t i n nn p d) (y_log s) -> In e (q_live (y_q s)) -> q_id e = i ->
      q_data e = QTimer p n /\ exists nd, sget N.compare nn (y_nodes s) = Some nd /\ q_dst e = sd_id nd;
    fr_dead : forall t i n nn p d x,
      In (LTimerSet t i n nn p d) (y_log s) -> In x (y_log s) -> killer i n nn p x -> dead_id i (y_q s);
    fr_ok : prefix_ok fire_ok (y_log s) }.

  Lemma dead_or_live (q : simq) i : i < q_count q -> dead_id i q \/ exists e, In e (q_live q) /\ q_id e = i.
  Proof.
    intros Hi. destruct (existsb (fun e => N.eqb (q_id e) i) (q_live q)) eqn:E.
    - right. apply existsb_exists in E. destruct E as [e [H1 H2]]. apply N.eqb_eq in H2. eauto.
    - left. split; auto. intros e He Hid. rewrite existsb_false_iff in E. apply E in He. apply N.eqb_neq in He. auto.
  Qed.

  (* the ids in timer entries are below the event counter *)
  Lemma timer_entry_id_lt (s : simsys) x i :
    IdInv s -> In x (y_log s) ->
    match x with
    | LTimerSet _ j _ _ _ _ | LTimerFired _ j _ _ _ | LTimerCancelled _ j _ _ _ => j = i
    | _ => False
    end -> i < q_count (y_q s).
  Proof.
    intros [_ I2 I3 _ _] Hx Hm. apply in_split in Hx. destruct Hx as [l1 [l2 E]].
    assert (Hset : forall t n nn p d, In (LTimerSet t i n nn p d) (y_log s) -> i < q_count (y_q s)).
    { intros t n nn p d Hin. apply I2. unfold tset_ids. apply in_flat_map. eexists. split; [exact Hin|]. cbn. auto. }
    pose proof (I3 _ _ _ E) as Hr. destruct x; try contradiction; subst.
    - eapply Hset. rewrite E. apply in_app_iff. right. left. reflexivity.
    - destruct Hr as [t0 [d Hin]]. eapply Hset. rewrite E. apply in_app_iff. left. eauto.
    - destruct Hr as [t0 [d Hin]]. eapply Hset. rewrite E. apply in_app_iff. left. eauto.
  Qed.

  Theorem fire_sstep (s : simsys) lab s' :
    BaseInv s -> TimerInv s -> PInv Q_tm s -> IdInv s -> FireInv s -> sstep s lab s' -> FireInv s'.
  Proof.
    intros B I Itm Iid [F1 F2 F3] H.
    pose proof (sstep_q_mono ops handler init_state draws crash_order _ _ _ B H) as Hmono.
    destruct (sstep_logstep _ _ _ B H) as [l0 [L1 L2 _ _ _]].
    destruct (sstep_tdelta _ _ _ B I H) as [l' [El D]].
    assert (l0 = l') by (rewrite L1 in El; apply app_inv_head in El; auto). subst l0. clear L1.
    assert (Hsetlt : forall t i n nn p d, In (LTimerSet t i n nn p d) (y_log s) -> i < q_count (y_q s)).
    { intros t i n nn p d Hin. eapply (timer_entry_id_lt s _ i Iid Hin). reflexivity. }
    (* an old set entry: its event, if still live, was live before *)
    assert (Hold_event : forall t i n nn p d e,
               In (LTimerSet t i n nn p d) (y_log s) -> In e (q_live (y_q s')) -> q_id e = i ->
               q_data e = QTimer p n /\ exists nd, sget N.compare nn (y_nodes s') = Some nd /\ q_dst e = sd_id nd).
    { intros t i n nn p d e Hin He Hid. destruct Hmono as [_ Hm]. destruct (Hm _ He) as [Ho|Hge].
      - destruct (F1 _ _ _ _ _ _ _ Hin Ho Hid) as [A1 [nd [A2 A3]]]. split; auto.
        destruct (L2 _ _ A2) as [nd' [Hn' [_ Hid']]]. exists nd'. split; auto. congruence.
      - apply Hsetlt in Hin. lia. }
    assert (Hold_dead : forall t i n nn p d x,
               In (LTimerSet t i n nn p d) (y_log s) -> In x (y_log s) -> killer i n nn p x -> dead_id i (y_q s')).
    { intros. eapply dead_id_mono; eauto. }
    inversion D as [l1 Hq|t i n nn p d nd Hn Hc Hi Hev Hdead|t i n nn p Hp Hdead|t i n nn p Hp Hlive Hdead]; subst l'.
    - (* no timer entry *)
      constructor; rewrite El.
      + intros t i n nn p d e Hin. apply in_app_iff in Hin. destruct Hin as [Hin|Hin]; eauto.
        apply Hq in Hin. discriminate.
      + intros t i n nn p d x Hin Hx Hk. apply in_app_iff in Hin. destruct Hin as [Hin|Hin]; [|apply Hq in Hin; discriminate].
        apply in_app_iff in Hx. destruct Hx as [Hx|Hx]; eauto.
        apply Hq in Hx. destruct x; try contradiction; discriminate.
      + apply prefix_ok_app; auto. intros l2 e l3 E. assert (Hin : In e l1) by (rewrite E; apply in_app_iff; cbn; auto).
        apply Hq in Hin. destruct e; try discriminate; exact Logic.I.
    - (* a timer is set *)
      constructor; rewrite El.
      + intros t0 i0 n0 nn0 p0 d0 e Hin. apply in_app_iff in Hin. destruct Hin as [Hin|[Hin|[]]]; eauto.
        inv Hin. intros He Hid. destruct (Hev _ He Hid) as [A1 A2]. split; auto.
        destruct (L2 _ _ Hn) as [nd' [Hn' [_ Hid']]]. exists nd'. split; auto. congruence.
      + intros t0 i0 n0 nn0 p0 d0 x Hin Hx Hk. apply in_app_iff in Hin. apply in_app_iff in Hx.
        destruct Hin as [Hin|[Hin|[]]], Hx as [Hx|[Hx|[]]].
        * eauto.
        * (* old timer, overridden now *)
          subst x. cbn [killer] in Hk. destruct Hk as (Hlt & -> & -> & ->).
          pose proof (Hsetlt _ _ _ _ _ _ Hin) as Hi0.
          destruct (dead_or_live (y_q s) i0 Hi0) as [Hd|[e [He Hid]]]; [eapply dead_id_mono; eauto|].
          destruct (F1 _ _ _ _ _ _ _ Hin He Hid) as [A1 [nd0 [A2 A3]]].
          assert (nd0 = nd) by congruence. subst nd0.
          destruct (ti_live_pending _ I _ _ _ _ _ Hn Hc He A1 A3) as [pe [B1 B2]].
          apply Hdead. unfold pending. rewrite Hn, B1. congruence.
        * (* the new timer cannot have been killed before *)
          inv Hin. exfalso. destruct x; try contradiction; cbn [killer] in Hk.
          -- destruct Hk as [Hlt _]. pose proof (timer_entry_id_lt s _ timer_id Iid Hx eq_refl). lia.
          -- pose proof (timer_entry_id_lt s _ (q_count (y_q s)) Iid Hx Hk). lia.
          -- pose proof (timer_entry_id_lt s _ (q_count (y_q s)) Iid Hx Hk). lia.
        * inv Hin. try subst x. cbn [killer] in Hk. lia.
      + apply prefix_ok_app; auto. intros l2 e l3 E. destruct l2 as [|y l2]; [|destruct l2; discriminate].
        inv E. exact Logic.I.
    - (* a timer is cancelled *)
      assert (Hset : exists t0 d, In (LTimerSet t0 i n nn p d) (y_log s)).
      { unfold pending in Hp. destruct (sget N.compare nn (y_nodes s)) as [nd|] eqn:Hn; [|discriminate].
        destruct (sget N.compare p (sd_procs nd)) as [pe|] eqn:Hpe; [|discriminate].
        destruct (Itm _ _ _ _ Hn Hpe _ _ Hp) as [t0 [d Hin]]. exists t0, d. eapply in_since; eauto. }
      constructor; rewrite El.
      + intros t0 i0 n0 nn0 p0 d0 e Hin. apply in_app_iff in Hin. destruct Hin as [Hin|[Hin|[]]]; eauto. discriminate.
      + intros t0 i0 n0 nn0 p0 d0 x Hin Hx Hk. apply in_app_iff in Hin. destruct Hin as [Hin|[Hin|[]]]; [|discriminate].
        apply in_app_iff in Hx. destruct Hx as [Hx|[Hx|[]]]; eauto.
        subst x. cbn [killer] in Hk. subst. exact Hdead.
      + apply prefix_ok_app; auto. intros l2 e l3 E. destruct l2 as [|y l2]; [|destruct l2; discriminate].
        inv E. exact Logic.I.
    - (* a timer fires *)
      assert (Hset : exists t0 d, In (LTimerSet t0 i n nn p d) (y_log s)).
      { unfold pending in Hp. destruct (sget N.compare nn (y_nodes s)) as [nd|] eqn:Hn; [|discriminate].
        destruct (sget N.compare p (sd_procs nd)) as [pe|] eqn:Hpe; [|discriminate].
        destruct (Itm _ _ _ _ Hn Hpe _ _ Hp) as [t0 [d Hin]]. exists t0, d. eapply in_since; eauto. }
      constructor; rewrite El.
      + intros t0 i0 n0 nn0 p0 d0 e Hin. apply in_app_iff in Hin. destruct Hin as [Hin|[Hin|[]]]; eauto. discriminate.
      + intros t0 i0 n0 nn0 p0 d0 x Hin Hx Hk. apply in_app_iff in Hin. destruct Hin as [Hin|[Hin|[]]]; [|discriminate].
        apply in_app_iff in Hx. destruct Hx as [Hx|[Hx|[]]]; eauto.
        subst x. cbn [killer] in Hk. subst. exact Hdead.
      + apply prefix_ok_app; auto. intros l2 e l3 E. destruct l2 as [|y l2]; [|destruct l2; discriminate].
        inv E. cbn [fire_ok]. rewrite app_nil_r. intros x Hx Hk.
        destruct Hset as [t0 [d Hin]]. pose proof (F2 _ _ _ _ _ _ _ Hin Hx Hk) as [_ Hd].
        destruct Hlive as [e [He Hid]]. eapply Hd; eauto.
  Qed.

  Lemma fire_sys0 : FireInv (sys0 ops).
  Proof. constructor; cbn; try apply prefix_ok_nil; intros; contradiction. Qed.

  Theorem fire_reachable s : Reachable s -> FireInv s.
  Proof.
    intros HR.
    assert (H : (TimerInv s /\ PInv Q_tm s /\ IdInv s) /\ FireInv s).
    { revert s HR.
      apply (reachable_inv ops handler init_state draws crash_order
               (fun s => (TimerInv s /\ PInv Q_tm s /\ IdInv s) /\ FireInv s)).
      - split; [split; [apply timer_sys0|split; [|apply id_sys0]]|apply fire_sys0].
        intros nname nd p pe H. cbn in H. discriminate.
      - intros s0 lab s1 B [[I1 [I2 I3]] I4] H. split; [split; [|split]|].
        + eapply timer_sstep; eauto.
        + eapply (pinv_sstep Q_tm); eauto.
          * apply Q_tm_frame.
          * apply Q_tm_pre.
          * apply Q_tm_act.
          * intros nn p n i H0. cbn in H0. discriminate.
        + eapply id_sstep; eauto.
        + eapply fire_sstep; eauto. }
    apply H.
  Qed.

  (* each timer fires at most once, and not at all after it was cancelled or overridden by a later set_timer on the
     same name: before an LTimerFired entry for id i (set as name n by process p of node nn) there is no other
     LTimerFired or LTimerCancelled entry with id i and no LTimerSet entry of (n, nn, p) with a larger id *)
  Theorem fires_at_most_once s l1 t i n nn p l2 :
    Reachable s -> y_log s = l1 ++ LTimerFired t i n nn p :: l2 ->
    forall x, In x l1 -> ~ killer i n nn p x.
  Proof. intros HR E. destruct (fire_reachable s HR) as [_ _ F3]. exact (F3 _ _ _ E). Qed.
End SimLog.

Print Assumptions log_inv_reachable.
Print Assumptions sent_counter.
Print Assumptions network_counters.
Print Assumptions event_log_agrees.
Print Assumptions outbox_reads.
Print Assumptions read_local_spec.
Print Assumptions one_fate.
Print Assumptions one_fate_step.
Print Assumptions new_fates_use_live_copies.
Print Assumptions timer_ids.
Print Assumptions timer_refs.
Print Assumptions local_ids_distinct.
Print Assumptions fires_at_most_once.
Print Assumptions event_log_messages.

(* ---- witness: the event log is NOT a projection of the trace (ignored timer actions) ----
   one process, one local message; the handler issues set_timer_once 1, set_timer_once 1 (ignored: pending),
   cancel_timer 2 (ignored: not pending).  Event log: 4 items; trace entries of the process: 2. *)
Definition wit_handler (p : N) (st : unit) (i : input) (t : Z) (d : nat -> Z) : unit * list (action Z) * nat :=
  match i with
  | InLocal _ => (tt, [ATimerSet 1 5%Z true; ATimerSet 1 7%Z true; ATimerCancel 2], O)
  | _ => (tt, [], O)
  end.
Definition wit_msg : msg := {| tip := [1]; data := [] |}.
Definition wit_run :=
  run_ops z_ops wit_handler (fun _ => tt) (fun _ => 0%Z) (fun l => l) 10 (sys0 z_ops)
          [YAddNode 0; YAddProcess 7 0; YSendLocal 7 wit_msg].
Example ignored_actions_witness :
  match wit_run with
  | Ok (s, _) => Some (y_log s, map (fun nn => map (fun pp => pe_evlog (snd pp)) (sd_procs (snd nn))) (y_nodes s))
  | Panic _ => None
  end =
  Some ([LNodeStarted 0%Z 0 1; LProcessStarted 0%Z 0 7; LLocalMessageReceived 0%Z 0 7 0 wit_msg;
         LTimerSet 0%Z 0 1 0 7 5%Z],
        [[[(0%Z, PLocalMessageReceived wit_msg); (0%Z, PTimerSet 1 5%Z true); (0%Z, PTimerSet 1 7%Z true);
           (0%Z, PTimerCancelled 2)]]]).
Proof. vm_compute. reflexivity. Qed.
