(* PROPERTY C05 -- "the simulated network delivers only what link state and fault rates allow".

   Everything is proved about the model Model/Sim.v as it is; no requested statement turned out to be false, so
   there is no counterexample section.  Conventions / precise readings chosen:

   N1  net_fate_spec            exact characterisation of net_fate by the draws at q_rand q, +1, +2, +3:
                                dropped iff (path cut or r0 < drop_rate); payload m or corrupt_msg m (the latter only
                                when r1 < corrupt_rate); 1..3 copies, more than one only when r2 < dupl_rate; the
                                delays are the interpolations of the following draws; draws consumed = 1 (dropped) or
                                3 + (if r2 < dupl_rate then 1 + #copies else 1); nothing else of the queue changes.
       net_fate_delays          every delay is min + r * (max - min) for a draw r, hence in [min, max] (needs min <= max)
       net_fate_drop0 / drop1 / cut / corrupt0 / corrupt1 / dupl0 / net_fate_draws     rate corollaries
   N2  net_send_same_node       (needs the node to have a component id, else the model panics 61)
       net_send_cross_node, net_send_cross_total (Ok whenever 0 <= min_delay <= max_delay), net_bump_fields,
       emit_copies_spec, mk_copies_* (the events of the copies: same QMsg, consecutive event ids, clock + max0 delay)
   N3  disable_link_directional, disable_link_iff, enable_link_iff, enable_link_other, drop_incoming_iff,
       pass_incoming_iff, drop_outgoing_iff, pass_outgoing_iff, disconnect_iff, connect_iff, partition_iff,
       partition_cuts, reset_heals, snet_apply_frame, snet_apply_log, ynet_effect
   N4  invariants WInv (queue, network, trace) and Inv (system); Inv_init, sim_op_inv, run_ops_inv, Reachable_inv;
       received_only_if_sent, received_after_sent (EARLIER in the trace + the send was not dropped),
       queued_only_if_sent (a), deliveries_bounded / received_at_most_three (c), sent_ids_increasing,
       sent_later_larger, sent_id_unique; net_send_dropped_iff ties "not dropped" to the link state and the drop
       draw at the moment of sending.

   "The send of message i was dropped by the network" is the trace predicate `sdrop i log`: the LMessageSent entry
   with id i is immediately followed by an LMessageDropped entry with id i (sdrop_iff).  The LMessageDropped entries
   a crash logs for messages in flight follow an LNodeCrashed entry, never an LMessageSent one, so they are
   not counted: a message that was sent successfully can still be cancelled by a crash.
   `deliveries_bounded` counts, per message id, the queue events (live or cancelled) plus the LMessageReceived entries.

   Assumptions (Section hypotheses only): `laws : time_laws ops` and `draws_unit` (the stream is in [0,1)); they are
   used in N1/N2 only.  N3 and N4 need no assumption at all: the handler, init_state and crash_order are arbitrary
   (not even `Permutation (crash_order l) l` is needed: the invariant only uses that a crash logs LNodeCrashed first
   and then nothing but LMessageDropped entries). *)
From Coq Require Import List Arith NArith Bool Lia Sorted.
From ASV Require Import Base.Util Base.Msg Base.Log Proofs.UtilP Model.Sim Spec.TimeLaws Spec.SimSpec.
Import ListNotations.
Open Scope N_scope.

Ltac binv :=
  repeat match goal with
  | H : bind ?r _ = Ok _ |- _ =>
      let E := fresh "E" in destruct r eqn:E; cbn [bind] in H; [|discriminate H]
  | H : Ok _ = Ok _ |- _ => inversion H; clear H; subst
  | H : Panic _ = Ok _ |- _ => discriminate H
  | H : (let '(_, _) := ?p in _) = _ |- _ => is_var p; destruct p
  | H : (let '(_, _) := ?p in _) = _ |- _ => let E := fresh "E" in destruct p eqn:E
  end.

Section SimNetP.
  Context {T : Type} (ops : time_ops T).
  Variable draws : nat -> T.

  Hypothesis laws : time_laws ops.
  Hypothesis draws_unit : forall i, tleb ops (tz ops) (draws i) = true /\ tltb ops (draws i) (tone ops) = true.

  Notation simq := (@simq T).
  Notation simnet := (@simnet T).
  Notation qevent := (@qevent T).
  Notation logentry := (logentry T).
  Notation net_fate := (net_fate ops draws).
  Notation net_send := (net_send ops draws).
  Notation copy_delays := (copy_delays ops draws).

  (* ================================================================================================ *)
  (* time facts                                                                                        *)
  (* ================================================================================================ *)

  Lemma draw_le_one i : tleb ops (draws i) (tone ops) = true.
  Proof. destruct (draws_unit i) as [_ H]. apply (lt_spec ops laws) in H. tauto. Qed.

  Lemma draw_not_lt_zero i : tltb ops (draws i) (tz ops) = false.
  Proof.
    destruct (tltb ops (draws i) (tz ops)) eqn:E; auto.
    apply (lt_spec ops laws) in E. destruct E as [_ E].
    destruct (draws_unit i) as [H _]. congruence.
  Qed.

  Lemma draw_lt_one i : tltb ops (draws i) (tone ops) = true.
  Proof. apply draws_unit. Qed.

  Lemma tmax0_zero : tmax0 ops (tz ops) = tz ops.
  Proof. unfold tmax0. destruct (tltb ops (tz ops) (tz ops)); reflexivity. Qed.

  Lemma tmax0_nonneg d : tleb ops (tz ops) d = true -> tmax0 ops d = d.
  Proof.
    intros H. unfold tmax0. destruct (tltb ops d (tz ops)) eqn:E; auto.
    apply (lt_spec ops laws) in E. destruct E as [_ E]. congruence.
  Qed.

  (* the delay of one copy, as a function of the draw *)
  Definition lerp (n : simnet) (r : T) : T := tadd ops (sn_min n) (tmul ops r (tsub ops (sn_max n) (sn_min n))).

  Lemma lerp_draw_bounds n k :
    tleb ops (sn_min n) (sn_max n) = true ->
    tleb ops (sn_min n) (lerp n (draws k)) = true /\ tleb ops (lerp n (draws k)) (sn_max n) = true.
  Proof.
    intros H. apply (lerp_bounds ops laws); auto.
    - apply draws_unit.
    - apply draw_le_one.
  Qed.

  (* ================================================================================================ *)
  (* N1: net_fate                                                                                      *)
  (* ================================================================================================ *)

  Definition same_queue (q q' : simq) : Prop :=
    q_clock q' = q_clock q /\ q_events q' = q_events q /\ q_canceled q' = q_canceled q /\ q_count q' = q_count q.

  Lemma copy_delays_spec k : forall n q ds q',
    copy_delays k n q = (ds, q') ->
    ds = map (fun j => lerp n (draws j)) (seq (q_rand q) k) /\
    q_rand q' = (q_rand q + k)%nat /\ same_queue q q'.
  Proof.
    induction k as [|k IH]; intros n q ds q' H.
    - cbn in H. inversion H; subst. cbn. unfold same_queue. rewrite Nat.add_0_r. tauto.
    - cbn [Sim.copy_delays] in H. unfold q_draw in H.
      destruct (copy_delays k n _) as [ds1 q2] eqn:E. inversion H; subst. clear H.
      apply IH in E. cbn [q_rand q_clock q_events q_canceled q_count q_with] in E.
      destruct E as [E1 [E2 E3]]. subst ds1. cbn [seq map]. unfold lerp at 1.
      split; [reflexivity|]. split; [lia|]. exact E3.
  Qed.

  (* the draws net_fate looks at *)
  Definition nf_dup (n : simnet) (q : simq) : bool := tltb ops (draws (q_rand q + 2)) (sn_dupl n).
  (* position of the first delay draw *)
  Definition nf_base (n : simnet) (q : simq) : nat := if nf_dup n q then (q_rand q + 4)%nat else (q_rand q + 3)%nat.

  Theorem net_fate_spec n q m sn dn :
    let r0 := draws (q_rand q) in
    let r1 := draws (q_rand q + 1) in
    let r2 := draws (q_rand q + 2) in
    let r3 := draws (q_rand q + 3) in
    forall f q', net_fate n q m sn dn = (f, q') ->
      same_queue q q' /\
      (link_cut n sn dn = true -> f = FDropped) /\
      (tltb ops r0 (sn_drop n) = true -> f = FDropped) /\
      (f = FDropped ->
         (link_cut n sn dn = true \/ tltb ops r0 (sn_drop n) = true) /\ q_rand q' = (q_rand q + 1)%nat) /\
      (forall m' ds, f = FCopies m' ds ->
         link_cut n sn dn = false /\
         tltb ops r0 (sn_drop n) = false /\
         m' = (if tltb ops r1 (sn_corrupt n) then corrupt_msg m else m) /\
         (m' = m \/ (m' = corrupt_msg m /\ tltb ops r1 (sn_corrupt n) = true)) /\
         (1 <= length ds <= 3)%nat /\
         ((1 < length ds)%nat -> tltb ops r2 (sn_dupl n) = true) /\
         (tltb ops r2 (sn_dupl n) = false -> length ds = 1%nat) /\
         (tltb ops r2 (sn_dupl n) = true -> length ds = N.to_nat (ceil2 ops (tmul ops r3 (ttwo ops)) + 1)) /\
         ds = map (fun j => lerp n (draws j)) (seq (nf_base n q) (length ds)) /\
         (* draws consumed: drop, corrupt, duplicate?, [count,] one per copy *)
         q_rand q' = (q_rand q + 3 + (if tltb ops r2 (sn_dupl n) then 1 + length ds else 1))%nat).
  Proof.
    intros r0 r1 r2 r3 f q' H.
    unfold Sim.net_fate, q_draw in H.
    cbn [q_rand q_clock q_events q_canceled q_count q_with] in H.
    replace (S (q_rand q)) with (q_rand q + 1)%nat in H by lia.
    replace (S (q_rand q + 1)) with (q_rand q + 2)%nat in H by lia.
    replace (S (q_rand q + 2)) with (q_rand q + 3)%nat in H by lia.
    fold r0 r1 r2 in H.
    destruct (tltb ops r0 (sn_drop n)) eqn:Edrop; cbn [orb] in H.
    { inversion H; subst. unfold same_queue. cbn.
      split; [tauto|]. split; [auto|]. split; [auto|]. split; [intros _; split; auto|].
      intros m' ds Hf. discriminate. }
    destruct (link_cut n sn dn) eqn:Ecut.
    { inversion H; subst. unfold same_queue. cbn.
      split; [tauto|]. split; [auto|]. split; [auto|]. split; [intros _; split; auto|].
      intros m' ds Hf. discriminate. }
    assert (Hcor : forall m', m' = (if tltb ops r1 (sn_corrupt n) then corrupt_msg m else m) ->
                   m' = m \/ (m' = corrupt_msg m /\ tltb ops r1 (sn_corrupt n) = true)).
    { intros m' ->. destruct (tltb ops r1 (sn_corrupt n)); auto. }
    unfold nf_base, nf_dup. fold r2.
    destruct (tltb ops r2 (sn_dupl n)) eqn:Edup; cbn [negb] in H.
    - (* duplicated *)
      replace (S (q_rand q + 3)) with (q_rand q + 4)%nat in H by lia. fold r3 in H.
      match type of H with context [copy_delays ?k n ?qq] => destruct (copy_delays k n qq) as [ds0 q4] eqn:Ecd end.
      inversion H; subst f q'. clear H.
      apply copy_delays_spec in Ecd. unfold same_queue in Ecd.
      cbn [q_rand q_with q_clock q_events q_canceled q_count] in Ecd. destruct Ecd as [Eds [Er Esq]].
      assert (Hlen : length ds0 = N.to_nat (ceil2 ops (tmul ops r3 (ttwo ops)) + 1)).
      { rewrite Eds, map_length, seq_length. reflexivity. }
      assert (Hrange : (1 <= length ds0 <= 3)%nat).
      { rewrite Hlen. unfold ceil2. destruct (tleb ops _ (tz ops)); [|destruct (tleb ops _ (tone ops))]; cbn; lia. }
      split.
      { exact Esq. }
      split; [discriminate|]. split; [discriminate|]. split; [discriminate|].
      intros m' ds Hf. inversion Hf; subst m' ds. clear Hf.
      split; [reflexivity|]. split; [reflexivity|]. split; [reflexivity|]. split; [apply Hcor; reflexivity|].
      split; [exact Hrange|]. split; [auto|]. split; [discriminate|]. split; [auto|].
      split.
      + rewrite Eds at 1. rewrite <- Hlen. reflexivity.
      + rewrite Er, <- Hlen. lia.
    - (* a single copy *)
      match type of H with context [copy_delays ?k n ?qq] => destruct (copy_delays k n qq) as [ds0 q4] eqn:Ecd end.
      inversion H; subst f q'. clear H.
      apply copy_delays_spec in Ecd. unfold same_queue in Ecd.
      cbn [q_rand q_with q_clock q_events q_canceled q_count] in Ecd. destruct Ecd as [Eds [Er Esq]].
      assert (Hlen : length ds0 = 1%nat) by (rewrite Eds; reflexivity).
      split.
      { exact Esq. }
      split; [discriminate|]. split; [discriminate|]. split; [discriminate|].
      intros m' ds Hf. inversion Hf; subst m' ds. clear Hf.
      split; [reflexivity|]. split; [reflexivity|]. split; [reflexivity|]. split; [apply Hcor; reflexivity|].
      split; [lia|]. split; [lia|]. split; [auto|]. split; [discriminate|].
      split.
      + rewrite Hlen. exact Eds.
      + rewrite Er. lia.
  Qed.

  (* every delay is the interpolation of a draw, hence inside [min_delay, max_delay] *)
  Corollary net_fate_delays n q m sn dn m' ds q' :
    net_fate n q m sn dn = (FCopies m' ds, q') ->
    forall d, In d ds ->
      (exists j, d = tadd ops (sn_min n) (tmul ops (draws j) (tsub ops (sn_max n) (sn_min n)))) /\
      (tleb ops (sn_min n) (sn_max n) = true -> tleb ops (sn_min n) d = true /\ tleb ops d (sn_max n) = true).
  Proof.
    intros H d Hd.
    apply net_fate_spec in H. destruct H as [_ [_ [_ [_ H]]]].
    specialize (H m' ds eq_refl). destruct H as [_ [_ [_ [_ [_ [_ [_ [_ [Hds _]]]]]]]]].
    rewrite Hds in Hd. apply in_map_iff in Hd. destruct Hd as [j [<- _]].
    split.
    - exists j. reflexivity.
    - intros Hmm. apply lerp_draw_bounds. exact Hmm.
  Qed.

  (* ---- rate corollaries ---- *)
  Corollary net_fate_drop0 n q m sn dn :
    sn_drop n = tz ops -> link_cut n sn dn = false ->
    exists m' ds, fst (net_fate n q m sn dn) = FCopies m' ds.
  Proof.
    intros Hr Hc. destruct (net_fate n q m sn dn) as [f q'] eqn:E. cbn [fst].
    destruct f as [|m' ds]; [|eauto].
    apply net_fate_spec in E. destruct E as [_ [_ [_ [E _]]]].
    destruct (E eq_refl) as [[E1|E1] _]; [congruence|].
    rewrite Hr, draw_not_lt_zero in E1. discriminate.
  Qed.

  Corollary net_fate_drop1 n q m sn dn :
    sn_drop n = tone ops -> fst (net_fate n q m sn dn) = FDropped.
  Proof.
    intros Hr. destruct (net_fate n q m sn dn) as [f q'] eqn:E. cbn [fst].
    apply net_fate_spec in E. destruct E as [_ [_ [E _]]]. apply E. rewrite Hr. apply draw_lt_one.
  Qed.

  Corollary net_fate_cut n q m sn dn :
    link_cut n sn dn = true -> fst (net_fate n q m sn dn) = FDropped.
  Proof.
    intros Hr. destruct (net_fate n q m sn dn) as [f q'] eqn:E. cbn [fst].
    apply net_fate_spec in E. destruct E as [_ [E _]]. auto.
  Qed.

  Corollary net_fate_corrupt0 n q m sn dn m' ds q' :
    sn_corrupt n = tz ops -> net_fate n q m sn dn = (FCopies m' ds, q') -> m' = m.
  Proof.
    intros Hr E. apply net_fate_spec in E. destruct E as [_ [_ [_ [_ E]]]].
    destruct (E m' ds eq_refl) as [_ [_ [E1 _]]]. rewrite Hr, draw_not_lt_zero in E1. exact E1.
  Qed.

  Corollary net_fate_corrupt1 n q m sn dn m' ds q' :
    sn_corrupt n = tone ops -> net_fate n q m sn dn = (FCopies m' ds, q') -> m' = corrupt_msg m.
  Proof.
    intros Hr E. apply net_fate_spec in E. destruct E as [_ [_ [_ [_ E]]]].
    destruct (E m' ds eq_refl) as [_ [_ [E1 _]]]. rewrite Hr, draw_lt_one in E1. exact E1.
  Qed.

  Corollary net_fate_dupl0 n q m sn dn m' ds q' :
    sn_dupl n = tz ops -> net_fate n q m sn dn = (FCopies m' ds, q') -> length ds = 1%nat.
  Proof.
    intros Hr E. apply net_fate_spec in E. destruct E as [_ [_ [_ [_ E]]]].
    destruct (E m' ds eq_refl) as [_ [_ [_ [_ [_ [_ [E1 _]]]]]]]. apply E1. rewrite Hr. apply draw_not_lt_zero.
  Qed.

  (* number of draws consumed, exactly as the model has it *)
  Corollary net_fate_draws n q m sn dn f q' :
    net_fate n q m sn dn = (f, q') ->
    q_rand q' = match f with
                | FDropped => (q_rand q + 1)%nat
                | FCopies _ ds => (q_rand q + 3 + (if nf_dup n q then 1 + length ds else 1))%nat
                end.
  Proof.
    intros E. apply net_fate_spec in E. destruct E as [_ [_ [_ [E1 E2]]]].
    destruct f as [|m' ds].
    - apply E1. reflexivity.
    - apply (E2 m' ds eq_refl).
  Qed.

  (* ================================================================================================ *)
  (* N2: net_send                                                                                      *)
  (* ================================================================================================ *)

  (* the queue events created for the copies of one message: consecutive event ids, time = clock + max(delay, 0) *)
  Fixpoint mk_copies (clock : T) (cnt : N) (d : qdata) (src dst : N) (ds : list T) : list qevent :=
    match ds with
    | [] => []
    | dl :: r => {| q_id := cnt; q_time := tadd ops clock (tmax0 ops dl); q_src := src; q_dst := dst; q_data := d |}
                 :: mk_copies clock (cnt + 1) d src dst r
    end.

  Lemma mk_copies_length clock cnt d src dst ds : length (mk_copies clock cnt d src dst ds) = length ds.
  Proof. revert cnt. induction ds as [|dl r IH]; intros cnt; cbn; auto. Qed.

  Lemma mk_copies_in clock d src dst ds : forall cnt e,
    In e (mk_copies clock cnt d src dst ds) ->
    q_data e = d /\ q_src e = src /\ q_dst e = dst /\ cnt <= q_id e < cnt + N.of_nat (length ds) /\
    exists dl, In dl ds /\ q_time e = tadd ops clock (tmax0 ops dl).
  Proof.
    induction ds as [|dl r IH]; intros cnt e H; cbn in H; [contradiction|].
    destruct H as [<-|H].
    - cbn [q_data q_src q_dst q_id q_time length]. repeat split; try lia. exists dl. split; [left|]; reflexivity.
    - apply IH in H. destruct H as [H1 [H2 [H3 [H4 [dl' [H5 H6]]]]]].
      repeat split; auto; cbn [length]; try lia. exists dl'. split; [right|]; auto.
  Qed.

  Lemma mk_copies_times clock cnt d src dst ds :
    map (@q_time T) (mk_copies clock cnt d src dst ds) = map (fun dl => tadd ops clock (tmax0 ops dl)) ds.
  Proof. revert cnt. induction ds as [|dl r IH]; intros cnt; cbn; auto. rewrite IH. reflexivity. Qed.

  Lemma emit_copies_spec ds : forall q d src dst q',
    emit_copies ops q d src dst ds = Ok q' ->
    q' = q_with q (q_clock q) (q_events q ++ mk_copies (q_clock q) (q_count q) d src dst ds) (q_canceled q)
                (q_count q + N.of_nat (length ds)) (q_rand q).
  Proof.
    induction ds as [|dl r IH]; intros q d src dst q' H.
    - cbn in H. inversion H; subst. destruct q'; unfold q_with; cbn. rewrite app_nil_r, N.add_0_r. reflexivity.
    - cbn [emit_copies] in H. unfold q_add in H. destruct (tneg_eps_le ops dl); [|discriminate].
      cbn [bind] in H. apply IH in H. subst q'. unfold q_with.
      cbn [q_clock q_events q_canceled q_count q_rand mk_copies length].
      rewrite <- app_assoc. cbn [app]. f_equal. lia.
  Qed.

  (* emit_copies does not panic when every delay is >= -epsilon (in particular >= 0) *)
  Lemma emit_copies_ok ds : forall q d src dst,
    (forall dl, In dl ds -> tneg_eps_le ops dl = true) -> exists q', emit_copies ops q d src dst ds = Ok q'.
  Proof.
    induction ds as [|dl r IH]; intros q d src dst H.
    - eexists. reflexivity.
    - cbn [emit_copies]. unfold q_add. rewrite (H dl) by (left; reflexivity). cbn [bind]. apply IH.
      intros x Hx. apply H. right. exact Hx.
  Qed.

  (* messages between processes of one node: delivered once, intact, zero delay, no draw, no network counters *)
  Theorem net_send_same_node n q m src dst sn sid :
    sget N.compare src (sn_loc n) = Some sn -> sget N.compare dst (sn_loc n) = Some sn ->
    sget N.compare sn (sn_node_ids n) = Some sid ->
    net_send n q m src dst =
      Ok (net_bump n false 0,
          q_with q (q_clock q)
                 (q_events q ++ [{| q_id := q_count q; q_time := q_clock q; q_src := sid; q_dst := sid;
                                    q_data := QMsg (sn_msg_count n) m src sn dst sn |}])
                 (q_canceled q) (q_count q + 1) (q_rand q),
          [LMessageSent (q_clock q) (sn_msg_count n) sn src sn dst m]).
  Proof.
    intros H1 H2 H3. unfold Sim.net_send. rewrite H1, H2, H3, N.eqb_refl.
    unfold q_add. rewrite (neg_eps_spec ops laws) by apply (le_refl ops laws).
    cbn [bind]. rewrite tmax0_zero, (add_zero ops laws). reflexivity.
  Qed.

  (* what net_bump changes: message_count + 1 always; network_message_count + 1 and traffic + size for a cross-node send *)
  Lemma net_bump_fields (n : simnet) cross size :
    let n' := net_bump n cross size in
    sn_min n' = sn_min n /\ sn_max n' = sn_max n /\ sn_drop n' = sn_drop n /\ sn_dupl n' = sn_dupl n /\
    sn_corrupt n' = sn_corrupt n /\ sn_node_ids n' = sn_node_ids n /\ sn_loc n' = sn_loc n /\
    sn_drop_in n' = sn_drop_in n /\ sn_drop_out n' = sn_drop_out n /\ sn_links n' = sn_links n /\
    sn_msg_count n' = sn_msg_count n + 1 /\
    sn_net_count n' = (if cross then sn_net_count n + 1 else sn_net_count n) /\
    sn_traffic n' = (if cross then sn_traffic n + size else sn_traffic n).
  Proof. cbn. repeat split. Qed.

  Theorem net_send_cross_node n q m src dst sn dn sid did n' q' logs :
    sget N.compare src (sn_loc n) = Some sn -> sget N.compare dst (sn_loc n) = Some dn -> sn <> dn ->
    sget N.compare sn (sn_node_ids n) = Some sid -> sget N.compare dn (sn_node_ids n) = Some did ->
    net_send n q m src dst = Ok (n', q', logs) ->
    let mid := sn_msg_count n in
    let sent := LMessageSent (q_clock q) mid sn src dn dst m in
    (* network_message_count + 1, traffic + size of the ORIGINAL message, message_count + 1 *)
    n' = net_bump n true (msg_size m) /\
    match net_fate n q m sn dn with
    | (FDropped, q1) =>
        logs = [sent; LMessageDropped (q_clock q) mid sn src dn dst m] /\ q' = q1 /\ q_events q' = q_events q
    | (FCopies m' ds, q1) =>
        logs = [sent] /\
        q' = q_with q1 (q_clock q)
                    (q_events q ++ mk_copies (q_clock q) (q_count q) (QMsg mid m' src sn dst dn) sid did ds)
                    (q_canceled q) (q_count q + N.of_nat (length ds)) (q_rand q1)
    end.
  Proof.
    intros H1 H2 Hne H3 H4 H mid sent. unfold Sim.net_send in H. rewrite H1, H2, H3, H4 in H.
    apply N.eqb_neq in Hne. rewrite Hne in H.
    destruct (net_fate n q m sn dn) as [f q1] eqn:Ef.
    pose proof (net_fate_spec _ _ _ _ _ _ _ Ef) as [Hsq _]. destruct Hsq as [S1 [S2 [S3 S4]]].
    destruct f as [|m' ds].
    - inversion H; subst. repeat split; auto.
    - binv. apply emit_copies_spec in E. rewrite S1, S2, S3, S4 in E. subst q'. repeat split; auto.
  Qed.

  (* a cross-node send returns Ok whenever 0 <= min_delay <= max_delay *)
  Theorem net_send_cross_total n q m src dst sn dn sid did :
    sget N.compare src (sn_loc n) = Some sn -> sget N.compare dst (sn_loc n) = Some dn -> sn <> dn ->
    sget N.compare sn (sn_node_ids n) = Some sid -> sget N.compare dn (sn_node_ids n) = Some did ->
    tleb ops (tz ops) (sn_min n) = true -> tleb ops (sn_min n) (sn_max n) = true ->
    exists r, net_send n q m src dst = Ok r.
  Proof.
    intros H1 H2 Hne H3 H4 Hz Hmm. unfold Sim.net_send. rewrite H1, H2, H3, H4.
    apply N.eqb_neq in Hne. rewrite Hne.
    destruct (net_fate n q m sn dn) as [f q1] eqn:Ef.
    destruct f as [|m' ds]; [eexists; reflexivity|].
    destruct (emit_copies_ok ds q1 (QMsg (sn_msg_count n) m' src sn dst dn) sid did) as [q2 E2].
    { intros dl Hdl. apply (neg_eps_spec ops laws).
      destruct (net_fate_delays _ _ _ _ _ _ _ _ Ef dl Hdl) as [_ Hb]. destruct (Hb Hmm) as [Hb1 _].
      eapply (le_trans ops laws); eauto. }
    rewrite E2. cbn [bind]. eexists; reflexivity.
  Qed.

  (* ================================================================================================ *)
  (* N3: link algebra (snet_apply)                                                                     *)
  (* ================================================================================================ *)

  Lemma pair_eqb_true x y : pair_eqb x y = true <-> x = y.
  Proof.
    destruct x as [a b], y as [c d]. unfold pair_eqb. cbn [fst snd].
    rewrite andb_true_iff, !N.eqb_eq. split; [intros [-> ->]; reflexivity | intros H; inversion H; auto].
  Qed.

  Lemma pair_eqb_refl x : pair_eqb x x = true.
  Proof. apply pair_eqb_true. reflexivity. Qed.

  Lemma pair_eqb_sym x y : pair_eqb x y = pair_eqb y x.
  Proof.
    destruct (pair_eqb y x) eqn:E.
    - apply pair_eqb_true in E. subst. apply pair_eqb_refl.
    - destruct (pair_eqb x y) eqn:E2; auto. apply pair_eqb_true in E2. subst. rewrite pair_eqb_refl in E. discriminate.
  Qed.

  Lemma pair_eqb_false x y : pair_eqb x y = false <-> x <> y.
  Proof.
    rewrite <- pair_eqb_true. destruct (pair_eqb x y); split; intro H; auto; try discriminate. exfalso; auto.
  Qed.

  (* the directed link (c, d) is in the set of disabled links *)
  Definition link_disabled (n : simnet) (c d : N) : bool := existsb (pair_eqb (c, d)) (sn_links n).

  Lemma link_cut_unfold (n : simnet) c d :
    link_cut n c d = nmem c (sn_drop_out n) || nmem d (sn_drop_in n) || link_disabled n c d.
  Proof. reflexivity. Qed.

  Lemma existsb_pins x y l : existsb (pair_eqb x) (pins y l) = pair_eqb x y || existsb (pair_eqb x) l.
  Proof.
    induction l as [|a r IH]; cbn [pins existsb]; auto.
    destruct (pair_cmp y a) eqn:E.
    - apply (cmp_eq _ (CmpSpec_pair _ _ CmpSpec_N CmpSpec_N)) in E. subst a.
      cbn [existsb]. destruct (pair_eqb x y); reflexivity.
    - reflexivity.
    - cbn [existsb]. rewrite IH. destruct (pair_eqb x y), (pair_eqb x a); reflexivity.
  Qed.

  Lemma existsb_prem x y l : existsb (pair_eqb x) (prem y l) = negb (pair_eqb x y) && existsb (pair_eqb x) l.
  Proof.
    unfold prem. induction l as [|a r IH]; cbn [filter existsb].
    - rewrite andb_false_r. reflexivity.
    - destruct (pair_eqb y a) eqn:E; cbn [negb].
      + apply pair_eqb_true in E. subst a. rewrite IH. destruct (pair_eqb x y); reflexivity.
      + cbn [existsb]. rewrite IH. destruct (pair_eqb x a) eqn:E2; [|destruct (pair_eqb x y); reflexivity].
        apply pair_eqb_true in E2. subst a. rewrite (pair_eqb_sym x y), E. reflexivity.
  Qed.

  Lemma nmem_nins x y l : nmem x (nins y l) = N.eqb x y || nmem x l.
  Proof.
    apply eq_true_iff_eq. rewrite orb_true_iff, !nmem_iff, in_nins, N.eqb_eq. tauto.
  Qed.

  Lemma nmem_nrem x y l : nmem x (nrem y l) = negb (N.eqb x y) && nmem x l.
  Proof.
    apply eq_true_iff_eq. rewrite andb_true_iff, negb_true_iff, !nmem_iff, in_nrem, N.eqb_neq. tauto.
  Qed.

  Lemma existsb_partition_inner c d a g2 : forall l,
    existsb (pair_eqb (c, d)) (fold_left (fun acc b => pins (b, a) (pins (a, b) acc)) g2 l) = true <->
    existsb (pair_eqb (c, d)) l = true \/ (c = a /\ In d g2) \/ (In c g2 /\ d = a).
  Proof.
    induction g2 as [|b r IH]; intros l; cbn [fold_left In].
    - tauto.
    - rewrite IH, !existsb_pins, !orb_true_iff, !pair_eqb_true. split.
      + intros [[H|[H|H]]|[H|H]]; try (inversion H; subst); tauto.
      + intros [H|[[-> [->|H]]|[[->|H] ->]]]; tauto.
  Qed.

  Lemma existsb_partition c d g2 g1 : forall l,
    existsb (pair_eqb (c, d))
            (fold_left (fun acc a => fold_left (fun acc b => pins (b, a) (pins (a, b) acc)) g2 acc) g1 l) = true <->
    existsb (pair_eqb (c, d)) l = true \/ (In c g1 /\ In d g2) \/ (In c g2 /\ In d g1).
  Proof.
    induction g1 as [|a r IH]; intros l; cbn [fold_left In].
    - tauto.
    - rewrite IH, existsb_partition_inner. split.
      + intros [[H|[[-> H]|[H ->]]]|[H|H]]; tauto.
      + intros [H|[[[->|H] H2]|[H2 [->|H]]]]; tauto.
  Qed.

  Ltac lc_start :=
    intros; rewrite !link_cut_unfold; unfold link_disabled;
    cbn [snet_apply fst snd net_with_sets sn_drop_in sn_drop_out sn_links];
    rewrite ?nmem_nins, ?nmem_nrem, ?existsb_pins, ?existsb_prem.

  Ltac lc_bool :=
    repeat match goal with
    | |- context [N.eqb ?a ?b] => destruct (N.eqb_spec a b); subst
    | |- context [pair_eqb ?a ?b] =>
        let E := fresh "E" in destruct (pair_eqb a b) eqn:E;
        [apply pair_eqb_true in E; try (inversion E; subst) | apply pair_eqb_false in E]
    end;
    repeat match goal with |- context [nmem ?a ?l] => destruct (nmem a l) end;
    repeat match goal with |- context [existsb ?f ?l] => destruct (existsb f l) end;
    cbn [orb andb negb]; intuition (try congruence; try discriminate).

  (* disable_link: cuts (a, b) only -- link controls are directional *)
  Theorem disable_link_directional (n : simnet) t a b :
    let n' := fst (snet_apply n t (SDisableLink a b)) in
    link_cut n' a b = true /\
    (forall c d, (c, d) <> (a, b) -> link_cut n' c d = link_cut n c d) /\
    (a <> b -> link_cut n' b a = link_cut n b a).
  Proof.
    cbn zeta. split; [|split].
    - lc_start. rewrite pair_eqb_refl. rewrite !orb_true_r. reflexivity.
    - lc_start. lc_bool.
    - lc_start. lc_bool.
  Qed.

  Theorem disable_link_iff (n : simnet) t a b c d :
    link_cut (fst (snet_apply n t (SDisableLink a b))) c d = true <-> link_cut n c d = true \/ (c = a /\ d = b).
  Proof. lc_start. lc_bool. Qed.

  (* enable_link removes (a, b) from the disabled links; traffic filters of the two nodes still apply *)
  Theorem enable_link_iff (n : simnet) t a b c d :
    link_cut (fst (snet_apply n t (SEnableLink a b))) c d = true <->
    link_cut n c d = true /\
    ((c, d) <> (a, b) \/ nmem c (sn_drop_out n) = true \/ nmem d (sn_drop_in n) = true).
  Proof. lc_start. lc_bool. Qed.

  Theorem enable_link_other (n : simnet) t a b c d :
    (c, d) <> (a, b) -> link_cut (fst (snet_apply n t (SEnableLink a b))) c d = link_cut n c d.
  Proof. lc_start. lc_bool. Qed.

  Theorem drop_incoming_iff (n : simnet) t x c d :
    link_cut (fst (snet_apply n t (SDropIncoming x))) c d = true <-> link_cut n c d = true \/ d = x.
  Proof. lc_start. lc_bool. Qed.

  Theorem pass_incoming_iff (n : simnet) t x c d :
    link_cut (fst (snet_apply n t (SPassIncoming x))) c d = true <->
    link_cut n c d = true /\ (d <> x \/ nmem c (sn_drop_out n) = true \/ link_disabled n c d = true).
  Proof. lc_start. lc_bool. Qed.

  Theorem drop_outgoing_iff (n : simnet) t x c d :
    link_cut (fst (snet_apply n t (SDropOutgoing x))) c d = true <-> link_cut n c d = true \/ c = x.
  Proof. lc_start. lc_bool. Qed.

  Theorem pass_outgoing_iff (n : simnet) t x c d :
    link_cut (fst (snet_apply n t (SPassOutgoing x))) c d = true <->
    link_cut n c d = true /\ (c <> x \/ nmem d (sn_drop_in n) = true \/ link_disabled n c d = true).
  Proof. lc_start. lc_bool. Qed.

  Theorem disconnect_iff (n : simnet) t x c d :
    link_cut (fst (snet_apply n t (SDisconnect x))) c d = true <-> link_cut n c d = true \/ c = x \/ d = x.
  Proof. lc_start. lc_bool. Qed.

  Theorem connect_iff (n : simnet) t x c d :
    link_cut (fst (snet_apply n t (SConnect x))) c d = true <->
    (c <> x /\ nmem c (sn_drop_out n) = true) \/ (d <> x /\ nmem d (sn_drop_in n) = true) \/
    link_disabled n c d = true.
  Proof. lc_start. lc_bool. Qed.

  (* a partition cuts both directions of every cross pair, and nothing else *)
  Theorem partition_iff (n : simnet) t g1 g2 c d :
    link_cut (fst (snet_apply n t (SPartition g1 g2))) c d = true <->
    link_cut n c d = true \/ (In c g1 /\ In d g2) \/ (In c g2 /\ In d g1).
  Proof.
    rewrite !link_cut_unfold. unfold link_disabled.
    cbn [snet_apply fst snd net_with_sets sn_drop_in sn_drop_out sn_links].
    rewrite !orb_true_iff, existsb_partition. tauto.
  Qed.

  Theorem partition_cuts (n : simnet) t g1 g2 :
    let n' := fst (snet_apply n t (SPartition g1 g2)) in
    (forall x y, In x g1 -> In y g2 -> link_cut n' x y = true /\ link_cut n' y x = true) /\
    (forall c d, ~ (In c g1 /\ In d g2) -> ~ (In c g2 /\ In d g1) -> link_cut n' c d = link_cut n c d).
  Proof.
    cbn zeta. split.
    - intros x y Hx Hy. split; apply partition_iff; tauto.
    - intros c d H1 H2. apply eq_true_iff_eq. rewrite partition_iff. tauto.
  Qed.

  (* reset heals every link and keeps rates, delays, counters and locations *)
  Theorem reset_heals (n : simnet) t :
    let n' := fst (snet_apply n t SReset) in
    (forall c d, link_cut n' c d = false) /\
    sn_min n' = sn_min n /\ sn_max n' = sn_max n /\ sn_drop n' = sn_drop n /\ sn_dupl n' = sn_dupl n /\
    sn_corrupt n' = sn_corrupt n /\ sn_node_ids n' = sn_node_ids n /\ sn_loc n' = sn_loc n /\
    sn_net_count n' = sn_net_count n /\ sn_msg_count n' = sn_msg_count n /\ sn_traffic n' = sn_traffic n.
  Proof. cbn. repeat split. Qed.

  Definition is_link_control (o : @snetop T) : bool :=
    match o with
    | SSetDelay _ | SSetDelays _ _ | SSetDrop _ | SSetDupl _ | SSetCorrupt _ => false
    | _ => true
    end.

  (* the link controls log exactly one entry and keep the rates; the setters log nothing and keep the link state;
     no network call touches the counters, the node ids or the process locations *)
  Theorem snet_apply_frame (n : simnet) t o :
    let n' := fst (snet_apply n t o) in
    length (snd (snet_apply n t o)) = (if is_link_control o then 1 else 0)%nat /\
    (is_link_control o = true ->
       sn_min n' = sn_min n /\ sn_max n' = sn_max n /\ sn_drop n' = sn_drop n /\ sn_dupl n' = sn_dupl n /\
       sn_corrupt n' = sn_corrupt n) /\
    (is_link_control o = false ->
       sn_drop_in n' = sn_drop_in n /\ sn_drop_out n' = sn_drop_out n /\ sn_links n' = sn_links n /\
       forall c d, link_cut n' c d = link_cut n c d) /\
    sn_node_ids n' = sn_node_ids n /\ sn_loc n' = sn_loc n /\
    sn_net_count n' = sn_net_count n /\ sn_msg_count n' = sn_msg_count n /\ sn_traffic n' = sn_traffic n.
  Proof. destruct o; cbn; repeat split; intros; try discriminate; reflexivity. Qed.

  (* the log entry of each link control *)
  Theorem snet_apply_log (n : simnet) t o :
    snd (snet_apply n t o) =
    match o with
    | SSetDelay _ | SSetDelays _ _ | SSetDrop _ | SSetDupl _ | SSetCorrupt _ => []
    | SDropIncoming x => [LDropIncoming t x] | SPassIncoming x => [LPassIncoming t x]
    | SDropOutgoing x => [LDropOutgoing t x] | SPassOutgoing x => [LPassOutgoing t x]
    | SDisconnect x => [LNodeDisconnected t x] | SConnect x => [LNodeConnected t x]
    | SDisableLink a b => [LLinkDisabled t a b] | SEnableLink a b => [LLinkEnabled t a b]
    | SPartition g1 g2 => [LNetworkPartition t g1 g2] | SReset => [LNetworkReset t]
    end.
  Proof. destruct o; reflexivity. Qed.

  (* ================================================================================================ *)
  (* N4: history invariant                                                                             *)
  (* ================================================================================================ *)

  (* the rest is about whole systems: user processes (arbitrary handler), initial states, crash order (arbitrary) *)
  Context {PS : Type}.
  Variable handler : N -> PS -> input -> T -> (nat -> T) -> PS * list (action T) * nat.
  Variable init_state : N -> PS.
  Variable crash_order : list qevent -> list qevent.
  Notation simsys := (@simsys T PS).
  Notation sim_op := (sim_op ops handler init_state draws crash_order).
  Notation Reachable := (Reachable ops handler init_state draws crash_order).

  (* at the API level: a network call never touches the event queue (nor nodes); it only appends its log entries *)
  Theorem ynet_effect fuel (s : simsys) o :
    sim_op fuel s (YNet o) =
    Ok (y_with s (y_q s) (fst (snet_apply (y_net s) (now s) o)) (y_nodes s)
               (y_log s ++ snd (snet_apply (y_net s) (now s) o)), RetUnit).
  Proof. cbn [Sim.sim_op]. destruct (snet_apply (y_net s) (now s) o). reflexivity. Qed.


  (* ---- observations of the trace and of the queue ---- *)
  Definition is_sent (e : logentry) : bool := match e with LMessageSent _ _ _ _ _ _ _ => true | _ => false end.
  Definition is_recv (e : logentry) : bool := match e with LMessageReceived _ _ _ _ _ _ _ => true | _ => false end.
  Definition is_dropped (e : logentry) : bool := match e with LMessageDropped _ _ _ _ _ _ _ => true | _ => false end.
  Definition is_sent_id (i : N) (e : logentry) : bool :=
    match e with LMessageSent _ j _ _ _ _ _ => N.eqb j i | _ => false end.
  Definition is_recv_id (i : N) (e : logentry) : bool :=
    match e with LMessageReceived _ j _ _ _ _ _ => N.eqb j i | _ => false end.
  Definition is_dropped_id (i : N) (e : logentry) : bool :=
    match e with LMessageDropped _ j _ _ _ _ _ => N.eqb j i | _ => false end.
  Definition is_qmsg_id (i : N) (e : qevent) : bool :=
    match q_data e with QMsg j _ _ _ _ _ => N.eqb j i | QTimer _ _ => false end.

  (* message ids of the LMessageSent entries, in trace order *)
  Definition sent_ids (l : list logentry) : list N :=
    flat_map (fun e => match e with LMessageSent _ j _ _ _ _ _ => [j] | _ => [] end) l.

  (* "the send of message i was dropped by the network": its LMessageSent entry is immediately followed by an
     LMessageDropped entry with the same id (the drops logged by a crash come after an LNodeCrashed entry) *)
  Fixpoint sdrop (i : N) (l : list logentry) : bool :=
    match l with
    | [] => false
    | e :: r => (is_sent_id i e && match r with d :: _ => is_dropped_id i d | [] => false end) || sdrop i r
    end.

  (* number of queue events (live or cancelled) / of LMessageReceived entries carrying message id i *)
  Definition qcount (i : N) (evs : list qevent) : nat := length (filter (is_qmsg_id i) evs).
  Definition rcount (i : N) (l : list logentry) : nat := length (filter (is_recv_id i) l).

  (* every entry is justified by the entries before it *)
  Definition each_after (P : logentry -> list logentry -> Prop) (l : list logentry) : Prop :=
    forall l1 e l2, l = l1 ++ e :: l2 -> P e l1.

  (* an LMessageReceived entry is justified by an earlier matching LMessageSent *)
  Definition recv_just (e : logentry) (before : list logentry) : Prop :=
    match e with
    | LMessageReceived _ i sn src dn dst m' =>
        exists t0 m, In (LMessageSent t0 i sn src dn dst m) before /\ (m' = m \/ m' = corrupt_msg m)
    | _ => True
    end.

  (* the invariant of (queue, network, trace) *)
  Record WInv (q : simq) (n : simnet) (l : list logentry) : Prop := {
    (* ids of sent messages are below message_count and strictly increasing along the trace *)
    wi_sent_lt : forall j, In j (sent_ids l) -> j < sn_msg_count n;
    wi_sent_incr : StronglySorted N.lt (sent_ids l);
    (* (a) every queued message (live or cancelled) was sent (payload intact or canonically corrupted), its send
       was not dropped, and it is addressed to the component of its destination node *)
    wi_queue : forall e i m' src sn dst dn, In e (q_events q) -> q_data e = QMsg i m' src sn dst dn ->
        (exists t m, In (LMessageSent t i sn src dn dst m) l /\ (m' = m \/ m' = corrupt_msg m)) /\
        sdrop i l = false /\
        sget N.compare dn (sn_node_ids n) = Some (q_dst e);
    (* (b) every received message was sent earlier ... *)
    wi_recv : each_after recv_just l;
    (*     ... and that send was not dropped *)
    wi_recv_nodrop : forall e i, In e l -> is_recv_id i e = true -> sdrop i l = false;
    (* (c) one send yields at most three deliveries (pending + done), none before it is sent, one within a node *)
    wi_count3 : forall i, (qcount i (q_events q) + rcount i l <= 3)%nat;
    wi_count0 : forall i, sn_msg_count n <= i -> (qcount i (q_events q) + rcount i l = 0)%nat;
    wi_count1 : forall t i sn src dst m, In (LMessageSent t i sn src sn dst m) l ->
        (qcount i (q_events q) + rcount i l <= 1)%nat }.

  (* ---- basic facts ---- *)
  Lemma sent_ids_app l c : sent_ids (l ++ c) = sent_ids l ++ sent_ids c.
  Proof. apply flat_map_app. Qed.

  Lemma in_sent_ids i l : In i (sent_ids l) <-> exists e, In e l /\ is_sent_id i e = true.
  Proof.
    unfold sent_ids. rewrite in_flat_map. split; intros [e [H1 H2]]; exists e; split; auto.
    - destruct e; cbn in H2; try contradiction. destruct H2 as [->|[]]. cbn. apply N.eqb_refl.
    - destruct e; cbn in H2; try discriminate. apply N.eqb_eq in H2. subst. left. reflexivity.
  Qed.

  Lemma sent_in_ids t i a b c d m l : In (LMessageSent t i a b c d m) l -> In i (sent_ids l).
  Proof. intros H. apply in_sent_ids. eexists. split; [exact H|]. cbn. apply N.eqb_refl. Qed.

  Lemma sent_ids_none c : (forall e, In e c -> is_sent e = false) -> sent_ids c = [].
  Proof.
    unfold sent_ids. induction c as [|e r IH]; intros H; cbn [flat_map]; auto.
    rewrite IH by (intros x Hx; apply H; right; auto).
    pose proof (H e (or_introl eq_refl)) as He. destruct e; cbn in He; try discriminate; reflexivity.
  Qed.

  Lemma sdrop_app i l c :
    match c with d :: _ => is_dropped d = false | [] => True end ->
    sdrop i (l ++ c) = sdrop i l || sdrop i c.
  Proof.
    intros Hc. induction l as [|e r IH]; [reflexivity|].
    cbn [app sdrop]. rewrite IH. rewrite <- orb_assoc. f_equal. f_equal.
    destruct r as [|e' r']; [|reflexivity]. cbn [app].
    destruct c as [|d c']; [reflexivity|]. destruct d; cbn in Hc; try discriminate; reflexivity.
  Qed.

  Lemma sdrop_sent i l : sdrop i l = true -> In i (sent_ids l).
  Proof.
    induction l as [|e r IH]; cbn [sdrop]; [discriminate|].
    rewrite orb_true_iff, andb_true_iff. intros [[H _]|H].
    - apply in_sent_ids. exists e. split; [left; reflexivity | exact H].
    - apply IH in H. apply in_sent_ids in H. destruct H as [x [H1 H2]]. apply in_sent_ids. exists x. split; [right|]; auto.
  Qed.

  Lemma sdrop_none i c : (forall e, In e c -> is_sent e = false) -> sdrop i c = false.
  Proof.
    intros H. destruct (sdrop i c) eqn:E; auto. apply sdrop_sent in E.
    rewrite sent_ids_none in E by exact H. contradiction.
  Qed.

  (* readable form of sdrop *)
  Lemma sdrop_iff i l :
    sdrop i l = true <->
    exists l1 e d l2, l = l1 ++ e :: d :: l2 /\ is_sent_id i e = true /\ is_dropped_id i d = true.
  Proof.
    induction l as [|e r IH]; cbn [sdrop].
    - split; [discriminate|]. intros [l1 [e [d [l2 [H _]]]]]. destruct l1; discriminate.
    - rewrite orb_true_iff, andb_true_iff, IH. split.
      + intros [[H1 H2]|[l1 [e' [d [l2 [H1 H2]]]]]].
        * destruct r as [|d r']; [discriminate|]. exists [], e, d, r'. auto.
        * exists (e :: l1), e', d, l2. subst r. auto.
      + intros [l1 [e' [d [l2 [H1 H2]]]]]. destruct l1 as [|x l1]; cbn in H1; inversion H1; subst.
        * left. tauto.
        * right. exists l1, e', d, l2. auto.
  Qed.

  Lemma rcount_app i l c : rcount i (l ++ c) = (rcount i l + rcount i c)%nat.
  Proof. unfold rcount. rewrite filter_app, app_length. reflexivity. Qed.

  Lemma qcount_app i l c : qcount i (l ++ c) = (qcount i l + qcount i c)%nat.
  Proof. unfold qcount. rewrite filter_app, app_length. reflexivity. Qed.

  Lemma rcount_none i c : (forall e, In e c -> is_recv e = false) -> rcount i c = 0%nat.
  Proof.
    unfold rcount. induction c as [|e r IH]; intros H; cbn; auto.
    pose proof (H e (or_introl eq_refl)) as He.
    replace (is_recv_id i e) with false by (destruct e; cbn in He; try discriminate; reflexivity).
    apply IH. intros x Hx. apply H. right. auto.
  Qed.

  Lemma is_recv_id_recv i e : is_recv_id i e = true -> is_recv e = true.
  Proof. destruct e; cbn; auto. Qed.

  Lemma each_after_app P l c :
    each_after P l -> (forall c1 e c2, c = c1 ++ e :: c2 -> P e (l ++ c1)) -> each_after P (l ++ c).
  Proof.
    intros Hl Hc l1 e l2 H. apply app_eq_app in H. destruct H as [x [[H1 H2]|[H1 H2]]].
    - destruct x as [|y x].
      + cbn in H2. rewrite app_nil_r in H1. subst l1. rewrite <- (app_nil_r l). apply (Hc [] e l2). symmetry. exact H2.
      + cbn in H2. inversion H2; subst. apply (Hl l1 y x). reflexivity.
    - subst l1. apply (Hc x e l2). exact H2.
  Qed.

  Lemma recv_just_app_norecv l c :
    each_after recv_just l -> (forall e, In e c -> is_recv e = false) -> each_after recv_just (l ++ c).
  Proof.
    intros Hl Hc. apply each_after_app; auto.
    intros c1 e c2 H. assert (He : is_recv e = false) by (apply Hc; subst c; apply in_elt).
    destruct e; cbn in He; try discriminate; exact I.
  Qed.

  Lemma StronglySorted_snoc (l : list N) x :
    StronglySorted N.lt l -> (forall j, In j l -> j < x) -> StronglySorted N.lt (l ++ [x]).
  Proof.
    induction l as [|a r IH]; intros Hs Hlt; cbn.
    - constructor; constructor.
    - inversion Hs as [|? ? Hs' Hf]; subst. constructor.
      + apply IH; auto. intros j Hj. apply Hlt. right. auto.
      + apply Forall_app. split; auto. constructor; [|constructor]. apply Hlt. left. reflexivity.
  Qed.

  (* a received id is below message_count *)
  Lemma recv_id_lt q n l e i : WInv q n l -> In e l -> is_recv_id i e = true -> i < sn_msg_count n.
  Proof.
    intros W He Hi. destruct (in_split _ _ He) as [l1 [l2 Hl]].
    pose proof (wi_recv _ _ _ W l1 e l2 Hl) as Hj.
    destruct e; cbn in Hi; try discriminate. apply N.eqb_eq in Hi. subst.
    cbn in Hj. destruct Hj as [t0 [m0 [Hin _]]].
    apply (wi_sent_lt _ _ _ W). eapply sent_in_ids. apply in_or_app. left. exact Hin.
  Qed.

  (* ---- the initial state ---- *)
  Lemma WInv_init : WInv (y_q (sys0 ops (PS := PS))) (y_net (sys0 ops (PS := PS))) [].
  Proof.
    split; cbn.
    - intros j [].
    - constructor.
    - intros e i m' src sn dst dn [].
    - intros l1 e l2 H. destruct l1; discriminate.
    - intros e i [].
    - intros i. lia.
    - intros i _. reflexivity.
    - intros t i sn src dst m [].
  Qed.

  (* ---- frame lemmas ---- *)
  (* the queue loses events or gains timers *)
  Lemma WInv_queue q q' n l :
    WInv q n l ->
    (forall e, In e (q_events q') -> In e (q_events q) \/ is_qmsg e = false) ->
    (forall i, (qcount i (q_events q') <= qcount i (q_events q))%nat) ->
    WInv q' n l.
  Proof.
    intros W Hin Hc. split.
    - apply (wi_sent_lt _ _ _ W).
    - apply (wi_sent_incr _ _ _ W).
    - intros e i m' src sn dst dn He Hd. destruct (Hin e He) as [He'|He'].
      + apply (wi_queue _ _ _ W e i m' src sn dst dn He' Hd).
      + unfold is_qmsg in He'. rewrite Hd in He'. discriminate.
    - apply (wi_recv _ _ _ W).
    - apply (wi_recv_nodrop _ _ _ W).
    - intros i. pose proof (wi_count3 _ _ _ W i). specialize (Hc i). lia.
    - intros i Hi. pose proof (wi_count0 _ _ _ W i Hi). specialize (Hc i). lia.
    - intros t i sn src dst m H. pose proof (wi_count1 _ _ _ W t i sn src dst m H). specialize (Hc i). lia.
  Qed.

  Lemma WInv_same_events q q' n l : WInv q n l -> q_events q' = q_events q -> WInv q' n l.
  Proof. intros W E. apply (WInv_queue q q' n l W); rewrite E; auto. Qed.

  (* a chunk of trace that has no Sent / Received entry and does not start with a Dropped entry *)
  Definition neutral (c : list logentry) : Prop :=
    (forall e, In e c -> is_sent e = false /\ is_recv e = false) /\
    match c with d :: _ => is_dropped d = false | [] => True end.

  Lemma WInv_log q n l c : WInv q n l -> neutral c -> WInv q n (l ++ c).
  Proof.
    intros W [Hc Hh].
    assert (Hs : forall e, In e c -> is_sent e = false) by (intros e He; apply Hc; auto).
    assert (Hr : forall e, In e c -> is_recv e = false) by (intros e He; apply Hc; auto).
    assert (Hd : forall i, sdrop i (l ++ c) = sdrop i l).
    { intros i. rewrite sdrop_app by exact Hh. rewrite (sdrop_none i c Hs). apply orb_false_r. }
    assert (Hsent : forall t i a b c0 d m, In (LMessageSent t i a b c0 d m) (l ++ c) -> In (LMessageSent t i a b c0 d m) l).
    { intros t i a b c0 d m H. apply in_app_or in H. destruct H as [H|H]; auto. apply Hs in H. discriminate. }
    split.
    - rewrite sent_ids_app, (sent_ids_none c Hs), app_nil_r. apply (wi_sent_lt _ _ _ W).
    - rewrite sent_ids_app, (sent_ids_none c Hs), app_nil_r. apply (wi_sent_incr _ _ _ W).
    - intros e i m' src sn dst dn He Hq.
      destruct (wi_queue _ _ _ W e i m' src sn dst dn He Hq) as [[t [m [H1 H2]]] [H3 H4]].
      split; [exists t, m; split; auto; apply in_or_app; left; exact H1|]. split; auto. rewrite Hd. exact H3.
    - apply recv_just_app_norecv; auto. apply (wi_recv _ _ _ W).
    - intros e i He Hi. rewrite Hd. apply in_app_or in He. destruct He as [He|He].
      + apply (wi_recv_nodrop _ _ _ W e i He Hi).
      + apply Hr in He. apply is_recv_id_recv in Hi. congruence.
    - intros i. rewrite rcount_app, (rcount_none i c Hr). pose proof (wi_count3 _ _ _ W i). lia.
    - intros i Hi. rewrite rcount_app, (rcount_none i c Hr). pose proof (wi_count0 _ _ _ W i Hi). lia.
    - intros t i sn src dst m H. apply Hsent in H. rewrite rcount_app, (rcount_none i c Hr).
      pose proof (wi_count1 _ _ _ W t i sn src dst m H). lia.
  Qed.

  Lemma WInv_net q n n' l :
    WInv q n l -> sn_msg_count n' = sn_msg_count n ->
    (forall a c, sget N.compare a (sn_node_ids n) = Some c -> sget N.compare a (sn_node_ids n') = Some c) ->
    WInv q n' l.
  Proof.
    intros W Hm Hi. split; try rewrite Hm.
    - apply (wi_sent_lt _ _ _ W).
    - apply (wi_sent_incr _ _ _ W).
    - intros e i m' src sn dst dn He Hq.
      destruct (wi_queue _ _ _ W e i m' src sn dst dn He Hq) as [H1 [H2 H3]]. auto.
    - apply (wi_recv _ _ _ W).
    - apply (wi_recv_nodrop _ _ _ W).
    - apply (wi_count3 _ _ _ W).
    - apply (wi_count0 _ _ _ W).
    - apply (wi_count1 _ _ _ W).
  Qed.

  (* ---- sending ---- *)
  Lemma net_send_inv n q m src dst n' q' logs :
    net_send n q m src dst = Ok (n', q', logs) ->
    exists sn dn sid did cross size,
      sget N.compare src (sn_loc n) = Some sn /\ sget N.compare dst (sn_loc n) = Some dn /\
      sget N.compare dn (sn_node_ids n) = Some did /\ n' = net_bump n cross size /\
      let mid := sn_msg_count n in
      let sent := LMessageSent (q_clock q) mid sn src dn dst m in
      ((logs = [sent; LMessageDropped (q_clock q) mid sn src dn dst m] /\ q_events q' = q_events q /\ sn <> dn) \/
       (exists m' ds clock cnt, logs = [sent] /\
          q_events q' = q_events q ++ mk_copies clock cnt (QMsg mid m' src sn dst dn) sid did ds /\
          (m' = m \/ m' = corrupt_msg m) /\ (1 <= length ds <= 3)%nat /\ (sn = dn -> length ds = 1%nat))).
  Proof.
    intros H. unfold Sim.net_send in H.
    destruct (sget N.compare src (sn_loc n)) as [sn|] eqn:Hsrc; [|discriminate].
    destruct (sget N.compare dst (sn_loc n)) as [dn|] eqn:Hdst; [|discriminate].
    destruct (sget N.compare sn (sn_node_ids n)) as [sid|] eqn:Hsid; [|discriminate].
    destruct (sget N.compare dn (sn_node_ids n)) as [did|] eqn:Hdid; [|discriminate].
    exists sn, dn, sid, did.
    destruct (N.eqb sn dn) eqn:Esame.
    - unfold q_add in H. destruct (tneg_eps_le ops (tz ops)); [|discriminate]. cbn [bind] in H.
      inversion H; subst. exists false, 0.
      split; [first [reflexivity|assumption]|]. split; [first [reflexivity|assumption]|].
      split; [first [reflexivity|assumption]|]. split; [reflexivity|]. cbn zeta. right.
      exists m, [tz ops], (q_clock q), (q_count q). cbn [q_with q_events mk_copies length].
      split; [reflexivity|]. split; [reflexivity|]. split; [left; reflexivity|]. split; [lia|]. reflexivity.
    - apply N.eqb_neq in Esame.
      destruct (net_fate n q m sn dn) as [f q1] eqn:Ef.
      pose proof (net_fate_spec _ _ _ _ _ _ _ Ef) as [[S1 [S2 [S3 S4]]] [_ [_ [_ Hc]]]].
      exists true, (msg_size m). destruct f as [|m' ds].
      + inversion H; subst.
        split; [first [reflexivity|assumption]|]. split; [first [reflexivity|assumption]|].
      split; [first [reflexivity|assumption]|]. split; [reflexivity|]. cbn zeta. left.
        split; [reflexivity|]. split; [exact S2 | exact Esame].
      + binv. apply emit_copies_spec in E. subst q'.
        split; [first [reflexivity|assumption]|]. split; [first [reflexivity|assumption]|].
      split; [first [reflexivity|assumption]|]. split; [reflexivity|]. cbn zeta. right.
        exists m', ds, (q_clock q1), (q_count q1). cbn [q_with q_events]. rewrite S2.
        destruct (Hc m' ds eq_refl) as [_ [_ [_ [Hm' [Hlen _]]]]].
        split; [reflexivity|]. split; [reflexivity|]. split; [tauto|]. split; [exact Hlen|].
        intros; contradiction.
  Qed.

  Lemma is_qmsg_id_mk i a b c d mid m' src sn dst dn :
    is_qmsg_id i {| q_id := a; q_time := b; q_src := c; q_dst := d; q_data := QMsg mid m' src sn dst dn |} = N.eqb mid i.
  Proof. reflexivity. Qed.

  Lemma qcount_mk_copies i clock mid m' src sn dst dn sid did ds : forall cnt,
    qcount i (mk_copies clock cnt (QMsg mid m' src sn dst dn) sid did ds) = if N.eqb mid i then length ds else 0%nat.
  Proof.
    unfold qcount. induction ds as [|dl r IH]; intros cnt.
    - cbn. destruct (N.eqb mid i); reflexivity.
    - cbn [mk_copies filter]. rewrite is_qmsg_id_mk. destruct (N.eqb mid i) eqn:E; cbn [length]; rewrite IH, ?E; reflexivity.
  Qed.

  Lemma WInv_send q n l m src dst n' q' logs :
    WInv q n l -> net_send n q m src dst = Ok (n', q', logs) -> WInv q' n' (l ++ logs).
  Proof.
    intros W H. apply net_send_inv in H.
    destruct H as [sn [dn [sid [did [cross [size [Hsrc [Hdst [Hdid [Hn' H]]]]]]]]]]. cbn zeta in H.
    remember (sn_msg_count n) as mid eqn:Hmid.
    assert (Hmc : sn_msg_count n' = mid + 1) by (subst n' mid; reflexivity).
    assert (Hids : sn_node_ids n' = sn_node_ids n) by (subst n'; reflexivity).
    assert (Hold : forall i, In i (sent_ids l) -> N.eqb mid i = false).
    { intros i Hi. apply (wi_sent_lt _ _ _ W) in Hi. apply N.eqb_neq. lia. }
    assert (Hnomid : sdrop mid l = false).
    { destruct (sdrop mid l) eqn:E; auto. apply sdrop_sent in E. apply Hold in E.
      rewrite N.eqb_refl in E. discriminate. }
    assert (Holdq : forall e i m' src0 sn0 dst0 dn0, In e (q_events q) -> q_data e = QMsg i m' src0 sn0 dst0 dn0 ->
              N.eqb mid i = false).
    { intros e i m0 src0 sn0 dst0 dn0 He Hq.
      destruct (wi_queue _ _ _ W e i m0 src0 sn0 dst0 dn0 He Hq) as [[t [mm [Hin _]]] _].
      apply Hold. eapply sent_in_ids. exact Hin. }
    assert (Holdr : forall e i, In e l -> is_recv_id i e = true -> N.eqb mid i = false).
    { intros e i He Hi. pose proof (recv_id_lt _ _ _ e i W He Hi). apply N.eqb_neq. lia. }
    destruct H as [[Hlogs [Hev Hne]] | [m' [ds [clock [cnt [Hlogs [Hev [Hm' [Hlen Hsame]]]]]]]]]; subst logs.
    - (* dropped *)
      set (sent := LMessageSent (q_clock q) mid sn src dn dst m).
      set (c := [sent; LMessageDropped (q_clock q) mid sn src dn dst m]).
      assert (Hd : forall i, N.eqb mid i = false -> sdrop i (l ++ c) = sdrop i l).
      { intros i Hi. rewrite sdrop_app by reflexivity. unfold c, sent. cbn [sdrop is_sent_id is_dropped_id].
        rewrite Hi. cbn. apply orb_false_r. }
      assert (Hr : forall e, In e c -> is_recv e = false).
      { intros e [<-|[<-|[]]]; reflexivity. }
      split.
      + rewrite sent_ids_app. change (sent_ids c) with [mid]. intros j Hj. apply in_app_or in Hj.
        rewrite Hmc. destruct Hj as [Hj|[<-|[]]]; [|lia]. apply (wi_sent_lt _ _ _ W) in Hj. lia.
      + rewrite sent_ids_app. change (sent_ids c) with [mid]. apply StronglySorted_snoc.
        * apply (wi_sent_incr _ _ _ W).
        * intros j Hj. apply (wi_sent_lt _ _ _ W) in Hj. lia.
      + intros e i m0 src0 sn0 dst0 dn0 He Hq. rewrite Hev in He.
        pose proof (Holdq _ _ _ _ _ _ _ He Hq) as Hi.
        destruct (wi_queue _ _ _ W e i m0 src0 sn0 dst0 dn0 He Hq) as [[t [mm [Hin Hmm]]] [H3 H4]].
        split; [exists t, mm; split; auto; apply in_or_app; left; exact Hin|].
        split; [rewrite Hd; auto | rewrite Hids; exact H4].
      + apply recv_just_app_norecv; auto. apply (wi_recv _ _ _ W).
      + intros e i He Hi. apply in_app_or in He. destruct He as [He|He].
        * rewrite Hd by (eapply Holdr; eauto). apply (wi_recv_nodrop _ _ _ W e i He Hi).
        * apply is_recv_id_recv in Hi. rewrite (Hr e He) in Hi. discriminate.
      + intros i. rewrite Hev, rcount_app, (rcount_none i c Hr). pose proof (wi_count3 _ _ _ W i). lia.
      + intros i Hi. rewrite Hev, rcount_app, (rcount_none i c Hr).
        assert (Hi' : sn_msg_count n <= i) by lia. pose proof (wi_count0 _ _ _ W i Hi'). lia.
      + intros t i sn0 src0 dst0 m0 Hin. rewrite Hev, rcount_app, (rcount_none i c Hr).
        apply in_app_or in Hin. destruct Hin as [Hin|[Hin|[Hin|[]]]].
        * pose proof (wi_count1 _ _ _ W t i sn0 src0 dst0 m0 Hin). lia.
        * inversion Hin; subst. contradiction.
        * discriminate.
    - (* copies *)
      set (sent := LMessageSent (q_clock q) mid sn src dn dst m).
      assert (Hd : forall i, sdrop i (l ++ [sent]) = sdrop i l).
      { intros i. rewrite sdrop_app by reflexivity. cbn [sdrop]. rewrite andb_false_r. cbn. apply orb_false_r. }
      assert (Hr : forall e, In e [sent] -> is_recv e = false).
      { intros e [<-|[]]; reflexivity. }
      split.
      + rewrite sent_ids_app. change (sent_ids [sent]) with [mid]. intros j Hj. apply in_app_or in Hj.
        rewrite Hmc. destruct Hj as [Hj|[<-|[]]]; [|lia]. apply (wi_sent_lt _ _ _ W) in Hj. lia.
      + rewrite sent_ids_app. change (sent_ids [sent]) with [mid]. apply StronglySorted_snoc.
        * apply (wi_sent_incr _ _ _ W).
        * intros j Hj. apply (wi_sent_lt _ _ _ W) in Hj. lia.
      + intros e i m0 src0 sn0 dst0 dn0 He Hq. rewrite Hev in He. apply in_app_or in He. destruct He as [He|He].
        * destruct (wi_queue _ _ _ W e i m0 src0 sn0 dst0 dn0 He Hq) as [[t [mm [Hin Hmm]]] [H3 H4]].
          split; [exists t, mm; split; auto; apply in_or_app; left; exact Hin|].
          split; [rewrite Hd; auto | rewrite Hids; exact H4].
        * apply mk_copies_in in He. destruct He as [Hdat [_ [Hdst' _]]].
          rewrite Hdat in Hq. inversion Hq; subst i m0 src0 sn0 dst0 dn0.
          split; [exists (q_clock q), m; split; auto; apply in_or_app; right; left; reflexivity|].
          split; [rewrite Hd; exact Hnomid | rewrite Hids, Hdst'; exact Hdid].
      + apply recv_just_app_norecv; auto. apply (wi_recv _ _ _ W).
      + intros e i He Hi. rewrite Hd. apply in_app_or in He. destruct He as [He|He].
        * apply (wi_recv_nodrop _ _ _ W e i He Hi).
        * apply is_recv_id_recv in Hi. rewrite (Hr e He) in Hi. discriminate.
      + intros i. rewrite Hev, qcount_app, qcount_mk_copies, rcount_app, (rcount_none i _ Hr).
        destruct (N.eqb mid i) eqn:E.
        * apply N.eqb_eq in E. subst i. assert (Hi' : sn_msg_count n <= mid) by lia.
          pose proof (wi_count0 _ _ _ W mid Hi'). lia.
        * pose proof (wi_count3 _ _ _ W i). lia.
      + intros i Hi. rewrite Hev, qcount_app, qcount_mk_copies, rcount_app, (rcount_none i _ Hr).
        assert (E : N.eqb mid i = false) by (apply N.eqb_neq; lia). rewrite E.
        assert (Hi' : sn_msg_count n <= i) by lia. pose proof (wi_count0 _ _ _ W i Hi'). lia.
      + intros t i sn0 src0 dst0 m0 Hin. rewrite Hev, qcount_app, qcount_mk_copies, rcount_app, (rcount_none i _ Hr).
        apply in_app_or in Hin. destruct Hin as [Hin|[Hin|[]]].
        * rewrite (Hold i) by (eapply sent_in_ids; exact Hin).
          pose proof (wi_count1 _ _ _ W t i sn0 src0 dst0 m0 Hin). lia.
        * inversion Hin; subst i sn0 src0 dn dst0 m0. rewrite N.eqb_refl, (Hsame eq_refl).
          assert (Hi' : sn_msg_count n <= mid) by lia. pose proof (wi_count0 _ _ _ W mid Hi'). lia.
  Qed.

  (* ---- receiving: the event leaves the queue, its LMessageReceived entry joins the trace ---- *)
  Lemma WInv_recv q q' n l e i m' src sn dst dn t :
    WInv q n l -> In e (q_events q) -> q_data e = QMsg i m' src sn dst dn ->
    (forall x, In x (q_events q') -> In x (q_events q)) ->
    (forall j, (qcount j (q_events q') <= qcount j (q_events q))%nat) ->
    (qcount i (q_events q') + 1 <= qcount i (q_events q))%nat ->
    WInv q' n (l ++ [LMessageReceived t i sn src dn dst m']).
  Proof.
    intros W He Hq Hin Hc Hci.
    set (rcv := LMessageReceived t i sn src dn dst m').
    destruct (wi_queue _ _ _ W e i m' src sn dst dn He Hq) as [[t0 [m0 [Hsent Hm0]]] [Hnd _]].
    assert (Hd : forall j, sdrop j (l ++ [rcv]) = sdrop j l).
    { intros j. rewrite sdrop_app by reflexivity. cbn. apply orb_false_r. }
    assert (Hrc : forall j, rcount j [rcv] = if N.eqb i j then 1%nat else 0%nat).
    { intros j. unfold rcount. cbn. destruct (N.eqb i j); reflexivity. }
    split.
    - rewrite sent_ids_app. change (sent_ids [rcv]) with (@nil N). rewrite app_nil_r. apply (wi_sent_lt _ _ _ W).
    - rewrite sent_ids_app. change (sent_ids [rcv]) with (@nil N). rewrite app_nil_r. apply (wi_sent_incr _ _ _ W).
    - intros x j mx srcx snx dstx dnx Hx Hqx. apply Hin in Hx.
      destruct (wi_queue _ _ _ W x j mx srcx snx dstx dnx Hx Hqx) as [[tx [mm [H1 H2]]] [H3 H4]].
      split; [exists tx, mm; split; auto; apply in_or_app; left; exact H1|]. rewrite Hd. auto.
    - apply each_after_app; [apply (wi_recv _ _ _ W)|].
      intros c1 x c2 Hx. destruct c1 as [|y c1]; cbn in Hx.
      + inversion Hx; subst x c2. cbn. exists t0, m0. rewrite app_nil_r. auto.
      + inversion Hx as [[Hy Hx']]. destruct c1; discriminate.
    - intros x j Hx Hj. rewrite Hd. apply in_app_or in Hx. destruct Hx as [Hx|[<-|[]]].
      + apply (wi_recv_nodrop _ _ _ W x j Hx Hj).
      + cbn in Hj. apply N.eqb_eq in Hj. subst j. exact Hnd.
    - intros j. rewrite rcount_app, Hrc. pose proof (wi_count3 _ _ _ W j). specialize (Hc j).
      destruct (N.eqb_spec i j); [subst j|]; lia.
    - intros j Hj. rewrite rcount_app, Hrc. pose proof (wi_count0 _ _ _ W j Hj). specialize (Hc j).
      destruct (N.eqb_spec i j); [subst j|]; lia.
    - intros tx j snx srcx dstx mx Hx. rewrite rcount_app, Hrc.
      apply in_app_or in Hx. destruct Hx as [Hx|[Hx|[]]]; [|discriminate].
      pose proof (wi_count1 _ _ _ W tx j snx srcx dstx mx Hx). specialize (Hc j).
      destruct (N.eqb_spec i j); [subst j|]; lia.
  Qed.

  (* ---- the simcore queue ---- *)
  Lemma filter_filter_le {A} (f g : A -> bool) l : (length (filter f (filter g l)) <= length (filter f l))%nat.
  Proof.
    induction l as [|x r IH]; cbn; auto.
    destruct (g x); cbn; destruct (f x); cbn; lia.
  Qed.

  Lemma filter_remove_lt {A} (f g : A -> bool) l e :
    In e l -> f e = true -> g e = false -> (length (filter f (filter g l)) + 1 <= length (filter f l))%nat.
  Proof.
    induction l as [|x r IH]; intros Hin Hf Hg; [contradiction|].
    destruct Hin as [->|Hin].
    - cbn. rewrite Hg, Hf. cbn. pose proof (filter_filter_le f g r). lia.
    - specialize (IH Hin Hf Hg). cbn. destruct (g x); cbn; destruct (f x); cbn; lia.
  Qed.

  Lemma q_min_in (l : list qevent) e : q_min ops l = Some e -> In e l.
  Proof.
    revert e. induction l as [|x r IH]; intros e H; cbn in H; [discriminate|].
    destruct (q_min ops r) as [m|].
    - destruct (ev_before ops x m); inversion H; subst; [left; reflexivity | right; apply IH; reflexivity].
    - inversion H. left. reflexivity.
  Qed.

  (* sub-multiset relation used for the queue: nothing appears, nothing is counted more often *)
  Definition qsub (evs' evs : list qevent) : Prop :=
    (forall x, In x evs' -> In x evs) /\ (forall f, (length (filter f evs') <= length (filter f evs))%nat).

  Lemma qsub_refl evs : qsub evs evs.
  Proof. split; auto. Qed.

  Lemma qsub_trans a b c : qsub a b -> qsub b c -> qsub a c.
  Proof. intros [H1 H2] [H3 H4]. split; auto. intros f. specialize (H2 f). specialize (H4 f). lia. Qed.

  Lemma qsub_remove i evs : qsub (q_remove i evs) evs.
  Proof.
    unfold q_remove. split.
    - intros x Hx. apply filter_In in Hx. tauto.
    - intros f. apply filter_filter_le.
  Qed.

  Lemma q_next_fuel_spec fuel : forall q q' oe,
    q_next_fuel ops fuel q = (q', oe) ->
    qsub (q_events q') (q_events q) /\
    match oe with
    | Some e => In e (q_events q) /\
                forall f, f e = true -> (length (filter f (q_events q')) + 1 <= length (filter f (q_events q)))%nat
    | None => True
    end.
  Proof.
    induction fuel as [|fuel IH]; intros q q' oe H; cbn [q_next_fuel] in H.
    - inversion H; subst. split; [apply qsub_refl | exact I].
    - destruct (q_min ops (q_events q)) as [e|] eqn:Em.
      2:{ inversion H; subst. split; [apply qsub_refl | exact I]. }
      apply q_min_in in Em.
      destruct (nmem (q_id e) (q_canceled q)).
      + apply IH in H. cbn [q_with q_events] in H. destruct H as [Hs Ho]. split.
        * eapply qsub_trans; [exact Hs | apply qsub_remove].
        * destruct oe as [e'|]; [|exact I]. destruct Ho as [Ho1 Ho2].
          pose proof (qsub_remove (q_id e) (q_events q)) as [R1 R2]. split; auto.
          intros f Hf. specialize (Ho2 f Hf). specialize (R2 f). lia.
      + inversion H; subst. cbn [q_with q_events]. split; [apply qsub_remove|]. split; auto.
        intros f Hf. unfold q_remove. apply filter_remove_lt with (e := e); auto. rewrite N.eqb_refl. reflexivity.
  Qed.

  Lemma q_peek_fuel_spec fuel : forall q q' oe,
    q_peek_fuel ops fuel q = (q', oe) -> qsub (q_events q') (q_events q).
  Proof.
    induction fuel as [|fuel IH]; intros q q' oe H; cbn [q_peek_fuel] in H.
    - inversion H; subst. apply qsub_refl.
    - destruct (q_min ops (q_events q)) as [e|] eqn:Em.
      2:{ inversion H; subst. apply qsub_refl. }
      destruct (nmem (q_id e) (q_canceled q)).
      + apply IH in H. cbn [q_with q_events] in H. eapply qsub_trans; [exact H | apply qsub_remove].
      + inversion H; subst. apply qsub_refl.
  Qed.

  Lemma WInv_qsub q q' n l : WInv q n l -> qsub (q_events q') (q_events q) -> WInv q' n l.
  Proof.
    intros W [H1 H2]. apply (WInv_queue q q' n l W).
    - intros e He. left. auto.
    - intros i. apply H2.
  Qed.

  Lemma WInv_add_timer q n l proc name src dst delay q2 i :
    WInv q n l -> q_add ops q (QTimer proc name) src dst delay = Ok (q2, i) -> WInv q2 n l.
  Proof.
    intros W H. unfold q_add in H. destruct (tneg_eps_le ops delay); [|discriminate]. inversion H; subst. clear H.
    apply (WInv_queue q _ n l W); cbn [q_with q_events].
    - intros e He. apply in_app_or in He. destruct He as [He|[<-|[]]]; auto.
    - intros j. rewrite qcount_app. cbn. lia.
  Qed.

  (* ---- node: actions of a handler ---- *)
  Ltac neutral1 := split; [intros ? [<-|[]]; split; reflexivity | reflexivity].

  Lemma net_send_ids n q m src dst n' q' logs :
    net_send n q m src dst = Ok (n', q', logs) -> sn_node_ids n' = sn_node_ids n.
  Proof.
    intros H. apply net_send_inv in H.
    destruct H as [sn [dn [sid [did [cross [size [_ [_ [_ [Hn' _]]]]]]]]]]. subst n'. reflexivity.
  Qed.

  Lemma node_action_winv nname nid proc time (p : pentry T PS) lc w a p' lc' w' :
    node_action ops draws nname nid proc time p lc w a = Ok (p', lc', w') ->
    WInv (w_q w) (w_net w) (w_log w) ->
    WInv (w_q w') (w_net w') (w_log w') /\ sn_node_ids (w_net w') = sn_node_ids (w_net w).
  Proof.
    intros H W. destruct a as [m dst|m|name delay once|name]; cbn [node_action] in H.
    - binv. cbn [w_q w_net w_log]. split.
      + eapply WInv_send; eauto.
      + eapply net_send_ids; eauto.
    - inversion H; subst. cbn [w_q w_net w_log]. split; [|reflexivity]. apply WInv_log; auto. neutral1.
    - destruct (sget N.compare name (pe_ptimers p)) as [old|].
      + destruct once.
        * inversion H; subst. auto.
        * binv. cbn [w_q w_net w_log]. split; [|reflexivity]. apply WInv_log; [|neutral1].
          eapply WInv_add_timer; [|exact E]. eapply WInv_same_events; [exact W|]. reflexivity.
      + binv. cbn [w_q w_net w_log]. split; [|reflexivity]. apply WInv_log; [|neutral1].
        eapply WInv_add_timer; [|exact E]. exact W.
    - destruct (sget N.compare name (pe_ptimers p)) as [i|].
      + inversion H; subst. cbn [w_q w_net w_log]. split; [|reflexivity]. apply WInv_log; [|neutral1].
        eapply WInv_same_events; [exact W|]. reflexivity.
      + inversion H; subst. auto.
  Qed.

  Lemma node_actions_winv nname nid proc time acts : forall (p : pentry T PS) lc w p' lc' w',
    node_actions ops draws nname nid proc time p lc w acts = Ok (p', lc', w') ->
    WInv (w_q w) (w_net w) (w_log w) ->
    WInv (w_q w') (w_net w') (w_log w') /\ sn_node_ids (w_net w') = sn_node_ids (w_net w).
  Proof.
    induction acts as [|a r IH]; intros p lc w p' lc' w' H W; cbn [node_actions] in H.
    - inversion H; subst. auto.
    - binv. destruct (node_action_winv _ _ _ _ _ _ _ _ _ _ _ E W) as [W1 I1].
      destruct (IH _ _ _ _ _ _ H W1) as [W2 I2]. split; auto. congruence.
  Qed.

  (* the entry node_handle logs before it runs the handler *)
  Definition handle_pre_log (nname : N) (nd : @simnode T PS) (proc : N) (k : hkind) (time : T) : list logentry :=
    match k with
    | HMsg mid m from fnode => [LMessageReceived time mid fnode from nname proc m]
    | HLocal m => [LLocalMessageReceived time nname proc (sd_lcount nd) m]
    | HTimer _ => []
    end.

  Lemma node_handle_winv nname nd proc k w nd' w' :
    node_handle ops handler draws nname nd proc k w = Ok (nd', w') ->
    WInv (w_q w) (w_net w) (w_log w ++ handle_pre_log nname nd proc k (q_clock (w_q w))) ->
    WInv (w_q w') (w_net w') (w_log w') /\ sd_id nd' = sd_id nd /\ sn_node_ids (w_net w') = sn_node_ids (w_net w).
  Proof.
    intros H W. unfold node_handle in H.
    destruct (sget N.compare proc (sd_procs nd)) as [p|]; [|discriminate].
    match type of H with (let '(p1, tlog) := ?x in _) = _ => destruct x as [p1 tlog] eqn:Ek end.
    match type of H with (let '(_, _) := ?x in _) = _ => destruct x as [[st' acts] used] end.
    binv. cbn [sd_id].
    assert (Ht : neutral tlog).
    { destruct k as [mid m from fnode|name|m].
      - inversion Ek; subst. split; [intros ? []|exact I].
      - destruct (sget N.compare name (pe_ptimers p)); inversion Ek; subst; [neutral1|split; [intros ? []|exact I]].
      - inversion Ek; subst. split; [intros ? []|exact I]. }
    apply node_actions_winv in E.
    - cbn [w_q w_net w_log] in E. destruct E as [E1 E2]. auto.
    - cbn [w_q w_net w_log].
      apply (WInv_same_events (w_q w)); [|reflexivity].
      replace (match k with
               | HMsg mid m from fnode => [LMessageReceived (q_clock (w_q w)) mid fnode from nname proc m]
               | HTimer _ => []
               | HLocal m => [LLocalMessageReceived (q_clock (w_q w)) nname proc (sd_lcount nd) m]
               end) with (handle_pre_log nname nd proc k (q_clock (w_q w))) by (destruct k; reflexivity).
      rewrite app_assoc. apply WInv_log; auto.
  Qed.

  (* ---- the system invariant ---- *)
  Record Inv (s : simsys) : Prop := {
    inv_w : WInv (y_q s) (y_net s) (y_log s);
    (* node names, nodes and component ids agree; component ids are never reused *)
    inv_ids : forall nname nd, In (nname, nd) (y_nodes s) ->
        sget N.compare nname (sn_node_ids (y_net s)) = Some (sd_id nd);
    inv_has : forall a c, sget N.compare a (sn_node_ids (y_net s)) = Some c -> shas N.compare a (y_nodes s) = true;
    inv_inj : forall a b c, sget N.compare a (sn_node_ids (y_net s)) = Some c ->
        sget N.compare b (sn_node_ids (y_net s)) = Some c -> a = b;
    inv_bound : forall a c, sget N.compare a (sn_node_ids (y_net s)) = Some c -> c < y_ncomp s }.

  Lemma Inv_init : Inv (sys0 ops).
  Proof.
    split.
    - apply WInv_init.
    - intros nname nd [].
    - intros a c H. discriminate.
    - intros a b c H. discriminate.
    - intros a c H. discriminate.
  Qed.

  Lemma shas_sins_mono {V} a k (v : V) l : shas N.compare a l = true -> shas N.compare a (sins N.compare k v l) = true.
  Proof.
    unfold shas. rewrite (sget_sins _ CmpSpec_N). destruct (is_eq (N.compare a k)); auto.
  Qed.

  Lemma Inv_frame s q' n' l' :
    Inv s -> WInv q' n' l' -> sn_node_ids n' = sn_node_ids (y_net s) -> Inv (y_with s q' n' (y_nodes s) l').
  Proof.
    intros I W Hi. split; cbn [y_with y_q y_net y_nodes y_log y_ncomp]; try rewrite Hi.
    - exact W.
    - apply (inv_ids _ I).
    - apply (inv_has _ I).
    - apply (inv_inj _ I).
    - apply (inv_bound _ I).
  Qed.

  Lemma Inv_update s q' n' l' nname nd nd' :
    Inv s -> In (nname, nd) (y_nodes s) -> sd_id nd' = sd_id nd -> WInv q' n' l' ->
    sn_node_ids n' = sn_node_ids (y_net s) ->
    Inv (y_with s q' n' (sins N.compare nname nd' (y_nodes s)) l').
  Proof.
    intros I Hin Hid W Hi. split; cbn [y_with y_q y_net y_nodes y_log y_ncomp]; try rewrite Hi.
    - exact W.
    - intros x y Hx. apply in_sins in Hx. destruct Hx as [Hx|Hx].
      + inversion Hx; subst. rewrite Hid. apply (inv_ids _ I). exact Hin.
      + apply (inv_ids _ I). exact Hx.
    - intros a c H. apply shas_sins_mono. apply (inv_has _ I a c H).
    - apply (inv_inj _ I).
    - apply (inv_bound _ I).
  Qed.

  Lemma Inv_handlers s h : Inv s ->
    Inv {| y_q := y_q s; y_net := y_net s; y_nodes := y_nodes s; y_proc_nodes := y_proc_nodes s;
           y_handlers := h; y_ncomp := y_ncomp s; y_log := y_log s |}.
  Proof. intros [A B C D E]. split; cbn; auto. Qed.

  (* ---- one simulation step ---- *)
  Lemma step_inv s s' b : Inv s -> step ops handler draws s = Ok (s', b) -> Inv s'.
  Proof.
    intros I H. unfold step in H.
    destruct (q_next ops (y_q s)) as [q' oe] eqn:Eq.
    unfold q_next in Eq. apply q_next_fuel_spec in Eq. destruct Eq as [Hsub Hoe].
    pose proof (inv_w _ I) as W.
    assert (W1 : WInv q' (y_net s) (y_log s)) by (eapply WInv_qsub; eauto).
    assert (I1 : Inv (y_with s q' (y_net s) (y_nodes s) (y_log s))) by (apply Inv_frame; auto).
    destruct oe as [e|]; [|inversion H; subst; exact I1].
    binv. rename E into Hd. unfold deliver in Hd. cbn [y_with y_q y_net y_nodes y_log y_handlers] in Hd.
    destruct (sget N.compare (q_dst e) (y_handlers s)) as [[|]|]; try (inversion Hd; subst; exact I1).
    destruct (find (fun p => N.eqb (sd_id (snd p)) (q_dst e)) (y_nodes s)) as [[nname nd]|] eqn:Ef; [|discriminate].
    apply find_some in Ef. destruct Ef as [Hnd Hid]. cbn [snd] in Hid. apply N.eqb_eq in Hid.
    binv. destruct Hoe as [He Hlt]. destruct Hsub as [Hs1 Hs2].
    destruct (q_data e) as [mid m src src_node dst dst_node|tproc timer] eqn:Ed.
    - (* a message is delivered *)
      destruct (wi_queue _ _ _ W e mid m src src_node dst dst_node He Ed) as [_ [_ Hdn]].
      assert (Hname : nname = dst_node).
      { eapply (inv_inj _ I); [|exact Hdn]. rewrite <- Hid. apply (inv_ids _ I). exact Hnd. }
      subst nname.
      apply node_handle_winv in E. cbn [w_q w_net w_log handle_pre_log] in E.
      + destruct E as [E1 [E2 E3]].
        apply (Inv_update s _ _ _ dst_node nd); auto.
      + cbn [w_q w_net w_log handle_pre_log].
        apply (WInv_recv (y_q s) q' (y_net s) (y_log s) e mid m src src_node dst dst_node); auto.
        * intros j. apply Hs2.
        * apply Hlt. unfold is_qmsg_id. rewrite Ed. apply N.eqb_refl.
    - (* a timer fires *)
      apply node_handle_winv in E. cbn [w_q w_net w_log handle_pre_log] in E.
      + destruct E as [E1 [E2 E3]].
        apply (Inv_update s _ _ _ nname nd); auto.
      + cbn [w_q w_net w_log handle_pre_log]. rewrite app_nil_r. exact W1.
  Qed.

  Lemma steps_fuel_inv fuel : forall s n s' b,
    Inv s -> steps_fuel ops handler draws fuel s n = Ok (s', b) -> Inv s'.
  Proof.
    induction fuel as [|fuel IH]; intros s n s' b I H; cbn [steps_fuel] in H; [discriminate|].
    destruct (N.eqb n 0); [inversion H; subst; exact I|].
    binv. pose proof (step_inv _ _ _ I E) as I1.
    destruct b0; [eapply IH; eauto | inversion H; subst; exact I1].
  Qed.

  Lemma until_no_events_inv fuel : forall s s',
    Inv s -> until_no_events ops handler draws fuel s = Ok s' -> Inv s'.
  Proof.
    induction fuel as [|fuel IH]; intros s s' I H; cbn [until_no_events] in H; [discriminate|].
    binv. pose proof (step_inv _ _ _ I E) as I1.
    destruct b; [eapply IH; eauto | inversion H; subst; exact I1].
  Qed.

  Lemma set_clock_inv (s : simsys) t : Inv s -> Inv (set_clock s t).
  Proof.
    intros I. unfold set_clock. apply Inv_frame; auto.
    eapply WInv_same_events; [apply (inv_w _ I)|]. reflexivity.
  Qed.

  Lemma until_time_inv fuel : forall s t s' b,
    Inv s -> until_time ops handler draws fuel s t = Ok (s', b) -> Inv s'.
  Proof.
    induction fuel as [|fuel IH]; intros s t s' b I H; cbn [until_time] in H; [discriminate|].
    destruct (q_peek ops (y_q s)) as [q' oe] eqn:Eq.
    unfold q_peek in Eq. apply q_peek_fuel_spec in Eq.
    assert (I1 : Inv (y_with s q' (y_net s) (y_nodes s) (y_log s))).
    { apply Inv_frame; auto. eapply WInv_qsub; [apply (inv_w _ I)|exact Eq]. }
    destruct oe as [e|].
    - destruct (tltb ops t (q_time e)).
      + inversion H; subst. apply set_clock_inv. exact I1.
      + binv. eapply IH; [|exact H]. eapply step_inv; eauto.
    - inversion H; subst. apply set_clock_inv. exact I1.
  Qed.

  Lemma read_local_inv (s : simsys) proc s' r : Inv s -> read_local s proc = Ok (s', r) -> Inv s'.
  Proof.
    intros I H. unfold read_local, node_of_proc in H.
    destruct (sget N.compare proc (y_proc_nodes s)) as [nname|]; [|discriminate].
    destruct (sget N.compare nname (y_nodes s)) as [nd|] eqn:En; [|discriminate].
    cbn [bind] in H. apply (sget_some_in _ CmpSpec_N) in En.
    destruct (sget N.compare proc (sd_procs nd)) as [p|]; [|discriminate].
    destruct (pe_outbox p); inversion H; subst; auto.
    apply (Inv_update s _ _ _ nname nd); auto. apply (inv_w _ I).
  Qed.

  Lemma until_local_inv fuel : forall s proc s' r,
    Inv s -> until_local ops handler draws fuel s proc = Ok (s', r) -> Inv s'.
  Proof.
    induction fuel as [|fuel IH]; intros s proc s' r I H; cbn [until_local] in H; [discriminate|].
    binv. pose proof (read_local_inv _ _ _ _ I E) as I1.
    destruct o as [l|]; [inversion H; subst; exact I1|].
    binv. pose proof (step_inv _ _ _ I1 E0) as I2.
    destruct b; [eapply IH; eauto | inversion H; subst; exact I2].
  Qed.

  Lemma until_local_max_inv fuel : forall s proc k mx s' r,
    Inv s -> until_local_max ops handler draws fuel s proc k mx = Ok (s', r) -> Inv s'.
  Proof.
    induction fuel as [|fuel IH]; intros s proc k mx s' r I H; cbn [until_local_max] in H; [discriminate|].
    destruct (N.ltb k mx); [|inversion H; subst; exact I].
    binv. pose proof (step_inv _ _ _ I E) as I1.
    destruct b; [|inversion H; subst; exact I1].
    binv. pose proof (read_local_inv _ _ _ _ I1 E0) as I2.
    destruct o as [l|]; [inversion H; subst; exact I2|]. eapply IH; eauto.
  Qed.

  Lemma until_local_timeout_inv fuel : forall s proc t s' r,
    Inv s -> until_local_timeout ops handler draws fuel s proc t = Ok (s', r) -> Inv s'.
  Proof.
    induction fuel as [|fuel IH]; intros s proc t s' r I H; cbn [until_local_timeout] in H; [discriminate|].
    destruct (tltb ops (now s) t); [|inversion H; subst; exact I].
    binv. pose proof (read_local_inv _ _ _ _ I E) as I1.
    destruct o as [l|]; [inversion H; subst; exact I1|].
    binv. pose proof (step_inv _ _ _ I1 E0) as I2.
    destruct b; [eapply IH; eauto | inversion H; subst; exact I2].
  Qed.

  (* the invariant only reads the queue, the network, the nodes, the component counter and the trace *)
  Lemma Inv_eq (s s' : simsys) :
    Inv s -> y_q s' = y_q s -> y_net s' = y_net s -> y_nodes s' = y_nodes s -> y_ncomp s' = y_ncomp s ->
    y_log s' = y_log s -> Inv s'.
  Proof. intros [A B C D E] H1 H2 H3 H4 H5. split; rewrite ?H1, ?H2, ?H3, ?H4, ?H5; auto. Qed.

  Lemma snet_apply_neutral (n : simnet) t o : neutral (snd (snet_apply n t o)).
  Proof. destruct o; cbn [snet_apply snd]; first [neutral1 | split; [intros ? []|exact I]]. Qed.

  Lemma crash_drops_neutral t node (l : list qevent) :
    neutral ([LNodeCrashed t node] ++
             flat_map (fun e => match q_data e with
                                | QMsg mid m src sn dst dn => [LMessageDropped t mid sn src dn dst m]
                                | QTimer _ _ => []
                                end) l).
  Proof.
    split; [|reflexivity]. intros e [<-|He]; [split; reflexivity|].
    apply in_flat_map in He. destruct He as [x [_ Hx]].
    destruct (q_data x); [|contradiction]. destruct Hx as [<-|[]]. split; reflexivity.
  Qed.

  (* ---- every API call preserves the invariant ---- *)
  Theorem sim_op_inv fuel s o s' ret : Inv s -> sim_op fuel s o = Ok (s', ret) -> Inv s'.
  Proof.
    intros I H. pose proof (inv_w _ I) as W.
    destruct o as [name|proc node|node skew|o'|proc m|proc|node|node| |k| |d|proc|proc mx|proc timeout];
      cbn [Sim.sim_op] in H.
    - (* add_node *)
      destruct (shas N.compare name (y_nodes s)) eqn:Eh; [discriminate|]. inversion H; subst. clear H.
      assert (Hfresh : forall a c, sget N.compare a (sn_node_ids (y_net s)) = Some c -> name <> a).
      { intros a c Ha ->. apply (inv_has _ I) in Ha. congruence. }
      split; cbn [y_q y_net y_nodes y_log y_ncomp sn_node_ids].
      + apply WInv_log; [|neutral1]. apply (WInv_net _ (y_net s)); auto.
        cbn [sn_node_ids]. intros a c Ha. rewrite (sget_sins_neq _ CmpSpec_N); eauto.
      + intros x y Hx. apply in_sins in Hx. destruct Hx as [Hx|Hx].
        * inversion Hx; subst. cbn [sd_id]. apply (sget_sins_eq _ CmpSpec_N).
        * pose proof (inv_ids _ I x y Hx) as Hi. rewrite (sget_sins_neq _ CmpSpec_N); eauto.
      + intros a c Ha. rewrite (sget_sins _ CmpSpec_N) in Ha. unfold shas. rewrite (sget_sins _ CmpSpec_N).
        destruct (is_eq (N.compare a name)); auto. apply (inv_has _ I a c Ha).
      + intros a b c Ha Hb. rewrite (sget_sins _ CmpSpec_N) in Ha, Hb.
        destruct (is_eq (N.compare a name)) eqn:Ea; destruct (is_eq (N.compare b name)) eqn:Eb.
        * apply (is_eq_true _ CmpSpec_N) in Ea, Eb. congruence.
        * inversion Ha; subst. apply (inv_bound _ I) in Hb. lia.
        * inversion Hb; subst. apply (inv_bound _ I) in Ha. lia.
        * eapply (inv_inj _ I); eauto.
      + intros a c Ha. rewrite (sget_sins _ CmpSpec_N) in Ha. destruct (is_eq (N.compare a name)).
        * inversion Ha; subst. lia.
        * apply (inv_bound _ I) in Ha. lia.
    - (* add_process *)
      destruct (sget N.compare node (y_nodes s)) as [nd|] eqn:En; [|discriminate].
      destruct (shas N.compare proc (y_proc_nodes s)); [discriminate|]. inversion H; subst. clear H.
      apply (sget_some_in _ CmpSpec_N) in En.
      match goal with |- Inv ?s1 =>
        apply (Inv_eq (y_with s (y_q s1) (y_net s1) (y_nodes s1) (y_log s1)) s1); try reflexivity end.
      cbn [y_q y_net y_nodes y_log].
      apply (Inv_update s _ _ _ node nd); auto.
      apply WInv_log; [|neutral1]. apply (WInv_net _ (y_net s)); auto.
    - (* set_clock_skew *)
      destruct (sget N.compare node (y_nodes s)) as [nd|] eqn:En; [|discriminate]. inversion H; subst. clear H.
      apply (sget_some_in _ CmpSpec_N) in En. apply (Inv_update s _ _ _ node nd); auto.
    - (* network controls *)
      destruct (snet_apply (y_net s) (now s) o') as [n' logs] eqn:Ea. inversion H; subst. clear H.
      pose proof (snet_apply_frame (y_net s) (now s) o') as F. cbn zeta in F. rewrite Ea in F. cbn [fst snd] in F.
      destruct F as [_ [_ [_ [F1 [_ [_ [F2 _]]]]]]].
      pose proof (snet_apply_neutral (y_net s) (now s) o') as Hn. rewrite Ea in Hn. cbn [snd] in Hn.
      apply Inv_frame; auto. apply WInv_log; auto. apply (WInv_net _ (y_net s)); auto.
      intros a c. rewrite F1. auto.
    - (* send_local_message *)
      unfold node_of_proc in H.
      destruct (sget N.compare proc (y_proc_nodes s)) as [nname|]; [|discriminate].
      destruct (sget N.compare nname (y_nodes s)) as [nd|] eqn:En; [|discriminate].
      cbn [bind] in H. apply (sget_some_in _ CmpSpec_N) in En.
      destruct (sd_crashed nd); [discriminate|]. binv.
      apply node_handle_winv in E; cbn [w_q w_net w_log handle_pre_log] in *.
      + destruct E as [E1 [E2 E3]]. apply (Inv_update s _ _ _ nname nd); auto.
      + apply WInv_log; auto. neutral1.
    - (* read_local_messages *)
      binv. eapply read_local_inv; eauto.
    - (* crash_node *)
      destruct (sget N.compare node (y_nodes s)) as [nd|] eqn:En; [|discriminate]. inversion H; subst. clear H.
      apply (sget_some_in _ CmpSpec_N) in En.
      unfold set_handler.
      match goal with |- Inv ?s1 =>
        apply (Inv_eq (y_with s (y_q s1) (y_net s1) (y_nodes s1) (y_log s1)) s1); try reflexivity end.
      cbn [y_with y_q y_net y_nodes y_log].
      apply (Inv_update s _ _ _ node nd); auto.
      apply WInv_log; [|apply crash_drops_neutral].
      eapply WInv_same_events; [exact W|]. reflexivity.
    - (* recover_node *)
      destruct (sget N.compare node (y_nodes s)) as [nd|] eqn:En; [|discriminate].
      destruct (negb (sd_crashed nd)); [discriminate|].
      apply (sget_some_in _ CmpSpec_N) in En.
      assert (G : forall h, Inv {| y_q := y_q s; y_net := y_net s;
                  y_nodes := sins N.compare node {| sd_id := sd_id nd; sd_procs := []; sd_skew := sd_skew nd;
                                                    sd_crashed := false; sd_lcount := sd_lcount nd |} (y_nodes s);
                  y_proc_nodes := filter (fun pn => negb (N.eqb (snd pn) node)) (y_proc_nodes s);
                  y_handlers := h; y_ncomp := y_ncomp s; y_log := y_log s ++ [LNodeRecovered (now s) node] |}).
      { intros h.
        match goal with |- Inv ?s1 =>
          apply (Inv_eq (y_with s (y_q s1) (y_net s1) (y_nodes s1) (y_log s1)) s1); try reflexivity end.
        cbn [y_q y_net y_nodes y_log].
        apply (Inv_update s _ _ _ node nd); auto. apply WInv_log; auto. neutral1. }
      destruct (sget N.compare (sd_id nd) (y_handlers s)) as [[|]|]; try discriminate;
        inversion H; subst; apply G.
    - (* step *)
      binv. eapply step_inv; eauto.
    - binv. eapply steps_fuel_inv; eauto.
    - binv. eapply until_no_events_inv; eauto.
    - binv. eapply until_time_inv; eauto.
    - binv. eapply until_local_inv; eauto.
    - binv. pose proof (read_local_inv _ _ _ _ I E0) as I1.
      destruct o as [l|]; [inversion H; subst; exact I1|]. binv. eapply until_local_max_inv; eauto.
    - binv. eapply until_local_timeout_inv; eauto.
  Qed.

  Lemma run_ops_inv fuel l : forall s s' rets,
    Inv s -> run_ops ops handler init_state draws crash_order fuel s l = Ok (s', rets) -> Inv s'.
  Proof.
    induction l as [|o r IH]; intros s s' rets I H; cbn [run_ops] in H.
    - inversion H; subst. exact I.
    - binv. eapply IH; [|exact E0]. eapply sim_op_inv; eauto.
  Qed.

  Theorem Reachable_inv s : Reachable s -> Inv s.
  Proof. intros [fuel [l [rets H]]]. eapply run_ops_inv; [apply Inv_init | exact H]. Qed.

  (* ================================================================================================ *)
  (* N4: the theorems                                                                                  *)
  (* ================================================================================================ *)

  (* what "the send was not dropped" means at the moment of sending (links N4 to N1/N2): a cross-node send logs an
     LMessageDropped entry iff the path was cut or the drop draw fell below the drop rate *)
  Theorem net_send_dropped_iff n q m src dst sn dn sid did n' q' logs :
    sget N.compare src (sn_loc n) = Some sn -> sget N.compare dst (sn_loc n) = Some dn -> sn <> dn ->
    sget N.compare sn (sn_node_ids n) = Some sid -> sget N.compare dn (sn_node_ids n) = Some did ->
    net_send n q m src dst = Ok (n', q', logs) ->
    (sdrop (sn_msg_count n) logs = true <->
     (nmem sn (sn_drop_out n) = true \/ nmem dn (sn_drop_in n) = true \/ link_disabled n sn dn = true \/
      tltb ops (draws (q_rand q)) (sn_drop n) = true)) /\
    (sdrop (sn_msg_count n) logs = false -> exists m' ds, (m' = m \/ m' = corrupt_msg m) /\ (1 <= length ds <= 3)%nat /\
       q_events q' = q_events q ++ mk_copies (q_clock q) (q_count q) (QMsg (sn_msg_count n) m' src sn dst dn) sid did ds).
  Proof using Type.
    clear handler init_state crash_order. intros H1 H2 Hne H3 H4 H.
    pose proof (net_send_cross_node _ _ _ _ _ _ _ _ _ _ _ _ H1 H2 Hne H3 H4 H) as [_ Hc]. cbn zeta in Hc.
    destruct (net_fate n q m sn dn) as [f q1] eqn:Ef.
    pose proof (net_fate_spec _ _ _ _ _ _ _ Ef) as [_ [F1 [F2 [F3 F4]]]].
    destruct f as [|m' ds].
    - destruct Hc as [-> _]. cbn [sdrop is_sent_id is_dropped_id]. rewrite N.eqb_refl. cbn [andb orb].
      split; [|discriminate]. split; auto. intros _.
      destruct (F3 eq_refl) as [[Hx|Hx] _]; [|tauto].
      rewrite link_cut_unfold, !orb_true_iff in Hx. tauto.
    - destruct Hc as [-> Hq]. cbn [sdrop is_sent_id]. rewrite andb_false_r. cbn [orb].
      destruct (F4 m' ds eq_refl) as [G1 [G2 [_ [G3 [G4 _]]]]].
      split.
      + split; [discriminate|]. rewrite link_cut_unfold, !orb_false_iff in G1. destruct G1 as [[G1a G1b] G1c].
        intros [Hx|[Hx|[Hx|Hx]]]; congruence.
      + intros _. exists m', ds. subst q'. cbn [q_with q_events].
        split; [tauto|]. split; [exact G4|]. reflexivity.
  Qed.

  Section Theorems.
    Variable s : simsys.
    Hypothesis R : Reachable s.

    (* (b) *)
    Theorem received_only_if_sent t id sn src dn dst m' :
      In (LMessageReceived t id sn src dn dst m') (y_log s) ->
      exists t0 m, In (LMessageSent t0 id sn src dn dst m) (y_log s) /\ (m' = m \/ m' = corrupt_msg m).
    Proof.
      intros H. pose proof (inv_w _ (Reachable_inv _ R)) as W.
      destruct (in_split _ _ H) as [l1 [l2 Hl]].
      pose proof (wi_recv _ _ _ W l1 _ l2 Hl) as [t0 [m [H1 H2]]].
      exists t0, m. split; auto. rewrite Hl. apply in_or_app. left. exact H1.
    Qed.

    (* (b), full strength: the LMessageSent entry comes EARLIER in the trace, and that send was not dropped by the
       network (no LMessageDropped with this id right after the LMessageSent entry) *)
    Theorem received_after_sent l1 l2 t id sn src dn dst m' :
      y_log s = l1 ++ LMessageReceived t id sn src dn dst m' :: l2 ->
      (exists t0 m, In (LMessageSent t0 id sn src dn dst m) l1 /\ (m' = m \/ m' = corrupt_msg m)) /\
      sdrop id (y_log s) = false.
    Proof.
      intros Hl. pose proof (inv_w _ (Reachable_inv _ R)) as W. split.
      - apply (wi_recv _ _ _ W l1 _ l2 Hl).
      - apply (wi_recv_nodrop _ _ _ W (LMessageReceived t id sn src dn dst m')).
        + rewrite Hl. apply in_elt.
        + cbn. apply N.eqb_refl.
    Qed.

    (* (a) every message in the queue, live or cancelled *)
    Theorem queued_only_if_sent e id m' src sn dst dn :
      In e (q_events (y_q s)) -> q_data e = QMsg id m' src sn dst dn ->
      (exists t0 m, In (LMessageSent t0 id sn src dn dst m) (y_log s) /\ (m' = m \/ m' = corrupt_msg m)) /\
      sdrop id (y_log s) = false.
    Proof.
      intros He Hq. pose proof (inv_w _ (Reachable_inv _ R)) as W.
      destruct (wi_queue _ _ _ W e id m' src sn dst dn He Hq) as [H1 [H2 _]]. auto.
    Qed.

    (* (c) at most three deliveries (pending or done) per message id; at most one inside a node; none for an id
       that has not been issued yet *)
    Theorem deliveries_bounded id :
      (qcount id (q_events (y_q s)) + rcount id (y_log s) <= 3)%nat /\
      (forall t sn src dst m, In (LMessageSent t id sn src sn dst m) (y_log s) ->
         (qcount id (q_events (y_q s)) + rcount id (y_log s) <= 1)%nat) /\
      (sn_msg_count (y_net s) <= id -> (qcount id (q_events (y_q s)) + rcount id (y_log s) = 0)%nat).
    Proof.
      pose proof (inv_w _ (Reachable_inv _ R)) as W. split; [|split].
      - apply (wi_count3 _ _ _ W).
      - intros t sn src dst m. apply (wi_count1 _ _ _ W t id sn src dst m).
      - apply (wi_count0 _ _ _ W).
    Qed.

    Corollary received_at_most_three id : (rcount id (y_log s) <= 3)%nat.
    Proof. destruct (deliveries_bounded id) as [H _]. lia. Qed.

    (* (c) message ids of LMessageSent entries: strictly increasing along the trace, all below message_count *)
    Theorem sent_ids_increasing :
      StronglySorted N.lt (sent_ids (y_log s)) /\ (forall j, In j (sent_ids (y_log s)) -> j < sn_msg_count (y_net s)).
    Proof.
      pose proof (inv_w _ (Reachable_inv _ R)) as W. split.
      - apply (wi_sent_incr _ _ _ W).
      - apply (wi_sent_lt _ _ _ W).
    Qed.

    Lemma StronglySorted_app_r (a b : list N) : StronglySorted N.lt (a ++ b) -> StronglySorted N.lt b.
    Proof. induction a as [|x a IH]; cbn; auto. intros H. inversion H; subst. auto. Qed.

    Corollary sent_later_larger l1 l2 t i sn src dn dst m t' j sn' src' dn' dst' m2 :
      y_log s = l1 ++ LMessageSent t i sn src dn dst m :: l2 ->
      In (LMessageSent t' j sn' src' dn' dst' m2) l2 -> i < j.
    Proof.
      intros Hl Hin. destruct sent_ids_increasing as [H _]. rewrite Hl, sent_ids_app in H.
      apply StronglySorted_app_r in H. cbn in H. inversion H as [|? ? _ Hf]; subst.
      rewrite Forall_forall in Hf. apply Hf. eapply sent_in_ids. exact Hin.
    Qed.

    (* hence a message id identifies its LMessageSent entry *)
    Corollary sent_id_unique t i sn src dn dst m t' sn' src' dn' dst' m2 :
      In (LMessageSent t i sn src dn dst m) (y_log s) -> In (LMessageSent t' i sn' src' dn' dst' m2) (y_log s) ->
      LMessageSent t i sn src dn dst m = LMessageSent t' i sn' src' dn' dst' m2.
    Proof.
      intros H1 H2. destruct (in_split _ _ H1) as [l1 [l2 Hl]].
      rewrite Hl in H2. apply in_app_or in H2. destruct H2 as [H2|[H2|H2]].
      - destruct (in_split _ _ H2) as [l3 [l4 Hl1]]. subst l1. rewrite <- app_assoc in Hl. cbn in Hl.
        assert (i < i); [|lia].
        eapply (sent_later_larger _ _ _ _ _ _ _ _ _ _ _ _ _ _ _ _ Hl). apply in_or_app. right. left. reflexivity.
      - auto.
      - assert (i < i); [|lia]. eapply (sent_later_larger _ _ _ _ _ _ _ _ _ _ _ _ _ _ _ _ Hl). exact H2.
    Qed.
  End Theorems.

End SimNetP.

Print Assumptions net_fate_spec.
Print Assumptions net_fate_delays.
Print Assumptions net_send_same_node.
Print Assumptions net_send_cross_node.
Print Assumptions net_send_cross_total.
Print Assumptions disable_link_directional.
Print Assumptions partition_cuts.
Print Assumptions reset_heals.
Print Assumptions connect_iff.
Print Assumptions ynet_effect.
Print Assumptions net_send_dropped_iff.
Print Assumptions sim_op_inv.
Print Assumptions Reachable_inv.
Print Assumptions received_only_if_sent.
Print Assumptions received_after_sent.
Print Assumptions queued_only_if_sent.
Print Assumptions deliveries_bounded.
Print Assumptions sent_ids_increasing.
Print Assumptions sent_id_unique.
