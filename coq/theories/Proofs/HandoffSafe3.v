(* C04, last sentence, on stage 3 (message corruption): Proofs/HandoffSafe.v re-targeted from C04_stage2 to C04_stage3.
   The hypothesis "corruption rate 0" is replaced by the side condition HandoffSim3.CorrSide (vacuous at rate 0).

   1. Fine3 : step_sim3_fine = HandoffSim3.step_sim3 with the shape of the checker's path made explicit: one simulator
              step is answered by node-preserving steps (the ChDup splits), at most one further step (the delivery /
              timer firing), and again node-preserving steps (the eager payments: ChDup splits and ChCorrupt).
   2. Walk3 : run_walk3: the search follows the run.  It can only stop at a state with verdict VFinal, which is matched
              with a strictly earlier state of the run or - when the search stops after the delivery, before or during
              the payments - with the current one (whose projection it already has).
   3. Main3 : snapshot_StInv3, C04_handoff_safe3 (reference snapshot explicit).
      Final3: C04_safe3, C04_safe3_plain, C04_breakable_never_ok3, C04_safe3_once, C04_safe3_steps;
              C04_safe_from_safe3: the statement of HandoffSafe.C04_safe, derived from C04_safe3 via corrside_rate0.
   Definitions (projection, pv_based, CheckerSaysOk, CheckerOverrideFree, NSteps, Step01, Follows, StopAt, Hit) and the
   walk lemmas are those of Proofs/HandoffSafe.v.  Satisfiable with a positive corruption rate: Proofs/HandoffSafe3Ex.v. *)
From Coq Require Import List NArith Bool Lia Permutation Sorted.
From ASV Require Import Base.Util Base.Msg Base.Log Model.Store Spec.StoreSpec Model.McSys Spec.RefSys Model.Search Model.McRun
     Model.Sim Spec.TimeLaws Spec.SimSpec Model.Snapshot
     Proofs.UtilP Proofs.StoreSpecP Proofs.StoreRefine Proofs.SysLift Proofs.RefWf Proofs.Restore Proofs.McCompose
     Proofs.SearchCorrect Proofs.SearchRel Proofs.EqBisim Proofs.McSearch Proofs.McSearchRef
     Proofs.SimTimeP Proofs.SimBaseP Proofs.SimTimerP Proofs.SimNetP Proofs.SimCrashP Proofs.SnapshotP
     Proofs.HandoffSimBase Proofs.HandoffSim2Base Proofs.HandoffSim3Base Proofs.HandoffSim Proofs.HandoffSim2 Proofs.HandoffSim3
     Proofs.HandoffSafe.
Import ListNotations.
Open Scope N_scope.

(* ================================================================================================ *)
(* 1. the shape of the checker's answer to one simulator step                                        *)
(* ================================================================================================ *)
Section Fine3.
  Context {T : Type} (ops : time_ops T).
  Context {PS : Type}.
  Variable handlerS : N -> PS -> input -> T -> (nat -> T) -> PS * list (action T) * nat.
  Variable init_state : N -> PS.
  Variable draws : nat -> T.
  Variable crash_order : list (@qevent T) -> list (@qevent T).
  Variable tgt0 : T -> bool.
  Variable teq0 : T -> bool.
  Variable t0 : T.
  Variable clock : N -> T -> T.
  Variable handlerM : N -> PS -> input -> T -> (nat -> T) -> PS * list (action T).
  Variable DS : Type.
  Variable mc_rand : DS -> nat -> T.
  Variable ds_of : @mcstate T (astore T) PS -> DS.
  Variable sevent_eqb : (T -> T -> bool) -> sevent T -> sevent T -> bool.
  Variable known : list N.
  Variable crashed0 : N -> bool.
  Variable rate : T.
  Hypothesis laws : time_laws ops.
  Hypothesis draws_unit : forall i, tleb ops (tz ops) (draws i) = true /\ tltb ops (draws i) (tone ops) = true.
  Hypothesis teq0_sound : forall r x, tleb ops (tz ops) r = true -> tltb ops r x = true -> teq0 x = false.
  Notation CanCorrupt := (Possible_rate ops rate).
  Hypothesis tgt0_sound : CanCorrupt -> tgt0 rate = true.
  Hypothesis img_stable : CanCorrupt -> forall m s d, Sent handlerM m s d -> Stable handlerM (corrupt_msg m) s d.
  Hypothesis handler_closed : forall proc st inp time rand m dst,
    In (ASend m dst) (snd (handlerM proc st inp time rand)) -> In dst known.
  Hypothesis handler_agree : forall proc st inp t1 r1 t2 r2,
    handlerM proc st inp t1 r1 = fst (handlerS proc st inp t2 r2).

  Notation simsys := (@simsys T PS).
  Notation so := (abstract_ops (tleb ops) sevent_eqb).
  Notation rsys := (@mcsys T (astore T) PS).
  Notation Reachable := (Reachable ops handlerS init_state draws crash_order).
  Notation step := (step ops handlerS draws).
  Notation take := (take_choice so tgt0 teq0 t0 clock handlerM DS mc_rand ds_of).
  Notation En := (Enabled (PS := PS) (tleb ops) sevent_eqb).
  Notation Rel3D := (Rel3D ops handlerS init_state draws crash_order handlerM known crashed0 rate).
  Notation Rel3 := (Rel3 ops handlerS init_state draws crash_order handlerM known crashed0 rate).
  Notation StepOF := (StepOF ops handlerM).
  Notation dlive := (@dlive T PS).
  Notation NSteps := (NSteps ops tgt0 teq0 t0 clock handlerM DS mc_rand ds_of sevent_eqb).
  Notation Step01 := (Step01 ops tgt0 teq0 t0 clock handlerM DS mc_rand ds_of sevent_eqb).

  Lemma nsteps_trans (a b c : rsys) : NSteps a b -> NSteps b c -> NSteps a c.
  Proof. intros H1 H2. induction H1; auto. eapply nsteps_cons; eauto. Qed.

  (* HandoffSim3.unit_ready with the path made explicit *)
  Lemma unit_ready_fine : forall n (m : rsys) (s : simsys) debt msg src dst,
    (budget (pend (s_events m)) <= n)%nat -> Rel3D s m debt -> In (CMsg msg src dst) (expand (pend (s_events m))) ->
    exists m1 i o, NSteps m m1 /\ Rel3D s m1 debt /\ In (i, EMsg msg src dst o) (pend (s_events m1)) /\
                   In i (offset (tleb ops) (pend (s_events m1))) /\ pot (EMsg msg src dst o) = 1%nat.
  Proof.
    induction n as [|n IH]; intros m s debt msg src dst Hb HRl Hin; pose proof HRl as [HR HW Hmf NR CA ND EV MI DK];
      pose proof HW as (_ & HA & _);
      destruct (oldest_offered (tleb ops) _ msg src dst (proj1 HA) Hin) as (i & o & Hi & Hoff).
    - exists m, i, o. split; [apply nsteps_refl|]. split; [exact HRl|]. split; [exact Hi|]. split; [exact Hoff|].
      pose proof (budget_in _ _ _ Hi). pose proof (pot_pos (EMsg msg src dst o)). lia.
    - destruct (PeanoNat.Nat.eq_dec (pot (EMsg msg src dst o)) 1) as [Hp1|Hp1].
      + exists m, i, o. split; [apply nsteps_refl|]. split; [exact HRl|]. auto.
      + destruct o as [md|dd k cc]; [exfalso; apply Hp1; reflexivity|].
        assert (Hk : k <> 0) by (intros ->; apply Hp1; reflexivity).
        assert (HEn : En m (ChDup i)).
        { apply (enabled_of ops sevent_eqb m i _ (ChDup i) HA Hmf Hi Hoff). intros cs Hcs.
          unfold alternatives in Hcs. cbn [so_get abstract_ops] in Hcs. rewrite aget_lookup, (in_lookup _ _ _ (proj1 HA) Hi) in Hcs.
          injection Hcs as <-. cbn [app In]. right. apply in_or_app. right. apply in_or_app. right.
          assert (Hlt : N.ltb 0 k = true) by (apply N.ltb_lt; lia). rewrite Hlt. left. reflexivity. }
        destruct (take_choice_ok tgt0 teq0 t0 clock handlerM DS mc_rand ds_of (tleb ops) sevent_eqb known handler_closed m
                    (ChDup i) HW HEn) as (m1 & Htake & HW1 & _).
        destruct (take_dup ops tgt0 teq0 t0 clock handlerM DS mc_rand ds_of sevent_eqb m i msg src dst dd k cc HA Hi Hk)
          as (m1' & Htake' & N1 & N2 & N3 & N4).
        rewrite Htake in Htake'. hinv Htake'.
        assert (HR1 : Rel3D s m1' debt).
        { constructor; [exact HR|exact HW1|congruence|rewrite N2; exact NR|exact CA|rewrite N1; exact ND| | |rewrite N2; exact DK].
          - rewrite N4. apply EvR3_split; auto. apply HA.
          - rewrite N2, N4. intros G j y Hj. apply in_app_iff in Hj. destruct Hj as [Hj|[Hj|[]]].
            + apply in_app_iff in Hj. destruct Hj as [Hj|[Hj|[]]].
              * apply in_aremove in Hj. exact (MI G j y (proj1 Hj)).
              * hinv Hj. exact (evokc_budget _ _ _ _ _ _ _ _ _ _ (MI G _ _ Hi)).
            + hinv Hj. exact (evokc_budget _ _ _ _ _ _ _ _ _ _ (MI G _ _ Hi)). }
        assert (Hb1 : (budget (pend (s_events m1')) <= n)%nat).
        { rewrite N4. pose proof (budget_split (pend (s_events m)) i (anext (s_events m)) msg src dst dd k cc (proj1 HA) Hi Hk) as Hbs.
          rewrite <- Hbs in Hb. apply le_S_n. exact Hb. }
        assert (Hin1 : In (CMsg msg src dst) (expand (pend (s_events m1')))).
        { rewrite N4. apply in_expand. exists (anext (s_events m), EMsg msg src dst (Possible dd 0 cc)). split; [|reflexivity].
          apply in_app_iff. right. left. reflexivity. }
        destruct (IH m1' s debt msg src dst Hb1 HR1 Hin1) as (m2 & i2 & o2 & Hst & HR2 & X).
        exists m2, i2, o2. split; [|split; [exact HR2|exact X]].
        eapply nsteps_cons; [exact HEn|exact Htake|exact N1|exact Hst].
  Qed.

  (* HandoffSim3.pay_one: splits, then one ChCorrupt - all of them leave the nodes untouched *)
  Lemma pay_one_fine (s : simsys) (m : rsys) u debt :
    Rel3D s m (u :: debt) -> exists m1, NSteps m m1 /\ Rel3D s m1 debt.
  Proof.
    intros HRl. pose proof HRl as [HR HW Hmf NR CA ND EV MI DK].
    destruct u as [[msg src] dst]. inversion DK as [|? ? DKu DKr]; subst.
    destruct DKu as (Hne & Hs & G & a & b & La & Lb & Hab).
    assert (Hin : In (CMsg msg src dst) (expand (pend (s_events m)))).
    { destruct (permd_debt_in _ _ _ (msg, src, dst) (e3_perm _ _ _ _ _ EV) (or_introl eq_refl)) as [H|H]; [exact H|].
      exfalso. apply in_map_iff in H. destruct H as ([[m2 s2] d2] & Hc & Hu). cbn [dc dm] in Hc. hinv Hc.
      assert (Hu' : DebtOK ops handlerM rate (s_net m) (m2, src, dst)) by (rewrite Forall_forall in DK; apply DK; exact Hu).
      destruct Hu' as (_ & Hs2 & _). apply Hne. destruct Hs as (st & inp & t & r & Hi).
      exact (img_stable G m2 src dst Hs2 st inp t r Hi). }
    destruct (unit_ready_fine (budget (pend (s_events m))) m s _ msg src dst (le_n _) HRl Hin)
      as (m1 & i & o & Hst & HRl1 & Hi & Hoff & Hpot).
    clear HR HW Hmf NR CA ND EV MI DK DKr La Lb Hin.
    pose proof HRl1 as [HR HW Hmf NR CA ND EV MI DK]. pose proof HW as (_ & HA & _).
    inversion DK as [|? ? DKu DKr]; subst. destruct DKu as (_ & _ & _ & a' & b' & La & Lb & Hab').
    assert (Ho : exists dd, o = Possible dd 0 true).
    { destruct (MI G i _ Hi) as [(c & Hc1 & Hc2)|[(dd & k & ->)|Hstab]].
      - exfalso. rewrite La in Hc1. rewrite Lb in Hc2. apply Hab'. congruence.
      - exists dd. cbn [pot] in Hpot. f_equal. lia.
      - exfalso. apply Hne. destruct Hs as (st & inp & t & r & Hsi). exact (Hstab st inp t r Hsi). }
    destruct Ho as (dd & ->).
    assert (HEn : En m1 (ChCorrupt i)).
    { apply (enabled_of ops sevent_eqb m1 i _ (ChCorrupt i) HA Hmf Hi Hoff). intros cs Hcs.
      unfold alternatives in Hcs. cbn [so_get abstract_ops] in Hcs. rewrite aget_lookup, (in_lookup _ _ _ (proj1 HA) Hi) in Hcs.
      injection Hcs as <-. cbn [app In]. right. apply in_or_app. right. left. reflexivity. }
    destruct (take_choice_ok tgt0 teq0 t0 clock handlerM DS mc_rand ds_of (tleb ops) sevent_eqb known handler_closed m1
                (ChCorrupt i) HW HEn) as (m2 & Htake & HW2 & _).
    destruct (take_corrupt ops tgt0 teq0 t0 clock handlerM DS mc_rand ds_of sevent_eqb m1 i msg src dst dd 0 true HA Hi)
      as (m2' & Htake' & N1 & N2 & N3 & N4).
    rewrite Htake in Htake'. hinv Htake'.
    exists m2'. split.
    - eapply nsteps_trans; [exact Hst|]. eapply nsteps_cons; [exact HEn|exact Htake|exact N1|apply nsteps_refl].
    - constructor; [exact HR|exact HW2|congruence|rewrite N2; exact NR|exact CA|rewrite N1; exact ND| | |rewrite N2; exact DKr].
      + rewrite N4. apply EvR3_pay with (cc := true); auto. apply HA.
      + rewrite N2, N4. intros G' j y Hj. apply in_app_iff in Hj. destruct Hj as [Hj|[Hj|[]]].
        * apply in_aremove in Hj. exact (MI G' j y (proj1 Hj)).
        * hinv Hj. right. right. apply (img_stable G' msg src dst Hs).
  Qed.

  Lemma pay_all_fine (s : simsys) : forall debt (m : rsys), Rel3D s m debt -> exists m1, NSteps m m1 /\ Rel3 s m1.
  Proof.
    induction debt as [|u debt IH]; intros m HR.
    - exists m. split; [apply nsteps_refl|exact HR].
    - destruct (pay_one_fine s m u debt HR) as (m1 & Hst & HR1). destruct (IH m1 HR1) as (m2 & Hst2 & HR2).
      exists m2. split; [|exact HR2]. eapply nsteps_trans; eauto.
  Qed.

  Lemma ready3_fine (s : simsys) (m : rsys) e :
    Rel3 s m -> In e (dlive s) -> (forall y, In y (dlive s) -> y <> e -> key_lt ops e y) ->
    exists m1 i x, NSteps m m1 /\ Rel3 s m1 /\ In (i, x) (pend (s_events m1)) /\
                   In i (offset (tleb ops) (pend (s_events m1))) /\ c_of_s x = c_of_q e /\ pot x = 1%nat.
  Proof.
    intros HRl He Hmin. pose proof HRl as [HR HW Hmf NR CA ND EV MI DK]. pose proof HW as (_ & HA & _).
    destruct (q_data e) as [mid msg src sn dst dn|pp n] eqn:Ed.
    - assert (Hc : c_of_q e = CMsg msg src dst) by (unfold c_of_q; rewrite Ed; reflexivity).
      pose proof (live_msg_pending ops _ _ _ e msg src dst EV He Hc) as Hin.
      destruct (unit_ready_fine (budget (pend (s_events m))) m s [] msg src dst (le_n _) HRl Hin)
        as (m1 & i & o & Hst & HR1 & Hi & Hoff & Hpot).
      exists m1, i, (EMsg msg src dst o). rewrite Hc. auto 10.
    - destruct (min_timer_offered3 ops laws (tleb ops) eq_refl _ _ _ _ e pp n EV (proj1 HA) He Ed Hmin) as (i & d & Hi & Ho).
      exists m, i, (ETimer pp n d). split; [apply nsteps_refl|]. split; [exact HRl|]. split; [exact Hi|]. split; [exact Ho|].
      split; [symmetry; apply c_of_q_timer; exact Ed|reflexivity].
  Qed.

  (* HandoffSim3.step_sim3 with the path made explicit: node-preserving steps (splits), at most one step (the delivery),
     node-preserving steps (the payments).  The checker configuration right after the delivery already has the nodes
     that are matched with the simulator's next state. *)
  Theorem step_sim3_fine (s : simsys) (m : rsys) s' b :
    Rel3 s m -> StepOF s -> step s = Ok (s', b) ->
    exists m1 m' m2, NSteps m m1 /\ Step01 m1 m' /\ NSteps m' m2 /\ Rel3 s' m2.
  Proof.
    intros HRl HOF Hs. pose proof HRl as [HR HW Hmf NR CA ND EV MI DK].
    pose proof (reachable_base ops handlerS init_state draws crash_order s HR) as B.
    pose proof (Reachable_TimeInv ops handlerS init_state draws crash_order laws s HR) as TM.
    pose proof (reachable_step ops handlerS init_state draws crash_order s s' b HR Hs) as HR'.
    destruct (step_contract ops handlerS init_state draws crash_order laws s s' b TM Hs) as [_ C].
    destruct b.
    - destruct C as (e & q' & Hnext & Hdel & He & Hmin & _ & Hclk & _).
      destruct (live_dst_node ops handlerS init_state draws crash_order s e HR He) as (name & nd0 & G1 & G2 & G3).
      pose proof (SimTimeP.q_next_spec ops handlerS init_state draws laws (y_q s)) as Hq. rewrite Hnext in Hq.
      destruct Hq as (_ & _ & _ & Hlive & _).
      destruct (sd_crashed nd0) eqn:Ecr; cbn [negb] in G3.
      + unfold deliver in Hdel. cbn [popped y_with y_handlers] in Hdel. rewrite G3 in Hdel. hinv Hdel.
        exists m, m, m. split; [apply nsteps_refl|]. split; [left; reflexivity|]. split; [apply nsteps_refl|]. constructor; auto.
        unfold HandoffSim2.dlive. cbn [popped y_with y_q y_handlers]. rewrite Hlive, filter_filter_comm, Hclk.
        rewrite filter_id_in.
        * apply (EvR3_clock ops laws _ (q_clock (y_q s))); [apply (qt_future _ _ TM e He)|exact EV].
        * intros y Hy. apply filter_In in Hy. destruct Hy as [Hy Hd]. apply negb_true_iff, N.eqb_neq. intros E.
          rewrite (live_id_inj s y e B Hy He E) in Hd. unfold HandoffSim2.dlv in Hd. rewrite G3 in Hd. discriminate.
      + destruct (deliver_decomp ops handlerS draws s q' e s' B G3 Hdel)
          as (nn & nd & p & st' & acts & used & D1 & D2 & D3 & D4 & D5 & D6).
        assert (Hed : In e (dlive s)).
        { apply filter_In. split; [exact He|]. unfold HandoffSim2.dlv. rewrite G3. reflexivity. }
        destruct (ready3_fine s m e HRl Hed) as (m1 & i & x & Hst1 & HRl1 & Hix & Hoff & Hc & Hpot).
        { intros y Hy Hne. apply filter_In in Hy. apply Hmin; tauto. }
        pose proof HRl1 as [_ HW1 Hmf1 _ _ _ _ _ _]. pose proof HW1 as (_ & HA1 & _).
        assert (HEn : En m1 (ChDeliver i)).
        { apply (enabled_of ops sevent_eqb m1 i x (ChDeliver i) HA1 Hmf1 Hix Hoff). intros cs Hcs.
          unfold alternatives in Hcs. cbn [so_get abstract_ops] in Hcs. rewrite aget_lookup, (in_lookup _ _ _ (proj1 HA1) Hix) in Hcs.
          destruct x as [mm ss dd [md|cd du cc]|pp nn0 dd]; injection Hcs as <-; left; reflexivity. }
        destruct (take_choice_ok tgt0 teq0 t0 clock handlerM DS mc_rand ds_of (tleb ops) sevent_eqb known handler_closed m1
                    (ChDeliver i) HW1 HEn) as (m' & Htake & HW' & _).
        destruct (deliver_sim3 ops handlerS init_state draws crash_order tgt0 teq0 t0 clock handlerM DS mc_rand ds_of sevent_eqb
                    known crashed0 rate laws draws_unit teq0_sound tgt0_sound handler_agree
                    s m1 q' e s' nn nd p st' acts used i x m' HRl1 HOF Hnext D1 D2 D3 D4 D5 D6 Hix Hc Hpot Htake)
          as (debt & R1 & R2 & R3 & R4 & R5 & R6 & R7).
        assert (HRD : Rel3D s' m' debt) by (constructor; auto; congruence).
        destruct (pay_all_fine s' debt m' HRD) as (m2 & Hst2 & HR2).
        exists m1, m', m2. split; [exact Hst1|]. split; [|split; [exact Hst2|exact HR2]].
        right. exists (ChDeliver i). split; [exact HEn|exact Htake].
    - destruct C as (L1 & L2 & Hnow & [F1 F2 _ F4 _ _] & _). exists m, m, m. split; [apply nsteps_refl|].
      split; [left; reflexivity|]. split; [apply nsteps_refl|].
      constructor; auto.
      + rewrite F1. exact NR.
      + unfold HandoffSim2.CrashAgree. rewrite F2. exact CA.
      + rewrite F2. exact ND.
      + unfold HandoffSim2.dlive. unfold now in Hnow. rewrite L2, Hnow. unfold HandoffSim2.dlive in EV. rewrite L1 in EV. exact EV.
  Qed.
End Fine3.

(* ================================================================================================ *)
(* 2. the search follows the simulator's run up to the first goal / prune state                      *)
(* ================================================================================================ *)
Section Walk3.
  Context {T : Type} (ops : time_ops T).
  Context {PS : Type}.
  Variable handlerS : N -> PS -> input -> T -> (nat -> T) -> PS * list (action T) * nat.
  Variable init_state : N -> PS.
  Variable draws : nat -> T.
  Variable crash_order : list (@qevent T) -> list (@qevent T).
  Variable tgt0 : T -> bool.
  Variable teq0 : T -> bool.
  Variable t0 : T.
  Variable clock : N -> T -> T.
  Variable handlerM : N -> PS -> input -> T -> (nat -> T) -> PS * list (action T).
  Variable DS : Type.
  Variable mc_rand : DS -> nat -> T.
  Variable ds_of : @mcstate T (store T) PS -> DS.
  Variable ds_of2 : @mcstate T (astore T) PS -> DS.
  Variable sevent_eqb : (T -> T -> bool) -> sevent T -> sevent T -> bool.
  Variable known : list N.
  Variable crashed0 : N -> bool.
  Variable rate : T.
  Hypothesis laws : time_laws ops.
  Hypothesis draws_unit : forall i, tleb ops (tz ops) (draws i) = true /\ tltb ops (draws i) (tone ops) = true.
  Hypothesis teq0_sound : forall r x, tleb ops (tz ops) r = true -> tltb ops r x = true -> teq0 x = false.
  Hypothesis tgt0_sound : Possible_rate ops rate -> tgt0 rate = true.
  Hypothesis img_stable : Possible_rate ops rate -> forall m s d, Sent handlerM m s d -> Stable handlerM (corrupt_msg m) s d.
  Hypothesis handler_closed : forall proc st inp time rand m dst,
    In (ASend m dst) (snd (handlerM proc st inp time rand)) -> In dst known.
  Hypothesis handler_agree : forall proc st inp t1 r1 t2 r2,
    handlerM proc st inp t1 r1 = fst (handlerS proc st inp t2 r2).
  Hypothesis H_ds : forall st1 st2, StR (R (tleb ops)) st1 st2 -> ds_of st1 = ds_of2 st2.

  Notation tle := (tleb ops).
  Notation simsys := (@simsys T PS).
  Notation soC := (concrete_ops tle (@store_eqb T)).
  Notation csys := (@mcsys T (store T) PS).
  Notation rsys := (@mcsys T (astore T) PS).
  Notation cstate := (@mcstate T (store T) PS).
  Notation Rel3 := (Rel3 ops handlerS init_state draws crash_order handlerM known crashed0 rate).
  Notation SimRunOF := (SimRunOF ops handlerS draws handlerM).
  Notation preds := (@preds T (store T) PS).

  Variable pr : preds.
  Variable sys0 : csys.
  Hypothesis wf0 : wf_sys sys0.

  Local Notation expM := (mc_expand soC tgt0 teq0 t0 clock handlerM DS mc_rand ds_of sys0).
  Local Notation vkM := (vk cstate (mc_no_events soC) (pr_inv pr) (pr_goal pr) (pr_prune pr)).
  Local Notation ReachS := (Reach cstate expM (mc_no_events soC) (pr_inv pr) (pr_goal pr) (pr_prune pr) (get_state sys0)).
  Local Notation Follows := (Follows ops tgt0 teq0 t0 clock handlerM DS mc_rand ds_of known pr sys0).
  Local Notation StopAt := (StopAt ops tgt0 teq0 t0 clock handlerM DS mc_rand ds_of pr sys0).
  Local Notation Hit := (Hit ops handlerS init_state draws crash_order tgt0 teq0 t0 clock handlerM DS mc_rand ds_of pr sys0).

  Hypothesis HOK : forall x, ReachS x -> vkM x = Ok VFinal \/ vkM x = Ok VGo.

  Lemma Follows_hit3 x m sX : Rel3 x m -> Follows sX m -> Hit (fun _ => True) x.
  Proof.
    intros H3 (HR & HW & _ & Hr). exists sX. split; [exact (r3_reach _ _ _ _ _ _ _ _ _ _ _ _ H3)|].
    split; [rewrite (SysR_nodes _ _ _ HR); exact (r3_nodes _ _ _ _ _ _ _ _ _ _ _ _ H3)|].
    split; [exact (rel_wf_sys tle known sX m HR HW)|]. split; [exact Hr|exact I].
  Qed.

  Lemma StopAt_hit3 y m : Rel3 y m -> StopAt (s_nodes m) -> Hit (fun st => vkM st = Ok VFinal) y.
  Proof.
    intros H3 (sB & Hn & W & Hr & Hv). exists sB. split; [exact (r3_reach _ _ _ _ _ _ _ _ _ _ _ _ H3)|].
    split; [rewrite Hn; exact (r3_nodes _ _ _ _ _ _ _ _ _ _ _ _ H3)|]. auto.
  Qed.

  Lemma Hit_weaken (P : cstate -> Prop) y : Hit P y -> Hit (fun _ => True) y.
  Proof. intros (sB & A & B & C & D & _). exists sB. auto. Qed.

  (* every state of the run is matched with a reached state of the search, unless the search stopped at (a state
     matched with) an earlier state of the run; a stop during the payments that follow the delivery is matched with
     the state the simulator has just reached *)
  Theorem run_walk3 (s : simsys) l : SimRunOF s l ->
    forall m sC, Rel3 s m -> Follows sC m ->
    forall l1 x l2, l = l1 ++ x :: l2 ->
      Hit (fun _ => True) x \/ exists y, In y (s :: l1) /\ Hit (fun st => vkM st = Ok VFinal) y.
  Proof.
    induction 1 as [s|s s1 b l HOF Hs Hrun IH]; intros m sC H3 HF l1 x l2 El.
    - destruct l1; discriminate El.
    - destruct (step_sim3_fine ops handlerS init_state draws crash_order tgt0 teq0 t0 clock handlerM DS mc_rand ds_of2
                  sevent_eqb known crashed0 rate laws draws_unit teq0_sound tgt0_sound img_stable handler_closed handler_agree
                  s m s1 b H3 HOF Hs)
        as (ma & m' & m2 & Hn & H01 & Hn2 & H3').
      assert (Hstop : StopAt (s_nodes m) -> exists y, In y (s :: l1) /\ Hit (fun st => vkM st = Ok VFinal) y).
      { intros Hst. exists s. split; [left; reflexivity|]. exact (StopAt_hit3 s m H3 Hst). }
      destruct (nsteps_walk ops tgt0 teq0 t0 clock handlerM DS mc_rand ds_of ds_of2 sevent_eqb known handler_closed H_ds pr sys0
                  wf0 HOK m ma Hn sC HF) as [(sa & HFa)|Hst]; [|right; exact (Hstop Hst)].
      destruct (step01_walk ops tgt0 teq0 t0 clock handlerM DS mc_rand ds_of ds_of2 sevent_eqb known handler_closed H_ds pr sys0
                  wf0 HOK ma m' sa H01 HFa) as [(sb & HFb)|Hst].
      2:{ right. apply Hstop.
          rewrite <- (NSteps_nodes ops tgt0 teq0 t0 clock handlerM DS mc_rand ds_of2 sevent_eqb m ma Hn). exact Hst. }
      (* the payments: a stop here is matched with s1 *)
      assert (Hs1 : StopAt (s_nodes m') -> Hit (fun st => vkM st = Ok VFinal) s1).
      { intros Hst. apply (StopAt_hit3 s1 m2 H3').
        rewrite (NSteps_nodes ops tgt0 teq0 t0 clock handlerM DS mc_rand ds_of2 sevent_eqb m' m2 Hn2). exact Hst. }
      destruct (nsteps_walk ops tgt0 teq0 t0 clock handlerM DS mc_rand ds_of ds_of2 sevent_eqb known handler_closed H_ds pr sys0
                  wf0 HOK m' m2 Hn2 sb HFb) as [(sC' & HF')|Hst].
      + destruct l1 as [|z l1]; cbn [app] in El; injection El as E1 E2.
        * left. rewrite <- E1. exact (Follows_hit3 s1 m2 sC' H3' HF').
        * destruct (IH m2 sC' H3' HF' l1 x l2 E2) as [Hl|(y & Hy & Hh)]; [left; exact Hl|].
          right. exists y. split; [right; rewrite <- E1; exact Hy|exact Hh].
      + pose proof (Hs1 Hst) as Hh.
        destruct l1 as [|z l1]; cbn [app] in El; injection El as E1 E2.
        * left. rewrite <- E1. exact (Hit_weaken _ s1 Hh).
        * right. exists s1. split; [right; left; symmetry; exact E1|exact Hh].
  Qed.
End Walk3.

(* ================================================================================================ *)
(* 3. C04 on stage 3                                                                                 *)
(* ================================================================================================ *)
Section Main3S.
  Context {T : Type} (ops : time_ops T).
  Context {PS : Type}.
  Variable handlerS : N -> PS -> input -> T -> (nat -> T) -> PS * list (action T) * nat.
  Variable init_state : N -> PS.
  Variable draws : nat -> T.
  Variable crash_order : list (@qevent T) -> list (@qevent T).
  Variable teqb : T -> T -> bool.
  Variable tgt0 : T -> bool.
  Variable teq0 : T -> bool.
  Variable t0 : T.
  Variable clock : N -> T -> T.
  Variable ps_eqb : PS -> PS -> bool.
  Variable handlerM : N -> PS -> input -> T -> (nat -> T) -> PS * list (action T).
  Variable DS : Type.
  Variable mc_rand : DS -> nat -> T.
  Variable ds_of : @mcstate T (store T) PS -> DS.
  Variable ds_of2 : @mcstate T (astore T) PS -> DS.
  Variable sevent_eqb : (T -> T -> bool) -> sevent T -> sevent T -> bool.

  Notation tle := (tleb ops).
  Notation simsys := (@simsys T PS).
  Notation soC := (concrete_ops tle (@store_eqb T)).
  Notation soR := (abstract_ops tle sevent_eqb).
  Notation csys := (@mcsys T (store T) PS).
  Notation rsys := (@mcsys T (astore T) PS).
  Notation cstate := (@mcstate T (store T) PS).
  Notation preds := (@preds T (store T) PS).
  Notation Reachable := (Reachable ops handlerS init_state draws crash_order).
  Notation SimRunOF := (SimRunOF ops handlerS draws handlerM).

  (* ---- hypotheses of C04_stage3 ---- *)
  Hypothesis laws : time_laws ops.
  Hypothesis sub_add_le : forall t c d, tleb ops (tsub ops t c) d = true -> tleb ops t (tadd ops c d) = true.
  Hypothesis draws_unit : forall i, tleb ops (tz ops) (draws i) = true /\ tltb ops (draws i) (tone ops) = true.
  Hypothesis teq0_sound : forall r x, tleb ops (tz ops) r = true -> tltb ops r x = true -> teq0 x = false.
  Hypothesis handler_agree : forall proc st inp t1 r1 t2 r2,
    handlerM proc st inp t1 r1 = fst (handlerS proc st inp t2 r2).
  Variable s0 : simsys.
  Variable m0 : rsys.
  Variable sysC : csys.
  Hypothesis s0_reachable : Reachable s0.
  Hypothesis s0_installed : Installed s0.
  Hypothesis s0_routed : Routed s0 \/ NoCrash s0.
  Hypothesis s0_corruption : CorrSide ops tgt0 handlerM s0.
  Hypothesis s0_snapshot_ref : snapshot ops soR s0 = Ok m0.
  Hypothesis s0_snapshot : snapshot ops soC s0 = Ok sysC.
  Hypothesis handler_closed : forall proc st inp time rand m dst,
    In (ASend m dst) (snd (handlerM proc st inp time rand)) -> In dst (known_of s0).

  (* ---- hypotheses of C03 ---- *)
  Hypothesis H_ds : forall st1 st2, StR (R tle) st1 st2 -> ds_of st1 = ds_of2 st2.
  Hypothesis teqb_spec : forall a b, teqb a b = true <-> a = b.
  Hypothesis ps_eqb_spec : forall a b, ps_eqb a b = true <-> a = b.
  Hypothesis Hds : ds_respects tle teqb ps_eqb DS ds_of.
  Variable pr : preds.
  Hypothesis Hpr : state_based tle teqb ps_eqb pr.

  Local Notation sys0 := (started sysC).
  Local Notation expM := (mc_expand soC tgt0 teq0 t0 clock handlerM DS mc_rand ds_of sys0).
  Local Notation vkM := (vk cstate (mc_no_events soC) (pr_inv pr) (pr_goal pr) (pr_prune pr)).
  Local Notation ReachS := (Reach cstate expM (mc_no_events soC) (pr_inv pr) (pr_goal pr) (pr_prune pr) (get_state sys0)).
  Local Notation SaysOk := (CheckerSaysOk ops teqb tgt0 teq0 t0 clock ps_eqb handlerM DS mc_rand ds_of sysC pr).

  Hypothesis OF0 : CheckerOverrideFree ops tgt0 teq0 t0 clock handlerM DS mc_rand ds_of sysC pr.

  Variable inv_pv : projection (PS := PS) -> option N.
  Variable goal_pv : projection (PS := PS) -> option N.
  Variable prune_pv : projection (PS := PS) -> option N.
  Hypothesis Hpv : pv_based pr inv_pv goal_pv prune_pv.

  Local Notation crashed0 := (fun x => match sget N.compare x (y_nodes s0) with Some nd => sd_crashed nd | None => false end).
  Local Notation rate := (sn_corrupt (y_net s0)).
  Local Notation Rel3 := (Rel3 ops handlerS init_state draws crash_order handlerM (known_of s0) crashed0 rate).

  Lemma tgt0_sound3 : Possible_rate ops rate -> tgt0 rate = true.
  Proof. intros G. apply (s0_corruption G). Qed.
  Lemma img_stable3 : Possible_rate ops rate -> forall m s d, Sent handlerM m s d -> Stable handlerM (corrupt_msg m) s d.
  Proof. intros G. apply (s0_corruption G). Qed.

  Lemma rel3_start : Rel3 s0 m0.
  Proof.
    apply (rel_snapshot3 ops handlerS init_state draws crash_order handlerM sevent_eqb (known_of s0) crashed0 rate laws sub_add_le);
      auto.
    intros G. apply (s0_corruption G).
  Qed.

  Lemma rel3_started : Rel3 s0 (started m0).
  Proof. destruct rel3_start as [a b c d e f g h i]. constructor; assumption. Qed.

  Local Notation rel_started3 := (rel_started ops sevent_eqb s0 m0 sysC s0_snapshot_ref s0_snapshot).

  Lemma wf_start3 : wf_sys sys0.
  Proof. exact (rel_wf_sys tle (known_of s0) sys0 (started m0) rel_started3 (r3_awf _ _ _ _ _ _ _ _ _ _ _ _ rel3_started)). Qed.

  (* the invariant of Proofs/EqBisim.v holds of the snapshot (whatever the corruption rate) *)
  Lemma snapshot_StInv3 : StInv tle sysC.
  Proof.
    pose proof (snapshot_related_both ops tle (@store_eqb T) sevent_eqb s0 sysC m0 s0_snapshot s0_snapshot_ref) as HR.
    pose proof rel3_start as [HRe HW Hmf NR CA ND EV MI DK].
    pose proof HW as ((_ & _ & _ & Hl & _) & _ & _ & _ & HT).
    apply (StInv_intro tle sysC (s_events m0)).
    - intros nn nd p Hs Hp. rewrite (SysR_nodes _ _ _ HR) in Hs. rewrite (SysR_net _ _ _ HR). apply Hl. eauto.
    - exact (SysR_events _ _ _ HR).
    - intros i p n d Hi.
      exact (snapshot_amap_reachable ops handlerS init_state draws crash_order tle sevent_eqb s0 m0 i p n d s0_reachable
               s0_snapshot_ref Hi).
    - intros nn nd p e Hs Hc Hg _ n. rewrite (SysR_nodes _ _ _ HR) in Hs. split.
      + intros Hn. destruct (HT nn nd p e Hs Hc Hg n Hn) as (i & d & _ & Hi). exists i, d. exact Hi.
      + intros (i & d & Hi).
        destruct (permd_timer_back _ _ _ i p n d (e3_perm _ _ _ _ _ EV) Hi) as (ev & Hev & Hd).
        apply filter_In in Hev. destruct Hev as [Hlive Hdl].
        destruct (live_dst_node ops handlerS init_state draws crash_order s0 ev HRe Hlive) as (name & nd0 & G1 & G2 & G3).
        unfold dlv in Hdl. rewrite G3 in Hdl. destruct (sd_crashed nd0) eqn:Ecr; [discriminate Hdl|].
        destruct (ti_live_pending s0 (timer_reachable ops handlerS init_state draws crash_order s0 HRe) name nd0 ev p n
                    G1 Ecr Hlive Hd (eq_sym G2)) as (pe & Hpe & Hpt).
        pose proof (reachable_base ops handlerS init_state draws crash_order s0 HRe) as B.
        pose proof (ND nn) as Hnn. rewrite Hs in Hnn.
        destruct (sget N.compare nn (y_nodes s0)) as [nds|] eqn:Ens; [|destruct Hnn].
        destruct Hnn as (_ & _ & HP). pose proof (HP p) as Hpp. rewrite Hg in Hpp.
        destruct (sget N.compare p (sd_procs nds)) as [pes|] eqn:Eps; [|destruct Hpp].
        pose proof (bi_proc_fwd s0 B name nd0 p pe G1 Hpe) as L1.
        pose proof (bi_proc_fwd s0 B nn nds p pes Ens Eps) as L2.
        rewrite L1 in L2. injection L2 as ->. rewrite G1 in Ens. injection Ens as <-.
        rewrite Hpe in Eps. injection Eps as <-.
        destruct Hpp as (_ & _ & Hsh & _). rewrite <- (Hsh n). unfold shas. rewrite Hpt. reflexivity.
  Qed.

  Lemma ok_verdicts3 : SaysOk -> forall x, ReachS x -> vkM x = Ok VFinal \/ vkM x = Ok VGo.
  Proof.
    intros (cf & sys' & stat & coll & ss' & Hrun) x Hx.
    destruct (run_ok_sound_complete tle teqb tgt0 teq0 t0 clock ps_eqb handlerM DS mc_rand ds_of teqb_spec ps_eqb_spec
                (clock_indep handlerS handlerM handler_agree) Hds pr Hpr sysC [] sys0 wf_start3 eq_refl snapshot_StInv3
                cf sys' stat coll ss' OF0 Hrun)
      as (_ & P1 & P2 & _).
    destruct (P2 x Hx) as (y & Hy & E). destruct (P1 y Hy) as [_ Hv].
    rewrite (mc_vk_compat tle teqb ps_eqb teqb_spec ps_eqb_spec pr Hpr sys0 x y E). exact Hv.
  Qed.

  Local Notation Hit := (Hit ops handlerS init_state draws crash_order tgt0 teq0 t0 clock handlerM DS mc_rand ds_of pr sys0).

  Lemma follows_start3 :
    Follows ops tgt0 teq0 t0 clock handlerM DS mc_rand ds_of (known_of s0) pr sys0 sys0 (started m0).
  Proof.
    split; [exact rel_started3|]. split; [exact (r3_awf _ _ _ _ _ _ _ _ _ _ _ _ rel3_started)|].
    split; [apply same_frame_refl|constructor].
  Qed.

  Lemma run_hits3 : SaysOk -> forall l, SimRunOF s0 l -> forall l1 x l2, s0 :: l = l1 ++ x :: l2 ->
    Hit (fun _ => True) x \/ exists y, In y l1 /\ Hit (fun st => vkM st = Ok VFinal) y.
  Proof.
    intros Hok l Hrun l1 x l2 El. destruct l1 as [|z l1]; cbn [app] in El; injection El as E1 E2.
    - left. rewrite <- E1.
      exact (Follows_hit3 ops handlerS init_state draws crash_order tgt0 teq0 t0 clock handlerM DS mc_rand ds_of (known_of s0)
               crashed0 rate pr sys0 s0 (started m0) sys0 rel3_started follows_start3).
    - rewrite <- E1.
      exact (run_walk3 ops handlerS init_state draws crash_order tgt0 teq0 t0 clock handlerM DS mc_rand ds_of ds_of2 sevent_eqb
               (known_of s0) crashed0 rate laws draws_unit teq0_sound tgt0_sound3 img_stable3 handler_closed handler_agree H_ds
               pr sys0 wf_start3 (ok_verdicts3 Hok) s0 l Hrun (started m0) sys0 rel3_started follows_start3 l1 x l2 E2).
  Qed.

  (* C04, last sentence, with message corruption *)
  Theorem C04_handoff_safe3 :
    SaysOk ->
    forall l, SimRunOF s0 l ->
    forall l1 x l2, s0 :: l = l1 ++ x :: l2 ->
      inv_pv (proj_of_sim x) = None
      \/ exists y, In y l1 /\ inv_pv (proj_of_sim y) = None /\
                   (goal_pv (proj_of_sim y) <> None \/ prune_pv (proj_of_sim y) <> None).
  Proof.
    intros Hok l Hrun l1 x l2 El. destruct Hpv as (Pi & Pg & Pp).
    destruct (run_hits3 Hok l Hrun l1 x l2 El) as [Hh|(y & Hy & Hh)].
    - left. destruct (Hit_proj ops handlerS init_state draws crash_order tgt0 teq0 t0 clock handlerM DS mc_rand ds_of pr sys0
                        _ x Hh) as (st & Hr & _ & Ep).
      rewrite <- Ep, <- Pi. exact (vk_ok_inv _ _ _ _ _ st (ok_verdicts3 Hok st Hr)).
    - right. exists y. split; [exact Hy|].
      destruct (Hit_proj ops handlerS init_state draws crash_order tgt0 teq0 t0 clock handlerM DS mc_rand ds_of pr sys0
                  _ y Hh) as (st & Hr & Hv & Ep).
      destruct (vk_final_inv _ _ _ _ st Hv) as [Hi Hgp]. rewrite <- Ep, <- Pi, <- Pg, <- Pp. auto.
  Qed.
End Main3S.

(* ---------------------------------------------------------------------------------------------- *)
(* the same without mentioning the reference snapshot                                              *)
(* ---------------------------------------------------------------------------------------------- *)
Section Final3.
  Context {T : Type} (ops : time_ops T).
  Context {PS : Type}.
  Variable handlerS : N -> PS -> input -> T -> (nat -> T) -> PS * list (action T) * nat.
  Variable init_state : N -> PS.
  Variable draws : nat -> T.
  Variable crash_order : list (@qevent T) -> list (@qevent T).
  Variable teqb : T -> T -> bool.
  Variable tgt0 : T -> bool.
  Variable teq0 : T -> bool.
  Variable t0 : T.
  Variable clock : N -> T -> T.
  Variable ps_eqb : PS -> PS -> bool.
  Variable handlerM : N -> PS -> input -> T -> (nat -> T) -> PS * list (action T).
  Variable DS : Type.
  Variable mc_rand : DS -> nat -> T.
  Variable ds_of : @mcstate T (store T) PS -> DS.
  Variable ds_of2 : @mcstate T (astore T) PS -> DS.

  Notation tle := (tleb ops).
  Notation simsys := (@simsys T PS).
  Notation soC := (concrete_ops tle (@store_eqb T)).
  Notation csys := (@mcsys T (store T) PS).
  Notation cstate := (@mcstate T (store T) PS).
  Notation preds := (@preds T (store T) PS).
  Notation Reachable := (Reachable ops handlerS init_state draws crash_order).
  Notation SimRunOF := (SimRunOF ops handlerS draws handlerM).

  Hypothesis laws : time_laws ops.
  Hypothesis sub_add_le : forall t c d, tleb ops (tsub ops t c) d = true -> tleb ops t (tadd ops c d) = true.
  Hypothesis draws_unit : forall i, tleb ops (tz ops) (draws i) = true /\ tltb ops (draws i) (tone ops) = true.
  Hypothesis teq0_sound : forall r x, tleb ops (tz ops) r = true -> tltb ops r x = true -> teq0 x = false.
  Hypothesis handler_agree : forall proc st inp t1 r1 t2 r2,
    handlerM proc st inp t1 r1 = fst (handlerS proc st inp t2 r2).
  Variable s0 : simsys.
  Variable sysC : csys.
  Hypothesis s0_reachable : Reachable s0.
  Hypothesis s0_installed : Installed s0.
  Hypothesis s0_routed : Routed s0 \/ NoCrash s0.
  (* the side condition on corruption (HandoffSim3.CorrSide; vacuous at rate 0) *)
  Hypothesis s0_corruption : CorrSide ops tgt0 handlerM s0.
  Hypothesis s0_snapshot : snapshot ops soC s0 = Ok sysC.
  Hypothesis handler_closed : forall proc st inp time rand m dst,
    In (ASend m dst) (snd (handlerM proc st inp time rand)) -> In dst (known_of s0).
  Hypothesis H_ds : forall st1 st2, StR (R tle) st1 st2 -> ds_of st1 = ds_of2 st2.
  Hypothesis teqb_spec : forall a b, teqb a b = true <-> a = b.
  Hypothesis ps_eqb_spec : forall a b, ps_eqb a b = true <-> a = b.
  Hypothesis Hds : ds_respects tle teqb ps_eqb DS ds_of.
  Variable pr : preds.
  Hypothesis Hpr : state_based tle teqb ps_eqb pr.
  Variable inv_pv : projection (PS := PS) -> option N.
  Variable goal_pv : projection (PS := PS) -> option N.
  Variable prune_pv : projection (PS := PS) -> option N.
  Hypothesis Hpv : pv_based pr inv_pv goal_pv prune_pv.

  Local Notation SaysOk := (CheckerSaysOk ops teqb tgt0 teq0 t0 clock ps_eqb handlerM DS mc_rand ds_of sysC pr).
  Local Notation OFree := (CheckerOverrideFree ops tgt0 teq0 t0 clock handlerM DS mc_rand ds_of sysC pr).

  Theorem C04_safe3 :
    OFree -> SaysOk ->
    forall l, SimRunOF s0 l ->
    forall l1 x l2, s0 :: l = l1 ++ x :: l2 ->
      inv_pv (proj_of_sim x) = None
      \/ exists y, In y l1 /\ inv_pv (proj_of_sim y) = None /\
                   (goal_pv (proj_of_sim y) <> None \/ prune_pv (proj_of_sim y) <> None).
  Proof.
    intros OF0.
    destruct (snapshot_awf ops handlerS init_state draws crash_order tle (fun _ _ _ => true) s0 s0_reachable s0_installed)
      as (m0 & Hm & _).
    exact (C04_handoff_safe3 ops handlerS init_state draws crash_order teqb tgt0 teq0 t0 clock ps_eqb handlerM DS mc_rand
             ds_of ds_of2 (fun _ _ _ => true) laws sub_add_le draws_unit teq0_sound handler_agree s0 m0 sysC s0_reachable
             s0_installed s0_routed s0_corruption Hm s0_snapshot handler_closed H_ds teqb_spec ps_eqb_spec Hds pr Hpr OF0
             inv_pv goal_pv prune_pv Hpv).
  Qed.

  Corollary C04_safe3_plain :
    OFree -> SaysOk -> (forall p, goal_pv p = None) -> (forall p, prune_pv p = None) ->
    forall l, SimRunOF s0 l -> forall x, In x (s0 :: l) -> inv_pv (proj_of_sim x) = None.
  Proof.
    intros OF0 Hok Hg Hp l Hrun x Hx. apply in_split in Hx. destruct Hx as (l1 & l2 & El).
    destruct (C04_safe3 OF0 Hok l Hrun l1 x l2 El) as [H|(y & _ & _ & [H|H])]; [exact H| |].
    - exfalso. apply H, Hg.
    - exfalso. apply H, Hp.
  Qed.

  (* "model checking never declares safe a system that the simulator can break" *)
  Corollary C04_breakable_never_ok3 :
    OFree ->
    forall l, SimRunOF s0 l ->
    forall l1 x l2, s0 :: l = l1 ++ x :: l2 ->
      inv_pv (proj_of_sim x) <> None ->
      (forall y, In y l1 -> goal_pv (proj_of_sim y) = None /\ prune_pv (proj_of_sim y) = None) ->
      forall cf sys' stat coll ss',
        run soC teqb tgt0 teq0 t0 clock ps_eqb handlerM DS mc_rand ds_of cf pr sysC [] <> Ok (sys', ROk stat coll, ss').
  Proof.
    intros OF0 l Hrun l1 x l2 El Hbad Hno cf sys' stat coll ss' Hr.
    assert (Hok : SaysOk) by (exists cf, sys', stat, coll, ss'; exact Hr).
    destruct (C04_safe3 OF0 Hok l Hrun l1 x l2 El) as [H|(y & Hy & _ & [H|H])]; [exact (Hbad H)| |];
      destruct (Hno y Hy) as [Hg Hp]; contradiction.
  Qed.

  (* the static form: set_timer_once only *)
  Hypothesis once_only_M : forall proc st inp t r n d once,
    In (ATimerSet n d once) (snd (handlerM proc st inp t r)) -> once = true.

  Lemma once_checker_override_free3 : OFree.
  Proof.
    apply OverrideFree_On. apply once_only_OverrideFree. intros proc st inp t r n d Hin.
    specialize (once_only_M _ _ _ _ _ _ _ _ Hin). discriminate once_only_M.
  Qed.

  Corollary C04_safe3_once :
    SaysOk ->
    forall l, SimRun ops handlerS draws s0 l ->
    forall l1 x l2, s0 :: l = l1 ++ x :: l2 ->
      inv_pv (proj_of_sim x) = None
      \/ exists y, In y l1 /\ inv_pv (proj_of_sim y) = None /\
                   (goal_pv (proj_of_sim y) <> None \/ prune_pv (proj_of_sim y) <> None).
  Proof.
    intros Hok l Hrun. apply (C04_safe3 once_checker_override_free3 Hok).
    exact (run_of_once ops handlerS draws handlerM l once_only_M s0 Hrun).
  Qed.

  Corollary C04_safe3_steps fuel k (sk : simsys) r :
    SaysOk ->
    sim_op ops handlerS init_state draws crash_order fuel s0 (YSteps k) = Ok (sk, r) ->
    exists l, SimRun ops handlerS draws s0 l /\ last l s0 = sk /\
      (inv_pv (proj_of_sim sk) = None
       \/ exists y, In y (removelast (s0 :: l)) /\ inv_pv (proj_of_sim y) = None /\
                    (goal_pv (proj_of_sim y) <> None \/ prune_pv (proj_of_sim y) <> None)).
  Proof.
    cbn [Sim.sim_op]. intros Hok H.
    destruct (steps_fuel ops handlerS draws fuel s0 k) as [[s' b]|] eqn:E; cbn [bind] in H; [|discriminate].
    injection H as -> _.
    destruct (steps_fuel_run ops handlerS draws fuel s0 k sk b E) as (l & Hl & El). exists l. split; [exact Hl|]. split; [exact El|].
    apply (C04_safe3_once Hok l Hl (removelast (s0 :: l)) sk []).
    rewrite <- El, <- (last_cons s0 s0 l). apply app_removelast_last. discriminate.
  Qed.
End Final3.

(* sanity: the statement of HandoffSafe.C04_safe (corruption rate 0) is the special case of C04_safe3 *)
Theorem C04_safe_from_safe3 :
  forall (T : Type) (ops : time_ops T) (PS : Type)
    (handlerS : N -> PS -> input -> T -> (nat -> T) -> PS * list (action T) * nat) (init_state : N -> PS)
    (draws : nat -> T) (crash_order : list (@qevent T) -> list (@qevent T)) (teqb : T -> T -> bool) (tgt0 teq0 : T -> bool)
    (t0 : T) (clock : N -> T -> T) (ps_eqb : PS -> PS -> bool)
    (handlerM : N -> PS -> input -> T -> (nat -> T) -> PS * list (action T)) (DS : Type) (mc_rand : DS -> nat -> T)
    (ds_of : @mcstate T (store T) PS -> DS) (ds_of2 : @mcstate T (astore T) PS -> DS),
  time_laws ops ->
  (forall t c d : T, tleb ops (tsub ops t c) d = true -> tleb ops t (tadd ops c d) = true) ->
  (forall i : nat, tleb ops (tz ops) (draws i) = true /\ tltb ops (draws i) (tone ops) = true) ->
  (forall r x : T, tleb ops (tz ops) r = true -> tltb ops r x = true -> teq0 x = false) ->
  (forall proc st inp t1 r1 t2 r2, handlerM proc st inp t1 r1 = fst (handlerS proc st inp t2 r2)) ->
  forall (s0 : @simsys T PS) (sysC : @mcsys T (store T) PS),
  Reachable ops handlerS init_state draws crash_order s0 ->
  Installed s0 ->
  Routed s0 \/ NoCrash s0 ->
  sn_corrupt (y_net s0) = tz ops ->
  snapshot ops (concrete_ops (tleb ops) (@store_eqb T)) s0 = Ok sysC ->
  (forall proc st inp time rand m dst, In (ASend m dst) (snd (handlerM proc st inp time rand)) -> In dst (known_of s0)) ->
  (forall st1 st2, StR (R (tleb ops)) st1 st2 -> ds_of st1 = ds_of2 st2) ->
  (forall a b : T, teqb a b = true <-> a = b) ->
  (forall a b : PS, ps_eqb a b = true <-> a = b) ->
  ds_respects (tleb ops) teqb ps_eqb DS ds_of ->
  forall pr : @preds T (store T) PS,
  state_based (tleb ops) teqb ps_eqb pr ->
  forall inv_pv goal_pv prune_pv : projection (PS := PS) -> option N,
  pv_based pr inv_pv goal_pv prune_pv ->
  CheckerOverrideFree ops tgt0 teq0 t0 clock handlerM DS mc_rand ds_of sysC pr ->
  CheckerSaysOk ops teqb tgt0 teq0 t0 clock ps_eqb handlerM DS mc_rand ds_of sysC pr ->
  forall l, SimRunOF ops handlerS draws handlerM s0 l ->
  forall l1 x l2, s0 :: l = l1 ++ x :: l2 ->
    inv_pv (proj_of_sim x) = None
    \/ exists y, In y l1 /\ inv_pv (proj_of_sim y) = None /\
                 (goal_pv (proj_of_sim y) <> None \/ prune_pv (proj_of_sim y) <> None).
Proof.
  intros T ops PS handlerS init_state draws crash_order teqb tgt0 teq0 t0 clock ps_eqb handlerM DS mc_rand ds_of ds_of2
         laws sal du ts ha s0 sysC HR HI Hro Hc Hs Hcl Hd te pe Hds pr Hpr ip gp pp Hpv.
  exact (C04_safe3 ops handlerS init_state draws crash_order teqb tgt0 teq0 t0 clock ps_eqb handlerM DS mc_rand ds_of ds_of2
           laws sal du ts ha s0 sysC HR HI Hro (corrside_rate0 ops handlerM tgt0 laws s0 Hc) Hs Hcl Hd te pe Hds pr Hpr ip gp pp Hpv).
Qed.

(* ... literally the same statement *)
Definition C04_safe_statement_is_an_instance := C04_safe_from_safe3 : ltac:(let t := type of @C04_safe in exact t).

Check @C04_safe3.
Check @C04_safe3_plain.
Check @C04_breakable_never_ok3.
Check @C04_safe3_once.
Check @C04_safe3_steps.
Print Assumptions step_sim3_fine.
Print Assumptions run_walk3.
Print Assumptions snapshot_StInv3.
Print Assumptions C04_handoff_safe3.
Print Assumptions C04_safe3.
Print Assumptions C04_safe3_plain.
Print Assumptions C04_breakable_never_ok3.
Print Assumptions C04_safe3_once.
Print Assumptions C04_safe3_steps.
Print Assumptions C04_safe_from_safe3.
