(* C04, last sentence, stage 3: the hypotheses of Proofs/HandoffSafe3.v (C04_safe3) are jointly satisfiable with a
   corruption rate > 0 and a checker run that really returns ROk.
   Two nodes over integer time, corruption rate 1.  At the hand-off a timer of process 5 (node 1) is pending; when it
   fires, process 5 sends a message with a quoted string to process 6 (node 2): the simulator corrupts it, the checker
   delivers the timer and then pays with a ChCorrupt step.  The state of process 6 counts the messages received.
     invariant: process 6 has received fewer than two messages;  goal: process 6 has received exactly one
   (the predicates are those of Proofs/HandoffSafeEx.v). *)
From Coq Require Import List NArith ZArith Bool Lia.
From ASV Require Import Base.Util Base.Msg Base.Log Model.Store Spec.StoreSpec Model.McSys Spec.RefSys Model.Search Model.McRun
     Model.Sim Spec.TimeLaws Spec.SimSpec Model.Snapshot
     Proofs.UtilP Proofs.StoreSpecP Proofs.StoreRefine Proofs.SysLift Proofs.RefWf Proofs.Restore
     Proofs.SearchCorrect Proofs.EqBisim Proofs.McSearch
     Proofs.SimTimeP Proofs.SimBaseP Proofs.SnapshotP Proofs.FateAgree
     Proofs.HandoffSimBase Proofs.HandoffSim Proofs.HandoffSim2 Proofs.HandoffSim3 Proofs.HandoffSim3Ex
     Proofs.HandoffSafe Proofs.HandoffSafeEx Proofs.HandoffSafe3.
Import ListNotations.
Open Scope N_scope.

Module HandoffSafe3Ex.
  Import HandoffSafeEx.
  Notation mq := Handoff3Ex.mq.     (* data: "a" - corruption changes it *)
  Notation mc := Handoff3Ex.mc.     (* data: ""  - its corrupted form, a fixed point *)
  Notation mp := Handoff3Ex.mp.

  Definition hS (p : N) (st : N) (i : input) (t : Z) (r : nat -> Z) : N * list (action Z) * nat :=
    match i with
    | InLocal m => (st, [ATimerSet 1 3%Z true], O)
    | InMsg m from => (st + 1, [], O)
    | InTimer n => (st, [ASend mq 6], O)
    end.
  Definition hM (p : N) (st : N) (i : input) (t : Z) (r : nat -> Z) : N * list (action Z) :=
    fst (hS p st i 0%Z (fun _ => 0%Z)).
  Definition script : list (@sop Z) :=
    [YAddNode 1; YAddNode 2; YAddProcess 5 1; YAddProcess 6 2; YNet (SSetCorrupt 1%Z); YSendLocal 5 mp].
  Definition rets : list sret := [RetUnit; RetUnit; RetUnit; RetUnit; RetUnit; RetUnit].
  Definition s0 : @simsys Z N :=
    match run_ops z_ops hS ini dr (fun l => l) 5 (sys0 z_ops) script with Ok (s, _) => s | Panic _ => sys0 z_ops end.
  Definition sysC : @mcsys Z (store Z) N :=
    match snapshot z_ops soC s0 with
    | Ok m => m
    | Panic _ => {| s_nodes := []; s_net := snap_net s0; s_events := Store.empty; s_depth := 0; s_mf := false; s_trace := [] |}
    end.

  Notation runC := (run soC Z.eqb (mc_gt0 z_ops) (mc_eq0 z_ops) 0%Z (fun _ sk => sk) N.eqb hM unit (fun _ _ => 0%Z) (fun _ => tt)).

  Lemma s0_run : run_ops z_ops hS ini dr (fun l => l) 5 (sys0 z_ops) script = Ok (s0, rets).
  Proof. vm_compute. reflexivity. Qed.
  Lemma s0_reachable : Reachable z_ops hS ini dr (fun l => l) s0.
  Proof. exists 5%nat, script, rets. exact s0_run. Qed.
  Lemma s0_installed : Installed s0.
  Proof.
    apply (registered_no_recover z_ops hS ini dr (fun l => l) 5 script s0 _ s0_run).
    intros n H. cbn [script In] in H. repeat (destruct H as [H|H]; [discriminate|]). exact H.
  Qed.
  Lemma s0_snapshot : snapshot z_ops soC s0 = Ok sysC.
  Proof. vm_compute. reflexivity. Qed.
  Lemma s0_rate : sn_corrupt (y_net s0) = 1%Z.
  Proof. vm_compute. reflexivity. Qed.
  (* only the timer is pending at the hand-off *)
  Lemma s0_live : map (fun e => c_of_q e) (q_live (y_q s0)) = [CTimer 5 1].
  Proof. vm_compute. reflexivity. Qed.
  Lemma s0_no_crash : NoCrash s0.
  Proof.
    intros nn nd H. apply (sget_some_in N.compare CmpSpec_N) in H.
    assert (F : forallb (fun p => negb (sd_crashed (snd p))) (y_nodes s0) = true) by (vm_compute; reflexivity).
    rewrite forallb_forall in F. specialize (F _ H). cbn [snd] in F. apply negb_true_iff in F. exact F.
  Qed.

  Lemma sent_is_mq m s d : Sent hM m s d -> m = mq.
  Proof.
    intros (st & inp & t & r & Hin). unfold hM in Hin. destruct inp; cbn [hS fst snd In] in Hin;
      repeat (destruct Hin as [Hin|Hin]; [try discriminate Hin; inversion Hin; reflexivity|]); contradiction.
  Qed.
  Lemma stable_mc s d : Stable hM mc s d.
  Proof. intros st inp t r _. exact Handoff3Ex.corrupt_mc. Qed.

  (* the side condition on corruption, with the rate really positive *)
  Lemma s0_possible : Possible_rate z_ops (sn_corrupt (y_net s0)).
  Proof. rewrite s0_rate. exists 0%Z. split; reflexivity. Qed.
  Lemma s0_corrside : CorrSide z_ops (mc_gt0 z_ops) hM s0.
  Proof.
    intros _. split; [vm_compute; reflexivity|]. split.
    - intros m s d Hs. rewrite (sent_is_mq m s d Hs), Handoff3Ex.corrupt_mq. apply stable_mc.
    - intros e mid m src sn dst dn He Hd. exfalso.
      assert (F : forallb (fun e => match q_data e with QMsg _ _ _ _ _ _ => false | QTimer _ _ => true end) (q_live (y_q s0)) = true)
        by (vm_compute; reflexivity).
      rewrite forallb_forall in F. specialize (F e He). cbv beta in F. rewrite Hd in F. discriminate F.
  Qed.

  Lemma handler_agree : forall proc st inp (t1 : Z) (r1 : nat -> Z) t2 r2, hM proc st inp t1 r1 = fst (hS proc st inp t2 r2).
  Proof. intros proc st inp t1 r1 t2 r2. unfold hM. destruct inp; reflexivity. Qed.
  Lemma handler_closed : forall proc st inp (time : Z) (rand : nat -> Z) m dst,
    In (ASend m dst) (snd (hM proc st inp time rand)) -> In dst (known_of s0).
  Proof.
    intros proc st inp time rand m dst Hin.
    assert (Hd : dst = 6).
    { unfold hM in Hin. destruct inp; cbn [hS fst snd In] in Hin;
        repeat (destruct Hin as [Hin|Hin]; [try discriminate Hin; inversion Hin; reflexivity|]); contradiction. }
    subst dst. assert (K : known_of s0 = [5; 6]) by (vm_compute; reflexivity). rewrite K. cbn [In]. tauto.
  Qed.
  Lemma hM_once_all : forall proc st inp (t : Z) (r : nat -> Z) n d once,
    In (ATimerSet n d once) (snd (hM proc st inp t r)) -> once = true.
  Proof.
    intros proc st inp t r n d once Hin. unfold hM in Hin. destruct inp; cbn [hS fst snd In] in Hin;
      repeat (destruct Hin as [Hin|Hin]; [try discriminate Hin; inversion Hin; reflexivity|]); contradiction.
  Qed.

  (* the checker explores the five states (timer; message pending; its corrupted form pending; the two deliveries)
     and says Ok *)
  Lemma checker_ok : CheckerSaysOk z_ops Z.eqb (mc_gt0 z_ops) (mc_eq0 z_ops) 0%Z (fun _ sk => sk) N.eqb hM unit (fun _ _ => 0%Z)
                       (fun _ => tt) sysC pr.
  Proof.
    assert (H : is_rok (runC cf pr sysC []) = true) by (vm_compute; reflexivity).
    exists cf. destruct (runC cf pr sysC []) as [[[sys' [stat coll|m tr| |t]] ss']|t] eqn:E; try discriminate H.
    exists sys', stat, coll, ss'. exact E.
  Qed.
  (* the checker did take the corruption alternative: among the checked states there is one whose pending message
     is the corrupted one *)
  Lemma checker_saw_corruption :
    match runC cf pr sysC [] with
    | Ok (_, _, ss) => existsb (fun st => existsb (fun ie => match snd ie with EMsg m _ _ _ => msg_eqb m mc | _ => false end)
                                                  (evs (st_events st))) (ss_checked _ ss)
    | Panic _ => false
    end = true.
  Proof. vm_compute. reflexivity. Qed.

  Theorem example_safe3 :
    forall l, SimRun z_ops hS dr s0 l ->
    forall l1 x l2, s0 :: l = l1 ++ x :: l2 ->
      ci (core_of (proj_of_sim x)) = None
      \/ exists y, In y l1 /\ ci (core_of (proj_of_sim y)) = None /\
                   (cg (core_of (proj_of_sim y)) <> None \/ cp (core_of (proj_of_sim y)) <> None).
  Proof.
    destruct pr_based as [Hsb Hpv].
    apply (C04_safe3_once z_ops hS ini dr (fun l => l) Z.eqb (mc_gt0 z_ops) (mc_eq0 z_ops) 0%Z (fun _ sk => sk) N.eqb hM unit
             (fun _ _ => 0%Z) (fun _ => tt) (fun _ => tt) z_laws (proj2 z_sub_laws)) with (s0 := s0) (sysC := sysC) (pr := pr)
             (inv_pv := fun p => ci (core_of p)) (goal_pv := fun p => cg (core_of p)) (prune_pv := fun p => cp (core_of p)).
    - intros i. split; reflexivity.
    - intros r0 x H1 H2. apply (below_rate_nonzero z_ops z_laws r0 x H1 H2).
    - exact handler_agree.
    - exact s0_reachable.
    - exact s0_installed.
    - right. exact s0_no_crash.
    - exact s0_corrside.
    - exact s0_snapshot.
    - exact handler_closed.
    - intros st1 st2 _. reflexivity.
    - exact Z_eqb_spec'.
    - exact N_eqb_spec'.
    - intros a b _. reflexivity.
    - exact Hsb.
    - exact Hpv.
    - exact hM_once_all.
    - exact checker_ok.
  Qed.

  (* not vacuous: the simulation fires the timer, corrupts the message it sends (the copy in flight is mc, not mq) and
     delivers it to process 6 *)
  Lemma example_run3 : exists s1 s2,
    SimRun z_ops hS dr s0 [s1; s2] /\ map (fun e => c_of_q e) (q_live (y_q s1)) = [CMsg mc 5 6] /\
    st6 (core_of (proj_of_sim s2)) = Some 1.
  Proof.
    destruct (step z_ops hS dr s0) as [[s1 b1]|t] eqn:E1; [|vm_compute in E1; discriminate E1].
    destruct (step z_ops hS dr s1) as [[s2 b2]|t] eqn:E2.
    2:{ vm_compute in E1. injection E1 as <- _. vm_compute in E2. discriminate E2. }
    exists s1, s2. split; [econstructor; [exact E1|econstructor; [exact E2|constructor]]|].
    vm_compute in E1. injection E1 as <- _. vm_compute in E2. injection E2 as <- _. split; vm_compute; reflexivity.
  Qed.
End HandoffSafe3Ex.

Print Assumptions HandoffSafe3Ex.example_safe3.
Print Assumptions HandoffSafe3Ex.example_run3.
