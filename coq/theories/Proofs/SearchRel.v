(* The search-correctness theorems of Proofs/SearchCorrect.v and Proofs/SearchShortest.v, with the compatibility
   hypotheses RELATIVISED to an invariant [Good : St -> Prop] on states that is closed under [expand].

   Why: for the model checker (Model/McRun.v) the compatibility of mc_expand with the checker's state equality holds
   only on the states satisfying an invariant (Proofs/EqBisim.v); SearchCorrect.v assumes it for ALL states.

   Hypotheses of Section SearchRel
     veq_refl / veq_sym / veq_trans   veq is an equivalence (global)
     good_expand     forall s l, Good s -> vk s = Ok VGo -> expand s = Ok l -> Forall Good l
                     (weaker than closure under all successors: only states whose verdict is VGo are ever expanded,
                      so Good may e.g. contain "reachable from the root" - used by Proofs/McSearch.v)
     vk_compat       forall s t, Good s -> Good t -> veq s t = true -> vk s = vk t
     expand_compat   forall s t l, Good s -> Good t -> veq s t = true -> expand s = Ok l ->
                       exists l', expand t = Ok l' /\ forall x, In x l -> exists y, In y l' /\ veq x y = true
   (collect_compat is not needed by any theorem - as in SearchCorrect.v - and is not assumed.)

   Method: the structural invariants of SearchCorrect.v (run_vis_good: GoodEnd, run_tree_good: TreeEnd, CollInv,
   StatInv) do not depend on the compatibility hypotheses at all (after the section is closed they do not take them),
   so they are reused unchanged.  The compatibility hypotheses enter in exactly two places, which are re-proved here:
     closed_complete  (a Closed pair (V, C) covers everything reachable from a covered root)   -> closed_complete_rel
     level_up / bfs_vis_shortest of SearchShortest.v (the level invariant of Bfs)             -> *_rel
   Both need: the CHECKED states (C) are Good and the root is Good; reachable states are then Good (reach_good).

   Definitions are those of SearchCorrect.v (vk, Reach, ReachN, Closed, closedC, NoDupV, cnt, count_status,
   final_status, counted_status, run_roots) - not copies.  GoodL l := every element of l is Good.

   Theorems (run := run_strategy ... vm st fuel s0, start s0 := mark_visited ss_empty s0):
     reach_good                 Good s0 -> Reach s0 x -> Good x
     search_sound_rel           run (start s0) = ODone ss' -> x in ss_checked ss' -> Reach s0 x /\ vk x in {VFinal, VGo}
     search_error_sound_rel     run (start s0) = OErr m s _ -> Reach s0 s /\ vk s = Ok (VErr m)
                                (these two hold WITHOUT Good s0 and without the compatibility hypotheses; also for any
                                 staged start: run_sound_gen)
     search_complete_rel        Good s0 -> run (start s0) = ODone ss' -> Reach s0 x -> exists y in ss_checked ss', veq x y
     search_verdict_rel         Good s0 -> run (start s0) = ODone _ -> Reach s0 x -> vk x <> Ok (VErr m)
     collected_exact_rel, collected_exact_err_rel     (no Good needed: identical to SearchCorrect)
     status_counts_rel, status_counts_counted_rel, status_counts_off_rel   (no Good needed)
     modes_agree_states_rel, modes_agree_verdict_rel, modes_agree_rel, bfs_dfs_same_states_rel, bfs_dfs_same_verdict_rel
                                Good s0 -> as in SearchCorrect
     search_master_rel          Good s0 -> (vm <> VDisabled -> Closed V0 C0 /\ GoodL C0) -> ...
     staged_run_rel             vm <> VDisabled -> Good s0 -> Closed V0 C0 -> GoodL C0 -> run (mark ss0 s0) = ODone ss' ->
                                Closed V' C' /\ GoodL C' /\ incl V0 V' /\ (new part: reachable, ok verdict) /\ complete
     staged_run_error_rel       (no Good needed)
     staged_run_disabled_rel    (no Good needed: identical to SearchCorrect)
     run_roots_gen_rel, union_of_roots_rel    GoodL roots -> ...
     bfs_shortest_rel           Good s0 -> the error reported by Bfs is at minimal depth
   Nothing had to be weakened; no theorem of the two files is missing. *)
From Coq Require Import List NArith Arith Bool Lia.
From ASV Require Import Base.Util Model.Search Proofs.SearchCorrect Proofs.SearchShortest.
Import ListNotations.

#[local] Arguments ss_visited {St} _.
#[local] Arguments ss_statuses {St} _.
#[local] Arguments ss_collected {St} _.
#[local] Arguments ss_checked {St} _.

Section SearchRel.
  Variable St : Type.
  Variable veq : St -> St -> bool.
  Variable expand : St -> result (list St).
  Variable enabled_ok : St -> result unit.
  Variable no_events : St -> result bool.
  Variable p_collect : St -> bool.
  Variable p_inv : St -> option N.
  Variable p_goal : St -> option N.
  Variable p_prune : St -> option N.
  Variable debug : bool.

  Variable Good : St -> Prop.

  Local Notation vkS := (vk St no_events p_inv p_goal p_prune).
  Local Notation ReachS := (Reach St expand no_events p_inv p_goal p_prune).
  Local Notation ReachNS := (ReachN St expand no_events p_inv p_goal p_prune).
  Local Notation closedCS := (closedC St veq expand no_events p_inv p_goal p_prune).
  Local Notation ClosedS := (Closed St veq expand no_events p_inv p_goal p_prune).
  Local Notation sstateT := (sstate St).
  Local Notation memV := (Search.mem St veq).
  Local Notation checkS := (check_state St veq no_events p_collect p_inv p_goal p_prune debug).
  Local Notation css := (check_state_spec St veq no_events p_collect p_inv p_goal p_prune debug).

  Hypothesis veq_refl : forall s, veq s s = true.
  Hypothesis veq_sym : forall s t, veq s t = true -> veq t s = true.
  Hypothesis veq_trans : forall s t u, veq s t = true -> veq t u = true -> veq s u = true.

  (* closed under the successors the search follows: only states with verdict VGo are expanded *)
  Hypothesis good_expand : forall s l, Good s -> vkS s = Ok VGo -> expand s = Ok l -> Forall Good l.
  Hypothesis vk_compat : forall s t, Good s -> Good t -> veq s t = true -> vkS s = vkS t.
  Hypothesis expand_compat : forall s t l, Good s -> Good t -> veq s t = true -> expand s = Ok l ->
    exists l', expand t = Ok l' /\ (forall x, In x l -> exists y, In y l' /\ veq x y = true).

  Definition GoodL (l : list St) : Prop := forall x, In x l -> Good x.

  Lemma GoodL_nil : GoodL [].
  Proof. intros x []. Qed.
  Lemma GoodL_app a b : GoodL a -> GoodL b -> GoodL (a ++ b).
  Proof. intros Ha Hb x Hx. apply in_app_or in Hx as [Hx|Hx]; auto. Qed.

  Lemma reach_good s0 x : Good s0 -> ReachS s0 x -> Good x.
  Proof.
    intros G H. induction H as [|s l s' Hs IH Hvk He Hin]; [exact G|].
    pose proof (good_expand _ _ IH Hvk He) as F. rewrite Forall_forall in F. apply F, Hin.
  Qed.
  Lemma reachN_good s0 n x : Good s0 -> ReachNS s0 n x -> Good x.
  Proof. intros G H. eapply reach_good; [exact G|]. eapply ReachN_Reach; eauto. Qed.

  (* ---- the two places where compatibility is used ---- *)
  Lemma closed_complete_rel V C r :
    ClosedS V C -> GoodL C -> Good r -> (exists c, In c C /\ veq r c = true) ->
    forall x, ReachS r x -> exists y, In y C /\ veq x y = true.
  Proof.
    intros [HV HC] HG Gr Hr x Hx. induction Hx as [|s l s' Hs IH Hvk He Hin]; [exact Hr|].
    destruct IH as (y & Hy & Esy).
    assert (Gs : Good s) by (eapply reach_good; eauto).
    assert (Gy : Good y) by (apply HG, Hy).
    destruct (HC y Hy) as [Hf|(_ & l' & He' & Hl')].
    { rewrite <- (vk_compat _ _ Gs Gy Esy), Hvk in Hf. discriminate. }
    destruct (expand_compat _ _ _ Gs Gy Esy He) as (l'' & He'' & Hcov).
    rewrite He' in He''. injection He'' as <-.
    destruct (Hcov s' Hin) as (y' & Hy' & E1).
    destruct (Hl' y' Hy') as (v & Hv & E2).
    destruct (HV v Hv) as (c & Hc & E3).
    exists c. split; [exact Hc|]. eapply veq_trans; [exact E1|]. eapply veq_trans; eauto.
  Qed.

  Lemma closed_no_error_rel V C r :
    ClosedS V C -> GoodL C -> Good r -> (exists c, In c C /\ veq r c = true) ->
    forall x, ReachS r x -> forall m, vkS x <> Ok (VErr m).
  Proof.
    intros HCl HG Gr Hr x Hx m Hm. destruct (closed_complete_rel _ _ _ HCl HG Gr Hr x Hx) as (y & Hy & E).
    rewrite (vk_compat _ _ (reach_good _ _ Gr Hx) (HG y Hy) E) in Hm.
    destruct (closedC_ok _ _ _ _ _ _ _ _ _ (proj2 HCl y Hy)) as [H|H]; congruence.
  Qed.

  (* ================= per visited-mode section ================= *)
  Section Mode.
  Variable vm : vmode.
  Local Notation mk := (mark_visited St veq vm).
  Local Notation runM := (run_strategy St veq expand enabled_ok no_events p_collect p_inv p_goal p_prune debug vm).
  Local Notation startM s0 := (mk (ss_empty St) s0).
  Local Notation run_rootsS := (run_roots St veq expand enabled_ok no_events p_collect p_inv p_goal p_prune debug vm).

  (* soundness of a (staged) run: no compatibility, no Good *)
  Lemma run_sound_gen st fuel s0 ss0 :
    (vm <> VDisabled -> ClosedS (ss_visited ss0) (ss_checked ss0)) ->
    match runM st fuel s0 (mk ss0 s0) with
    | ODone ss' => exists Cn, ss_checked ss' = Cn ++ ss_checked ss0 /\ In s0 Cn /\
                     forall c, In c Cn -> ReachS s0 c /\ (vkS c = Ok VFinal \/ vkS c = Ok VGo)
    | OErr m s _ => ReachS s0 s /\ vkS s = Ok (VErr m)
    | _ => True
    end.
  Proof.
    intros HCl. destruct (vm_dec vm) as [Hoff|Hon].
    - pose proof (run_tree_good St veq expand enabled_ok no_events p_collect p_inv p_goal p_prune debug vm
                    Hoff s0 st ss0 fuel) as H.
      destruct (runM st fuel s0 (mk ss0 s0)) as [ss'|m s ss'| |]; auto.
      destruct H as (_ & Cn & E & Hs & Hn). exists Cn. split; [exact E|]. split; [exact Hs|].
      intros c Hc. destruct (Hn c Hc) as [H1 [H2|[H2 _]]]; auto.
    - pose proof (run_vis_good St veq expand enabled_ok no_events p_collect p_inv p_goal p_prune debug veq_refl vm
                    Hon s0 st ss0 fuel (HCl Hon)) as H.
      destruct (runM st fuel s0 (mk ss0 s0)) as [ss'|m s ss'| |]; auto.
      destruct H as [Hv (Cn & E & Hs & Hr) HCl']. exists Cn. split; [exact E|]. split; [exact Hs|].
      intros c Hc. split; [apply Hr, Hc|].
      apply (closedC_ok St veq expand no_events p_inv p_goal p_prune (ss_visited ss')), (proj2 HCl').
      rewrite E. apply in_or_app. now left.
  Qed.

  (* [Done s0 ss0 ss']: what a finished run from root s0, started in state (mark_visited ss0 s0), has achieved *)
  Definition Done (s0 : St) (ss0 ss' : sstateT) : Prop :=
    exists Cn, ss_checked ss' = Cn ++ ss_checked ss0 /\
      (forall c, In c Cn -> ReachS s0 c /\ (vkS c = Ok VFinal \/ vkS c = Ok VGo)) /\
      (forall x, ReachS s0 x -> exists y, In y (ss_checked ss') /\ veq x y = true).

  Theorem search_master_rel st fuel s0 ss0 :
    Good s0 ->
    (vm <> VDisabled -> ClosedS (ss_visited ss0) (ss_checked ss0) /\ GoodL (ss_checked ss0)) ->
    match runM st fuel s0 (mk ss0 s0) with
    | ODone ss' => Done s0 ss0 ss'
    | OErr m s _ => ReachS s0 s /\ vkS s = Ok (VErr m)
    | _ => True
    end.
  Proof.
    intros G0 HCl. destruct (vm_dec vm) as [Hoff|Hon].
    - pose proof (run_tree_good St veq expand enabled_ok no_events p_collect p_inv p_goal p_prune debug vm
                    Hoff s0 st ss0 fuel) as H.
      destruct (runM st fuel s0 (mk ss0 s0)) as [ss'|m s ss'| |]; auto.
      destruct (TreeEnd_complete _ _ _ _ _ _ _ _ _ H) as (Cn & E & H1 & H2).
      exists Cn. split; [exact E|]. split; [exact H1|].
      intros x Hx. exists x. split; [|apply veq_refl]. rewrite E. apply in_or_app. left. apply H2, Hx.
    - destruct (HCl Hon) as [HC0 HG0].
      pose proof (run_vis_good St veq expand enabled_ok no_events p_collect p_inv p_goal p_prune debug veq_refl vm
                    Hon s0 st ss0 fuel HC0) as H.
      destruct (runM st fuel s0 (mk ss0 s0)) as [ss'|m s ss'| |]; auto.
      destruct H as [Hv (Cn & E & Hs & Hr) HCl']. exists Cn. split; [exact E|]. split.
      + intros c Hc. split; [apply Hr, Hc|].
        apply (closedC_ok St veq expand no_events p_inv p_goal p_prune (ss_visited ss')), (proj2 HCl').
        rewrite E. apply in_or_app. now left.
      + apply (closed_complete_rel _ _ _ HCl').
        * rewrite E. apply GoodL_app; [|exact HG0]. intros c Hc. eapply reach_good; [exact G0|apply Hr, Hc].
        * exact G0.
        * exists s0. split; [|apply veq_refl]. rewrite E. apply in_or_app. now left.
  Qed.

  Lemma Closed_GoodL_nil : vm <> VDisabled -> ClosedS (ss_visited (ss_empty St)) (ss_checked (ss_empty St)) /\
                                              GoodL (ss_checked (ss_empty St)).
  Proof. intros _. split; [apply Closed_nil|apply GoodL_nil]. Qed.

  (* T1 (needs neither Good s0 nor compatibility) *)
  Theorem search_sound_rel st fuel s0 ss' :
    runM st fuel s0 (startM s0) = ODone ss' ->
    forall x, In x (ss_checked ss') -> ReachS s0 x /\ (vkS x = Ok VFinal \/ vkS x = Ok VGo).
  Proof.
    intros H x Hx. pose proof (run_sound_gen st fuel s0 (ss_empty St) (fun _ => Closed_nil _ _ _ _ _ _ _)) as G.
    rewrite H in G. destruct G as (Cn & E & _ & H1).
    cbn [ss_checked ss_empty] in E. rewrite app_nil_r in E. rewrite E in Hx. apply H1, Hx.
  Qed.

  (* T2 *)
  Theorem search_complete_rel st fuel s0 ss' :
    Good s0 ->
    runM st fuel s0 (startM s0) = ODone ss' ->
    forall x, ReachS s0 x -> exists y, In y (ss_checked ss') /\ veq x y = true.
  Proof.
    intros G0 H. pose proof (search_master_rel st fuel s0 (ss_empty St) G0 Closed_GoodL_nil) as G.
    rewrite H in G. destruct G as (Cn & _ & _ & H2). exact H2.
  Qed.

  (* T3 (needs neither Good s0 nor compatibility) *)
  Theorem search_error_sound_rel st fuel s0 m s ss' :
    runM st fuel s0 (startM s0) = OErr m s ss' -> ReachS s0 s /\ vkS s = Ok (VErr m).
  Proof.
    intros H. pose proof (run_sound_gen st fuel s0 (ss_empty St) (fun _ => Closed_nil _ _ _ _ _ _ _)) as G.
    rewrite H in G. exact G.
  Qed.

  (* T4 *)
  Theorem search_verdict_rel st fuel s0 ss' :
    Good s0 ->
    runM st fuel s0 (startM s0) = ODone ss' ->
    forall x, ReachS s0 x -> forall m, vkS x <> Ok (VErr m).
  Proof.
    intros G0 H x Hx m Hm. destruct (search_complete_rel _ _ _ _ G0 H x Hx) as (y & Hy & E).
    destruct (search_sound_rel _ _ _ _ H y Hy) as [Hry [Hv|Hv]];
      rewrite (vk_compat _ _ (reach_good _ _ G0 Hx) (reach_good _ _ G0 Hry) E) in Hm; congruence.
  Qed.

  (* T5: the collected states (no compatibility involved: SearchCorrect.collected_exact) *)
  Theorem collected_exact_rel st fuel s0 ss' :
    runM st fuel s0 (startM s0) = ODone ss' ->
    (forall c, In c (ss_collected ss') -> In c (ss_checked ss') /\ p_collect c = true) /\
    (forall x, In x (ss_checked ss') -> p_collect x = true ->
               exists c, In c (ss_collected ss') /\ veq x c = true) /\
    NoDupV St veq (ss_collected ss').
  Proof.
    apply (collected_exact St veq expand enabled_ok no_events p_collect p_inv p_goal p_prune debug veq_refl veq_sym).
  Qed.
  Theorem collected_exact_err_rel st fuel s0 m s ss' :
    runM st fuel s0 (startM s0) = OErr m s ss' ->
    (forall c, In c (ss_collected ss') -> In c (ss_checked ss') /\ p_collect c = true) /\
    (forall x, In x (ss_checked ss') -> p_collect x = true ->
               exists c, In c (ss_collected ss') /\ veq x c = true) /\
    NoDupV St veq (ss_collected ss').
  Proof.
    apply (collected_exact_err St veq expand enabled_ok no_events p_collect p_inv p_goal p_prune debug veq_refl veq_sym).
  Qed.

  (* T6: the status counters *)
  Theorem status_counts_rel st fuel s0 ss' :
    debug = true -> runM st fuel s0 (startM s0) = ODone ss' ->
    forall s, cnt s (ss_statuses ss') = count_status St (final_status St p_goal p_prune) s (ss_checked ss').
  Proof.
    intros Hd H s.
    pose proof (status_counts_counted St veq expand enabled_ok no_events p_collect p_inv p_goal p_prune debug
                  vm st fuel s0 Hd) as G.
    rewrite H in G. rewrite G. unfold count_status. f_equal. f_equal. apply filter_ext_in. intros x Hx.
    unfold counted_status. destruct (search_sound_rel _ _ _ _ H x Hx) as [_ Hv].
    rewrite (vk_ok_inv _ _ _ _ _ _ Hv). reflexivity.
  Qed.
  Theorem status_counts_counted_rel st fuel s0 :
    debug = true ->
    match runM st fuel s0 (startM s0) with
    | ODone ss' | OErr _ _ ss' =>
        forall s, cnt s (ss_statuses ss') = count_status St (counted_status St p_inv p_goal p_prune) s (ss_checked ss')
    | _ => True
    end.
  Proof.
    intros Hd.
    pose proof (status_counts_counted St veq expand enabled_ok no_events p_collect p_inv p_goal p_prune debug
                  vm st fuel s0 Hd) as G.
    destruct (runM st fuel s0 (startM s0)); auto.
  Qed.
  Theorem status_counts_off_rel st fuel s0 :
    debug = false ->
    match runM st fuel s0 (startM s0) with
    | ODone ss' | OErr _ _ ss' => ss_statuses ss' = []
    | _ => True
    end.
  Proof. apply status_counts_off. Qed.

  (* ---- T8: staged runs sharing the visited cache ---- *)
  Theorem staged_run_rel st fuel s0 ss0 ss' :
    vm <> VDisabled -> Good s0 ->
    ClosedS (ss_visited ss0) (ss_checked ss0) -> GoodL (ss_checked ss0) ->
    runM st fuel s0 (mk ss0 s0) = ODone ss' ->
    ClosedS (ss_visited ss') (ss_checked ss') /\ GoodL (ss_checked ss') /\
    incl (ss_visited ss0) (ss_visited ss') /\
    (exists Cn, ss_checked ss' = Cn ++ ss_checked ss0 /\ In s0 Cn /\
                forall c, In c Cn -> ReachS s0 c /\ (vkS c = Ok VFinal \/ vkS c = Ok VGo)) /\
    (forall x, ReachS s0 x -> exists y, In y (ss_checked ss') /\ veq x y = true).
  Proof.
    intros Hon G0 HCl HG0 H.
    pose proof (run_vis_good St veq expand enabled_ok no_events p_collect p_inv p_goal p_prune debug veq_refl vm
                  Hon s0 st ss0 fuel HCl) as G.
    rewrite H in G. destruct G as [Hv (Cn & E & Hs & Hr) HCl'].
    assert (HG' : GoodL (ss_checked ss')).
    { rewrite E. apply GoodL_app; [|exact HG0]. intros c Hc. eapply reach_good; [exact G0|apply Hr, Hc]. }
    split; [exact HCl'|]. split; [exact HG'|]. split; [exact Hv|]. split.
    - exists Cn. split; [exact E|]. split; [exact Hs|]. intros c Hc. split; [apply Hr, Hc|].
      apply (closedC_ok St veq expand no_events p_inv p_goal p_prune (ss_visited ss')), (proj2 HCl').
      rewrite E. apply in_or_app. now left.
    - apply (closed_complete_rel _ _ _ HCl' HG' G0). exists s0. split; [|apply veq_refl].
      rewrite E. apply in_or_app. now left.
  Qed.

  Theorem staged_run_error_rel st fuel s0 ss0 m s ss' :
    (vm <> VDisabled -> ClosedS (ss_visited ss0) (ss_checked ss0)) ->
    runM st fuel s0 (mk ss0 s0) = OErr m s ss' -> ReachS s0 s /\ vkS s = Ok (VErr m).
  Proof. intros HCl H. pose proof (run_sound_gen st fuel s0 ss0 HCl) as G. rewrite H in G. exact G. Qed.

  Theorem staged_run_disabled_rel st fuel s0 ss0 ss' :
    vm = VDisabled ->
    runM st fuel s0 (mk ss0 s0) = ODone ss' ->
    ss_visited ss' = ss_visited ss0 /\
    exists Cn, ss_checked ss' = Cn ++ ss_checked ss0 /\
               (forall c, In c Cn -> ReachS s0 c /\ (vkS c = Ok VFinal \/ vkS c = Ok VGo)) /\
               (forall x, ReachS s0 x -> In x Cn).
  Proof.
    intros Hoff H.
    pose proof (run_tree_good St veq expand enabled_ok no_events p_collect p_inv p_goal p_prune debug vm
                  Hoff s0 st ss0 fuel) as G.
    rewrite H in G. split; [exact (proj1 G)|]. apply (TreeEnd_complete _ _ _ _ _ _ _ _ _ G).
  Qed.

  (* runs from several roots, threading the strategy state through Strategy::reset (SearchCorrect.run_roots) *)
  Lemma run_roots_gen_rel st fuel roots : forall ss0 ss',
    GoodL roots ->
    (vm <> VDisabled -> ClosedS (ss_visited ss0) (ss_checked ss0) /\ GoodL (ss_checked ss0)) ->
    run_rootsS st fuel roots ss0 = Some ss' ->
    (vm <> VDisabled -> ClosedS (ss_visited ss') (ss_checked ss') /\ GoodL (ss_checked ss') /\
                        incl (ss_visited ss0) (ss_visited ss')) /\
    (exists Cn, ss_checked ss' = Cn ++ ss_checked ss0 /\
        (forall r, In r roots -> In r Cn) /\
        (forall y, In y Cn -> (exists r, In r roots /\ ReachS r y) /\ (vkS y = Ok VFinal \/ vkS y = Ok VGo))) /\
    (forall r, In r roots -> forall x, ReachS r x -> exists y, In y (ss_checked ss') /\ veq x y = true).
  Proof.
    induction roots as [|r rs IH]; intros ss0 ss' HGr HCl H; cbn [run_roots] in H.
    - injection H as <-. split; [intros Hon; destruct (HCl Hon); split; [auto|split; [auto|apply incl_refl]]|]. split.
      + exists []. split; [reflexivity|]. split; [intros r []|intros y []].
      + intros r [].
    - destruct (runM st fuel r (mk (reset St ss0) r)) as [ss1|m b ss1| |] eqn:Er; try discriminate.
      assert (Gr : Good r) by (apply HGr; now left).
      assert (HGrs : GoodL rs) by (intros y Hy; apply HGr; now right).
      assert (HCl0 : vm <> VDisabled -> ClosedS (ss_visited (reset St ss0)) (ss_checked (reset St ss0))
                                        /\ GoodL (ss_checked (reset St ss0))) by exact HCl.
      pose proof (search_master_rel st fuel r _ Gr HCl0) as G. rewrite Er in G.
      destruct G as (C1 & E1 & G1 & G2). cbn [reset ss_checked] in E1.
      pose proof (run_sound_gen st fuel r (reset St ss0) (fun Hon => proj1 (HCl0 Hon))) as Gs. rewrite Er in Gs.
      destruct Gs as (C1' & E1' & Hr1 & _). cbn [reset ss_checked] in E1'.
      rewrite E1 in E1'. apply app_inv_tail in E1'. subst C1'.
      assert (HCl1 : vm <> VDisabled -> ClosedS (ss_visited ss1) (ss_checked ss1) /\ GoodL (ss_checked ss1)
                                        /\ incl (ss_visited ss0) (ss_visited ss1)).
      { intros Hon. destruct (HCl0 Hon) as [A0 B0].
        destruct (staged_run_rel _ _ _ _ _ Hon Gr A0 B0 Er) as (A & B & C & _). split; [exact A|]. split; [exact B|exact C]. }
      destruct (IH ss1 ss' HGrs (fun Hon => conj (proj1 (HCl1 Hon)) (proj1 (proj2 (HCl1 Hon)))) H)
        as (K1 & (C2 & E2 & K2 & K3) & K4).
      split; [|split].
      + intros Hon. destruct (K1 Hon) as (A & B & C). split; [exact A|]. split; [exact B|].
        eapply incl_tran; [apply (HCl1 Hon)|exact C].
      + exists (C2 ++ C1). split; [rewrite E2, E1; apply app_assoc|]. split.
        * intros r' [<-|Hr']; apply in_or_app; [now right|left; apply K2, Hr'].
        * intros y Hy. apply in_app_or in Hy as [Hy|Hy].
          -- destruct (K3 y Hy) as [(r' & Hr' & Hy') Hv]. split; [exists r'; split; [now right|exact Hy']|exact Hv].
          -- destruct (G1 y Hy) as [Hy' Hv]. split; [exists r; split; [now left|exact Hy']|exact Hv].
      + intros r' [<-|Hr']; [|apply K4, Hr'].
        intros x Hx. destruct (G2 x Hx) as (y & Hy & E). exists y. split; [|exact E].
        rewrite E2. apply in_or_app. now right.
  Qed.

  Theorem union_of_roots_rel st fuel roots ss' :
    GoodL roots ->
    run_rootsS st fuel roots (ss_empty St) = Some ss' ->
    (forall r, In r roots -> forall x, ReachS r x -> exists y, In y (ss_checked ss') /\ veq x y = true) /\
    (forall y, In y (ss_checked ss') -> (exists r, In r roots /\ ReachS r y) /\ (vkS y = Ok VFinal \/ vkS y = Ok VGo)) /\
    (forall r, In r roots -> In r (ss_checked ss')) /\
    (vm <> VDisabled -> ClosedS (ss_visited ss') (ss_checked ss') /\ GoodL (ss_checked ss')).
  Proof.
    intros HGr H.
    destruct (run_roots_gen_rel st fuel roots (ss_empty St) ss' HGr Closed_GoodL_nil H) as (K1 & (Cn & E & K2 & K3) & K4).
    cbn [ss_checked ss_empty] in E. rewrite app_nil_r in E. subst Cn.
    split; [exact K4|]. split; [exact K3|]. split; [exact K2|].
    intros Hon. destruct (K1 Hon) as (A & B & _). split; [exact A|exact B].
  Qed.

  (* ================= T9: the error reported by Bfs is at minimal depth ================= *)
  Local Notation addN := (add_new St veq vm).
  Local Notation bfsM := (bfs St veq expand no_events p_collect p_inv p_goal p_prune debug vm).
  Local Notation LInvS := (LInv St veq expand no_events p_inv p_goal p_prune).
  Local Notation ShortestS := (Shortest St expand no_events p_inv p_goal p_prune).

  Section Vis.
    Hypothesis vm_on : vm <> VDisabled.
    Variable s0 : St.
    Hypothesis G0 : Good s0.

    Lemma level_up_rel d Q2 ss : LInvS s0 d [] Q2 ss -> GoodL (ss_checked ss) -> LInvS s0 (S d) Q2 [] ss.
    Proof.
      intros [Lq1 Lq2 Lm Lc Lk] HG. split.
      - exact Lq2.
      - intros x [].
      - intros k x Hk Hx. assert (Hk' : (k <= d)%nat \/ k = S d) by lia. destruct Hk' as [Hk'| ->].
        { exact (Lm k x Hk' Hx). }
        inversion Hx as [|n' p l x' Hp Hvp Hep Hin]; subst.
        destruct (Lm d p (le_n d) Hp) as (v & Hv & Epv).
        assert (Gp : Good p) by (eapply reachN_good; eauto).
        destruct (Lc v Hv) as [Hq|Hc].
        + cbn [app] in Hq. destruct (Lq2 v Hq) as [_ Hf].
          apply veq_sym in Epv. rewrite (Hf d p ltac:(lia) Hp) in Epv. discriminate.
        + assert (Gv : Good v) by (apply HG, Hc).
          destruct (Lk v Hc) as [Hfin|(_ & l' & He' & Hl')].
          { rewrite <- (vk_compat _ _ Gp Gv Epv), Hvp in Hfin. discriminate. }
          destruct (expand_compat _ _ _ Gp Gv Epv Hep) as (l'' & He'' & Hcov).
          rewrite He' in He''. injection He'' as <-.
          destruct (Hcov x Hin) as (y' & Hy' & E1). destruct (Hl' y' Hy') as (v' & Hv' & E2).
          exists v'. split; [exact Hv'|]. eapply veq_trans; eauto.
      - rewrite app_nil_r. exact Lc.
      - exact Lk.
    Qed.

    Lemma bfs_vis_shortest_rel fuel : forall q ss d Q1 Q2,
      q = Q1 ++ Q2 -> LInvS s0 d Q1 Q2 ss -> GoodL (ss_checked ss) ->
      match bfsM fuel q ss with
      | OErr m s _ => ShortestS s0 m s
      | _ => True
      end.
    Proof.
      induction fuel as [|f IH]; intros q ss d Q1 Q2 Eq L HG; cbn [bfs]; [exact I|].
      destruct q as [|s q']; [exact I|].
      assert (N : exists d' Q1' Q2', q' = Q1' ++ Q2' /\ LInvS s0 d' (s :: Q1') Q2' ss).
      { destruct Q1 as [|s1 Q1'].
        - cbn [app] in Eq. subst Q2. exists (S d), q', []. split; [rewrite app_nil_r; reflexivity|].
          apply level_up_rel; assumption.
        - cbn [app] in Eq. injection Eq as <- ->. exists d, Q1', Q2. split; [reflexivity|exact L]. }
      clear d Q1 Q2 Eq L. destruct N as (d & Q1 & Q2 & Eq & [Lq1 Lq2 Lm Lc Lk]).
      destruct (checkS ss s) as [[ss1 v]|t] eqn:Ec; [|exact I].
      apply css in Ec as (Hvk & HV & HC & _).
      destruct (Lq1 s (or_introl eq_refl)) as [Hrs Hfs].
      assert (Gs : Good s) by (eapply reachN_good; eauto).
      assert (HG1 : GoodL (ss_checked ss1)).
      { rewrite HC. intros c [<-|Hc]; [exact Gs|apply HG, Hc]. }
      destruct v as [m| |].
      - exists d. split; [exact Hrs|]. split; [exact Hvk|].
        intros k x Hk Hx m' Hm'.
        destruct (Lm k x ltac:(lia) Hx) as (v & Hv & Exv).
        destruct (Lc v Hv) as [Hq|Hc].
        + apply veq_sym in Exv. apply in_app_or in Hq as [Hq|Hq].
          * destruct (Lq1 v Hq) as [_ Hf]. rewrite (Hf k x Hk Hx) in Exv. discriminate.
          * destruct (Lq2 v Hq) as [_ Hf]. rewrite (Hf k x ltac:(lia) Hx) in Exv. discriminate.
        + rewrite (vk_compat _ _ (reachN_good _ _ _ G0 Hx) (HG v Hc) Exv) in Hm'.
          destruct (closedC_ok _ _ _ _ _ _ _ _ _ (Lk v Hc)) as [H|H]; congruence.
      - apply (IH q' ss1 d Q1 Q2 Eq); [|exact HG1]. split.
        + intros x Hx. apply Lq1. now right.
        + exact Lq2.
        + rewrite HV. exact Lm.
        + rewrite HV, HC. intros v Hv. destruct (Lc v Hv) as [[<-|Hq]|Hc].
          * right. now left.
          * now left.
          * right. now right.
        + rewrite HV, HC. intros c [<-|Hc]; [now left|apply Lk, Hc].
      - destruct (expand s) as [succs|t] eqn:Ee; [|exact I].
        destruct (addN succs ss1 q') as [ss2 q2] eqn:Ea.
        destruct (add_new_vis St veq veq_refl vm vm_on _ _ _ _ _ Ea) as (nq & A & Bq & Cq & D & F & G & K).
        rewrite HV in *. rewrite HC in K.
        apply (IH q2 ss2 d Q1 (Q2 ++ nq)); [rewrite A, Eq, app_assoc; reflexivity| |rewrite K, <- HC; exact HG1].
        split.
        + intros x Hx. apply Lq1. now right.
        + intros x Hx. apply in_app_or in Hx as [Hx|Hx]; [exact (Lq2 x Hx)|]. split.
          * eapply RNS; eauto.
          * intros k y Hk Hy. destruct (veq x y) eqn:Exy; [|reflexivity]. exfalso.
            destruct (Lm k y ltac:(lia) Hy) as (v & Hv & Eyv).
            pose proof (proj1 (mem_false St veq x _) (Cq x Hx) v Hv) as Hxv.
            rewrite (veq_trans _ _ _ Exy Eyv) in Hxv. discriminate.
        + intros k x Hk Hx. destruct (Lm k x Hk Hx) as (v & Hv & E).
          exists v. split; [apply D, Hv|exact E].
        + rewrite K. intros v Hv. destruct (F v Hv) as [Hv0|Hv0].
          * destruct (Lc v Hv0) as [[<-|Hq]|Hc].
            -- right. now left.
            -- left. apply in_app_or in Hq as [Hq|Hq]; apply in_or_app; [now left|right; apply in_or_app; now left].
            -- right. now right.
          * left. apply in_or_app. right. apply in_or_app. now right.
        + rewrite K. intros c [<-|Hc].
          * right. split; [exact Hvk|]. exists succs. split; [exact Ee|exact G].
          * eapply closedC_mono; [exact D|]. apply Lk, Hc.
    Qed.

    Lemma bfs_vis_shortest_start_rel fuel :
      match bfsM fuel [s0] (mk (ss_empty St) s0) with
      | OErr m s _ => ShortestS s0 m s
      | _ => True
      end.
    Proof.
      apply (bfs_vis_shortest_rel fuel [s0] _ O [s0] []); [reflexivity| |].
      - rewrite (mk_on St veq vm vm_on). cbn. split; cbn.
        + intros x [<-|[]]. split; [constructor|]. intros k y Hk. lia.
        + intros x [].
        + intros k x Hk Hx. assert (k = O) by lia. subst k.
          apply (ReachN_0 St expand no_events p_inv p_goal p_prune) in Hx. subst x.
          exists s0. split; [now left|apply veq_refl].
        + intros v [<-|[]]. left. now left.
        + intros c [].
      - destruct (mk_other St veq vm (ss_empty St) s0) as (E & _). rewrite E. apply GoodL_nil.
    Qed.
  End Vis.

  (* T9 *)
  Theorem bfs_shortest_rel fuel s0 m s ss' :
    Good s0 ->
    runM Bfs fuel s0 (mk (ss_empty St) s0) = OErr m s ss' ->
    exists n, ReachNS s0 n s /\ vkS s = Ok (VErr m) /\
              forall k x, (k < n)%nat -> ReachNS s0 k x -> forall m', vkS x <> Ok (VErr m').
  Proof.
    cbn [run_strategy]. intros G0 H. destruct (vm_dec vm) as [Hoff|Hon].
    - pose proof (bfs_tree_shortest_start St veq expand no_events p_collect p_inv p_goal p_prune debug vm s0
                    Hoff fuel) as G.
      rewrite H in G. exact G.
    - pose proof (bfs_vis_shortest_start_rel Hon s0 G0 fuel) as G. rewrite H in G. exact G.
  Qed.

  End Mode.

  (* ================= T7: the strategies and the visited modes agree ================= *)
  Local Notation runS vm := (run_strategy St veq expand enabled_ok no_events p_collect p_inv p_goal p_prune debug vm).
  Local Notation startS vm s0 := (mark_visited St veq vm (ss_empty St) s0).

  Theorem modes_agree_states_rel vm1 vm2 st1 st2 fuel1 fuel2 s0 ss1 ss2 :
    Good s0 ->
    runS vm1 st1 fuel1 s0 (startS vm1 s0) = ODone ss1 ->
    runS vm2 st2 fuel2 s0 (startS vm2 s0) = ODone ss2 ->
    (forall x, In x (ss_checked ss1) -> exists y, In y (ss_checked ss2) /\ veq x y = true) /\
    (forall y, In y (ss_checked ss2) -> exists x, In x (ss_checked ss1) /\ veq y x = true).
  Proof.
    intros G0 H1 H2. split.
    - intros x Hx. apply (search_complete_rel _ _ _ _ _ G0 H2), (search_sound_rel _ _ _ _ _ H1), Hx.
    - intros y Hy. apply (search_complete_rel _ _ _ _ _ G0 H1), (search_sound_rel _ _ _ _ _ H2), Hy.
  Qed.

  Theorem modes_agree_verdict_rel vm1 vm2 st1 st2 fuel1 fuel2 s0 ss1 m s ss2 :
    Good s0 ->
    runS vm1 st1 fuel1 s0 (startS vm1 s0) = ODone ss1 ->
    runS vm2 st2 fuel2 s0 (startS vm2 s0) = OErr m s ss2 -> False.
  Proof.
    intros G0 H1 H2. destruct (search_error_sound_rel _ _ _ _ _ _ _ H2) as [Hr Hv].
    exact (search_verdict_rel _ _ _ _ _ G0 H1 s Hr m Hv).
  Qed.

  Theorem bfs_dfs_same_states_rel vm fuel1 fuel2 s0 ss1 ss2 :
    Good s0 ->
    runS vm Bfs fuel1 s0 (startS vm s0) = ODone ss1 ->
    runS vm Dfs fuel2 s0 (startS vm s0) = ODone ss2 ->
    (forall x, In x (ss_checked ss1) -> exists y, In y (ss_checked ss2) /\ veq x y = true) /\
    (forall y, In y (ss_checked ss2) -> exists x, In x (ss_checked ss1) /\ veq y x = true).
  Proof. apply modes_agree_states_rel. Qed.

  Theorem bfs_dfs_same_verdict_rel vm fuel1 fuel2 s0 :
    Good s0 ->
    (forall ss1 m s ss2, runS vm Bfs fuel1 s0 (startS vm s0) = ODone ss1 ->
                         runS vm Dfs fuel2 s0 (startS vm s0) = OErr m s ss2 -> False) /\
    (forall ss1 m s ss2, runS vm Dfs fuel1 s0 (startS vm s0) = ODone ss1 ->
                         runS vm Bfs fuel2 s0 (startS vm s0) = OErr m s ss2 -> False).
  Proof. intros G0. split; intros ss1 m s ss2; apply modes_agree_verdict_rel; exact G0. Qed.

  Theorem modes_agree_rel vm1 vm2 st1 st2 fuel1 fuel2 s0 :
    Good s0 ->
    let o1 := runS vm1 st1 fuel1 s0 (startS vm1 s0) in
    let o2 := runS vm2 st2 fuel2 s0 (startS vm2 s0) in
    is_done St o1 || is_err St o1 = true -> is_done St o2 || is_err St o2 = true ->
    is_done St o1 = is_done St o2 /\ is_err St o1 = is_err St o2.
  Proof.
    intros G0 o1 o2 D1 D2.
    destruct o1 as [ss1|m1 b1 ss1| |] eqn:E1; destruct o2 as [ss2|m2 b2 ss2| |] eqn:E2;
      cbn in *; try discriminate; auto.
    - exfalso. exact (modes_agree_verdict_rel _ _ _ _ _ _ _ _ _ _ _ G0 E1 E2).
    - exfalso. exact (modes_agree_verdict_rel _ _ _ _ _ _ _ _ _ _ _ G0 E2 E1).
  Qed.

End SearchRel.


(* Sanity check (non-vacuity of the relativisation): a graph on N on which the GLOBAL hypotheses of SearchCorrect.v
   fail but the relativised ones hold.  veq identifies numbers modulo 4; 0 -> [1], 1 -> [2], 5 -> [7]; 7 violates the
   invariant.  1 and 5 are veq-equal but their successors 2 and 7 are not (and have different verdicts' worth of
   successors): expand_compat fails globally.  Good := (< 4) is closed under expand and veq is the identity on it. *)
Module ExampleRel.
  Definition ex_veq (a b : N) : bool := N.eqb (a mod 4) (b mod 4).
  Definition ex_expand (n : N) : result (list N) :=
    Ok (match n with 0 => [1] | 1 => [2] | 5 => [7] | _ => [] end).
  Definition ex_inv (n : N) : option N := if (n =? 7) then Some 1 else None.
  Definition ex_good (n : N) : Prop := n < 4.
  Definition ex_run (vm : vmode) (st : strategy) (fuel : nat) : outcome N :=
    run_strategy N ex_veq ex_expand (fun _ => Ok tt) (fun _ => Ok false) (fun _ => false)
      ex_inv (fun _ => None) (fun _ => None) false vm st fuel 0 (mark_visited N ex_veq vm (ss_empty N) 0).

  Lemma ex_global_compat_fails :
    ~ (forall s t l, ex_veq s t = true -> ex_expand s = Ok l ->
         exists l', ex_expand t = Ok l' /\ (forall x, In x l -> exists y, In y l' /\ ex_veq x y = true)).
  Proof.
    intros H. destruct (H 1 5 [2] eq_refl eq_refl) as (l' & E & Hl). injection E as <-.
    destruct (Hl 2 (or_introl eq_refl)) as (y & Hin & Hy). destruct Hin as [Hin|Hin]; [|contradiction].
    subst y. discriminate Hy.
  Qed.

  Lemma ex_good_eq a b : ex_good a -> ex_good b -> ex_veq a b = true -> a = b.
  Proof.
    unfold ex_good, ex_veq. intros Ha Hb H. apply N.eqb_eq in H.
    rewrite (N.mod_small a 4 Ha), (N.mod_small b 4 Hb) in H. exact H.
  Qed.
  Lemma ex_veq_refl s : ex_veq s s = true.
  Proof. apply N.eqb_refl. Qed.
  Lemma ex_veq_trans s t u : ex_veq s t = true -> ex_veq t u = true -> ex_veq s u = true.
  Proof. unfold ex_veq. rewrite !N.eqb_eq. congruence. Qed.
  Lemma ex_good_expand s l :
    ex_good s -> vk N (fun _ => Ok false) ex_inv (fun _ => None) (fun _ => None) s = Ok VGo -> ex_expand s = Ok l ->
    Forall ex_good l.
  Proof.
    unfold ex_good. intros H _ E.
    assert (Hs : s = 0 \/ s = 1 \/ s = 2 \/ s = 3) by lia.
    destruct Hs as [-> | [-> | [-> | ->]]]; injection E as <-; repeat constructor.
  Qed.

  (* the relativised theorem applies: a finished search from 0 proves that no reachable state is an error state *)
  Theorem ex_verdict vm st fuel ss' :
    ex_run vm st fuel = ODone ss' ->
    forall x, Reach N ex_expand (fun _ => Ok false) ex_inv (fun _ => None) (fun _ => None) 0 x ->
    forall m, vk N (fun _ => Ok false) ex_inv (fun _ => None) (fun _ => None) x <> Ok (VErr m).
  Proof.
    apply (search_verdict_rel N ex_veq ex_expand (fun _ => Ok tt) (fun _ => Ok false) (fun _ => false)
             ex_inv (fun _ => None) (fun _ => None) false ex_good ex_veq_refl ex_veq_trans ex_good_expand).
    - intros s t Hs Ht E. rewrite (ex_good_eq s t Hs Ht E). reflexivity.
    - intros s t l Hs Ht E He. rewrite <- (ex_good_eq s t Hs Ht E). exists l. split; [exact He|].
      intros x Hx. exists x. split; [exact Hx|apply ex_veq_refl].
    - unfold ex_good. lia.
  Qed.
  Goal (exists ss', ex_run VFull Bfs 10 = ODone ss' /\ ss_checked ss' = [2; 1; 0])
       /\ (exists ss', ex_run VDisabled Dfs 10 = ODone ss' /\ ss_checked ss' = [2; 1; 0]).
  Proof. split; eexists; vm_compute; split; reflexivity. Qed.
End ExampleRel.

Print Assumptions search_sound_rel.
Print Assumptions search_complete_rel.
Print Assumptions search_error_sound_rel.
Print Assumptions search_verdict_rel.
Print Assumptions collected_exact_rel.
Print Assumptions collected_exact_err_rel.
Print Assumptions status_counts_rel.
Print Assumptions status_counts_counted_rel.
Print Assumptions status_counts_off_rel.
Print Assumptions bfs_dfs_same_states_rel.
Print Assumptions bfs_dfs_same_verdict_rel.
Print Assumptions modes_agree_states_rel.
Print Assumptions modes_agree_verdict_rel.
Print Assumptions modes_agree_rel.
Print Assumptions search_master_rel.
Print Assumptions staged_run_rel.
Print Assumptions staged_run_error_rel.
Print Assumptions staged_run_disabled_rel.
Print Assumptions union_of_roots_rel.
Print Assumptions bfs_shortest_rel.
Print Assumptions ExampleRel.ex_verdict.
