(* The model checker as an instance of the (relativised) search-correctness theorems: C03, C10, C11, C16 end to end.

   Instance:  St := mcstate,  veq := mcstate_eqb so teqb ps_eqb  (so := concrete_ops tleb store_eqb),
              expand := mc_expand so tgt0 teq0 t0 clock handler DS mc_rand ds_of sys0,
              enabled_ok := mc_enabled_ok so sys0, no_events := mc_no_events so, the four predicates from pr : preds.
   Combines Proofs/SearchRel.v (search correctness relative to an invariant Good on states) with Proofs/EqBisim.v
   (the checker's state equality is a bisimulation ON the states satisfying StInvSt, with the same network, that fit
   sys0; that set is closed under mc_expand when no step overrides a pending timer) and Proofs/Restore.v (run_impl).

   HYPOTHESES of Section McSearch (exactly those of EqBisim, plus state_based pr)
     teqb_spec, ps_eqb_spec   teqb a b = true <-> a = b,  ps_eqb a b = true <-> a = b
     Hclock                   clock_independent handler                                    (finding F14)
     Hds                      ds_respects tleb teqb ps_eqb DS ds_of
     Hpr                      state_based tleb teqb ps_eqb pr
   and per theorem
     wf_sys sys0
     GoodSt sys0 (st_net start) start,  i.e.  StInvSt tleb start /\ state_fits sys0 start     (GoodSt_start)
     OverrideFreeOn sys0 (st_net start) (Reach start)                                       (finding F10), where
       GoodSt sys0 net0 st       := StInvSt tleb st /\ st_net st = net0 /\ state_fits sys0 st
       OverrideFreeOn sys0 net0 D := forall st s1 c, GoodSt sys0 net0 st -> D st -> vk st = Ok VGo ->
                                       set_state sys0 st = Ok s1 -> no_override_step t0 clock handler DS mc_rand ds_of s1 c
       "in no state the search expands (reachable from start, not behind a goal / prune / error state) does a process
        call set_timer on a name that is still pending".  This is the weakest form: it only speaks about the explored
        graph.  OverrideFree sys0 net0 (the same for ALL good states) implies it for every D (OverrideFree_On).
   Reach is SearchCorrect.Reach instantiated with mc_expand sys0:  ReachM sys0 start x.

   THEOREMS (mc level; run := run_strategy ... vm st fuel start (mark_visited vm ss_empty start))
     Section OnD (generic in a domain D with  D_closed : GoodSt s -> D s -> vk s = Ok VGo -> mc_expand s = Ok l -> In x l -> D x;
       Good := GoodD sys0 net0 D st := GoodSt sys0 net0 st /\ D st): mc_good_expand, mc_vk_compat_good, mc_expand_compat_good
       (the relativised hypotheses of SearchRel) and mc_search_complete_on, mc_search_verdict_on, mc_reach_good_on,
       mc_staged_run_on, mc_union_of_roots_on, mc_bfs_shortest_on.
     Section Inst (D := Reach start, resp. ReachAny roots):
     mc_search_sound        run = ODone ss' -> x in ss_checked ss' -> ReachM start x /\ vk x in {Ok VFinal, Ok VGo}
     mc_error_sound         run = OErr m s _ -> ReachM start s /\ vk s = Ok (VErr m)       (these two: no Good, no OverrideFree)
     mc_collected_exact, mc_status_counts, mc_status_counts_off (C16; no side condition)
     mc_reach_good          ReachM start x -> GoodSt sys0 (st_net start) x
     mc_search_complete     run = ODone ss' -> ReachM start x -> exists y in ss_checked ss', veq x y = true
     mc_verdict  (C03)      match run with ODone _ => no ReachM start state has an error verdict
                                         | OErr m s _ => ReachM start s /\ vk s = Ok (VErr m) | _ => True
                            (vk_err_spec: vk s = Ok (VErr m) <-> pr_inv s = Some m \/ (no inv/goal/prune hit, no events left,
                             m = dead_end_msg);  mc_verdict_ok: the ODone case spelled out with the predicates)
     mc_bfs_dfs_same_states, mc_bfs_dfs_same_verdict, mc_bfs_shortest (C10)
     mc_modes_agree_states, mc_modes_agree_verdict, mc_modes_agree (C11; the two runs may also differ in debug mode)
     mc_union_of_roots (C16; all roots GoodSt for one network net0, OverrideFreeOn (ReachAny roots)),
     mc_staged_run_disabled; the one-stage visited-mode theorem is mc_staged_run_on (generic D)
     once_only_OverrideFree   a handler that never issues ATimerSet _ _ false (only set_timer_once) is override free
   FRAME:  mc_expand_frame (mc_expand a st = mc_expand b st for same_frame a b, st fitting), set_state_frame_eq,
           Reach_frame, Closed_frame, GoodSt_frame; mc_staged_run_frame (the stage runs on s2, everything is stated for F)
   RUN level (run_impl / run of Model/McRun.v; s2 := the system after the preliminary callback, start := get_state s2;
   hypothesis StInv tleb s2 - for cb = [] this is StInv tleb sys: StInv_started; for callbacks that only change the
   ordering mode / the network it follows from StInv tleb sys: StInv_stage_simple)
     run_impl_inv           inversion of run_impl
     run_err_genuine (any cache that is Closed), run_err_genuine_fresh     no side condition
     run_ok_sound_complete, run_verdict (C03), run_collected_exact, run_status_counts, run_status_counts_off (C16),
     run_modes_agree_states, run_modes_agree_verdict (C10/C11: any two configs), run_err_shortest (C10)
     run_impl_staged        C16: one run_impl stage from a Closed cache keeps it Closed and adds exactly the reachable part
     Stages cb sys starts s2s   the stage systems of run_starts (set_state, then the callback; sys is threaded);
     stages_frame, stages_same_frame, cb_run_same_frame: they all have one frame
     run_starts_staged, run_from_states_staged (C16): if every stage system is StageOK (frame of F, StInv, network net0,
       in D) the final cache is Closed for mc_expand F and ss_checked is exactly (up to veq) the union of the parts
       reachable from the stage start states; the system is rolled back.  run_starts_stages: an ROk result went through
       all stages (the Stages hypothesis is satisfiable exactly then).
     run_starts_stats, run_from_states_stats (C16, NO side condition): the combined statistics (McStats::combine).
       debug: cnt k stat = number of checked states (over all stages) whose counted status is k  (count_counted_final:
       = final_status on states with an Ok verdict); non-debug: stat = [];  coll is exactly the collect-worthy part of
       ss_checked, one representative per veq class (CollU).  Generic lemmas in Section Combine: cnt_combine,
       CollU_combine, statuses_sorted_run, stage_stats.
   Part 3 (reference semantics) is in Proofs/McSearchRef.v. *)
From Coq Require Import List NArith Bool Lia.
From ASV Require Import Base.Util Base.Msg Base.Log Model.Store Spec.StoreSpec Model.McSys Model.Search Model.McRun
     Proofs.UtilP Proofs.StoreSpecP Proofs.StoreRefine Proofs.Restore Proofs.SearchCorrect Proofs.SearchShortest
     Proofs.SearchRel Proofs.EqBisim.
Import ListNotations.
Open Scope N_scope.

#[local] Arguments ss_visited {St} _.
#[local] Arguments ss_statuses {St} _.
#[local] Arguments ss_collected {St} _.
#[local] Arguments ss_checked {St} _.

(* the error verdict spelled out (generic) *)
Lemma vk_err_spec {St} (no_events : St -> result bool) (p_inv p_goal p_prune : St -> option N) s m :
  vk St no_events p_inv p_goal p_prune s = Ok (VErr m) <->
  p_inv s = Some m \/
  (p_inv s = None /\ p_goal s = None /\ p_prune s = None /\ no_events s = Ok true /\ m = dead_end_msg).
Proof.
  unfold vk. destruct (p_inv s) as [m'|].
  { split; [intros H; injection H as ->; now left|]. intros [H|(H & _)]; [injection H as ->; reflexivity|discriminate]. }
  destruct (p_goal s) as [g|].
  { split; [discriminate|]. intros [H|(_ & H & _)]; discriminate. }
  destruct (p_prune s) as [g|].
  { split; [discriminate|]. intros [H|(_ & _ & H & _)]; discriminate. }
  destruct (no_events s) as [[|]|t]; cbn [bind].
  - split; [intros H; injection H as <-; right; auto|]. intros [H|(_ & _ & _ & _ & ->)]; [discriminate|reflexivity].
  - split; [discriminate|]. intros [H|(_ & _ & _ & H & _)]; discriminate.
  - split; [discriminate|]. intros [H|(_ & _ & _ & H & _)]; discriminate.
Qed.


(* ---------------- McStats::combine (Search.combine_statuses / combine_collected), generic ---------------- *)
Section Combine.
  Variable St : Type.
  Variable veq : St -> St -> bool.
  Hypothesis veq_refl : forall s, veq s s = true.
  Hypothesis veq_sym : forall s t, veq s t = true -> veq t s = true.
  Hypothesis veq_trans : forall s t u, veq s t = true -> veq t u = true -> veq s u = true.

  (* the sum of all entries of key k *)
  Fixpoint tot (k : N) (b : list (N * N)) : N :=
    match b with [] => 0 | (k0, v0) :: r => (if N.eqb k k0 then v0 else 0) + tot k r end.

  Lemma cnt_step a k0 v0 k :
    cnt k (match sget N.compare k0 a with
           | Some c => sins N.compare k0 (c + v0) a
           | None => sins N.compare k0 v0 a
           end) = cnt k a + (if N.eqb k k0 then v0 else 0).
  Proof.
    unfold cnt. destruct (N.eqb k k0) eqn:E.
    - apply N.eqb_eq in E. subst k0. destruct (sget N.compare k a); rewrite sget_sins_same; lia.
    - apply N.eqb_neq in E. destruct (sget N.compare k0 a); rewrite sget_sins_other by exact E; lia.
  Qed.

  Lemma cnt_combine_tot b : forall a k, cnt k (combine_statuses a b) = cnt k a + tot k b.
  Proof.
    unfold combine_statuses. induction b as [|[k0 v0] r IH]; intros a k; cbn [fold_left tot fst snd]; [lia|].
    rewrite IH, cnt_step. lia.
  Qed.

  Lemma tot_zero k r : Forall (fun q : N * N => N.compare k (fst q) = Lt) r -> tot k r = 0.
  Proof.
    induction 1 as [|[k1 v1] r Hk _ IH]; cbn [tot]; [reflexivity|]. cbn [fst] in Hk.
    assert (E : N.eqb k k1 = false) by (apply N.eqb_neq; intros ->; rewrite N.compare_refl in Hk; discriminate).
    rewrite E, IH. reflexivity.
  Qed.

  Lemma tot_cnt b k : ssorted N.compare b -> tot k b = cnt k b.
  Proof.
    induction b as [|[k0 v0] r IH]; intros Hs; [reflexivity|].
    apply ssorted_inv in Hs. destruct Hs as [Hf Hs]. cbn [tot]. unfold cnt. cbn [sget]. rewrite is_eq_ncmp.
    destruct (N.eqb k k0) eqn:E.
    - apply N.eqb_eq in E. subst k0. rewrite (tot_zero k r Hf). lia.
    - rewrite (IH Hs). unfold cnt. lia.
  Qed.

  Theorem cnt_combine a b k : ssorted N.compare b -> cnt k (combine_statuses a b) = cnt k a + cnt k b.
  Proof. intros Hs. rewrite cnt_combine_tot, (tot_cnt b k Hs). reflexivity. Qed.

  Lemma count_status_app (f : St -> option N) st a b :
    count_status St f st (a ++ b) = count_status St f st a + count_status St f st b.
  Proof. unfold count_status. rewrite filter_app, app_length, Nat2N.inj_add. reflexivity. Qed.

  (* combine_collected: the union modulo veq, first representative kept *)
  Local Notation cc := (combine_collected St veq).
  Local Notation memV := (Search.mem St veq).

  Lemma cc_in b : forall a c, In c (cc a b) -> In c a \/ In c b.
  Proof.
    unfold combine_collected. induction b as [|x r IH]; intros a c H; cbn [fold_left] in H; [now left|].
    destruct (IH _ c H) as [H1|H1]; [|right; now right].
    destruct (memV x a); [now left|]. apply in_app_or in H1 as [H1|[<-|[]]]; [now left|right; now left].
  Qed.
  Lemma cc_cover b : forall a x, In x a \/ In x b -> exists c, In c (cc a b) /\ veq x c = true.
  Proof.
    unfold combine_collected. induction b as [|y r IH]; intros a x H; cbn [fold_left].
    - destruct H as [H|[]]. exists x. split; [exact H|apply veq_refl].
    - destruct (memV y a) eqn:E.
      + destruct H as [H|[<-|H]]; [apply IH; now left| |apply IH; now right].
        apply (mem_true St veq) in E as (z & Hz & Ez).
        destruct (IH a z (or_introl Hz)) as (c & Hc & Ec). exists c. split; [exact Hc|eapply veq_trans; eauto].
      + destruct H as [H|[<-|H]]; [apply IH; left; apply in_or_app; now left| |apply IH; now right].
        apply IH. left. apply in_or_app. right. now left.
  Qed.
  Lemma cc_nodup b : forall a, NoDupV St veq a -> NoDupV St veq (cc a b).
  Proof.
    unfold combine_collected. induction b as [|y r IH]; intros a H; cbn [fold_left]; [exact H|].
    destruct (memV y a) eqn:E; [apply IH, H|]. apply IH. apply (NoDupV_snoc St veq veq_sym); [exact H|].
    apply (mem_false St veq), E.
  Qed.

  (* [CollU p C coll]: coll is exactly the collect-worthy part of C, one representative per veq class *)
  Definition CollU (p_collect : St -> bool) (C coll : list St) : Prop :=
    (forall c, In c coll -> In c C /\ p_collect c = true) /\
    (forall x, In x C -> p_collect x = true -> exists c, In c coll /\ veq x c = true) /\
    NoDupV St veq coll.

  Theorem CollU_combine p Ca a Cb b : CollU p Ca a -> CollU p Cb b -> CollU p (Cb ++ Ca) (cc a b).
  Proof.
    intros (A1 & A2 & A3) (B1 & B2 & B3). split; [|split].
    - intros c Hc. destruct (cc_in b a c Hc) as [H|H].
      + destruct (A1 c H) as [H1 H2]. split; [apply in_or_app; now right|exact H2].
      + destruct (B1 c H) as [H1 H2]. split; [apply in_or_app; now left|exact H2].
    - intros x Hx Hp. apply in_app_or in Hx as [Hx|Hx].
      + destruct (B2 x Hx Hp) as (c & Hc & Ec). destruct (cc_cover b a c (or_intror Hc)) as (c' & Hc' & Ec').
        exists c'. split; [exact Hc'|eapply veq_trans; eauto].
      + destruct (A2 x Hx Hp) as (c & Hc & Ec). destruct (cc_cover b a c (or_introl Hc)) as (c' & Hc' & Ec').
        exists c'. split; [exact Hc'|eapply veq_trans; eauto].
    - apply cc_nodup, A3.
  Qed.

  Lemma CollU_nil p : CollU p [] [].
  Proof. split; [intros c []|]. split; [intros x []|exact I]. Qed.

  (* the statuses of a strategy state stay a sorted map *)
  Variable expand : St -> result (list St).
  Variable enabled_ok : St -> result unit.
  Variable no_events : St -> result bool.
  Variable p_collect : St -> bool.
  Variable p_inv p_goal p_prune : St -> option N.
  Variable debug : bool.
  Variable vm : vmode.

  Lemma statuses_sorted_run st fuel s0 ss ss' :
    ssorted N.compare (ss_statuses ss) ->
    run_strategy St veq expand enabled_ok no_events p_collect p_inv p_goal p_prune debug vm st fuel s0 ss = ODone ss' ->
    ssorted N.compare (ss_statuses ss').
  Proof.
    intros H E.
    pose proof (run_preserve St veq expand enabled_ok no_events p_collect p_inv p_goal p_prune debug vm
                  (fun ss => ssorted N.compare (ss_statuses ss))) as P.
    assert (P1 : forall (ss : sstate St) (s : St) (ss1 : sstate St) (v : verdict),
               ssorted N.compare (ss_statuses ss) ->
               check_state St veq no_events p_collect p_inv p_goal p_prune debug ss s = Ok (ss1, v) ->
               (forall m : N, v <> VErr m) -> ssorted N.compare (ss_statuses ss1)).
    { intros ss2 s ss1 v H2 Hc _. apply check_state_spec in Hc as (_ & _ & _ & _ & HS). rewrite HS.
      unfold upd_statuses. destruct debug; [|exact H2].
      destruct (counted_status St p_inv p_goal p_prune s) as [k|]; [|exact H2].
      unfold bump. destruct (sget N.compare k (ss_statuses ss2)); apply (ssorted_sins _ CmpSpec_N); exact H2. }
    assert (P2 : forall (ss : sstate St) (s : St), ssorted N.compare (ss_statuses ss) ->
               ssorted N.compare (ss_statuses (mark_visited St veq vm ss s))).
    { intros ss2 s H2. destruct (mk_other St veq vm ss2 s) as (_ & _ & E3). rewrite E3. exact H2. }
    specialize (P P1 P2 st fuel s0 ss H). rewrite E in P. exact P.
  Qed.

  (* one stage started with empty statistics: what the stage reports *)
  Lemma stage_stats st fuel s0 ss0 ss' :
    ss_statuses ss0 = [] -> ss_collected ss0 = [] ->
    run_strategy St veq expand enabled_ok no_events p_collect p_inv p_goal p_prune debug vm st fuel s0
      (mark_visited St veq vm ss0 s0) = ODone ss' ->
    exists Cn, ss_checked ss' = Cn ++ ss_checked ss0 /\
      ssorted N.compare (ss_statuses ss') /\
      (debug = true -> forall k, cnt k (ss_statuses ss') = count_status St (counted_status St p_inv p_goal p_prune) k Cn) /\
      (debug = false -> ss_statuses ss' = []) /\
      CollU p_collect Cn (ss_collected ss').
  Proof.
    intros Hs Hc E. destruct (mk_other St veq vm ss0 s0) as (M1 & M2 & M3).
    pose proof (collected_gen St veq expand enabled_ok no_events p_collect p_inv p_goal p_prune debug veq_refl veq_sym
                  vm st fuel s0 (ss_checked ss0) (mark_visited St veq vm ss0 s0)) as G.
    rewrite E in G. destruct G as (Cn & EC & G1 & G2 & G3).
    { exists []. rewrite M1, M2, Hc. split; [reflexivity|]. split; [intros c []|]. split; [intros x []|exact I]. }
    exists Cn. split; [exact EC|]. split.
    { apply (statuses_sorted_run st fuel s0 (mark_visited St veq vm ss0 s0) ss'); [rewrite M3, Hs; constructor|exact E]. }
    split; [|split].
    - intros Hd.
      pose proof (status_gen St veq expand enabled_ok no_events p_collect p_inv p_goal p_prune debug vm st fuel s0
                    (ss_checked ss0) (mark_visited St veq vm ss0 s0) Hd) as S.
      rewrite E in S. destruct S as (Cn' & EC' & S).
      { exists []. rewrite M1, M3, Hs. split; reflexivity. }
      rewrite EC in EC'. apply app_inv_tail in EC'. subst Cn'. exact S.
    - intros Hd.
      pose proof (status_off_gen St veq expand enabled_ok no_events p_collect p_inv p_goal p_prune debug vm st fuel s0
                    [] (mark_visited St veq vm ss0 s0) Hd) as S.
      rewrite E in S. apply S. rewrite M3. exact Hs.
    - split; [exact G1|]. split; [exact G2|exact G3].
  Qed.
End Combine.

Section McSearch.
  Context {T : Type}.
  Variable tleb : T -> T -> bool.
  Variable teqb : T -> T -> bool.
  Variable tgt0 : T -> bool.
  Variable teq0 : T -> bool.
  Variable t0 : T.
  Variable clock : N -> T -> T.
  Context {PS : Type}.
  Variable ps_eqb : PS -> PS -> bool.
  Variable handler : N -> PS -> input -> T -> (nat -> T) -> PS * list (action T).
  Variable DS : Type.
  Variable mc_rand : DS -> nat -> T.
  Variable ds_of : @mcstate T (store T) PS -> DS.

  Notation so := (concrete_ops tleb (@store_eqb T)).
  Notation mcsys := (@mcsys T (store T) PS).
  Notation mcstate := (@mcstate T (store T) PS).
  Notation mcnet := (@mcnet T).
  Notation preds := (@preds T (store T) PS).
  Notation veq := (mcstate_eqb so teqb ps_eqb).

  Hypothesis teqb_spec : forall a b, teqb a b = true <-> a = b.
  Hypothesis ps_eqb_spec : forall a b, ps_eqb a b = true <-> a = b.
  Hypothesis Hclock : clock_independent handler.
  Hypothesis Hds : ds_respects tleb teqb ps_eqb DS ds_of.

  Variable pr : preds.
  Hypothesis Hpr : state_based tleb teqb ps_eqb pr.

  Local Notation expM sys0 := (mc_expand so tgt0 teq0 t0 clock handler DS mc_rand ds_of sys0).
  Local Notation vkM := (vk mcstate (mc_no_events so) (pr_inv pr) (pr_goal pr) (pr_prune pr)).
  Local Notation ReachM sys0 := (Reach mcstate (expM sys0) (mc_no_events so) (pr_inv pr) (pr_goal pr) (pr_prune pr)).
  Local Notation ReachNM sys0 := (ReachN mcstate (expM sys0) (mc_no_events so) (pr_inv pr) (pr_goal pr) (pr_prune pr)).
  Local Notation ClosedM sys0 := (Closed mcstate veq (expM sys0) (mc_no_events so) (pr_inv pr) (pr_goal pr) (pr_prune pr)).
  Local Notation runS sys0 debug vm :=
    (run_strategy mcstate veq (expM sys0) (mc_enabled_ok so sys0) (mc_no_events so)
                  (pr_collect pr) (pr_inv pr) (pr_goal pr) (pr_prune pr) debug vm).
  Local Notation rootsS sys0 debug vm :=
    (run_roots mcstate veq (expM sys0) (mc_enabled_ok so sys0) (mc_no_events so)
               (pr_collect pr) (pr_inv pr) (pr_goal pr) (pr_prune pr) debug vm).
  Local Notation mkS vm := (mark_visited mcstate veq vm).
  Local Notation startS vm s := (mark_visited mcstate veq vm (ss_empty mcstate) s).
  Local Notation nostep := (no_override_step t0 clock handler DS mc_rand ds_of).

  (* ---------------- the invariant and the override-freedom side condition ---------------- *)
  Definition GoodSt (sys0 : mcsys) (net0 : mcnet) (st : mcstate) : Prop :=
    StInvSt tleb st /\ st_net st = net0 /\ state_fits sys0 st.

  Definition OverrideFreeOn (sys0 : mcsys) (net0 : mcnet) (D : mcstate -> Prop) : Prop :=
    forall st s1 c, GoodSt sys0 net0 st -> D st -> vkM st = Ok VGo -> set_state sys0 st = Ok s1 -> nostep s1 c.
  Definition OverrideFree (sys0 : mcsys) (net0 : mcnet) : Prop :=
    forall st s1 c, GoodSt sys0 net0 st -> set_state sys0 st = Ok s1 -> nostep s1 c.

  Lemma OverrideFree_On sys0 net0 D : OverrideFree sys0 net0 -> OverrideFreeOn sys0 net0 D.
  Proof. intros H st s1 c G _ _ S. exact (H st s1 c G S). Qed.
  Lemma OverrideFreeOn_mono sys0 net0 (D D' : mcstate -> Prop) :
    (forall st, D' st -> D st) -> OverrideFreeOn sys0 net0 D -> OverrideFreeOn sys0 net0 D'.
  Proof. intros Hi H st s1 c G Hd Hv S. exact (H st s1 c G (Hi st Hd) Hv S). Qed.

  Lemma GoodSt_start sys0 start : StInvSt tleb start -> state_fits sys0 start -> GoodSt sys0 (st_net start) start.
  Proof. intros A B. split; [exact A|]. split; [reflexivity|exact B]. Qed.

  (* the system the search runs on is Good for its own state *)
  Lemma GoodSt_sys (s : mcsys) : StInv tleb s -> GoodSt s (s_net s) (get_state s).
  Proof.
    intros I. split; [apply StInv_state; exact I|]. split; [reflexivity|].
    apply frame_state_fits. apply frame_nomf_refl.
  Qed.

  (* ---------------- equivalence, verdict compatibility (global) ---------------- *)
  Lemma mc_veq_refl s : veq s s = true.
  Proof. apply (mcstate_eqb_refl tleb teqb ps_eqb teqb_spec ps_eqb_spec). Qed.
  Lemma mc_veq_sym s t : veq s t = true -> veq t s = true.
  Proof. apply (mcstate_eqb_sym tleb teqb ps_eqb teqb_spec ps_eqb_spec). Qed.
  Lemma mc_veq_trans s t u : veq s t = true -> veq t u = true -> veq s u = true.
  Proof. apply (mcstate_eqb_trans tleb teqb ps_eqb teqb_spec ps_eqb_spec). Qed.

  Lemma mc_vk_compat (sys0 : mcsys) s t : veq s t = true -> vkM s = vkM t.
  Proof. intros H. apply (verdict_compat tleb teqb ps_eqb teqb_spec ps_eqb_spec pr sys0 s t Hpr H). Qed.
  Lemma mc_collect_compat s t : veq s t = true -> pr_collect pr s = pr_collect pr t.
  Proof. intros H. apply (proj1 Hpr s t H). Qed.


  (* a sufficient condition for override freedom: the handler only ever uses set_timer_once *)
  Definition once_only : Prop :=
    forall proc st inp t r n d, ~ In (ATimerSet n d false) (snd (handler proc st inp t r)).

  Lemma no_override_acts_once proc (t : T) (acts : list (action T)) : forall p : pentry T PS,
    (forall n d, ~ In (ATimerSet n d false) acts) -> no_override_acts proc t p acts = true.
  Proof.
    induction acts as [|a r IH]; intros p H; cbn [no_override_acts]; [reflexivity|].
    apply andb_true_iff. split.
    - apply negb_true_iff. destruct a as [m dst|m|n d once|n]; cbn [overrides]; try reflexivity.
      destruct once; [reflexivity|]. exfalso. apply (H n d). now left.
    - apply IH. intros n d Hin. apply (H n d). now right.
  Qed.

  Lemma once_only_no_override_step s c : once_only -> nostep s c.
  Proof.
    intros H. unfold no_override_step. intros i e st' nn nd p _ _ _ _ _ _. cbv zeta.
    apply no_override_acts_once. intros n d. unfold run_acts. apply H.
  Qed.

  Lemma once_only_OverrideFree sys0 net0 : once_only -> OverrideFree sys0 net0.
  Proof. intros H st s1 c _ _. apply once_only_no_override_step, H. Qed.

  (* ================= generic in the domain D ================= *)
  Section OnD.
    Variable sys0 : mcsys.
    Variable net0 : mcnet.
    Hypothesis wf0 : wf_sys sys0.
    Variable D : mcstate -> Prop.
    Hypothesis D_closed : forall s l x, GoodSt sys0 net0 s -> D s -> vkM s = Ok VGo -> expM sys0 s = Ok l -> In x l -> D x.
    Hypothesis OF : OverrideFreeOn sys0 net0 D.

    Definition GoodD (st : mcstate) : Prop := GoodSt sys0 net0 st /\ D st.

    (* the relativised hypotheses of Proofs/SearchRel.v *)
    Lemma mc_good_expand s l : GoodD s -> vkM s = Ok VGo -> expM sys0 s = Ok l -> Forall GoodD l.
    Proof.
      intros [G Hd] Hv He. destruct G as (I & Hn & F).
      pose proof (mc_expand_inv tleb tgt0 teq0 t0 clock handler DS mc_rand ds_of sys0 s l wf0 F I
                    (fun s1 c S => OF s s1 c (conj I (conj Hn F)) Hd Hv S) He) as HF.
      rewrite Forall_forall in HF. apply Forall_forall. intros x Hx.
      destruct (HF x Hx) as (A & B & C). split.
      - split; [exact A|]. split; [congruence|exact C].
      - eapply (D_closed s l x); eauto. split; [exact I|]. split; [exact Hn|exact F].
    Qed.

    Lemma mc_vk_compat_good s t : GoodD s -> GoodD t -> veq s t = true -> vkM s = vkM t.
    Proof. intros _ _. apply (mc_vk_compat sys0). Qed.

    Lemma mc_expand_compat_good s t l : GoodD s -> GoodD t -> veq s t = true -> expM sys0 s = Ok l ->
      exists l', expM sys0 t = Ok l' /\ (forall x, In x l -> exists y, In y l' /\ veq x y = true).
    Proof.
      intros [(I1 & N1 & F1) _] [(I2 & N2 & F2) _] E He.
      apply (mc_expand_compat tleb teqb tgt0 teq0 t0 clock ps_eqb handler DS mc_rand ds_of teqb_spec ps_eqb_spec
               Hclock Hds sys0 s t l wf0 F1 F2); [congruence|exact E|apply I1|apply I2|exact He].
    Qed.

    Variable debug : bool.

    Theorem mc_search_complete_on vm st fuel start ss' :
      GoodD start ->
      runS sys0 debug vm st fuel start (startS vm start) = ODone ss' ->
      forall x, ReachM sys0 start x -> exists y, In y (ss_checked ss') /\ veq x y = true.
    Proof.
      apply (search_complete_rel mcstate veq (expM sys0) (mc_enabled_ok so sys0) (mc_no_events so)
               (pr_collect pr) (pr_inv pr) (pr_goal pr) (pr_prune pr) debug GoodD
               mc_veq_refl mc_veq_trans mc_good_expand mc_vk_compat_good mc_expand_compat_good).
    Qed.

    Theorem mc_search_verdict_on vm st fuel start ss' :
      GoodD start ->
      runS sys0 debug vm st fuel start (startS vm start) = ODone ss' ->
      forall x, ReachM sys0 start x -> forall m, vkM x <> Ok (VErr m).
    Proof.
      apply (search_verdict_rel mcstate veq (expM sys0) (mc_enabled_ok so sys0) (mc_no_events so)
               (pr_collect pr) (pr_inv pr) (pr_goal pr) (pr_prune pr) debug GoodD
               mc_veq_refl mc_veq_trans mc_good_expand mc_vk_compat_good mc_expand_compat_good).
    Qed.

    Theorem mc_reach_good_on start x : GoodD start -> ReachM sys0 start x -> GoodD x.
    Proof.
      apply (reach_good mcstate (expM sys0) (mc_no_events so) (pr_inv pr) (pr_goal pr) (pr_prune pr) GoodD mc_good_expand).
    Qed.

    Theorem mc_staged_run_on vm st fuel start ss0 ss' :
      vm <> VDisabled -> GoodD start ->
      ClosedM sys0 (ss_visited ss0) (ss_checked ss0) -> GoodL mcstate GoodD (ss_checked ss0) ->
      runS sys0 debug vm st fuel start (mkS vm ss0 start) = ODone ss' ->
      ClosedM sys0 (ss_visited ss') (ss_checked ss') /\ GoodL mcstate GoodD (ss_checked ss') /\
      incl (ss_visited ss0) (ss_visited ss') /\
      (exists Cn, ss_checked ss' = Cn ++ ss_checked ss0 /\ In start Cn /\
                  forall c, In c Cn -> ReachM sys0 start c /\ (vkM c = Ok VFinal \/ vkM c = Ok VGo)) /\
      (forall x, ReachM sys0 start x -> exists y, In y (ss_checked ss') /\ veq x y = true).
    Proof.
      apply (staged_run_rel mcstate veq (expM sys0) (mc_enabled_ok so sys0) (mc_no_events so)
               (pr_collect pr) (pr_inv pr) (pr_goal pr) (pr_prune pr) debug GoodD
               mc_veq_refl mc_veq_trans mc_good_expand mc_vk_compat_good mc_expand_compat_good).
    Qed.

    Theorem mc_union_of_roots_on vm st fuel roots ss' :
      GoodL mcstate GoodD roots ->
      rootsS sys0 debug vm st fuel roots (ss_empty mcstate) = Some ss' ->
      (forall r, In r roots -> forall x, ReachM sys0 r x -> exists y, In y (ss_checked ss') /\ veq x y = true) /\
      (forall y, In y (ss_checked ss') ->
                 (exists r, In r roots /\ ReachM sys0 r y) /\ (vkM y = Ok VFinal \/ vkM y = Ok VGo)) /\
      (forall r, In r roots -> In r (ss_checked ss')) /\
      (vm <> VDisabled -> ClosedM sys0 (ss_visited ss') (ss_checked ss') /\ GoodL mcstate GoodD (ss_checked ss')).
    Proof.
      apply (union_of_roots_rel mcstate veq (expM sys0) (mc_enabled_ok so sys0) (mc_no_events so)
               (pr_collect pr) (pr_inv pr) (pr_goal pr) (pr_prune pr) debug GoodD
               mc_veq_refl mc_veq_trans mc_good_expand mc_vk_compat_good mc_expand_compat_good).
    Qed.

    Theorem mc_bfs_shortest_on vm fuel start m s ss' :
      GoodD start ->
      runS sys0 debug vm Bfs fuel start (startS vm start) = OErr m s ss' ->
      exists n, ReachNM sys0 start n s /\ vkM s = Ok (VErr m) /\
                forall k x, (k < n)%nat -> ReachNM sys0 start k x -> forall m', vkM x <> Ok (VErr m').
    Proof.
      apply (bfs_shortest_rel mcstate veq (expM sys0) (mc_enabled_ok so sys0) (mc_no_events so)
               (pr_collect pr) (pr_inv pr) (pr_goal pr) (pr_prune pr) debug GoodD
               mc_veq_refl mc_veq_sym mc_veq_trans mc_good_expand mc_vk_compat_good mc_expand_compat_good).
    Qed.
  End OnD.

  (* ================= the instance: D := reachable from the start state(s) ================= *)
  Section Inst.
    Variable sys0 : mcsys.
    Hypothesis wf0 : wf_sys sys0.

    Definition ReachAny (roots : list mcstate) (x : mcstate) : Prop := exists r, In r roots /\ ReachM sys0 r x.

    Lemma Reach_D_closed start net0 s l x :
      GoodSt sys0 net0 s -> ReachM sys0 start s -> vkM s = Ok VGo -> expM sys0 s = Ok l -> In x l -> ReachM sys0 start x.
    Proof. intros _ Hs Hv He Hi. eapply RS; eauto. Qed.
    Lemma ReachAny_D_closed roots net0 s l x :
      GoodSt sys0 net0 s -> ReachAny roots s -> vkM s = Ok VGo -> expM sys0 s = Ok l -> In x l -> ReachAny roots x.
    Proof. intros _ (r & Hr & Hs) Hv He Hi. exists r. split; [exact Hr|]. eapply RS; eauto. Qed.

    Local Notation OFstart start := (OverrideFreeOn sys0 (st_net start) (ReachM sys0 start)).
    Local Notation Gstart start := (GoodSt sys0 (st_net start) start).

    Lemma GoodD_start start : Gstart start -> GoodD sys0 (st_net start) (ReachM sys0 start) start.
    Proof. intros G. split; [exact G|constructor]. Qed.

    (* ---- no side condition needed ---- *)
    Theorem mc_search_sound debug vm st fuel start ss' :
      runS sys0 debug vm st fuel start (startS vm start) = ODone ss' ->
      forall x, In x (ss_checked ss') -> ReachM sys0 start x /\ (vkM x = Ok VFinal \/ vkM x = Ok VGo).
    Proof.
      apply (search_sound_rel mcstate veq (expM sys0) (mc_enabled_ok so sys0) (mc_no_events so)
               (pr_collect pr) (pr_inv pr) (pr_goal pr) (pr_prune pr) debug mc_veq_refl).
    Qed.

    Theorem mc_error_sound debug vm st fuel start m s ss' :
      runS sys0 debug vm st fuel start (startS vm start) = OErr m s ss' -> ReachM sys0 start s /\ vkM s = Ok (VErr m).
    Proof.
      apply (search_error_sound_rel mcstate veq (expM sys0) (mc_enabled_ok so sys0) (mc_no_events so)
               (pr_collect pr) (pr_inv pr) (pr_goal pr) (pr_prune pr) debug mc_veq_refl).
    Qed.

    Theorem mc_collected_exact debug vm st fuel start ss' :
      runS sys0 debug vm st fuel start (startS vm start) = ODone ss' ->
      (forall c, In c (ss_collected ss') -> In c (ss_checked ss') /\ pr_collect pr c = true) /\
      (forall x, In x (ss_checked ss') -> pr_collect pr x = true ->
                 exists c, In c (ss_collected ss') /\ veq x c = true) /\
      NoDupV mcstate veq (ss_collected ss').
    Proof.
      apply (collected_exact_rel mcstate veq (expM sys0) (mc_enabled_ok so sys0) (mc_no_events so)
               (pr_collect pr) (pr_inv pr) (pr_goal pr) (pr_prune pr) debug mc_veq_refl mc_veq_sym).
    Qed.

    Theorem mc_status_counts debug vm st fuel start ss' :
      debug = true -> runS sys0 debug vm st fuel start (startS vm start) = ODone ss' ->
      forall s, cnt s (ss_statuses ss') =
                count_status mcstate (final_status mcstate (pr_goal pr) (pr_prune pr)) s (ss_checked ss').
    Proof.
      apply (status_counts_rel mcstate veq (expM sys0) (mc_enabled_ok so sys0) (mc_no_events so)
               (pr_collect pr) (pr_inv pr) (pr_goal pr) (pr_prune pr) debug mc_veq_refl).
    Qed.
    Theorem mc_status_counts_off debug vm st fuel start :
      debug = false ->
      match runS sys0 debug vm st fuel start (startS vm start) with
      | ODone ss' | OErr _ _ ss' => ss_statuses ss' = []
      | _ => True
      end.
    Proof. apply status_counts_off. Qed.

    (* ---- with the side conditions ---- *)
    Theorem mc_reach_good start x : Gstart start -> OFstart start -> ReachM sys0 start x -> GoodSt sys0 (st_net start) x.
    Proof.
      intros G OF Hx.
      apply (mc_reach_good_on sys0 (st_net start) wf0 (ReachM sys0 start) (Reach_D_closed start (st_net start)) OF start x
               (GoodD_start start G) Hx).
    Qed.

    Theorem mc_search_complete debug vm st fuel start ss' :
      Gstart start -> OFstart start ->
      runS sys0 debug vm st fuel start (startS vm start) = ODone ss' ->
      forall x, ReachM sys0 start x -> exists y, In y (ss_checked ss') /\ veq x y = true.
    Proof.
      intros G OF.
      apply (mc_search_complete_on sys0 (st_net start) wf0 (ReachM sys0 start) (Reach_D_closed start (st_net start)) OF debug
               vm st fuel start ss' (GoodD_start start G)).
    Qed.

    (* C03: the verdict.  ODone: no reachable state (not behind a goal / prune state) breaks the invariant or is a
       dead end; OErr: the reported state is reachable and its verdict is that error (vk_err_spec spells it out) *)
    Theorem mc_verdict debug vm st fuel start :
      Gstart start -> OFstart start ->
      match runS sys0 debug vm st fuel start (startS vm start) with
      | ODone _ => forall x, ReachM sys0 start x -> forall m, vkM x <> Ok (VErr m)
      | OErr m s _ => ReachM sys0 start s /\ vkM s = Ok (VErr m)
      | _ => True
      end.
    Proof.
      intros G OF. destruct (runS sys0 debug vm st fuel start (startS vm start)) as [ss'|m s ss'| |] eqn:E; auto.
      - apply (mc_search_verdict_on sys0 (st_net start) wf0 (ReachM sys0 start) (Reach_D_closed start (st_net start)) OF debug
                 vm st fuel start ss' (GoodD_start start G) E).
      - apply (mc_error_sound _ _ _ _ _ _ _ _ E).
    Qed.

    Corollary mc_verdict_ok debug vm st fuel start ss' :
      Gstart start -> OFstart start ->
      runS sys0 debug vm st fuel start (startS vm start) = ODone ss' ->
      forall x, ReachM sys0 start x ->
        pr_inv pr x = None /\
        (pr_goal pr x = None -> pr_prune pr x = None -> mc_no_events so x <> Ok true).
    Proof.
      intros G OF H x Hx. pose proof (mc_verdict debug vm st fuel start G OF) as V. rewrite H in V.
      specialize (V x Hx). split.
      - destruct (pr_inv pr x) as [m|] eqn:E; [|reflexivity]. exfalso. apply (V m). apply vk_err_spec. now left.
      - intros Hg Hp He. destruct (pr_inv pr x) as [m|] eqn:E.
        + apply (V m). apply vk_err_spec. now left.
        + apply (V dead_end_msg). apply vk_err_spec. right. auto.
    Qed.

    (* C11 (and C10): any two (debug, visited mode, strategy, fuel) combinations *)
    Theorem mc_modes_agree_states debug1 debug2 vm1 vm2 st1 st2 fuel1 fuel2 start ss1 ss2 :
      Gstart start -> OFstart start ->
      runS sys0 debug1 vm1 st1 fuel1 start (startS vm1 start) = ODone ss1 ->
      runS sys0 debug2 vm2 st2 fuel2 start (startS vm2 start) = ODone ss2 ->
      (forall x, In x (ss_checked ss1) -> exists y, In y (ss_checked ss2) /\ veq x y = true) /\
      (forall y, In y (ss_checked ss2) -> exists x, In x (ss_checked ss1) /\ veq y x = true).
    Proof.
      intros G OF H1 H2. split.
      - intros x Hx. apply (mc_search_complete _ _ _ _ _ _ G OF H2), (mc_search_sound _ _ _ _ _ _ H1), Hx.
      - intros y Hy. apply (mc_search_complete _ _ _ _ _ _ G OF H1), (mc_search_sound _ _ _ _ _ _ H2), Hy.
    Qed.

    Theorem mc_modes_agree_verdict debug1 debug2 vm1 vm2 st1 st2 fuel1 fuel2 start ss1 m s ss2 :
      Gstart start -> OFstart start ->
      runS sys0 debug1 vm1 st1 fuel1 start (startS vm1 start) = ODone ss1 ->
      runS sys0 debug2 vm2 st2 fuel2 start (startS vm2 start) = OErr m s ss2 -> False.
    Proof.
      intros G OF H1 H2. destruct (mc_error_sound _ _ _ _ _ _ _ _ H2) as [Hr Hv].
      pose proof (mc_verdict debug1 vm1 st1 fuel1 start G OF) as V. rewrite H1 in V. exact (V s Hr m Hv).
    Qed.

    Theorem mc_modes_agree debug1 debug2 vm1 vm2 st1 st2 fuel1 fuel2 start :
      Gstart start -> OFstart start ->
      let o1 := runS sys0 debug1 vm1 st1 fuel1 start (startS vm1 start) in
      let o2 := runS sys0 debug2 vm2 st2 fuel2 start (startS vm2 start) in
      is_done mcstate o1 || is_err mcstate o1 = true -> is_done mcstate o2 || is_err mcstate o2 = true ->
      is_done mcstate o1 = is_done mcstate o2 /\ is_err mcstate o1 = is_err mcstate o2.
    Proof.
      intros G OF o1 o2 D1 D2.
      destruct o1 as [ss1|m1 b1 ss1| |] eqn:E1; destruct o2 as [ss2|m2 b2 ss2| |] eqn:E2;
        cbn in *; try discriminate; auto.
      - exfalso. exact (mc_modes_agree_verdict _ _ _ _ _ _ _ _ _ _ _ _ _ G OF E1 E2).
      - exfalso. exact (mc_modes_agree_verdict _ _ _ _ _ _ _ _ _ _ _ _ _ G OF E2 E1).
    Qed.

    (* C10 *)
    Theorem mc_bfs_dfs_same_states debug vm fuel1 fuel2 start ss1 ss2 :
      Gstart start -> OFstart start ->
      runS sys0 debug vm Bfs fuel1 start (startS vm start) = ODone ss1 ->
      runS sys0 debug vm Dfs fuel2 start (startS vm start) = ODone ss2 ->
      (forall x, In x (ss_checked ss1) -> exists y, In y (ss_checked ss2) /\ veq x y = true) /\
      (forall y, In y (ss_checked ss2) -> exists x, In x (ss_checked ss1) /\ veq y x = true).
    Proof. apply mc_modes_agree_states. Qed.

    Theorem mc_bfs_dfs_same_verdict debug vm fuel1 fuel2 start :
      Gstart start -> OFstart start ->
      (forall ss1 m s ss2, runS sys0 debug vm Bfs fuel1 start (startS vm start) = ODone ss1 ->
                           runS sys0 debug vm Dfs fuel2 start (startS vm start) = OErr m s ss2 -> False) /\
      (forall ss1 m s ss2, runS sys0 debug vm Dfs fuel1 start (startS vm start) = ODone ss1 ->
                           runS sys0 debug vm Bfs fuel2 start (startS vm start) = OErr m s ss2 -> False).
    Proof. intros G OF. split; intros ss1 m s ss2; apply mc_modes_agree_verdict; assumption. Qed.

    Theorem mc_bfs_shortest debug vm fuel start m s ss' :
      Gstart start -> OFstart start ->
      runS sys0 debug vm Bfs fuel start (startS vm start) = OErr m s ss' ->
      exists n, ReachNM sys0 start n s /\ vkM s = Ok (VErr m) /\
                forall k x, (k < n)%nat -> ReachNM sys0 start k x -> forall m', vkM x <> Ok (VErr m').
    Proof.
      intros G OF.
      apply (mc_bfs_shortest_on sys0 (st_net start) wf0 (ReachM sys0 start) (Reach_D_closed start (st_net start)) OF debug
               vm fuel start m s ss' (GoodD_start start G)).
    Qed.

    (* C16: staged exploration from several start states sharing the visited cache *)
    Theorem mc_union_of_roots debug vm st fuel net0 roots ss' :
      (forall r, In r roots -> GoodSt sys0 net0 r) ->
      OverrideFreeOn sys0 net0 (ReachAny roots) ->
      rootsS sys0 debug vm st fuel roots (ss_empty mcstate) = Some ss' ->
      (forall r, In r roots -> forall x, ReachM sys0 r x -> exists y, In y (ss_checked ss') /\ veq x y = true) /\
      (forall y, In y (ss_checked ss') ->
                 (exists r, In r roots /\ ReachM sys0 r y) /\ (vkM y = Ok VFinal \/ vkM y = Ok VGo)) /\
      (forall r, In r roots -> In r (ss_checked ss')) /\
      (vm <> VDisabled -> ClosedM sys0 (ss_visited ss') (ss_checked ss')) /\
      (forall y, In y (ss_checked ss') -> GoodSt sys0 net0 y).
    Proof.
      intros HG OF H.
      assert (HGr : GoodL mcstate (GoodD sys0 net0 (ReachAny roots)) roots).
      { intros r Hr. split; [apply HG, Hr|]. exists r. split; [exact Hr|constructor]. }
      destruct (mc_union_of_roots_on sys0 net0 wf0 (ReachAny roots) (ReachAny_D_closed roots net0) OF debug
                  vm st fuel roots ss' HGr H) as (A & B & C & E).
      split; [exact A|]. split; [exact B|]. split; [exact C|]. split; [intros Hon; apply (E Hon)|].
      intros y Hy. destruct (B y Hy) as [(r & Hr & Hry) _].
      apply (mc_reach_good_on sys0 net0 wf0 (ReachAny roots) (ReachAny_D_closed roots net0) OF r y (HGr r Hr) Hry).
    Qed.

    Theorem mc_staged_run_disabled debug vm st fuel start ss0 ss' :
      vm = VDisabled ->
      runS sys0 debug vm st fuel start (mkS vm ss0 start) = ODone ss' ->
      ss_visited ss' = ss_visited ss0 /\
      exists Cn, ss_checked ss' = Cn ++ ss_checked ss0 /\
                 (forall c, In c Cn -> ReachM sys0 start c /\ (vkM c = Ok VFinal \/ vkM c = Ok VGo)) /\
                 (forall x, ReachM sys0 start x -> In x Cn).
    Proof. apply staged_run_disabled_rel. Qed.
  End Inst.


  (* ================= the graph depends on sys0 only through its frame ================= *)
  (* (what set_state does not write: node names, process names, clock skews, ordering mode).  This is what lets
     the stages of run_starts / run_from_states share one visited cache: every stage runs mc_expand over a
     system of the same frame (Restore: set_state_frame, cb_run_frame). *)
  Lemma set_state_frame_eq (a b : mcsys) st :
    wf_sys a -> wf_sys b -> same_frame a b -> state_fits a st -> set_state a st = set_state b st.
  Proof.
    intros Wa Wb F Fit.
    destruct (set_state_fits a st Wa Fit) as (a' & Sa & Ga & Fa & Wa').
    assert (Fitb : state_fits b st) by (eapply state_fits_frame; [apply same_frame_nomf; exact F|exact Fit]).
    destruct (set_state_fits b st Wb Fitb) as (b' & Sb & Gb & Fb & Wb').
    assert (E : a' = b').
    { apply get_state_inj; [|congruence].
      eapply same_frame_trans; [apply same_frame_sym; exact Fa|]. eapply same_frame_trans; [exact F|exact Fb]. }
    rewrite Sa, Sb, E. reflexivity.
  Qed.

  Lemma mc_expand_frame (a b : mcsys) st :
    wf_sys a -> wf_sys b -> same_frame a b -> state_fits a st -> expM a st = expM b st.
  Proof. intros Wa Wb F Fit. unfold mc_expand. rewrite (set_state_frame_eq a b st Wa Wb F Fit). reflexivity. Qed.

  Lemma GoodSt_frame (a b : mcsys) net0 st : same_frame a b -> GoodSt a net0 st -> GoodSt b net0 st.
  Proof.
    intros F (I & Hn & Fit). split; [exact I|]. split; [exact Hn|].
    eapply state_fits_frame; [apply same_frame_nomf; exact F|exact Fit].
  Qed.

  Lemma Reach_frame (a b : mcsys) r x :
    wf_sys a -> wf_sys b -> same_frame a b ->
    (forall y, ReachM a r y -> state_fits a y) -> ReachM a r x -> ReachM b r x.
  Proof.
    intros Wa Wb F Hfit H. induction H as [|s l x Hs IH Hv He Hin]; [constructor|].
    eapply RS; [exact IH|exact Hv| |exact Hin].
    rewrite <- (mc_expand_frame a b s Wa Wb F (Hfit s Hs)). exact He.
  Qed.

  Lemma Closed_frame (a b : mcsys) V C :
    wf_sys a -> wf_sys b -> same_frame a b ->
    (forall c, In c C -> state_fits a c) -> ClosedM a V C -> ClosedM b V C.
  Proof.
    intros Wa Wb F Hfit [HV HC]. split; [exact HV|].
    intros c Hc. destruct (HC c Hc) as [Hf|(Hg & l & He & Hl)]; [now left|right].
    split; [exact Hg|]. exists l. split; [|exact Hl].
    rewrite <- (mc_expand_frame a b c Wa Wb F (Hfit c Hc)). exact He.
  Qed.

  (* ================= lifting through run_impl / run (Model/McRun.v) ================= *)
  Local Notation cb_runM := (cb_run so tgt0 teq0 t0 clock handler DS mc_rand ds_of).
  Local Notation run_implM := (run_impl so teqb tgt0 teq0 t0 clock ps_eqb handler DS mc_rand ds_of).
  Local Notation runM := (run so teqb tgt0 teq0 t0 clock ps_eqb handler DS mc_rand ds_of).
  Local Notation stratS s2 cf := (runS s2 (cf_debug cf) (cf_vm cf) (cf_strategy cf) (cf_fuel cf)).

  (* inversion of run_impl: the result is that of run_strategy on the system after the preliminary callback *)
  Lemma run_impl_inv cf sys cb ss sys' res ss' s2 :
    cb_runM (started sys) cb = Ok s2 ->
    run_implM cf pr sys cb ss = Ok (sys', res, ss') ->
    match stratS s2 cf (get_state s2) (mkS (cf_vm cf) ss (get_state s2)) with
    | ODone ss1 => res = ROk (ss_statuses ss1) (ss_collected ss1) /\ ss' = reset mcstate ss1
    | OErr m st ss1 => res = RErr m (st_trace st) /\ ss' = reset mcstate ss1
    | OFuel => res = RFuel /\ ss' = mkS (cf_vm cf) ss (get_state s2)
    | OPanic t => res = RPanic t /\ ss' = mkS (cf_vm cf) ss (get_state s2)
    end.
  Proof.
    intros Hcb H. unfold run_impl in H. fold (started sys) in H. cbv zeta in H.
    rewrite Hcb in H. cbn [bind] in H.
    destruct (set_state s2 (get_state sys)) as [s3|t]; cbn [bind] in H; [|discriminate].
    destruct (stratS s2 cf (get_state s2) (mkS (cf_vm cf) ss (get_state s2))) as [ss1|m st ss1| |t];
      inversion H; subst; auto.
  Qed.

  Lemma wf_started (sys : mcsys) : wf_sys sys -> wf_sys (started sys).
  Proof. intros H. exact H. Qed.
  Lemma cb_wf sys cb s2 : wf_sys sys -> cb_runM (started sys) cb = Ok s2 -> wf_sys s2.
  Proof. intros W H. apply (cb_run_frame _ _ _ _ _ _ _ _ _ _ _ _ H (wf_started sys W)). Qed.

  (* for a run without preliminary callback the invariant of the start system is that of sys *)
  Lemma StInv_started (sys : mcsys) : StInv tleb (started sys) <-> StInv tleb sys.
  Proof. reflexivity. Qed.


  (* the invariant of the stage system for preliminary callbacks that only change the ordering mode or the network
     (for CbLocal / CbCrash it has to be established separately: EqBisim proves preservation for take_choice only) *)
  Definition cb_simple (o : @cbop T) : Prop := match o with CbMode _ | CbNet _ => True | _ => False end.

  Lemma net_apply_loc (n : mcnet) o : n_loc (net_apply n o) = n_loc n.
  Proof. destruct o; reflexivity. Qed.

  Lemma StInv_cb_simple cb : forall (s s2 : mcsys),
    Forall cb_simple cb -> StInv tleb s -> cb_runM s cb = Ok s2 -> StInv tleb s2.
  Proof.
    induction cb as [|o r IH]; intros s s2 HF I H; cbn [cb_run] in H.
    - injection H as <-. exact I.
    - inversion HF as [|o' r' Ho Hr]; subst.
      destruct o as [node proc m|node|mf|o']; try contradiction; cbn [cb_apply bind] in H.
      + refine (IH _ s2 Hr _ H). exact I.
      + refine (IH _ s2 Hr _ H). destruct I as (P & S & D). split; [|split; [exact S|exact D]].
        intros nn nd p Hn Hp. cbn [s_net sys_with]. rewrite net_apply_loc. exact (P nn nd p Hn Hp).
  Qed.

  Corollary StInv_stage_simple sys cb s2 :
    Forall cb_simple cb -> StInv tleb sys -> cb_runM (started sys) cb = Ok s2 -> StInv tleb s2.
  Proof. intros HF I H. apply (StInv_cb_simple cb (started sys) s2 HF); [apply StInv_started; exact I|exact H]. Qed.

  Section Run.
    Variable sys : mcsys.
    Variable cb : list (@cbop T).
    Variable s2 : mcsys.
    Hypothesis Wsys : wf_sys sys.
    Hypothesis Hcb : cb_runM (started sys) cb = Ok s2.

    Local Notation start := (get_state s2).
    Local Notation OF2 := (OverrideFreeOn s2 (s_net s2) (ReachM s2 start)).

    Lemma run_wf2 : wf_sys s2.
    Proof. exact (cb_wf sys cb s2 Wsys Hcb). Qed.

    (* RErr: the error is genuine (no side condition) *)
    Theorem run_err_genuine cf ss sys' m tr ss' :
      run_implM cf pr sys cb ss = Ok (sys', RErr m tr, ss') ->
      (cf_vm cf <> VDisabled -> ClosedM s2 (ss_visited ss) (ss_checked ss)) ->
      sys' = sys /\ exists s, ReachM s2 start s /\ vkM s = Ok (VErr m) /\ tr = st_trace s.
    Proof.
      intros H HCl. split; [exact (run_impl_rolls_back _ _ _ _ _ _ _ _ _ _ _ _ _ _ _ _ _ _ _ Wsys H)|].
      pose proof (run_impl_inv cf sys cb ss sys' _ ss' s2 Hcb H) as V.
      destruct (stratS s2 cf start (mkS (cf_vm cf) ss start)) as [ss1|m1 st1 ss1| |t] eqn:E;
        destruct V as [V1 V2]; try discriminate V1.
      injection V1 as -> ->.
      exists st1.
      destruct (staged_run_error_rel mcstate veq (expM s2) (mc_enabled_ok so s2) (mc_no_events so)
                  (pr_collect pr) (pr_inv pr) (pr_goal pr) (pr_prune pr) (cf_debug cf) mc_veq_refl
                  (cf_vm cf) (cf_strategy cf) (cf_fuel cf) start ss m1 st1 ss1 HCl E) as [A B].
      split; [exact A|]. split; [exact B|reflexivity].
    Qed.

    Corollary run_err_genuine_fresh cf sys' m tr ss' :
      runM cf pr sys cb = Ok (sys', RErr m tr, ss') ->
      sys' = sys /\ exists s, ReachM s2 start s /\ vkM s = Ok (VErr m) /\ tr = st_trace s.
    Proof. intros H. apply (run_err_genuine cf (ss_empty mcstate) sys' m tr ss' H). intros _. apply Closed_nil. Qed.

    Hypothesis I2 : StInv tleb s2.

    Lemma run_Gstart : GoodSt s2 (st_net start) start.
    Proof. exact (GoodSt_sys s2 I2). Qed.

    (* ROk: exactly the reachable states were checked, none is bad *)
    Theorem run_ok_sound_complete cf sys' stat coll ss' :
      OF2 ->
      runM cf pr sys cb = Ok (sys', ROk stat coll, ss') ->
      sys' = sys /\
      (forall x, In x (ss_checked ss') -> ReachM s2 start x /\ (vkM x = Ok VFinal \/ vkM x = Ok VGo)) /\
      (forall x, ReachM s2 start x -> exists y, In y (ss_checked ss') /\ veq x y = true) /\
      (forall x, ReachM s2 start x -> forall m, vkM x <> Ok (VErr m)).
    Proof.
      intros OF H. unfold run in H.
      split; [exact (run_impl_rolls_back _ _ _ _ _ _ _ _ _ _ _ _ _ _ _ _ _ _ _ Wsys H)|].
      pose proof (run_impl_inv cf sys cb _ sys' _ ss' s2 Hcb H) as V.
      destruct (stratS s2 cf start (startS (cf_vm cf) start)) as [ss1|m1 st1 ss1| |t] eqn:E;
        destruct V as [V1 V2]; try discriminate V1.
      subst ss'. cbn [reset ss_checked].
      split; [exact (mc_search_sound s2 _ _ _ _ _ _ E)|].
      split; [exact (mc_search_complete s2 run_wf2 _ _ _ _ _ _ run_Gstart OF E)|].
      pose proof (mc_verdict s2 run_wf2 (cf_debug cf) (cf_vm cf) (cf_strategy cf) (cf_fuel cf) start run_Gstart OF) as W.
      rewrite E in W. exact W.
    Qed.

    (* C03 at the level of run *)
    Theorem run_verdict cf sys' res ss' :
      OF2 ->
      runM cf pr sys cb = Ok (sys', res, ss') ->
      match res with
      | ROk _ _ => forall x, ReachM s2 start x -> forall m, vkM x <> Ok (VErr m)
      | RErr m tr => exists s, ReachM s2 start s /\ vkM s = Ok (VErr m) /\ tr = st_trace s
      | _ => True
      end.
    Proof.
      intros OF H. destruct res as [stat coll|m tr| |t]; auto.
      - apply (run_ok_sound_complete cf sys' stat coll ss' OF H).
      - apply (run_err_genuine_fresh cf sys' m tr ss' H).
    Qed.

    (* C16: collected states and status counters of a run *)
    Theorem run_collected_exact cf sys' stat coll ss' :
      runM cf pr sys cb = Ok (sys', ROk stat coll, ss') ->
      (forall c, In c coll -> In c (ss_checked ss') /\ pr_collect pr c = true) /\
      (forall x, In x (ss_checked ss') -> pr_collect pr x = true -> exists c, In c coll /\ veq x c = true) /\
      NoDupV mcstate veq coll.
    Proof.
      intros H. unfold run in H.
      pose proof (run_impl_inv cf sys cb _ sys' _ ss' s2 Hcb H) as V.
      destruct (stratS s2 cf start (startS (cf_vm cf) start)) as [ss1|m1 st1 ss1| |t] eqn:E;
        destruct V as [V1 V2]; try discriminate V1.
      injection V1 as -> ->. subst ss'. cbn [reset ss_checked].
      exact (mc_collected_exact s2 _ _ _ _ _ _ E).
    Qed.

    Theorem run_status_counts cf sys' stat coll ss' :
      cf_debug cf = true ->
      runM cf pr sys cb = Ok (sys', ROk stat coll, ss') ->
      forall s, cnt s stat = count_status mcstate (final_status mcstate (pr_goal pr) (pr_prune pr)) s (ss_checked ss').
    Proof.
      intros Hd H. unfold run in H.
      pose proof (run_impl_inv cf sys cb _ sys' _ ss' s2 Hcb H) as V.
      destruct (stratS s2 cf start (startS (cf_vm cf) start)) as [ss1|m1 st1 ss1| |t] eqn:E;
        destruct V as [V1 V2]; try discriminate V1.
      injection V1 as -> ->. subst ss'. cbn [reset ss_checked].
      exact (mc_status_counts s2 _ _ _ _ _ _ Hd E).
    Qed.
    Theorem run_status_counts_off cf sys' stat coll ss' :
      cf_debug cf = false ->
      runM cf pr sys cb = Ok (sys', ROk stat coll, ss') -> stat = [].
    Proof.
      intros Hd H. unfold run in H.
      pose proof (run_impl_inv cf sys cb _ sys' _ ss' s2 Hcb H) as V.
      pose proof (mc_status_counts_off s2 (cf_debug cf) (cf_vm cf) (cf_strategy cf) (cf_fuel cf) start Hd) as W.
      destruct (stratS s2 cf start (startS (cf_vm cf) start)) as [ss1|m1 st1 ss1| |t] eqn:E;
        destruct V as [V1 V2]; try discriminate V1.
      injection V1 as -> ->. exact W.
    Qed.

    (* C10 / C11: two runs with arbitrary configurations (strategy Bfs / Dfs, visited mode Full / Partial / Disabled,
       execution mode, fuel) on the same system with the same callback *)
    Theorem run_modes_agree_states cf1 cf2 sys1 sys2' stat1 coll1 ss1 stat2 coll2 ss2 :
      OF2 ->
      runM cf1 pr sys cb = Ok (sys1, ROk stat1 coll1, ss1) ->
      runM cf2 pr sys cb = Ok (sys2', ROk stat2 coll2, ss2) ->
      (forall x, In x (ss_checked ss1) -> exists y, In y (ss_checked ss2) /\ veq x y = true) /\
      (forall y, In y (ss_checked ss2) -> exists x, In x (ss_checked ss1) /\ veq y x = true).
    Proof.
      intros OF H1 H2.
      destruct (run_ok_sound_complete cf1 _ _ _ _ OF H1) as (_ & A1 & B1 & _).
      destruct (run_ok_sound_complete cf2 _ _ _ _ OF H2) as (_ & A2 & B2 & _).
      split.
      - intros x Hx. apply B2, A1, Hx.
      - intros y Hy. apply B1, A2, Hy.
    Qed.

    Theorem run_modes_agree_verdict cf1 cf2 sys1 sys2' stat1 coll1 ss1 m tr ss2 :
      OF2 ->
      runM cf1 pr sys cb = Ok (sys1, ROk stat1 coll1, ss1) ->
      runM cf2 pr sys cb = Ok (sys2', RErr m tr, ss2) -> False.
    Proof.
      intros OF H1 H2.
      destruct (run_ok_sound_complete cf1 _ _ _ _ OF H1) as (_ & _ & _ & V).
      destruct (run_err_genuine_fresh cf2 _ _ _ _ H2) as (_ & s & Hr & Hv & _).
      exact (V s Hr m Hv).
    Qed.

    (* C10: the counter-example of a Bfs run is at minimal depth *)
    Theorem run_err_shortest cf sys' m tr ss' :
      OF2 -> cf_strategy cf = Bfs ->
      runM cf pr sys cb = Ok (sys', RErr m tr, ss') ->
      exists n s, ReachNM s2 start n s /\ vkM s = Ok (VErr m) /\ tr = st_trace s /\
                  forall k x, (k < n)%nat -> ReachNM s2 start k x -> forall m', vkM x <> Ok (VErr m').
    Proof.
      intros OF Hb H. unfold run in H.
      pose proof (run_impl_inv cf sys cb _ sys' _ ss' s2 Hcb H) as V.
      destruct (stratS s2 cf start (startS (cf_vm cf) start)) as [ss1|m1 st1 ss1| |t] eqn:E;
        destruct V as [V1 V2]; try discriminate V1.
      injection V1 as -> ->. rewrite Hb in E.
      destruct (mc_bfs_shortest s2 run_wf2 _ _ _ _ _ _ _ run_Gstart OF E) as (n & A & B & C).
      exists n, st1. split; [exact A|]. split; [exact B|]. split; [reflexivity|exact C].
    Qed.

    (* C16: one run_impl stage from a Closed visited cache (visited modes): the cache stays Closed, exactly the part
       of the graph reachable from this stage's start state is added, the statistics are those of this stage *)
    Theorem run_impl_staged (D : mcstate -> Prop) cf ss sys' stat coll ss' :
      (forall s l x, GoodSt s2 (s_net s2) s -> D s -> vkM s = Ok VGo -> expM s2 s = Ok l -> In x l -> D x) ->
      OverrideFreeOn s2 (s_net s2) D -> D start ->
      cf_vm cf <> VDisabled ->
      ClosedM s2 (ss_visited ss) (ss_checked ss) -> GoodL mcstate (GoodD s2 (s_net s2) D) (ss_checked ss) ->
      run_implM cf pr sys cb ss = Ok (sys', ROk stat coll, ss') ->
      sys' = sys /\
      ClosedM s2 (ss_visited ss') (ss_checked ss') /\ GoodL mcstate (GoodD s2 (s_net s2) D) (ss_checked ss') /\
      incl (ss_visited ss) (ss_visited ss') /\
      (exists Cn, ss_checked ss' = Cn ++ ss_checked ss /\ In start Cn /\
                  forall c, In c Cn -> ReachM s2 start c /\ (vkM c = Ok VFinal \/ vkM c = Ok VGo)) /\
      (forall x, ReachM s2 start x -> exists y, In y (ss_checked ss') /\ veq x y = true) /\
      ss_statuses ss' = [] /\ ss_collected ss' = [].
    Proof.
      intros Dcl OF Dst Hon HCl HG H.
      split; [exact (run_impl_rolls_back _ _ _ _ _ _ _ _ _ _ _ _ _ _ _ _ _ _ _ Wsys H)|].
      pose proof (run_impl_inv cf sys cb ss sys' _ ss' s2 Hcb H) as V.
      destruct (stratS s2 cf start (mkS (cf_vm cf) ss start)) as [ss1|m1 st1 ss1| |t] eqn:E;
        destruct V as [V1 V2]; try discriminate V1.
      subst ss'. cbn [reset ss_checked ss_visited ss_statuses ss_collected].
      destruct (mc_staged_run_on s2 (s_net s2) run_wf2 D Dcl OF (cf_debug cf) (cf_vm cf) (cf_strategy cf) (cf_fuel cf)
                  start ss ss1 Hon (conj run_Gstart Dst) HCl HG E) as (A & B & C & F & G).
      auto 10.
    Qed.
  End Run.

  (* ================= C16 at the level of run_starts / run_from_states ================= *)
  (* A stage runs the search on s2 (start state set, preliminary callback applied); all stage systems have one frame,
     so the hypotheses and conclusions are stated for ONE graph: mc_expand F, F any system of that frame. *)
  Section StagedFrame.
    Variables F s2 : mcsys.
    Hypothesis WF_F : wf_sys F.
    Hypothesis W2 : wf_sys s2.
    Hypothesis HF : same_frame F s2.
    Variable net0 : mcnet.
    Variable D : mcstate -> Prop.
    Hypothesis D_closed : forall s l x, GoodSt F net0 s -> D s -> vkM s = Ok VGo -> expM F s = Ok l -> In x l -> D x.
    Hypothesis OF : OverrideFreeOn F net0 D.

    Lemma D_closed_2 s l x : GoodSt s2 net0 s -> D s -> vkM s = Ok VGo -> expM s2 s = Ok l -> In x l -> D x.
    Proof.
      intros G Hd Hv He Hi. pose proof (GoodSt_frame s2 F net0 s (same_frame_sym _ _ HF) G) as G'.
      apply (D_closed s l x G' Hd Hv); [|exact Hi].
      rewrite (mc_expand_frame F s2 s WF_F W2 HF (proj2 (proj2 G'))). exact He.
    Qed.
    Lemma OF_2 : OverrideFreeOn s2 net0 D.
    Proof.
      intros st s1 c G Hd Hv S. pose proof (GoodSt_frame s2 F net0 st (same_frame_sym _ _ HF) G) as G'.
      apply (OF st s1 c G' Hd Hv). rewrite (set_state_frame_eq F s2 st WF_F W2 HF (proj2 (proj2 G'))). exact S.
    Qed.

    Lemma GoodD_F2 st : GoodD F net0 D st -> GoodD s2 net0 D st.
    Proof. intros [G Hd]. split; [exact (GoodSt_frame F s2 net0 st HF G)|exact Hd]. Qed.
    Lemma GoodD_2F st : GoodD s2 net0 D st -> GoodD F net0 D st.
    Proof. intros [G Hd]. split; [exact (GoodSt_frame s2 F net0 st (same_frame_sym _ _ HF) G)|exact Hd]. Qed.

    Lemma Reach_F2 start x : GoodD F net0 D start -> ReachM F start x -> ReachM s2 start x.
    Proof.
      intros G. apply (Reach_frame F s2 start x WF_F W2 HF).
      intros y Hy. apply (mc_reach_good_on F net0 WF_F D D_closed OF start y G Hy).
    Qed.
    Lemma Reach_2F start x : GoodD F net0 D start -> ReachM s2 start x -> ReachM F start x.
    Proof.
      intros G. apply (Reach_frame s2 F start x W2 WF_F (same_frame_sym _ _ HF)).
      intros y Hy. apply (mc_reach_good_on s2 net0 W2 D D_closed_2 OF_2 start y (GoodD_F2 start G) Hy).
    Qed.

    Theorem mc_staged_run_frame debug vm st fuel start ss0 ss' :
      vm <> VDisabled -> GoodD F net0 D start ->
      ClosedM F (ss_visited ss0) (ss_checked ss0) -> GoodL mcstate (GoodD F net0 D) (ss_checked ss0) ->
      runS s2 debug vm st fuel start (mkS vm ss0 start) = ODone ss' ->
      ClosedM F (ss_visited ss') (ss_checked ss') /\ GoodL mcstate (GoodD F net0 D) (ss_checked ss') /\
      incl (ss_visited ss0) (ss_visited ss') /\
      (exists Cn, ss_checked ss' = Cn ++ ss_checked ss0 /\ In start Cn /\
                  forall c, In c Cn -> ReachM F start c /\ (vkM c = Ok VFinal \/ vkM c = Ok VGo)) /\
      (forall x, ReachM F start x -> exists y, In y (ss_checked ss') /\ veq x y = true).
    Proof.
      intros Hon G HCl HG H.
      assert (HCl2 : ClosedM s2 (ss_visited ss0) (ss_checked ss0)).
      { apply (Closed_frame F s2 _ _ WF_F W2 HF); [|exact HCl]. intros c Hc. apply (HG c Hc). }
      assert (HG2 : GoodL mcstate (GoodD s2 net0 D) (ss_checked ss0)) by (intros c Hc; apply GoodD_F2, HG, Hc).
      destruct (mc_staged_run_on s2 net0 W2 D D_closed_2 OF_2 debug vm st fuel start ss0 ss' Hon (GoodD_F2 start G)
                  HCl2 HG2 H) as (A & B & C & (Cn & E & Hs & Hn) & K).
      assert (B' : GoodL mcstate (GoodD F net0 D) (ss_checked ss')) by (intros c Hc; apply GoodD_2F, B, Hc).
      split.
      { apply (Closed_frame s2 F _ _ W2 WF_F (same_frame_sym _ _ HF)); [|exact A]. intros c Hc. apply (B c Hc). }
      split; [exact B'|]. split; [exact C|]. split.
      - exists Cn. split; [exact E|]. split; [exact Hs|]. intros c Hc. destruct (Hn c Hc) as [Hr Hv].
        split; [exact (Reach_2F start c G Hr)|exact Hv].
      - intros x Hx. apply K. exact (Reach_F2 start x G Hx).
    Qed.
  End StagedFrame.

  (* the stage systems of run_starts: sys is threaded (each stage hands back the system with the start state set) *)
  Inductive Stages (cb : list (@cbop T)) : mcsys -> list mcstate -> list mcsys -> Prop :=
  | stages_nil : forall sys, Stages cb sys [] []
  | stages_cons : forall sys st r s1 s2 l,
      set_state sys st = Ok s1 -> cb_runM (started s1) cb = Ok s2 -> Stages cb s1 r l ->
      Stages cb sys (st :: r) (s2 :: l).

  Lemma same_frame_started (a b : mcsys) : same_frame a b -> same_frame (started a) (started b).
  Proof. intros H. exact H. Qed.

  Lemma cb_run_same_frame cb : forall (a b a' b' : mcsys),
    wf_sys a -> wf_sys b -> same_frame a b -> cb_runM a cb = Ok a' -> cb_runM b cb = Ok b' -> same_frame a' b'.
  Proof.
    induction cb as [|o r IH]; intros a b a' b' Wa Wb F Ha Hb; cbn [cb_run] in Ha, Hb.
    - injection Ha as <-. injection Hb as <-. exact F.
    - destruct (cb_apply so tgt0 teq0 t0 clock handler DS mc_rand ds_of a o) as [a1|] eqn:Ea; cbn [bind] in Ha; [|discriminate].
      destruct (cb_apply so tgt0 teq0 t0 clock handler DS mc_rand ds_of b o) as [b1|] eqn:Eb; cbn [bind] in Hb; [|discriminate].
      destruct (cb_apply_frame _ _ _ _ _ _ _ _ _ _ _ _ Ea Wa) as (Wa1 & Fa & Ma).
      destruct (cb_apply_frame _ _ _ _ _ _ _ _ _ _ _ _ Eb Wb) as (Wb1 & Fb & Mb).
      apply (IH a1 b1 a' b' Wa1 Wb1); [|exact Ha|exact Hb].
      apply same_frame_intro.
      + eapply frame_nomf_trans; [apply frame_nomf_sym; exact Fa|]. eapply frame_nomf_trans; [|exact Fb].
        apply same_frame_nomf. exact F.
      + destruct o as [node proc m|node|mf|o']; try (rewrite <- Ma, <- Mb; apply same_frame_mf; exact F).
        subst a1 b1. reflexivity.
  Qed.

  Lemma stages_frame cb : forall sys starts s2s,
    wf_sys sys -> Stages cb sys starts s2s ->
    forall s2, In s2 s2s -> wf_sys s2 /\ frame_nomf sys s2.
  Proof.
    intros sys starts s2s W H. induction H as [sys|sys st r s1 s2 l Hs Hc Hst IH]; intros x Hx; [contradiction|].
    destruct (set_state_frame _ _ _ Hs W) as [W1 F1].
    destruct (cb_run_frame _ _ _ _ _ _ _ _ _ _ _ _ Hc (wf_started s1 W1)) as [W2 F2].
    destruct Hx as [<-|Hx].
    - split; [exact W2|]. eapply frame_nomf_trans; [apply same_frame_nomf; exact F1|exact F2].
    - destruct (IH W1 x Hx) as [A B]. split; [exact A|]. eapply frame_nomf_trans; [apply same_frame_nomf; exact F1|exact B].
  Qed.

  (* all stage systems have the same frame (including the ordering mode the callback leaves behind) *)
  Lemma stages_same_frame cb : forall sys starts s2s,
    wf_sys sys -> Stages cb sys starts s2s ->
    forall a b, In a s2s -> In b s2s -> same_frame a b.
  Proof.
    assert (Hgen : forall sys starts s2s, wf_sys sys -> Stages cb sys starts s2s ->
              forall s1' s2', wf_sys s1' -> same_frame sys s1' -> cb_runM (started s1') cb = Ok s2' ->
              forall b, In b s2s -> same_frame s2' b).
    { intros sys starts s2s W H. induction H as [sys|sys st r s1 s2 l Hs Hc Hst IH]; intros s1' s2' W1' F' Hc' b Hb;
        [contradiction|].
      destruct (set_state_frame _ _ _ Hs W) as [W1 F1].
      assert (F12 : same_frame s1' s1).
      { eapply same_frame_trans; [apply same_frame_sym; exact F'|exact F1]. }
      destruct Hb as [<-|Hb].
      - apply (cb_run_same_frame cb (started s1') (started s1) s2' s2 (wf_started _ W1') (wf_started _ W1)
                 (same_frame_started _ _ F12) Hc' Hc).
      - apply (IH W1 s1' s2' W1' (same_frame_sym _ _ F12) Hc' b Hb). }
    intros sys starts s2s W H. induction H as [sys|sys st r s1 s2 l Hs Hc Hst IH]; intros a b Ha Hb; [contradiction|].
    destruct (set_state_frame _ _ _ Hs W) as [W1 F1].
    destruct Ha as [<-|Ha]; destruct Hb as [<-|Hb].
    - apply same_frame_refl.
    - apply (Hgen s1 r l W1 Hst s1 s2 W1 (same_frame_refl _) Hc b Hb).
    - apply same_frame_sym. apply (Hgen s1 r l W1 Hst s1 s2 W1 (same_frame_refl _) Hc a Ha).
    - apply (IH W1 a b Ha Hb).
  Qed.

  Local Notation run_startsM := (run_starts so teqb tgt0 teq0 t0 clock ps_eqb handler DS mc_rand ds_of).

  Section Starts.
    Variable F : mcsys.
    Hypothesis WF_F : wf_sys F.
    Variable net0 : mcnet.
    Variable D : mcstate -> Prop.
    Hypothesis D_closed : forall s l x, GoodSt F net0 s -> D s -> vkM s = Ok VGo -> expM F s = Ok l -> In x l -> D x.
    Hypothesis OF : OverrideFreeOn F net0 D.
    Variable cf : config.
    Variable cb : list (@cbop T).
    Hypothesis Hon : cf_vm cf <> VDisabled.

    (* what is required of every stage system *)
    Definition StageOK (s2 : mcsys) : Prop :=
      same_frame F s2 /\ StInv tleb s2 /\ s_net s2 = net0 /\ D (get_state s2).

    Theorem run_starts_staged : forall starts sys s2s ss stat coll sys' stat' coll' ss',
      wf_sys sys -> Stages cb sys starts s2s -> (forall s2, In s2 s2s -> StageOK s2) ->
      ClosedM F (ss_visited ss) (ss_checked ss) -> GoodL mcstate (GoodD F net0 D) (ss_checked ss) ->
      run_startsM cf pr sys cb starts ss stat coll = Ok (sys', ROk stat' coll', ss') ->
      ClosedM F (ss_visited ss') (ss_checked ss') /\ GoodL mcstate (GoodD F net0 D) (ss_checked ss') /\
      incl (ss_visited ss) (ss_visited ss') /\
      (exists Cn, ss_checked ss' = Cn ++ ss_checked ss /\
          (forall s2, In s2 s2s -> In (get_state s2) Cn) /\
          (forall y, In y Cn -> (exists s2, In s2 s2s /\ ReachM F (get_state s2) y) /\
                                (vkM y = Ok VFinal \/ vkM y = Ok VGo))) /\
      (forall s2, In s2 s2s -> forall x, ReachM F (get_state s2) x -> exists y, In y (ss_checked ss') /\ veq x y = true).
    Proof.
      induction starts as [|st r IH]; intros sys s2s ss stat coll sys' stat' coll' ss' W HS HOK HCl HG H;
        cbn [run_starts] in H; inversion HS as [sys0|sys0 st0 r0 s1 s2 l Hs Hc Hst]; subst.
      - injection H as _ _ _ <-. split; [exact HCl|]. split; [exact HG|]. split; [apply incl_refl|]. split.
        + exists []. split; [reflexivity|]. split; [intros s2 []|intros y []].
        + intros s2 [].
      - rewrite Hs in H. cbn [bind] in H.
        destruct (run_implM cf pr s1 cb ss) as [[[s1' res] ss1]|t] eqn:Er; cbn [bind] in H; [|discriminate].
        destruct (set_state_frame _ _ _ Hs W) as [W1 F1].
        pose proof (run_impl_rolls_back _ _ _ _ _ _ _ _ _ _ _ _ _ _ _ _ _ _ _ W1 Er) as Hrb. subst s1'.
        pose proof (cb_wf s1 cb s2 W1 Hc) as W2.
        destruct (HOK s2 (or_introl eq_refl)) as (HF2 & I2 & Hn2 & Hd2).
        destruct res as [stat1 coll1|m tr| |t]; try (injection H as _ Hx _; discriminate Hx).
        pose proof (run_impl_inv cf s1 cb ss s1 _ ss1 s2 Hc Er) as V.
        destruct (stratS s2 cf (get_state s2) (mkS (cf_vm cf) ss (get_state s2))) as [ssx|m1 st1 ssx| |t] eqn:E;
          destruct V as [V1 V2]; try discriminate V1.
        assert (G2 : GoodD F net0 D (get_state s2)).
        { split; [|exact Hd2]. split; [apply StInv_state; exact I2|]. split; [exact Hn2|].
          apply frame_state_fits. apply frame_nomf_sym. apply same_frame_nomf. exact HF2. }
        destruct (mc_staged_run_frame F s2 WF_F W2 HF2 net0 D D_closed OF (cf_debug cf) (cf_vm cf) (cf_strategy cf)
                    (cf_fuel cf) (get_state s2) ss ssx Hon G2 HCl HG E) as (A & B & C & (C1 & E1 & Hs1 & Hn1) & K1).
        subst ss1.
        destruct (IH s1 l (reset mcstate ssx) _ _ sys' stat' coll' ss' W1 Hst
                    (fun x Hx => HOK x (or_intror Hx)) A B H) as (A' & B' & C' & (C2 & E2 & K2 & K3) & K4).
        cbn [reset ss_checked ss_visited] in *.
        split; [exact A'|]. split; [exact B'|]. split; [eapply incl_tran; eauto|]. split.
        + exists (C2 ++ C1). split; [rewrite E2, E1; apply app_assoc|]. split.
          * intros x [<-|Hx]; apply in_or_app; [now right|left; apply K2, Hx].
          * intros y Hy. apply in_app_or in Hy as [Hy|Hy].
            -- destruct (K3 y Hy) as [(x & Hx & Hxy) Hv]. split; [exists x; split; [now right|exact Hxy]|exact Hv].
            -- destruct (Hn1 y Hy) as [Hy' Hv]. split; [exists s2; split; [now left|exact Hy']|exact Hv].
        + intros x [<-|Hx]; [|apply K4, Hx].
          intros z Hz. destruct (K1 z Hz) as (y & Hy & Ey). exists y. split; [|exact Ey].
          rewrite E2. apply in_or_app. now right.
    Qed.

    (* run_from_states_with_change: the union of the parts reachable from the stage start states, exactly *)
    Variable tr_cmp : list (logentry T) -> list (logentry T) -> comparison.
    Local Notation run_from_statesM := (run_from_states so teqb tgt0 teq0 t0 clock ps_eqb handler DS mc_rand ds_of tr_cmp).

    Corollary run_from_states_staged ord sys starts s2s sys' stat coll ss' :
      wf_sys sys -> Stages cb sys (sort_starts so tr_cmp (ord starts)) s2s -> (forall s2, In s2 s2s -> StageOK s2) ->
      run_from_statesM ord cf pr sys cb starts = Ok (sys', ROk stat coll, ss') ->
      sys' = sys /\
      (forall s2, In s2 s2s -> forall x, ReachM F (get_state s2) x -> exists y, In y (ss_checked ss') /\ veq x y = true) /\
      (forall y, In y (ss_checked ss') -> (exists s2, In s2 s2s /\ ReachM F (get_state s2) y) /\
                                          (vkM y = Ok VFinal \/ vkM y = Ok VGo)) /\
      (forall s2, In s2 s2s -> In (get_state s2) (ss_checked ss')) /\
      ClosedM F (ss_visited ss') (ss_checked ss').
    Proof.
      intros W HS HOK H.
      split; [exact (run_from_states_rolls_back _ _ _ _ _ _ _ _ _ _ _ _ _ _ _ _ _ _ _ _ _ W H)|].
      unfold run_from_states in H.
      destruct (run_startsM cf pr sys cb (sort_starts so tr_cmp (ord starts)) (ss_empty mcstate) [] [])
        as [[[s1 res] ss1]|t] eqn:Er; cbn [bind] in H; [|discriminate].
      destruct (set_state s1 (get_state sys)) as [sx|t]; cbn [bind] in H; [|discriminate].
      injection H as _ -> ->.
      assert (C0 : ClosedM F (ss_visited (ss_empty mcstate)) (ss_checked (ss_empty mcstate))) by apply Closed_nil.
      assert (G0 : GoodL mcstate (GoodD F net0 D) (ss_checked (ss_empty mcstate))) by apply GoodL_nil.
      destruct (run_starts_staged _ _ _ _ _ _ _ _ _ _ W HS HOK C0 G0 Er) as (A & _ & _ & (Cn & E & K2 & K3) & K4).
      cbn [ss_empty ss_checked] in E. rewrite app_nil_r in E. subst Cn.
      split; [exact K4|]. split; [exact K3|]. split; [exact K2|exact A].
    Qed.
  End Starts.

  (* ================= C16: the combined statistics of run_starts / run_from_states ================= *)
  (* no side condition at all: McStats::combine adds up the per-stage status counters and unions the collected states *)
  Lemma run_impl_cb cf sys cb ss r : run_implM cf pr sys cb ss = Ok r -> exists s2, cb_runM (started sys) cb = Ok s2.
  Proof.
    intros H. unfold run_impl in H. fold (started sys) in H. cbv zeta in H.
    destruct (cb_runM (started sys) cb) as [s2|t]; [eauto|discriminate].
  Qed.

  Local Notation cstatus := (counted_status mcstate (pr_inv pr) (pr_goal pr) (pr_prune pr)).
  Local Notation CollUM := (CollU mcstate veq (pr_collect pr)).

  Theorem run_starts_stats cf cb : forall starts sys ss stat coll C0 sys' stat' coll' ss',
    ss_statuses ss = [] -> ss_collected ss = [] -> CollUM C0 coll ->
    run_startsM cf pr sys cb starts ss stat coll = Ok (sys', ROk stat' coll', ss') ->
    exists Cn, ss_checked ss' = Cn ++ ss_checked ss /\
      (cf_debug cf = true -> forall k, cnt k stat' = cnt k stat + count_status mcstate cstatus k Cn) /\
      (cf_debug cf = false -> stat' = stat) /\
      CollUM (Cn ++ C0) coll' /\ ss_statuses ss' = [] /\ ss_collected ss' = [].
  Proof.
    induction starts as [|st r IH]; intros sys ss stat coll C0 sys' stat' coll' ss' Hs Hc HU H; cbn [run_starts] in H.
    - injection H as _ <- <- <-. exists []. split; [reflexivity|]. split.
      { intros _ k. unfold count_status. cbn. lia. }
      split; [reflexivity|]. split; [exact HU|]. split; [exact Hs|exact Hc].
    - destruct (set_state sys st) as [s1|t]; cbn [bind] in H; [|discriminate].
      destruct (run_implM cf pr s1 cb ss) as [[[s1' res] ss1]|t] eqn:Er; cbn [bind] in H; [|discriminate].
      destruct res as [stat1 coll1|m tr| |t]; try (injection H as _ Hx _; discriminate Hx).
      destruct (run_impl_cb _ _ _ _ _ Er) as (s2 & Hcb).
      pose proof (run_impl_inv cf s1 cb ss s1' _ ss1 s2 Hcb Er) as V.
      destruct (stratS s2 cf (get_state s2) (mkS (cf_vm cf) ss (get_state s2))) as [ssx|m1 st1 ssx| |t] eqn:E;
        destruct V as [V1 V2]; try discriminate V1.
      injection V1 as -> ->. subst ss1.
      destruct (stage_stats mcstate veq mc_veq_refl mc_veq_sym (expM s2) (mc_enabled_ok so s2) (mc_no_events so)
                  (pr_collect pr) (pr_inv pr) (pr_goal pr) (pr_prune pr) (cf_debug cf) (cf_vm cf)
                  (cf_strategy cf) (cf_fuel cf) (get_state s2) ss ssx Hs Hc E) as (C1 & E1 & Hsort & S1 & S0 & U1).
      destruct (IH s1' (reset mcstate ssx) _ _ (C1 ++ C0) sys' stat' coll' ss' eq_refl eq_refl
                  (CollU_combine mcstate veq mc_veq_refl mc_veq_sym mc_veq_trans _ _ _ _ _ HU U1) H)
        as (C2 & E2 & T1 & T0 & U2 & Z1 & Z2).
      cbn [reset ss_checked] in E2.
      exists (C2 ++ C1). split; [rewrite E2, E1; apply app_assoc|]. split.
      { intros Hd k. rewrite (T1 Hd k), (cnt_combine _ _ k Hsort), (S1 Hd k), count_status_app. lia. }
      split.
      { intros Hd. rewrite (T0 Hd), (S0 Hd). reflexivity. }
      split; [rewrite <- app_assoc; exact U2|]. split; [exact Z1|exact Z2].
  Qed.

  Section FromStates.
    Variable tr_cmp : list (logentry T) -> list (logentry T) -> comparison.
    Local Notation run_from_statesM := (run_from_states so teqb tgt0 teq0 t0 clock ps_eqb handler DS mc_rand ds_of tr_cmp).

    Theorem run_from_states_stats ord cf sys cb starts sys' stat coll ss' :
      run_from_statesM ord cf pr sys cb starts = Ok (sys', ROk stat coll, ss') ->
      (cf_debug cf = true -> forall k, cnt k stat = count_status mcstate cstatus k (ss_checked ss')) /\
      (cf_debug cf = false -> stat = []) /\
      CollUM (ss_checked ss') coll.
    Proof.
      intros H. unfold run_from_states in H.
      destruct (run_startsM cf pr sys cb (sort_starts so tr_cmp (ord starts)) (ss_empty mcstate) [] [])
        as [[[s1 res] ss1]|t] eqn:Er; cbn [bind] in H; [|discriminate].
      destruct (set_state s1 (get_state sys)) as [sx|t]; cbn [bind] in H; [|discriminate].
      injection H as _ -> ->.
      destruct (run_starts_stats cf cb (sort_starts so tr_cmp (ord starts)) sys (ss_empty mcstate) [] [] [] s1 stat coll ss'
                  eq_refl eq_refl (CollU_nil mcstate veq (pr_collect pr)) Er)
        as (Cn & E & T1 & T0 & U & _).
      cbn [ss_empty ss_checked] in E. rewrite app_nil_r in E. rewrite app_nil_r in U. subst Cn.
      split; [intros Hd k; rewrite (T1 Hd k); reflexivity|]. split; [exact T0|exact U].
    Qed.
  End FromStates.


  (* a run_starts that reports ROk went through all its stages *)
  Lemma run_starts_stages cf cb : forall starts sys ss stat coll sys' stat' coll' ss',
    wf_sys sys -> run_startsM cf pr sys cb starts ss stat coll = Ok (sys', ROk stat' coll', ss') ->
    exists s2s, Stages cb sys starts s2s.
  Proof.
    induction starts as [|st r IH]; intros sys ss stat coll sys' stat' coll' ss' W H; cbn [run_starts] in H.
    - exists []. constructor.
    - destruct (set_state sys st) as [s1|t] eqn:Es; cbn [bind] in H; [|discriminate].
      destruct (run_implM cf pr s1 cb ss) as [[[s1' res] ss1]|t] eqn:Er; cbn [bind] in H; [|discriminate].
      destruct res as [stat1 coll1|m tr| |t]; try (injection H as _ Hx _; discriminate Hx).
      destruct (set_state_frame _ _ _ Es W) as [W1 _].
      pose proof (run_impl_rolls_back _ _ _ _ _ _ _ _ _ _ _ _ _ _ _ _ _ _ _ W1 Er) as Hrb. subst s1'.
      destruct (run_impl_cb _ _ _ _ _ Er) as (s2 & Hcb).
      destruct (IH s1 _ _ _ _ _ _ _ W1 H) as (l & Hl).
      exists (s2 :: l). econstructor; eauto.
  Qed.

  (* on states with an Ok verdict (everything a finished search has checked: mc_search_sound, run_from_states_staged)
     the status check_state counts is the one reported by goal, else prune *)
  Lemma count_counted_final C k :
    (forall y, In y C -> vkM y = Ok VFinal \/ vkM y = Ok VGo) ->
    count_status mcstate cstatus k C = count_status mcstate (final_status mcstate (pr_goal pr) (pr_prune pr)) k C.
  Proof.
    intros H. unfold count_status. f_equal. f_equal. apply filter_ext_in. intros x Hx.
    unfold counted_status. rewrite (vk_ok_inv _ _ _ _ _ _ (H x Hx)). reflexivity.
  Qed.
End McSearch.

Print Assumptions mc_search_sound.
Print Assumptions mc_search_complete.
Print Assumptions mc_error_sound.
Print Assumptions mc_verdict.
Print Assumptions mc_verdict_ok.
Print Assumptions mc_collected_exact.
Print Assumptions mc_status_counts.
Print Assumptions mc_bfs_dfs_same_states.
Print Assumptions mc_bfs_dfs_same_verdict.
Print Assumptions mc_bfs_shortest.
Print Assumptions mc_modes_agree_states.
Print Assumptions mc_modes_agree_verdict.
Print Assumptions mc_modes_agree.
Print Assumptions mc_staged_run_on.
Print Assumptions mc_staged_run_disabled.
Print Assumptions mc_union_of_roots.
Print Assumptions once_only_OverrideFree.
Print Assumptions run_ok_sound_complete.
Print Assumptions run_err_genuine.
Print Assumptions run_verdict.
Print Assumptions run_collected_exact.
Print Assumptions run_status_counts.
Print Assumptions run_modes_agree_states.
Print Assumptions run_modes_agree_verdict.
Print Assumptions run_err_shortest.
Print Assumptions run_impl_staged.
Print Assumptions mc_expand_frame.
Print Assumptions mc_staged_run_frame.
Print Assumptions stages_same_frame.
Print Assumptions run_starts_staged.
Print Assumptions run_from_states_staged.
Print Assumptions run_starts_stats.
Print Assumptions run_from_states_stats.
Print Assumptions Closed_frame.
