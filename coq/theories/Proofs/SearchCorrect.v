(* Correctness of the model-checker search strategies of Model/Search.v: bfs and dfs, every visited mode
   (VFull, VPartial - identical to VFull in the model - and VDisabled), any amount of fuel.

   Hypotheses (Section SearchCorrect): veq is an equivalence; the pure verdict [vk] and [expand] are compatible
   with veq ("state-based predicates").  [collect_compat] is declared but no theorem needs it.
   Notation below: run := run_strategy ... vm st fuel s0, start s0 := mark_visited (ss_empty) s0.

   T1 search_sound         run (start s0) = ODone ss' -> every x in ss_checked ss' is Reach s0 and vk x in {VFinal,VGo}
   T2 search_complete      run (start s0) = ODone ss' -> every Reach s0 state is veq-equal to a checked one
   T3 search_error_sound   run (start s0) = OErr m s _ -> Reach s0 s /\ vk s = Ok (VErr m)
   T4 search_verdict       run (start s0) = ODone _ -> no Reach s0 state has an error verdict
   T5 collected_exact (+ collected_exact_err for the OErr outcome; general form collected_gen / CollInv)
   T6 status_counts (final_status, ODone), status_counts_counted (counted_status, ODone and OErr),
      status_counts_off (debug = false: statuses stay []); general forms status_gen / status_off_gen
   T7 modes_agree_states, modes_agree_verdict, modes_agree (any two (vm, strategy, fuel) combinations),
      bfs_dfs_same_states, bfs_dfs_same_verdict (instances)
   T8 search_master (all modes, arbitrary initial state), staged_run / staged_run_error (visited modes, initial
      state Closed), staged_run_disabled (VDisabled, any initial state), run_roots / run_roots_gen / union_of_roots
   T9 is in Proofs/SearchShortest.v (bfs_shortest).

   No statement had to be weakened.  Remarks on the model that the proofs made visible:
   - all results are fuel independent: they speak about the outcomes ODone / OErr only (OFuel, OPanic: nothing claimed);
   - VDisabled: ss_checked is the whole unfolded tree (with literal repetitions); ODone is only possible when
     that tree is finite; completeness is then literal membership (staged_run_disabled);
   - a staged run whose root is already in the visited cache checks the root a second time (ss_checked then has
     two veq-equal entries); nothing else is re-checked.  The theorems are insensitive to that;
   - T6 is stated with [final_status] (goal, else prune) for ODone; the invariant behind it counts
     [counted_status] (nothing when the invariant fails), which is also valid for the OErr outcome;
   - dfs evaluates enabled_ok before check_state: this only matters for OPanic. *)
From Coq Require Import List NArith Bool Lia.
From ASV Require Import Base.Util Model.Search.
Import ListNotations.

#[local] Arguments ss_visited {St} _.
#[local] Arguments ss_statuses {St} _.
#[local] Arguments ss_collected {St} _.
#[local] Arguments ss_checked {St} _.

Section SearchCorrect.
  Variable St : Type.
  Variable veq : St -> St -> bool.
  Variable expand : St -> result (list St).
  Variable enabled_ok : St -> result unit.
  Variable no_events : St -> result bool.
  Variable p_collect : St -> bool.
  Variable p_inv : St -> option N.
  Variable p_goal : St -> option N.
  Variable p_prune : St -> option N.
  Variable debug : bool.

  Hypothesis veq_refl : forall s, veq s s = true.
  Hypothesis veq_sym : forall s t, veq s t = true -> veq t s = true.
  Hypothesis veq_trans : forall s t u, veq s t = true -> veq t u = true -> veq s u = true.

  (* the verdict of check_state, as a pure function of the state *)
  Definition vk (s : St) : result verdict :=
    match p_inv s with
    | Some m => Ok (VErr m)
    | None =>
      match p_goal s with
      | Some _ => Ok VFinal
      | None =>
        match p_prune s with
        | Some _ => Ok VFinal
        | None => do e <- no_events s; if e then Ok (VErr dead_end_msg) else Ok VGo
        end
      end
    end.

  (* the status reported by goal, else prune *)
  Definition final_status (s : St) : option N :=
    match p_goal s with Some st => Some st | None => p_prune s end.
  (* the status check_state actually counts: nothing when the invariant fails *)
  Definition counted_status (s : St) : option N :=
    match p_inv s with Some _ => None | None => final_status s end.

  Hypothesis vk_compat : forall s t, veq s t = true -> vk s = vk t.
  Hypothesis collect_compat : forall s t, veq s t = true -> p_collect s = p_collect t.
  Hypothesis expand_compat : forall s t l, veq s t = true -> expand s = Ok l ->
    exists l', expand t = Ok l' /\ (forall x, In x l -> exists y, In y l' /\ veq x y = true).

  Inductive Reach (s0 : St) : St -> Prop :=
  | R0 : Reach s0 s0
  | RS : forall s l s', Reach s0 s -> vk s = Ok VGo -> expand s = Ok l -> In s' l -> Reach s0 s'.

  Inductive ReachN (s0 : St) : nat -> St -> Prop :=
  | RN0 : ReachN s0 O s0
  | RNS : forall n s l s', ReachN s0 n s -> vk s = Ok VGo -> expand s = Ok l -> In s' l -> ReachN s0 (S n) s'.

  Lemma ReachN_Reach s0 n x : ReachN s0 n x -> Reach s0 x.
  Proof. induction 1; [constructor|eapply RS; eauto]. Qed.
  Lemma Reach_ReachN s0 x : Reach s0 x -> exists n, ReachN s0 n x.
  Proof.
    induction 1 as [|s l s' Hr [n IH] Hv He Hi]; [exists O; constructor|].
    exists (S n). eapply RNS; eauto.
  Qed.
  Lemma Reach_trans r s x : Reach r s -> Reach s x -> Reach r x.
  Proof. intros Hrs Hsx. induction Hsx; [exact Hrs|eapply RS; eauto]. Qed.

  Local Notation sstateT := (sstate St).
  Local Notation memV := (Search.mem St veq).
  Local Notation checkS := (check_state St veq no_events p_collect p_inv p_goal p_prune debug).

  Lemma mem_true s l : memV s l = true <-> exists x, In x l /\ veq s x = true.
  Proof. unfold Search.mem. rewrite existsb_exists. reflexivity. Qed.
  Lemma mem_false s l : memV s l = false <-> forall x, In x l -> veq s x = false.
  Proof.
    rewrite <- not_true_iff_false, mem_true. split.
    - intros H x Hx. destruct (veq s x) eqn:E; [|reflexivity]. exfalso. apply H. eauto.
    - intros H [x [Hx E]]. rewrite (H x Hx) in E. discriminate.
  Qed.
  Lemma mem_cons s x l : memV s (x :: l) = veq s x || memV s l.
  Proof. reflexivity. Qed.

  (* ---- check_state ---- *)
  Definition upd_collected (C : list St) (s : St) : list St :=
    if p_collect s then (if memV s C then C else C ++ [s]) else C.
  Definition upd_statuses (l : list (N * N)) (s : St) : list (N * N) :=
    if debug then match counted_status s with Some st => bump st l | None => l end else l.

  Lemma check_state_spec ss s ss1 v :
    checkS ss s = Ok (ss1, v) ->
    vk s = Ok v /\ ss_visited ss1 = ss_visited ss /\ ss_checked ss1 = s :: ss_checked ss
    /\ ss_collected ss1 = upd_collected (ss_collected ss) s
    /\ ss_statuses ss1 = upd_statuses (ss_statuses ss) s.
  Proof.
    unfold check_state, vk, upd_collected, upd_statuses, counted_status, final_status, on_final.
    destruct (p_inv s) as [m|].
    { intros H. injection H as <- <-. destruct debug; cbn; auto. }
    destruct (p_goal s) as [st|].
    { intros H. injection H as <- <-. destruct debug; cbn; auto. }
    destruct (p_prune s) as [st|].
    { intros H. injection H as <- <-. destruct debug; cbn; auto. }
    destruct (no_events s) as [e|t]; cbn [bind]; [|discriminate].
    destruct e; intros H; injection H as <- <-; destruct debug; cbn; auto.
  Qed.

  Lemma vk_ok_inv s : vk s = Ok VFinal \/ vk s = Ok VGo -> p_inv s = None.
  Proof. unfold vk. destruct (p_inv s); [intros [H|H]; discriminate|reflexivity]. Qed.

  (* ---- closedness ---- *)
  Definition closedC (V : list St) (c : St) : Prop :=
    vk c = Ok VFinal \/
    (vk c = Ok VGo /\ exists l, expand c = Ok l /\ forall y, In y l -> exists v, In v V /\ veq y v = true).
  Definition Closed (V C : list St) : Prop :=
    (forall v, In v V -> exists c, In c C /\ veq v c = true) /\ (forall c, In c C -> closedC V c).

  Lemma closedC_mono V V' c : incl V V' -> closedC V c -> closedC V' c.
  Proof.
    intros Hi [H|(H & l & He & Hl)]; [now left|right]. split; [exact H|]. exists l. split; [exact He|].
    intros y Hy. destruct (Hl y Hy) as (v & Hv & E). exists v. split; [apply Hi, Hv|exact E].
  Qed.
  Lemma closedC_ok V c : closedC V c -> vk c = Ok VFinal \/ vk c = Ok VGo.
  Proof. intros [H|[H _]]; auto. Qed.
  Lemma Closed_nil : Closed [] [].
  Proof. split; intros ? []. Qed.

  Lemma closed_complete V C r :
    Closed V C -> (exists c, In c C /\ veq r c = true) ->
    forall x, Reach r x -> exists y, In y C /\ veq x y = true.
  Proof.
    intros [HV HC] Hr x Hx. induction Hx as [|s l s' Hs IH Hvk He Hin]; [exact Hr|].
    destruct IH as (y & Hy & Esy).
    destruct (HC y Hy) as [Hf|(_ & l' & He' & Hl')].
    { rewrite <- (vk_compat _ _ Esy), Hvk in Hf. discriminate. }
    destruct (expand_compat _ _ _ Esy He) as (l'' & He'' & Hcov).
    rewrite He' in He''. injection He'' as <-.
    destruct (Hcov s' Hin) as (y' & Hy' & E1).
    destruct (Hl' y' Hy') as (v & Hv & E2).
    destruct (HV v Hv) as (c & Hc & E3).
    exists c. split; [exact Hc|]. eapply veq_trans; [exact E1|]. eapply veq_trans; eauto.
  Qed.

  Lemma closed_no_error V C r :
    Closed V C -> (exists c, In c C /\ veq r c = true) ->
    forall x, Reach r x -> forall m, vk x <> Ok (VErr m).
  Proof.
    intros HCl Hr x Hx m Hm. destruct (closed_complete _ _ _ HCl Hr x Hx) as (y & Hy & E).
    rewrite (vk_compat _ _ E) in Hm. destruct (closedC_ok _ _ (proj2 HCl y Hy)) as [H|H]; congruence.
  Qed.

  (* tree-closedness (no visited set): literal membership *)
  Definition tclosed (S : list St) (c : St) : Prop :=
    vk c = Ok VFinal \/ (vk c = Ok VGo /\ exists l, expand c = Ok l /\ incl l S).
  Lemma tclosed_mono S S' c : incl S S' -> tclosed S c -> tclosed S' c.
  Proof.
    intros Hi [H|(H & l & He & Hl)]; [now left|right]. split; [exact H|]. exists l. split; [exact He|].
    intros y Hy. apply Hi, Hl, Hy.
  Qed.
  Lemma tclosed_complete S r : In r S -> (forall c, In c S -> tclosed S c) -> forall x, Reach r x -> In x S.
  Proof.
    intros Hr HS x Hx. induction Hx as [|s l s' Hs IH Hvk He Hin]; [exact Hr|].
    destruct (HS s IH) as [Hf|(_ & l' & He' & Hl')]; [congruence|].
    rewrite He in He'. injection He' as <-. apply Hl', Hin.
  Qed.

  (* ---- pairwise distinct modulo veq ---- *)
  Fixpoint NoDupV (l : list St) : Prop :=
    match l with
    | [] => True
    | x :: r => (forall y, In y r -> veq x y = false) /\ NoDupV r
    end.
  Lemma NoDupV_snoc l s : NoDupV l -> (forall y, In y l -> veq s y = false) -> NoDupV (l ++ [s]).
  Proof.
    induction l as [|x r IH]; intros H Hs; cbn [app NoDupV].
    - split; [intros y []|exact I].
    - destruct H as [H1 H2]. split.
      + intros y Hy. apply in_app_or in Hy as [Hy|[<-|[]]]; [apply H1, Hy|].
        destruct (veq x s) eqn:E; [|reflexivity]. apply veq_sym in E. rewrite (Hs x) in E; [discriminate|now left].
      + apply IH; [exact H2|]. intros y Hy. apply Hs. now right.
  Qed.

  (* ---- status counters ---- *)
  Definition cnt (st : N) (l : list (N * N)) : N :=
    match sget N.compare st l with Some c => c | None => 0 end.
  Definition oN_eqb : option N -> option N -> bool := opt_eqb N.eqb.
  Definition count_status (f : St -> option N) (st : N) (l : list St) : N :=
    N.of_nat (length (filter (fun x => oN_eqb (f x) (Some st)) l)).

  Lemma sget_sins_same k (v : N) l : sget N.compare k (sins N.compare k v l) = Some v.
  Proof.
    induction l as [|[k0 v0] r IH]; cbn [sins sget].
    - rewrite N.compare_refl. reflexivity.
    - destruct (N.compare k k0) eqn:E; cbn [sget]; rewrite ?N.compare_refl, ?E; cbn [is_eq]; auto.
  Qed.
  Lemma sget_sins_other k k' (v : N) l : k' <> k -> sget N.compare k' (sins N.compare k v l) = sget N.compare k' l.
  Proof.
    intros Hne. assert (Hc : is_eq (N.compare k' k) = false).
    { destruct (N.compare k' k) eqn:E; try reflexivity. apply N.compare_eq in E. contradiction. }
    induction l as [|[k0 v0] r IH]; cbn [sins sget].
    - rewrite Hc. reflexivity.
    - destruct (N.compare k k0) eqn:E; cbn [sget].
      + apply N.compare_eq in E. subst k0. rewrite Hc. reflexivity.
      + rewrite Hc. reflexivity.
      + rewrite IH. reflexivity.
  Qed.
  Lemma cnt_bump st st' l : cnt st (bump st' l) = if N.eqb st st' then cnt st l + 1 else cnt st l.
  Proof.
    unfold cnt, bump. destruct (N.eqb st st') eqn:E.
    - apply N.eqb_eq in E. subst st'. destruct (sget N.compare st l); rewrite sget_sins_same; reflexivity.
    - apply N.eqb_neq in E. destruct (sget N.compare st' l); rewrite sget_sins_other; auto.
  Qed.
  Lemma count_status_cons f st x l :
    count_status f st (x :: l) = if oN_eqb (f x) (Some st) then count_status f st l + 1 else count_status f st l.
  Proof.
    unfold count_status. cbn [filter]. destruct (oN_eqb (f x) (Some st)); [|reflexivity].
    cbn [length]. rewrite Nat2N.inj_succ, N.add_1_r. reflexivity.
  Qed.

  (* ================= per visited-mode section ================= *)
  Section Mode.
  Variable vm : vmode.
  Local Notation hv := (have_visited St veq vm).
  Local Notation mk := (mark_visited St veq vm).
  Local Notation addN := (add_new St veq vm).
  Local Notation bfsM := (bfs St veq expand no_events p_collect p_inv p_goal p_prune debug vm).
  Local Notation dfsM := (dfs St veq expand enabled_ok no_events p_collect p_inv p_goal p_prune debug vm).
  Local Notation runM := (run_strategy St veq expand enabled_ok no_events p_collect p_inv p_goal p_prune debug vm).

  Lemma mk_other ss s :
    ss_checked (mk ss s) = ss_checked ss /\ ss_collected (mk ss s) = ss_collected ss
    /\ ss_statuses (mk ss s) = ss_statuses ss.
  Proof. unfold mark_visited. destruct vm; try destruct (memV s (ss_visited ss)); cbn; auto. Qed.

  Lemma dfs_unfold f s ss :
    dfsM (S f) s ss =
    match enabled_ok s with
    | Panic t => OPanic t
    | Ok _ =>
      match checkS ss s with
      | Panic t => OPanic t
      | Ok (ss1, VErr m) => OErr m s ss1
      | Ok (ss1, VFinal) => ODone ss1
      | Ok (ss1, VGo) =>
        match expand s with
        | Panic t => OPanic t
        | Ok succs =>
          (fix go (l : list St) (ss : sstateT) : outcome St :=
             match l with
             | [] => ODone ss
             | x :: r =>
               if hv ss x then go r ss
               else match dfsM f x (mk ss x) with
                    | ODone ss' => go r ss'
                    | o => o
                    end
             end) succs ss1
        end
      end
    end.
  Proof. reflexivity. Qed.

  (* ---- generic preservation of a predicate on the strategy state ---- *)
  Section Preserve.
    Variable P : sstateT -> Prop.
    Hypothesis P_check : forall ss s ss1 v, P ss -> checkS ss s = Ok (ss1, v) -> (forall m, v <> VErr m) -> P ss1.
    Hypothesis P_mark : forall ss s, P ss -> P (mk ss s).

    Definition PErr (m : N) (s : St) (ss' : sstateT) : Prop :=
      exists ss1, P ss1 /\ checkS ss1 s = Ok (ss', VErr m).

    Lemma add_new_preserve succs : forall ss q, P ss -> P (fst (addN succs ss q)).
    Proof.
      induction succs as [|x r IH]; intros ss q H; cbn [add_new]; [exact H|].
      destruct (hv ss x); apply IH; auto.
    Qed.

    Lemma bfs_preserve fuel : forall q ss, P ss ->
      match bfsM fuel q ss with
      | ODone ss' => P ss'
      | OErr m s ss' => PErr m s ss'
      | _ => True
      end.
    Proof.
      induction fuel as [|f IH]; intros q ss H; cbn [bfs]; [exact I|].
      destruct q as [|s q']; [exact H|].
      destruct (checkS ss s) as [[ss1 v]|t] eqn:Ec; [|exact I].
      destruct v as [m| |].
      - exists ss. auto.
      - apply IH. eapply P_check; eauto. discriminate.
      - destruct (expand s) as [succs|t]; [|exact I].
        assert (H1 : P ss1) by (eapply P_check; eauto; discriminate).
        pose proof (add_new_preserve succs ss1 q' H1) as H2.
        destruct (addN succs ss1 q') as [ss2 q2]. apply IH. exact H2.
    Qed.

    Lemma dfs_preserve fuel : forall s ss, P ss ->
      match dfsM fuel s ss with
      | ODone ss' => P ss'
      | OErr m b ss' => PErr m b ss'
      | _ => True
      end.
    Proof.
      induction fuel as [|f IH]; intros s ss H; [exact I|]. rewrite dfs_unfold.
      destruct (enabled_ok s); [|exact I].
      destruct (checkS ss s) as [[ss1 v]|t] eqn:Ec; [|exact I].
      destruct v as [m| |].
      - exists ss. auto.
      - eapply P_check; eauto. discriminate.
      - destruct (expand s) as [succs|t]; [|exact I].
        assert (H1 : P ss1) by (eapply P_check; eauto; discriminate).
        clear Ec H. revert ss1 H1.
        induction succs as [|x r IHr]; intros ss1 H1; [exact H1|].
        destruct (hv ss1 x); [apply IHr, H1|].
        pose proof (IH x (mk ss1 x) (P_mark _ x H1)) as Hd.
        destruct (dfsM f x (mk ss1 x)) as [ss2|m b ss2| |]; [apply IHr, Hd|exact Hd|exact I|exact I].
    Qed.

    Lemma run_preserve st fuel s0 ss : P ss ->
      match runM st fuel s0 ss with
      | ODone ss' => P ss'
      | OErr m b ss' => PErr m b ss'
      | _ => True
      end.
    Proof. destruct st; cbn [run_strategy]; [apply bfs_preserve|apply dfs_preserve]. Qed.
  End Preserve.

  (* ================= visited set enabled (VFull / VPartial) ================= *)
  Section Vis.
    Hypothesis vm_on : vm <> VDisabled.

    Lemma hv_on ss s : hv ss s = memV s (ss_visited ss).
    Proof. unfold have_visited. destruct vm eqn:E; try reflexivity. congruence. Qed.
    Lemma mk_on ss s :
      mk ss s = if memV s (ss_visited ss) then ss
                else {| ss_visited := s :: ss_visited ss; ss_statuses := ss_statuses ss;
                        ss_collected := ss_collected ss; ss_checked := ss_checked ss |}.
    Proof. unfold mark_visited. destruct vm eqn:E; try reflexivity. congruence. Qed.
    Lemma mk_on_new ss s : memV s (ss_visited ss) = false ->
      ss_visited (mk ss s) = s :: ss_visited ss /\ ss_checked (mk ss s) = ss_checked ss.
    Proof. intros H. rewrite mk_on, H. cbn. auto. Qed.
    Lemma mk_on_vis ss s :
      incl (ss_visited ss) (ss_visited (mk ss s)) /\
      (exists v, In v (ss_visited (mk ss s)) /\ veq s v = true) /\
      (forall v, In v (ss_visited (mk ss s)) -> In v (ss_visited ss) \/ v = s).
    Proof.
      rewrite mk_on. destruct (memV s (ss_visited ss)) eqn:E; cbn [ss_visited].
      - split; [apply incl_refl|]. split; [apply mem_true, E|auto].
      - split; [apply incl_tl, incl_refl|]. split; [exists s; split; [now left|apply veq_refl]|].
        intros v [<-|H]; auto.
    Qed.

    Lemma add_new_vis succs : forall ss q ss' q',
      addN succs ss q = (ss', q') ->
      exists nq, q' = q ++ nq /\ incl nq succs
        /\ (forall x, In x nq -> memV x (ss_visited ss) = false)
        /\ incl (ss_visited ss) (ss_visited ss')
        /\ (forall v, In v (ss_visited ss') -> In v (ss_visited ss) \/ In v nq)
        /\ (forall y, In y succs -> exists v, In v (ss_visited ss') /\ veq y v = true)
        /\ ss_checked ss' = ss_checked ss.
    Proof.
      induction succs as [|x r IH]; intros ss q ss' q' H; cbn [add_new] in H.
      - injection H as <- <-. exists []. rewrite app_nil_r.
        repeat split; auto using incl_refl; intros y [].
      - rewrite hv_on in H. destruct (memV x (ss_visited ss)) eqn:E.
        + destruct (IH _ _ _ _ H) as (nq & A & B & C & D & F & G & K).
          exists nq. repeat split; auto using incl_tl.
          intros y [<-|Hy]; [|auto]. apply mem_true in E as (v & Hv & Ev). exists v. split; [apply D, Hv|exact Ev].
        + destruct (mk_on_new _ _ E) as [HV HC].
          destruct (IH _ _ _ _ H) as (nq & A & B & C & D & F & G & K).
          rewrite HV in *. rewrite HC in K.
          exists (x :: nq). split; [rewrite A, <- app_assoc; reflexivity|].
          split; [apply incl_cons; [now left|apply incl_tl, B]|].
          split.
          { intros y [<-|Hy]; [exact E|]. specialize (C y Hy). rewrite mem_cons in C.
            apply orb_false_elim in C. apply C. }
          split; [intros v Hv; apply D; now right|].
          split.
          { intros v Hv. destruct (F v Hv) as [[<-|H1]|H1]; [right; now left|now left|right; now right]. }
          split; [|exact K].
          intros y [<-|Hy]; [|auto]. exists x. split; [apply D; now left|apply veq_refl].
    Qed.

    Variable s0 : St.

    (* ---- BFS ---- *)
    Record BInv (V0 C0 q : list St) (ss : sstateT) : Prop := {
      bi_v0 : incl V0 (ss_visited ss);
      bi_c : exists Cn, ss_checked ss = Cn ++ C0 /\ (forall c, In c Cn -> Reach s0 c) /\ (In s0 q \/ In s0 Cn);
      bi_cover : forall v, In v (ss_visited ss) -> In v q \/ exists c, In c (ss_checked ss) /\ veq v c = true;
      bi_q : forall x, In x q -> Reach s0 x;
      bi_closed : forall c, In c (ss_checked ss) -> closedC (ss_visited ss) c }.

    Lemma bfs_vis_inv V0 C0 fuel : forall q ss, BInv V0 C0 q ss ->
      match bfsM fuel q ss with
      | ODone ss' => BInv V0 C0 [] ss'
      | OErr m s _ => Reach s0 s /\ vk s = Ok (VErr m)
      | _ => True
      end.
    Proof.
      induction fuel as [|f IH]; intros q ss B; cbn [bfs]; [exact I|].
      destruct q as [|s q']; [exact B|].
      destruct (checkS ss s) as [[ss1 v]|t] eqn:Ec; [|exact I].
      apply check_state_spec in Ec as (Hvk & HV & HC & _).
      assert (Hrs : Reach s0 s) by (apply (bi_q _ _ _ _ B); now left).
      destruct (bi_c _ _ _ _ B) as (Cn & HCn & HCr & Hs0).
      destruct v as [m| |].
      - auto.
      - apply IH. split.
        + rewrite HV. exact (bi_v0 _ _ _ _ B).
        + exists (s :: Cn). rewrite HC, HCn. split; [reflexivity|]. split.
          * intros c [<-|Hc]; auto.
          * destruct Hs0 as [[<-|H]|H]; [right; now left|now left|right; now right].
        + rewrite HV, HC. intros v Hv. destruct (bi_cover _ _ _ _ B v Hv) as [[<-|H]|(c & Hc & E)].
          * right. exists s. split; [now left|apply veq_refl].
          * now left.
          * right. exists c. split; [now right|exact E].
        + intros x Hx. apply (bi_q _ _ _ _ B). now right.
        + rewrite HV, HC. intros c [<-|Hc]; [now left|apply (bi_closed _ _ _ _ B), Hc].
      - destruct (expand s) as [succs|t] eqn:Ee; [|exact I].
        destruct (addN succs ss1 q') as [ss2 q2] eqn:Ea.
        destruct (add_new_vis _ _ _ _ _ Ea) as (nq & A & Bq & _ & D & F & G & K).
        rewrite HV in *. rewrite HC in K.
        apply IH. split.
        + eapply incl_tran; [exact (bi_v0 _ _ _ _ B)|exact D].
        + exists (s :: Cn). rewrite K, HCn. split; [reflexivity|]. split.
          * intros c [<-|Hc]; auto.
          * destruct Hs0 as [[<-|H]|H]; [right; now left| |right; now right].
            left. rewrite A. apply in_or_app. now left.
        + rewrite K. intros v Hv. destruct (F v Hv) as [Hv0|Hv0].
          * destruct (bi_cover _ _ _ _ B v Hv0) as [[<-|H]|(c & Hc & E)].
            -- right. exists s. split; [now left|apply veq_refl].
            -- left. rewrite A. apply in_or_app. now left.
            -- right. exists c. split; [now right|exact E].
          * left. rewrite A. apply in_or_app. now right.
        + rewrite A. intros x Hx. apply in_app_or in Hx as [Hx|Hx].
          * apply (bi_q _ _ _ _ B). now right.
          * eapply RS; eauto.
        + rewrite K. intros c [<-|Hc].
          * right. split; [exact Hvk|]. exists succs. split; [exact Ee|exact G].
          * eapply closedC_mono; [exact D|]. apply (bi_closed _ _ _ _ B), Hc.
    Qed.

    (* ---- DFS ---- *)
    Record DPost (ss : sstateT) (Cn : list St) (ss' : sstateT) : Prop := {
      dp_v : incl (ss_visited ss) (ss_visited ss');
      dp_c : ss_checked ss' = Cn ++ ss_checked ss;
      dp_new : forall c, In c Cn -> Reach s0 c /\ closedC (ss_visited ss') c;
      dp_newv : forall v, In v (ss_visited ss') -> In v (ss_visited ss) \/ In v Cn }.

    Lemma DPost_refl ss : DPost ss [] ss.
    Proof. split; [apply incl_refl|reflexivity|intros c []|auto]. Qed.
    Lemma DPost_trans a C1 b C2 c : DPost a C1 b -> DPost b C2 c -> DPost a (C2 ++ C1) c.
    Proof.
      intros A B. split.
      - eapply incl_tran; [exact (dp_v _ _ _ A)|exact (dp_v _ _ _ B)].
      - rewrite (dp_c _ _ _ B), (dp_c _ _ _ A). apply app_assoc.
      - intros x Hx. apply in_app_or in Hx as [Hx|Hx]; [exact (dp_new _ _ _ B x Hx)|].
        destruct (dp_new _ _ _ A x Hx) as [H1 H2]. split; [exact H1|].
        eapply closedC_mono; [exact (dp_v _ _ _ B)|exact H2].
      - intros v Hv. destruct (dp_newv _ _ _ B v Hv) as [H|H]; [|right; apply in_or_app; now left].
        destruct (dp_newv _ _ _ A v H) as [H'|H']; [now left|right; apply in_or_app; now right].
    Qed.
    Lemma DPost_mk ss x Cn ss' :
      memV x (ss_visited ss) = false -> DPost (mk ss x) Cn ss' -> In x Cn -> DPost ss Cn ss'.
    Proof.
      intros E A Hx. destruct (mk_on_new _ _ E) as [HV HC]. split.
      - eapply incl_tran; [|exact (dp_v _ _ _ A)]. rewrite HV. apply incl_tl, incl_refl.
      - rewrite (dp_c _ _ _ A), HC. reflexivity.
      - exact (dp_new _ _ _ A).
      - intros v Hv. destruct (dp_newv _ _ _ A v Hv) as [H|H]; [|now right].
        rewrite HV in H. destruct H as [<-|H]; [now right|now left].
    Qed.

    Lemma dfs_vis_post fuel : forall s ss, Reach s0 s ->
      match dfsM fuel s ss with
      | ODone ss' => exists Cn, DPost ss Cn ss' /\ In s Cn
      | OErr m b _ => Reach s0 b /\ vk b = Ok (VErr m)
      | _ => True
      end.
    Proof.
      induction fuel as [|f IH]; intros s ss Hrs; [exact I|]. rewrite dfs_unfold.
      destruct (enabled_ok s); [|exact I].
      destruct (checkS ss s) as [[ss1 v]|t] eqn:Ec; [|exact I].
      apply check_state_spec in Ec as (Hvk & HV & HC & _).
      destruct v as [m| |].
      - auto.
      - exists [s]. split; [|now left]. split.
        + rewrite HV. apply incl_refl.
        + rewrite HC. reflexivity.
        + intros c [<-|[]]. split; [exact Hrs|now left].
        + rewrite HV. auto.
      - destruct (expand s) as [succs|t] eqn:Ee; [|exact I].
        lazymatch goal with |- context [?G succs ss1] => set (go := G) end.
        assert (Hgo : forall l ss2, incl l succs ->
                  match go l ss2 with
                  | ODone ss' => exists Cn, DPost ss2 Cn ss' /\
                                   (forall y, In y l -> exists v, In v (ss_visited ss') /\ veq y v = true)
                  | OErr m b _ => Reach s0 b /\ vk b = Ok (VErr m)
                  | _ => True
                  end).
        { induction l as [|x r IHr]; intros ss2 Hl; cbn [go].
          - exists []. split; [apply DPost_refl|intros y []].
          - assert (Hr : incl r succs) by (intros y Hy; apply Hl; now right).
            rewrite hv_on. destruct (memV x (ss_visited ss2)) eqn:E.
            + specialize (IHr ss2 Hr). destruct (go r ss2) as [ss'|m b ss'| |]; auto.
              destruct IHr as (Cn & P & Hcov). exists Cn. split; [exact P|].
              intros y [<-|Hy]; [|auto]. apply mem_true in E as (v & Hv & Ev).
              exists v. split; [apply (dp_v _ _ _ P), Hv|exact Ev].
            + assert (Hrx : Reach s0 x) by (eapply RS; eauto; apply Hl; now left).
              pose proof (IH x (mk ss2 x) Hrx) as Hd.
              destruct (dfsM f x (mk ss2 x)) as [ss3|m b ss3| |]; auto.
              destruct Hd as (C1 & P1 & Hx1). pose proof (DPost_mk _ _ _ _ E P1 Hx1) as P1'.
              specialize (IHr ss3 Hr). destruct (go r ss3) as [ss'|m b ss'| |]; auto.
              destruct IHr as (C2 & P2 & Hcov). exists (C2 ++ C1). split; [eapply DPost_trans; eauto|].
              intros y [<-|Hy]; [|auto]. exists x. split; [|apply veq_refl].
              apply (dp_v _ _ _ P2), (dp_v _ _ _ P1). rewrite (proj1 (mk_on_new _ _ E)). now left. }
        specialize (Hgo succs ss1 (incl_refl _)).
        destruct (go succs ss1) as [ss'|m b ss'| |]; auto.
        destruct Hgo as (Cn & P & Hcov). exists (Cn ++ [s]). split; [|apply in_or_app; right; now left].
        split.
        + rewrite <- HV. exact (dp_v _ _ _ P).
        + rewrite (dp_c _ _ _ P), HC, <- app_assoc. reflexivity.
        + intros c Hc. apply in_app_or in Hc as [Hc|[<-|[]]]; [exact (dp_new _ _ _ P c Hc)|].
          split; [exact Hrs|]. right. split; [exact Hvk|]. exists succs. split; [exact Ee|exact Hcov].
        + intros v Hv. destruct (dp_newv _ _ _ P v Hv) as [H|H].
          * left. rewrite <- HV. exact H.
          * right. apply in_or_app. now left.
    Qed.

    (* the strategy-independent summary of a finished run *)
    Record GoodEnd (ss0 ss' : sstateT) : Prop := {
      ge_v : incl (ss_visited ss0) (ss_visited ss');
      ge_c : exists Cn, ss_checked ss' = Cn ++ ss_checked ss0 /\ In s0 Cn /\ forall c, In c Cn -> Reach s0 c;
      ge_closed : Closed (ss_visited ss') (ss_checked ss') }.

    Lemma bfs_vis_good ss0 fuel :
      Closed (ss_visited ss0) (ss_checked ss0) ->
      match bfsM fuel [s0] (mk ss0 s0) with
      | ODone ss' => GoodEnd ss0 ss'
      | OErr m s _ => Reach s0 s /\ vk s = Ok (VErr m)
      | _ => True
      end.
    Proof.
      intros [HV HC].
      destruct (mk_on_vis ss0 s0) as (M1 & M2 & M3). destruct (mk_other ss0 s0) as (M4 & _).
      assert (B : BInv (ss_visited ss0) (ss_checked ss0) [s0] (mk ss0 s0)).
      { split.
        - exact M1.
        - exists []. rewrite M4. split; [reflexivity|]. split; [intros c []|left; now left].
        - intros v Hv. destruct (M3 v Hv) as [H| -> ]; [|left; now left].
          right. rewrite M4. apply HV, H.
        - intros x [<-|[]]. constructor.
        - rewrite M4. intros c Hc. eapply closedC_mono; [exact M1|apply HC, Hc]. }
      pose proof (bfs_vis_inv _ _ fuel _ _ B) as H.
      destruct (bfsM fuel [s0] (mk ss0 s0)) as [ss'|m s ss'| |]; auto.
      destruct (bi_c _ _ _ _ H) as (Cn & E & Hr & Hs). split.
      - exact (bi_v0 _ _ _ _ H).
      - exists Cn. split; [exact E|]. split; [destruct Hs as [[]|Hs]; exact Hs|exact Hr].
      - split.
        + intros v Hv. destruct (bi_cover _ _ _ _ H v Hv) as [[]|Hc]. exact Hc.
        + exact (bi_closed _ _ _ _ H).
    Qed.
    Lemma dfs_vis_good ss0 fuel :
      Closed (ss_visited ss0) (ss_checked ss0) ->
      match dfsM fuel s0 (mk ss0 s0) with
      | ODone ss' => GoodEnd ss0 ss'
      | OErr m s _ => Reach s0 s /\ vk s = Ok (VErr m)
      | _ => True
      end.
    Proof.
      intros [HV HC].
      destruct (mk_on_vis ss0 s0) as (M1 & M2 & M3). destruct (mk_other ss0 s0) as (M4 & _).
      pose proof (dfs_vis_post fuel s0 (mk ss0 s0) (R0 s0)) as H.
      destruct (dfsM fuel s0 (mk ss0 s0)) as [ss'|m s ss'| |]; auto.
      destruct H as (Cn & P & Hs). pose proof (dp_c _ _ _ P) as E. rewrite M4 in E. split.
      - eapply incl_tran; [exact M1|exact (dp_v _ _ _ P)].
      - exists Cn. split; [exact E|]. split; [exact Hs|]. intros c Hc. apply (dp_new _ _ _ P c Hc).
      - split.
        + rewrite E. intros v Hv. destruct (dp_newv _ _ _ P v Hv) as [H|H].
          * destruct (M3 v H) as [H'| ->].
            -- destruct (HV v H') as (c & Hc & Ec). exists c. split; [apply in_or_app; now right|exact Ec].
            -- exists s0. split; [apply in_or_app; now left|apply veq_refl].
          * exists v. split; [apply in_or_app; now left|apply veq_refl].
        + rewrite E. intros c Hc. apply in_app_or in Hc as [Hc|Hc].
          * apply (dp_new _ _ _ P c Hc).
          * eapply closedC_mono; [|apply HC, Hc]. eapply incl_tran; [exact M1|exact (dp_v _ _ _ P)].
    Qed.

    Lemma run_vis_good st ss0 fuel :
      Closed (ss_visited ss0) (ss_checked ss0) ->
      match runM st fuel s0 (mk ss0 s0) with
      | ODone ss' => GoodEnd ss0 ss'
      | OErr m s _ => Reach s0 s /\ vk s = Ok (VErr m)
      | _ => True
      end.
    Proof. destruct st; cbn [run_strategy]; [apply bfs_vis_good|apply dfs_vis_good]. Qed.
  End Vis.

  (* ================= visited set disabled: the search unfolds the whole tree ================= *)
  Section Tree.
    Hypothesis vm_off : vm = VDisabled.

    Lemma hv_off ss s : hv ss s = false.
    Proof. unfold have_visited. rewrite vm_off. reflexivity. Qed.
    Lemma mk_off ss s : mk ss s = ss.
    Proof. unfold mark_visited. rewrite vm_off. reflexivity. Qed.
    Lemma add_new_off succs : forall ss q, addN succs ss q = (ss, q ++ succs).
    Proof.
      induction succs as [|x r IH]; intros ss q; cbn [add_new]; [rewrite app_nil_r; reflexivity|].
      rewrite hv_off, mk_off, IH, <- app_assoc. reflexivity.
    Qed.

    Variable s0 : St.

    (* what a finished run guarantees: the new part of ss_checked is exactly the reachable tree *)
    Definition TreeEnd (ss0 ss' : sstateT) : Prop :=
      ss_visited ss' = ss_visited ss0 /\
      exists Cn, ss_checked ss' = Cn ++ ss_checked ss0 /\ In s0 Cn /\
                 forall c, In c Cn -> Reach s0 c /\ tclosed Cn c.

    Record TInv (C0 q : list St) (ss : sstateT) (Cn : list St) : Prop := {
      ti_c : ss_checked ss = Cn ++ C0;
      ti_s0 : In s0 q \/ In s0 Cn;
      ti_q : forall x, In x q -> Reach s0 x;
      ti_new : forall c, In c Cn -> Reach s0 c /\ tclosed (q ++ Cn) c }.

    Lemma bfs_tree_inv C0 fuel : forall q ss Cn, TInv C0 q ss Cn ->
      match bfsM fuel q ss with
      | ODone ss' => ss_visited ss' = ss_visited ss /\ exists Cn', TInv C0 [] ss' Cn'
      | OErr m s _ => Reach s0 s /\ vk s = Ok (VErr m)
      | _ => True
      end.
    Proof.
      induction fuel as [|f IH]; intros q ss Cn T; cbn [bfs]; [exact I|].
      destruct q as [|s q']; [split; [reflexivity|exists Cn; exact T]|].
      destruct (checkS ss s) as [[ss1 v]|t] eqn:Ec; [|exact I].
      apply check_state_spec in Ec as (Hvk & HV & HC & _).
      assert (Hrs : Reach s0 s) by (apply (ti_q _ _ _ _ T); now left).
      destruct v as [m| |].
      - auto.
      - rewrite <- HV. apply (IH q' ss1 (s :: Cn)). split.
        + rewrite HC, (ti_c _ _ _ _ T). reflexivity.
        + destruct (ti_s0 _ _ _ _ T) as [[<-|H]|H]; [right; now left|now left|right; now right].
        + intros x Hx. apply (ti_q _ _ _ _ T). now right.
        + intros c [<-|Hc]; [split; [exact Hrs|now left]|].
          destruct (ti_new _ _ _ _ T c Hc) as [H1 H2]. split; [exact H1|].
          eapply tclosed_mono; [|exact H2]. intros y Hy. apply in_app_or in Hy as [[<-|Hy]|Hy].
          * apply in_or_app. right. now left.
          * apply in_or_app. now left.
          * apply in_or_app. right. now right.
      - destruct (expand s) as [succs|t] eqn:Ee; [|exact I].
        rewrite add_new_off. rewrite <- HV. apply (IH (q' ++ succs) ss1 (s :: Cn)). split.
        + rewrite HC, (ti_c _ _ _ _ T). reflexivity.
        + destruct (ti_s0 _ _ _ _ T) as [[<-|H]|H]; [right; now left| |right; now right].
          left. apply in_or_app. now left.
        + intros x Hx. apply in_app_or in Hx as [Hx|Hx]; [apply (ti_q _ _ _ _ T); now right|].
          eapply RS; eauto.
        + intros c [<-|Hc].
          * split; [exact Hrs|]. right. split; [exact Hvk|]. exists succs. split; [exact Ee|].
            intros y Hy. apply in_or_app. left. apply in_or_app. now right.
          * destruct (ti_new _ _ _ _ T c Hc) as [H1 H2]. split; [exact H1|].
            eapply tclosed_mono; [|exact H2]. intros y Hy. apply in_app_or in Hy as [[<-|Hy]|Hy].
            -- apply in_or_app. right. now left.
            -- apply in_or_app. left. apply in_or_app. now left.
            -- apply in_or_app. right. now right.
    Qed.

    Lemma bfs_tree_good ss0 fuel :
      match bfsM fuel [s0] (mk ss0 s0) with
      | ODone ss' => TreeEnd ss0 ss'
      | OErr m s _ => Reach s0 s /\ vk s = Ok (VErr m)
      | _ => True
      end.
    Proof.
      rewrite mk_off.
      assert (T : TInv (ss_checked ss0) [s0] ss0 []).
      { split; [reflexivity|left; now left|intros x [<-|[]]; constructor|intros c []]. }
      pose proof (bfs_tree_inv _ fuel _ _ _ T) as H.
      destruct (bfsM fuel [s0] ss0) as [ss'|m s ss'| |]; auto.
      destruct H as (HV & Cn & T'). split; [exact HV|]. exists Cn.
      split; [exact (ti_c _ _ _ _ T')|]. split; [destruct (ti_s0 _ _ _ _ T') as [[]|H]; exact H|].
      exact (ti_new _ _ _ _ T').
    Qed.

    Lemma dfs_tree_post fuel : forall s ss, Reach s0 s ->
      match dfsM fuel s ss with
      | ODone ss' => ss_visited ss' = ss_visited ss /\
                     exists Cn, ss_checked ss' = Cn ++ ss_checked ss /\ In s Cn /\
                                forall c, In c Cn -> Reach s0 c /\ tclosed Cn c
      | OErr m b _ => Reach s0 b /\ vk b = Ok (VErr m)
      | _ => True
      end.
    Proof.
      induction fuel as [|f IH]; intros s ss Hrs; [exact I|]. rewrite dfs_unfold.
      destruct (enabled_ok s); [|exact I].
      destruct (checkS ss s) as [[ss1 v]|t] eqn:Ec; [|exact I].
      apply check_state_spec in Ec as (Hvk & HV & HC & _).
      destruct v as [m| |].
      - auto.
      - split; [exact HV|]. exists [s]. split; [rewrite HC; reflexivity|]. split; [now left|].
        intros c [<-|[]]. split; [exact Hrs|now left].
      - destruct (expand s) as [succs|t] eqn:Ee; [|exact I].
        lazymatch goal with |- context [?G succs ss1] => set (go := G) end.
        assert (Hgo : forall l ss2, incl l succs ->
                  match go l ss2 with
                  | ODone ss' => ss_visited ss' = ss_visited ss2 /\
                                 exists Cn, ss_checked ss' = Cn ++ ss_checked ss2 /\ incl l Cn /\
                                            forall c, In c Cn -> Reach s0 c /\ tclosed Cn c
                  | OErr m b _ => Reach s0 b /\ vk b = Ok (VErr m)
                  | _ => True
                  end).
        { induction l as [|x r IHr]; intros ss2 Hl; cbn [go].
          - split; [reflexivity|]. exists []. split; [reflexivity|]. split; [apply incl_refl|intros c []].
          - assert (Hr : incl r succs) by (intros y Hy; apply Hl; now right).
            rewrite hv_off, mk_off.
            assert (Hrx : Reach s0 x) by (eapply RS; eauto; apply Hl; now left).
            pose proof (IH x ss2 Hrx) as Hd.
            destruct (dfsM f x ss2) as [ss3|m b ss3| |]; auto.
            destruct Hd as (HV1 & C1 & E1 & Hx1 & N1).
            specialize (IHr ss3 Hr). destruct (go r ss3) as [ss'|m b ss'| |]; auto.
            destruct IHr as (HV2 & C2 & E2 & Hcov & N2).
            split; [congruence|]. exists (C2 ++ C1). split; [rewrite E2, E1; apply app_assoc|]. split.
            + intros y [<-|Hy]; apply in_or_app; [now right|left; apply Hcov, Hy].
            + intros c Hc. apply in_app_or in Hc as [Hc|Hc].
              * destruct (N2 c Hc) as [H1 H2]. split; [exact H1|].
                eapply tclosed_mono; [|exact H2]. apply incl_appl, incl_refl.
              * destruct (N1 c Hc) as [H1 H2]. split; [exact H1|].
                eapply tclosed_mono; [|exact H2]. apply incl_appr, incl_refl. }
        specialize (Hgo succs ss1 (incl_refl _)).
        destruct (go succs ss1) as [ss'|m b ss'| |]; auto.
        destruct Hgo as (HV' & Cn & E & Hcov & Nn). split; [congruence|].
        exists (Cn ++ [s]). split; [rewrite E, HC, <- app_assoc; reflexivity|].
        split; [apply in_or_app; right; now left|].
        intros c Hc. apply in_app_or in Hc as [Hc|[<-|[]]].
        + destruct (Nn c Hc) as [H1 H2]. split; [exact H1|].
          eapply tclosed_mono; [|exact H2]. apply incl_appl, incl_refl.
        + split; [exact Hrs|]. right. split; [exact Hvk|]. exists succs. split; [exact Ee|].
          apply incl_appl, Hcov.
    Qed.

    Lemma dfs_tree_good ss0 fuel :
      match dfsM fuel s0 (mk ss0 s0) with
      | ODone ss' => TreeEnd ss0 ss'
      | OErr m s _ => Reach s0 s /\ vk s = Ok (VErr m)
      | _ => True
      end.
    Proof.
      rewrite mk_off. pose proof (dfs_tree_post fuel s0 ss0 (R0 s0)) as H.
      destruct (dfsM fuel s0 ss0) as [ss'|m s ss'| |]; auto.
    Qed.

    Lemma run_tree_good st ss0 fuel :
      match runM st fuel s0 (mk ss0 s0) with
      | ODone ss' => TreeEnd ss0 ss'
      | OErr m s _ => Reach s0 s /\ vk s = Ok (VErr m)
      | _ => True
      end.
    Proof. destruct st; cbn [run_strategy]; [apply bfs_tree_good|apply dfs_tree_good]. Qed.

    Lemma TreeEnd_complete ss0 ss' : TreeEnd ss0 ss' ->
      exists Cn, ss_checked ss' = Cn ++ ss_checked ss0 /\
                 (forall c, In c Cn -> Reach s0 c /\ (vk c = Ok VFinal \/ vk c = Ok VGo)) /\
                 (forall x, Reach s0 x -> In x Cn).
    Proof.
      intros (_ & Cn & E & Hs & Hn). exists Cn. split; [exact E|]. split.
      - intros c Hc. destruct (Hn c Hc) as [H1 [H2|[H2 _]]]; auto.
      - apply tclosed_complete; [exact Hs|]. intros c Hc. apply (Hn c Hc).
    Qed.
  End Tree.

  (* ================= all modes together ================= *)
  Local Notation startM s0 := (mk (ss_empty St) s0).

  (* [Good s0 ss0 ss']: what a finished run from root s0, started in state (mark_visited ss0 s0), has achieved *)
  Definition Good (s0 : St) (ss0 ss' : sstateT) : Prop :=
    exists Cn, ss_checked ss' = Cn ++ ss_checked ss0 /\
      (forall c, In c Cn -> Reach s0 c /\ (vk c = Ok VFinal \/ vk c = Ok VGo)) /\
      (forall x, Reach s0 x -> exists y, In y (ss_checked ss') /\ veq x y = true).

  Lemma vm_dec : vm = VDisabled \/ vm <> VDisabled.
  Proof. destruct vm; [right|right|left]; congruence. Qed.

  Lemma GoodEnd_Good s0 ss0 ss' : GoodEnd s0 ss0 ss' -> Good s0 ss0 ss'.
  Proof.
    intros [Hv (Cn & E & Hs & Hr) HCl]. exists Cn. split; [exact E|]. split.
    - intros c Hc. split; [apply Hr, Hc|]. apply (closedC_ok (ss_visited ss')), (proj2 HCl).
      rewrite E. apply in_or_app. now left.
    - apply (closed_complete _ _ _ HCl). exists s0. split; [|apply veq_refl].
      rewrite E. apply in_or_app. now left.
  Qed.

  Theorem search_master st fuel s0 ss0 :
    (vm <> VDisabled -> Closed (ss_visited ss0) (ss_checked ss0)) ->
    match runM st fuel s0 (mk ss0 s0) with
    | ODone ss' => Good s0 ss0 ss'
    | OErr m s _ => Reach s0 s /\ vk s = Ok (VErr m)
    | _ => True
    end.
  Proof.
    intros HCl. destruct vm_dec as [Hoff|Hon].
    - pose proof (run_tree_good Hoff s0 st ss0 fuel) as H.
      destruct (runM st fuel s0 (mk ss0 s0)) as [ss'|m s ss'| |]; auto.
      destruct (TreeEnd_complete _ _ _ H) as (Cn & E & H1 & H2). exists Cn. split; [exact E|]. split; [exact H1|].
      intros x Hx. exists x. split; [|apply veq_refl]. rewrite E. apply in_or_app. left. apply H2, Hx.
    - pose proof (run_vis_good Hon s0 st ss0 fuel (HCl Hon)) as H.
      destruct (runM st fuel s0 (mk ss0 s0)) as [ss'|m s ss'| |]; auto.
      apply GoodEnd_Good, H.
  Qed.

  Lemma start_good st fuel s0 ss' :
    runM st fuel s0 (startM s0) = ODone ss' -> Good s0 (ss_empty St) ss'.
  Proof.
    intros H. pose proof (search_master st fuel s0 (ss_empty St) (fun _ => Closed_nil)) as G.
    rewrite H in G. exact G.
  Qed.

  (* T1 *)
  Theorem search_sound st fuel s0 ss' :
    runM st fuel s0 (startM s0) = ODone ss' ->
    forall x, In x (ss_checked ss') -> Reach s0 x /\ (vk x = Ok VFinal \/ vk x = Ok VGo).
  Proof.
    intros H x Hx. destruct (start_good _ _ _ _ H) as (Cn & E & H1 & _).
    cbn [ss_checked ss_empty] in E. rewrite app_nil_r in E. rewrite E in Hx. apply H1, Hx.
  Qed.

  (* T2 *)
  Theorem search_complete st fuel s0 ss' :
    runM st fuel s0 (startM s0) = ODone ss' ->
    forall x, Reach s0 x -> exists y, In y (ss_checked ss') /\ veq x y = true.
  Proof. intros H. destruct (start_good _ _ _ _ H) as (Cn & _ & _ & H2). exact H2. Qed.

  (* T3 *)
  Theorem search_error_sound st fuel s0 m s ss' :
    runM st fuel s0 (startM s0) = OErr m s ss' -> Reach s0 s /\ vk s = Ok (VErr m).
  Proof.
    intros H. pose proof (search_master st fuel s0 (ss_empty St) (fun _ => Closed_nil)) as G.
    rewrite H in G. exact G.
  Qed.

  (* T4 *)
  Theorem search_verdict st fuel s0 ss' :
    runM st fuel s0 (startM s0) = ODone ss' ->
    forall x, Reach s0 x -> forall m, vk x <> Ok (VErr m).
  Proof.
    intros H x Hx m Hm. destruct (search_complete _ _ _ _ H x Hx) as (y & Hy & E).
    destruct (search_sound _ _ _ _ H y Hy) as [_ [Hv|Hv]]; rewrite (vk_compat _ _ E) in Hm; congruence.
  Qed.

  (* ---- T5: the collected states ---- *)
  Definition CollInv (base : list St) (ss : sstateT) : Prop :=
    exists new, ss_checked ss = new ++ base /\
      (forall c, In c (ss_collected ss) -> In c new /\ p_collect c = true) /\
      (forall x, In x new -> p_collect x = true -> exists c, In c (ss_collected ss) /\ veq x c = true) /\
      NoDupV (ss_collected ss).

  Lemma CollInv_check base ss s ss1 v : CollInv base ss -> checkS ss s = Ok (ss1, v) -> CollInv base ss1.
  Proof.
    intros (new & E & H1 & H2 & H3) Hc. apply check_state_spec in Hc as (_ & _ & HC & HK & _).
    exists (s :: new). rewrite HC, HK, E. split; [reflexivity|]. unfold upd_collected.
    destruct (p_collect s) eqn:Ep; [destruct (memV s (ss_collected ss)) eqn:Em|].
    - split; [intros c Hc; destruct (H1 c Hc); split; [now right|assumption]|]. split; [|exact H3].
      intros x [<-|Hx] Hp; [apply mem_true, Em|apply H2; assumption].
    - split.
      { intros c Hc. apply in_app_or in Hc as [Hc|[<-|[]]]; [destruct (H1 c Hc); split; [now right|assumption]|].
        split; [now left|exact Ep]. }
      split.
      { intros x [<-|Hx] Hp.
        - exists s. split; [apply in_or_app; right; now left|apply veq_refl].
        - destruct (H2 x Hx Hp) as (c & Hc & Ec). exists c. split; [apply in_or_app; now left|exact Ec]. }
      apply NoDupV_snoc; [exact H3|]. apply mem_false, Em.
    - split; [intros c Hc; destruct (H1 c Hc); split; [now right|assumption]|]. split; [|exact H3].
      intros x [<-|Hx] Hp; [congruence|apply H2; assumption].
  Qed.
  Lemma CollInv_mark base ss s : CollInv base ss -> CollInv base (mk ss s).
  Proof. unfold CollInv. destruct (mk_other ss s) as (E1 & E2 & _). rewrite E1, E2. auto. Qed.

  Lemma collected_gen st fuel s0 base ss :
    CollInv base ss ->
    match runM st fuel s0 ss with
    | ODone ss' | OErr _ _ ss' => CollInv base ss'
    | _ => True
    end.
  Proof.
    intros H.
    pose proof (run_preserve (CollInv base) (fun ss s ss1 v H Hc _ => CollInv_check base ss s ss1 v H Hc)
                  (CollInv_mark base) st fuel s0 ss H) as G.
    destruct (runM st fuel s0 ss) as [ss'|m b ss'| |]; auto.
    destruct G as (ss1 & G1 & G2). eapply CollInv_check; eauto.
  Qed.

  Lemma CollInv_start s0 : CollInv [] (startM s0).
  Proof.
    exists []. destruct (mk_other (ss_empty St) s0) as (E1 & E2 & _). rewrite E1, E2. cbn.
    split; [reflexivity|]. split; [intros c []|]. split; [intros x []|exact I].
  Qed.

  Theorem collected_exact st fuel s0 ss' :
    runM st fuel s0 (startM s0) = ODone ss' ->
    (forall c, In c (ss_collected ss') -> In c (ss_checked ss') /\ p_collect c = true) /\
    (forall x, In x (ss_checked ss') -> p_collect x = true ->
               exists c, In c (ss_collected ss') /\ veq x c = true) /\
    NoDupV (ss_collected ss').
  Proof.
    intros H. pose proof (collected_gen st fuel s0 [] _ (CollInv_start s0)) as G. rewrite H in G.
    destruct G as (new & E & G1 & G2 & G3). rewrite app_nil_r in E. rewrite E. auto.
  Qed.
  (* the same holds for the state reported with an error *)
  Theorem collected_exact_err st fuel s0 m s ss' :
    runM st fuel s0 (startM s0) = OErr m s ss' ->
    (forall c, In c (ss_collected ss') -> In c (ss_checked ss') /\ p_collect c = true) /\
    (forall x, In x (ss_checked ss') -> p_collect x = true ->
               exists c, In c (ss_collected ss') /\ veq x c = true) /\
    NoDupV (ss_collected ss').
  Proof.
    intros H. pose proof (collected_gen st fuel s0 [] _ (CollInv_start s0)) as G. rewrite H in G.
    destruct G as (new & E & G1 & G2 & G3). rewrite app_nil_r in E. rewrite E. auto.
  Qed.

  (* ---- T6: the status counters ---- *)
  Definition StatInv (base : list St) (ss : sstateT) : Prop :=
    exists new, ss_checked ss = new ++ base /\
      forall st, cnt st (ss_statuses ss) = count_status counted_status st new.

  Lemma StatInv_check base ss s ss1 v :
    debug = true -> StatInv base ss -> checkS ss s = Ok (ss1, v) -> StatInv base ss1.
  Proof.
    intros Hd (new & E & H1) Hc. apply check_state_spec in Hc as (_ & _ & HC & _ & HS).
    exists (s :: new). rewrite HC, HS, E. split; [reflexivity|]. intros st.
    rewrite count_status_cons. unfold upd_statuses. rewrite Hd.
    destruct (counted_status s) as [st'|]; cbn [oN_eqb opt_eqb]; [|apply H1].
    rewrite cnt_bump, H1, (N.eqb_sym st st'). reflexivity.
  Qed.
  Lemma StatInv_mark base ss s : StatInv base ss -> StatInv base (mk ss s).
  Proof. unfold StatInv. destruct (mk_other ss s) as (E1 & _ & E3). rewrite E1, E3. auto. Qed.

  Lemma status_gen st fuel s0 base ss :
    debug = true -> StatInv base ss ->
    match runM st fuel s0 ss with
    | ODone ss' | OErr _ _ ss' => StatInv base ss'
    | _ => True
    end.
  Proof.
    intros Hd H.
    pose proof (run_preserve (StatInv base) (fun ss s ss1 v H Hc _ => StatInv_check base ss s ss1 v Hd H Hc)
                  (StatInv_mark base) st fuel s0 ss H) as G.
    destruct (runM st fuel s0 ss) as [ss'|m b ss'| |]; auto.
    destruct G as (ss1 & G1 & G2). eapply StatInv_check; eauto.
  Qed.

  Lemma status_off_gen st fuel s0 l ss :
    debug = false -> ss_statuses ss = l ->
    match runM st fuel s0 ss with
    | ODone ss' | OErr _ _ ss' => ss_statuses ss' = l
    | _ => True
    end.
  Proof.
    intros Hd H.
    assert (Pc : forall ss s ss1 v, ss_statuses ss = l -> checkS ss s = Ok (ss1, v) -> ss_statuses ss1 = l).
    { intros ss2 s ss1 v H2 Hc. apply check_state_spec in Hc as (_ & _ & _ & _ & HS).
      rewrite HS. unfold upd_statuses. rewrite Hd. exact H2. }
    pose proof (run_preserve (fun ss => ss_statuses ss = l) (fun ss s ss1 v H Hc _ => Pc ss s ss1 v H Hc)
                  (fun ss s H => eq_trans (proj2 (proj2 (mk_other ss s))) H) st fuel s0 ss H) as G.
    destruct (runM st fuel s0 ss) as [ss'|m b ss'| |]; auto.
    destruct G as (ss1 & G1 & G2). eapply Pc; eauto.
  Qed.

  Lemma StatInv_start s0 : StatInv [] (startM s0).
  Proof.
    exists []. destruct (mk_other (ss_empty St) s0) as (E1 & _ & E3). rewrite E1, E3. cbn.
    split; reflexivity.
  Qed.

  Theorem status_counts st fuel s0 ss' :
    debug = true -> runM st fuel s0 (startM s0) = ODone ss' ->
    forall s, cnt s (ss_statuses ss') = count_status final_status s (ss_checked ss').
  Proof.
    intros Hd H s. pose proof (status_gen st fuel s0 [] _ Hd (StatInv_start s0)) as G. rewrite H in G.
    destruct G as (new & E & G). rewrite app_nil_r in E. rewrite G, E. unfold count_status.
    f_equal. f_equal. apply filter_ext_in. intros x Hx. unfold counted_status.
    rewrite <- E in Hx. destruct (search_sound _ _ _ _ H x Hx) as [_ Hv]. rewrite (vk_ok_inv _ Hv). reflexivity.
  Qed.
  (* variant valid for ODone and OErr alike, with the status check_state really counts *)
  Theorem status_counts_counted st fuel s0 :
    debug = true ->
    match runM st fuel s0 (startM s0) with
    | ODone ss' | OErr _ _ ss' =>
        forall s, cnt s (ss_statuses ss') = count_status counted_status s (ss_checked ss')
    | _ => True
    end.
  Proof.
    intros Hd. pose proof (status_gen st fuel s0 [] _ Hd (StatInv_start s0)) as G.
    destruct (runM st fuel s0 (startM s0)) as [ss'|m b ss'| |]; auto;
      destruct G as (new & E & G); rewrite app_nil_r in E; rewrite E; exact G.
  Qed.
  Theorem status_counts_off st fuel s0 :
    debug = false ->
    match runM st fuel s0 (startM s0) with
    | ODone ss' | OErr _ _ ss' => ss_statuses ss' = []
    | _ => True
    end.
  Proof.
    intros Hd. apply status_off_gen; [exact Hd|].
    destruct (mk_other (ss_empty St) s0) as (_ & _ & E3). rewrite E3. reflexivity.
  Qed.

  (* ---- T8: runs from a non-empty strategy state (staged runs sharing the visited cache) ---- *)
  Theorem staged_run st fuel s0 ss0 ss' :
    vm <> VDisabled ->
    Closed (ss_visited ss0) (ss_checked ss0) ->
    runM st fuel s0 (mk ss0 s0) = ODone ss' ->
    Closed (ss_visited ss') (ss_checked ss') /\
    incl (ss_visited ss0) (ss_visited ss') /\
    (exists Cn, ss_checked ss' = Cn ++ ss_checked ss0 /\ In s0 Cn /\
                forall c, In c Cn -> Reach s0 c /\ (vk c = Ok VFinal \/ vk c = Ok VGo)) /\
    (forall x, Reach s0 x -> exists y, In y (ss_checked ss') /\ veq x y = true).
  Proof.
    intros Hon HCl H. pose proof (run_vis_good Hon s0 st ss0 fuel HCl) as G. rewrite H in G.
    destruct G as [Hv (Cn & E & Hs & Hr) HCl']. split; [exact HCl'|]. split; [exact Hv|]. split.
    - exists Cn. split; [exact E|]. split; [exact Hs|]. intros c Hc. split; [apply Hr, Hc|].
      apply (closedC_ok (ss_visited ss')), (proj2 HCl'). rewrite E. apply in_or_app. now left.
    - apply (closed_complete _ _ _ HCl'). exists s0. split; [|apply veq_refl].
      rewrite E. apply in_or_app. now left.
  Qed.

  Theorem staged_run_error st fuel s0 ss0 m s ss' :
    (vm <> VDisabled -> Closed (ss_visited ss0) (ss_checked ss0)) ->
    runM st fuel s0 (mk ss0 s0) = OErr m s ss' -> Reach s0 s /\ vk s = Ok (VErr m).
  Proof. intros HCl H. pose proof (search_master st fuel s0 ss0 HCl) as G. rewrite H in G. exact G. Qed.

  (* VDisabled: nothing is shared; from ANY initial strategy state the run appends exactly the tree below s0 *)
  Theorem staged_run_disabled st fuel s0 ss0 ss' :
    vm = VDisabled ->
    runM st fuel s0 (mk ss0 s0) = ODone ss' ->
    ss_visited ss' = ss_visited ss0 /\
    exists Cn, ss_checked ss' = Cn ++ ss_checked ss0 /\
               (forall c, In c Cn -> Reach s0 c /\ (vk c = Ok VFinal \/ vk c = Ok VGo)) /\
               (forall x, Reach s0 x -> In x Cn).
  Proof.
    intros Hoff H. pose proof (run_tree_good Hoff s0 st ss0 fuel) as G. rewrite H in G.
    split; [exact (proj1 G)|]. apply (TreeEnd_complete _ _ _ G).
  Qed.

  (* runs from several roots, one after another, threading the strategy state through Strategy::reset *)
  Fixpoint run_roots (st : strategy) (fuel : nat) (roots : list St) (ss : sstateT) : option sstateT :=
    match roots with
    | [] => Some ss
    | r :: rs =>
      match runM st fuel r (mk (reset St ss) r) with
      | ODone ss' => run_roots st fuel rs ss'
      | _ => None
      end
    end.

  Lemma run_roots_gen st fuel roots : forall ss0 ss',
    (vm <> VDisabled -> Closed (ss_visited ss0) (ss_checked ss0)) ->
    run_roots st fuel roots ss0 = Some ss' ->
    (vm <> VDisabled -> Closed (ss_visited ss') (ss_checked ss') /\ incl (ss_visited ss0) (ss_visited ss')) /\
    (exists Cn, ss_checked ss' = Cn ++ ss_checked ss0 /\
        (forall r, In r roots -> In r Cn) /\
        (forall y, In y Cn -> (exists r, In r roots /\ Reach r y) /\ (vk y = Ok VFinal \/ vk y = Ok VGo))) /\
    (forall r, In r roots -> forall x, Reach r x -> exists y, In y (ss_checked ss') /\ veq x y = true).
  Proof.
    induction roots as [|r rs IH]; intros ss0 ss' HCl H; cbn [run_roots] in H.
    - injection H as <-. split; [intros Hon; split; [auto|apply incl_refl]|]. split.
      + exists []. split; [reflexivity|]. split; [intros r []|intros y []].
      + intros r [].
    - destruct (runM st fuel r (mk (reset St ss0) r)) as [ss1|m b ss1| |] eqn:Er; try discriminate.
      assert (HCl0 : vm <> VDisabled -> Closed (ss_visited (reset St ss0)) (ss_checked (reset St ss0))) by exact HCl.
      pose proof (search_master st fuel r _ HCl0) as G. rewrite Er in G.
      destruct G as (C1 & E1 & G1 & G2). cbn [reset ss_checked] in E1.
      assert (HCl1 : vm <> VDisabled -> Closed (ss_visited ss1) (ss_checked ss1) /\ incl (ss_visited ss0) (ss_visited ss1)).
      { intros Hon. destruct (staged_run _ _ _ _ _ Hon (HCl0 Hon) Er) as (A & B & _). split; [exact A|exact B]. }
      destruct (IH ss1 ss' (fun Hon => proj1 (HCl1 Hon)) H) as (K1 & (C2 & E2 & K2 & K3) & K4).
      assert (Hr1 : In r C1).
      { destruct vm_dec as [Hoff|Hon].
        - destruct (staged_run_disabled _ _ _ _ _ Hoff Er) as (_ & C1' & E1' & _ & Hc). cbn [reset ss_checked] in E1'.
          rewrite E1 in E1'. apply app_inv_tail in E1'. subst C1'. apply Hc. constructor.
        - destruct (staged_run _ _ _ _ _ Hon (HCl0 Hon) Er) as (_ & _ & (C1' & E1' & Hs & _) & _).
          cbn [reset ss_checked] in E1'. rewrite E1 in E1'. apply app_inv_tail in E1'. subst C1'. exact Hs. }
      split; [|split].
      + intros Hon. destruct (K1 Hon) as [A B]. split; [exact A|]. eapply incl_tran; [apply (HCl1 Hon)|exact B].
      + exists (C2 ++ C1). split; [rewrite E2, E1; apply app_assoc|]. split.
        * intros r' [<-|Hr']; apply in_or_app; [now right|left; apply K2, Hr'].
        * intros y Hy. apply in_app_or in Hy as [Hy|Hy].
          -- destruct (K3 y Hy) as [(r' & Hr' & Hy') Hv]. split; [exists r'; split; [now right|exact Hy']|exact Hv].
          -- destruct (G1 y Hy) as [Hy' Hv]. split; [exists r; split; [now left|exact Hy']|exact Hv].
      + intros r' [<-|Hr']; [|apply K4, Hr'].
        intros x Hx. destruct (G2 x Hx) as (y & Hy & E). exists y. split; [|exact E].
        rewrite E2. apply in_or_app. now right.
  Qed.

  Theorem union_of_roots st fuel roots ss' :
    run_roots st fuel roots (ss_empty St) = Some ss' ->
    (forall r, In r roots -> forall x, Reach r x -> exists y, In y (ss_checked ss') /\ veq x y = true) /\
    (forall y, In y (ss_checked ss') -> (exists r, In r roots /\ Reach r y) /\ (vk y = Ok VFinal \/ vk y = Ok VGo)) /\
    (forall r, In r roots -> In r (ss_checked ss')) /\
    (vm <> VDisabled -> Closed (ss_visited ss') (ss_checked ss')).
  Proof.
    intros H. destruct (run_roots_gen st fuel roots (ss_empty St) ss' (fun _ => Closed_nil) H) as (K1 & (Cn & E & K2 & K3) & K4).
    cbn [ss_checked ss_empty] in E. rewrite app_nil_r in E. subst Cn.
    split; [exact K4|]. split; [exact K3|]. split; [exact K2|]. intros Hon. apply (K1 Hon).
  Qed.

  End Mode.

  (* ================= T7: the strategies and the visited modes agree ================= *)
  Local Notation runS vm := (run_strategy St veq expand enabled_ok no_events p_collect p_inv p_goal p_prune debug vm).
  Local Notation startS vm s0 := (mark_visited St veq vm (ss_empty St) s0).

  Theorem modes_agree_states vm1 vm2 st1 st2 fuel1 fuel2 s0 ss1 ss2 :
    runS vm1 st1 fuel1 s0 (startS vm1 s0) = ODone ss1 ->
    runS vm2 st2 fuel2 s0 (startS vm2 s0) = ODone ss2 ->
    (forall x, In x (ss_checked ss1) -> exists y, In y (ss_checked ss2) /\ veq x y = true) /\
    (forall y, In y (ss_checked ss2) -> exists x, In x (ss_checked ss1) /\ veq y x = true).
  Proof.
    intros H1 H2. split.
    - intros x Hx. apply (search_complete _ _ _ _ _ H2), (search_sound _ _ _ _ _ H1), Hx.
    - intros y Hy. apply (search_complete _ _ _ _ _ H1), (search_sound _ _ _ _ _ H2), Hy.
  Qed.

  Theorem modes_agree_verdict vm1 vm2 st1 st2 fuel1 fuel2 s0 ss1 m s ss2 :
    runS vm1 st1 fuel1 s0 (startS vm1 s0) = ODone ss1 ->
    runS vm2 st2 fuel2 s0 (startS vm2 s0) = OErr m s ss2 -> False.
  Proof.
    intros H1 H2. destruct (search_error_sound _ _ _ _ _ _ _ H2) as [Hr Hv].
    exact (search_verdict _ _ _ _ _ H1 s Hr m Hv).
  Qed.

  Theorem bfs_dfs_same_states vm fuel1 fuel2 s0 ss1 ss2 :
    runS vm Bfs fuel1 s0 (startS vm s0) = ODone ss1 ->
    runS vm Dfs fuel2 s0 (startS vm s0) = ODone ss2 ->
    (forall x, In x (ss_checked ss1) -> exists y, In y (ss_checked ss2) /\ veq x y = true) /\
    (forall y, In y (ss_checked ss2) -> exists x, In x (ss_checked ss1) /\ veq y x = true).
  Proof. apply modes_agree_states. Qed.

  Theorem bfs_dfs_same_verdict vm fuel1 fuel2 s0 :
    (forall ss1 m s ss2, runS vm Bfs fuel1 s0 (startS vm s0) = ODone ss1 ->
                         runS vm Dfs fuel2 s0 (startS vm s0) = OErr m s ss2 -> False) /\
    (forall ss1 m s ss2, runS vm Dfs fuel1 s0 (startS vm s0) = ODone ss1 ->
                         runS vm Bfs fuel2 s0 (startS vm s0) = OErr m s ss2 -> False).
  Proof. split; intros ss1 m s ss2; apply modes_agree_verdict. Qed.

  (* consequently: when neither run panics nor exhausts its fuel, both report an error or both finish *)
  Definition is_done (o : outcome St) : bool := match o with ODone _ => true | _ => false end.
  Definition is_err (o : outcome St) : bool := match o with OErr _ _ _ => true | _ => false end.
  Theorem modes_agree vm1 vm2 st1 st2 fuel1 fuel2 s0 :
    let o1 := runS vm1 st1 fuel1 s0 (startS vm1 s0) in
    let o2 := runS vm2 st2 fuel2 s0 (startS vm2 s0) in
    is_done o1 || is_err o1 = true -> is_done o2 || is_err o2 = true ->
    is_done o1 = is_done o2 /\ is_err o1 = is_err o2.
  Proof.
    intros o1 o2 D1 D2.
    destruct o1 as [ss1|m1 b1 ss1| |] eqn:E1; destruct o2 as [ss2|m2 b2 ss2| |] eqn:E2;
      cbn in *; try discriminate; auto.
    - exfalso. exact (modes_agree_verdict _ _ _ _ _ _ _ _ _ _ _ E1 E2).
    - exfalso. exact (modes_agree_verdict _ _ _ _ _ _ _ _ _ _ _ E2 E1).
  Qed.

End SearchCorrect.

(* Sanity check (non-vacuity): a cyclic graph 0 -> [1;2], 1 -> [0;3], 2 -> [3], 3 -> [], 3 is a goal state. *)
Module Example.
  Definition ex_expand (n : N) : result (list N) :=
    Ok (match n with 0 => [1; 2] | 1 => [0; 3] | 2 => [3] | _ => [] end).
  Definition ex_goal (n : N) : option N := if (n =? 3) then Some 7 else None.
  Definition ex_run (vm : vmode) (st : strategy) : outcome N :=
    run_strategy N N.eqb ex_expand (fun _ => Ok tt) (fun _ => Ok false) (fun n => n =? 3)
      (fun _ => None) ex_goal (fun _ => None) true vm st 20 0 (mark_visited N N.eqb vm (ss_empty N) 0).
  Definition summary (o : outcome N) : option (list N * list (N * N) * list N) :=
    match o with ODone ss => Some (ss_checked ss, ss_statuses ss, ss_collected ss) | _ => None end.
  Goal summary (ex_run VFull Bfs) = Some ([3; 2; 1; 0], [(7, 1)], [3])
       /\ summary (ex_run VPartial Dfs) = Some ([2; 3; 1; 0], [(7, 1)], [3])
       /\ ex_run VDisabled Bfs = OFuel /\ ex_run VDisabled Dfs = OFuel.
  Proof. vm_compute. auto. Qed.
End Example.

Print Assumptions search_sound.
Print Assumptions search_complete.
Print Assumptions search_error_sound.
Print Assumptions search_verdict.
Print Assumptions collected_exact.
Print Assumptions collected_exact_err.
Print Assumptions status_counts.
Print Assumptions status_counts_counted.
Print Assumptions status_counts_off.
Print Assumptions bfs_dfs_same_states.
Print Assumptions bfs_dfs_same_verdict.
Print Assumptions modes_agree_states.
Print Assumptions modes_agree_verdict.
Print Assumptions modes_agree.
Print Assumptions search_master.
Print Assumptions staged_run.
Print Assumptions staged_run_error.
Print Assumptions staged_run_disabled.
Print Assumptions union_of_roots.
