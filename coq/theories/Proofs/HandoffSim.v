(* C04: the simulator's own (fault-free) continuation is among the executions of the reference semantics
   explored from the snapshot: a forward simulation, with stuttering, between `step` of Model/Sim.v and
   `take_choice` of Model/McSys.v over the abstract store (Spec/RefSys.v). *)
From Coq Require Import List NArith Bool Lia Permutation Sorted.
From ASV Require Import Base.Util Base.Msg Base.Log Model.Store Spec.StoreSpec Model.McSys Spec.RefSys
     Model.Sim Spec.TimeLaws Spec.SimSpec Model.Snapshot
     Proofs.UtilP Proofs.StoreSpecP Proofs.RefWf Proofs.SimTimeP Proofs.SimBaseP Proofs.SimTimerP Proofs.SimNetP
     Proofs.SimCrashP Proofs.SnapshotP Proofs.HandoffSimBase.
Import ListNotations.

Ltac hinv H := inversion H; clear H; subst.

(* ================================================================================================ *)
(* 1. Simulator side                                                                                *)
(* ================================================================================================ *)
Section SimSide.
  Context {T : Type} (ops : time_ops T).
  Context {PS : Type}.
  Variable handlerS : N -> PS -> input -> T -> (nat -> T) -> PS * list (action T) * nat.
  Variable init_state : N -> PS.
  Variable draws : nat -> T.
  Variable crash_order : list (@qevent T) -> list (@qevent T).
  Hypothesis laws : time_laws ops.
  Hypothesis draws_unit : forall i, tleb ops (tz ops) (draws i) = true /\ tltb ops (draws i) (tone ops) = true.
  Notation simsys := (@simsys T PS).
  Notation simnode := (@simnode T PS).
  Notation simnet := (@simnet T).
  Notation simq := (@simq T).
  Notation qevent := (@qevent T).
  Notation pentry := (pentry T PS).
  Notation Reachable := (Reachable ops handlerS init_state draws crash_order).
  Notation sim_op := (sim_op ops handlerS init_state draws crash_order).
  Notation run_ops := (run_ops ops handlerS init_state draws crash_order).
  Notation step := (step ops handlerS draws).
  Notation sys_action := (sys_action ops draws).
  Notation sys_actions := (sys_actions ops draws).

  (* ---- reachability is closed under further API calls ---- *)
  Lemma run_ops_snoc fuel l : forall (s s1 s2 : simsys) r1 o r,
    run_ops fuel s l = Ok (s1, r1) -> sim_op fuel s1 o = Ok (s2, r) -> run_ops fuel s (l ++ [o]) = Ok (s2, r1 ++ [r]).
  Proof.
    induction l as [|o' l IH]; intros s s1 s2 r1 o r H1 H2; cbn [SimSpec.run_ops app] in *.
    - hinv H1. rewrite H2. reflexivity.
    - destruct (sim_op fuel s o') as [[sa ra]|] eqn:E; cbn [bind] in *; [|discriminate].
      destruct (run_ops fuel sa l) as [[sb rb]|] eqn:E2; cbn [bind] in *; [|discriminate].
      hinv H1. rewrite (IH _ _ _ _ _ _ E2 H2). reflexivity.
  Qed.
  Lemma reachable_step (s s' : simsys) b : Reachable s -> step s = Ok (s', b) -> Reachable s'.
  Proof.
    intros (fuel & l & rets & H) Hs. exists fuel, (l ++ [YStep]), (rets ++ [RetBool b]).
    eapply run_ops_snoc; [exact H|]. cbn [Sim.sim_op]. rewrite Hs. reflexivity.
  Qed.

  (* ---- every live timer event is recorded in its process' pending-timer map ---- *)
  Definition TLoc (s : simsys) : Prop :=
    forall e p n, In e (q_live (y_q s)) -> q_data e = QTimer p n ->
      exists name nd pe, sget N.compare name (y_nodes s) = Some nd /\ sget N.compare p (sd_procs nd) = Some pe /\
                         sget N.compare n (pe_ptimers pe) = Some (q_id e).

  Lemma tloc_reachable (s : simsys) : Reachable s -> TLoc s.
  Proof.
    intros HR e p n He Hd.
    pose proof (reachable_base ops handlerS init_state draws crash_order s HR) as B.
    pose proof (timer_reachable ops handlerS init_state draws crash_order s HR) as TI.
    pose proof (SimCrashP.reachable_inv ops handlerS init_state draws crash_order s HR) as CI.
    pose proof He as He'. apply in_q_live in He'. destruct He' as [Hev _].
    pose proof (qi_ok _ _ (inv_q _ CI) e Hev) as Hq. unfold ev_ok, ev_ok_parts in Hq. rewrite Hd in Hq.
    destruct Hq as [_ [name Hname]]. rewrite (bi_node_ids _ B) in Hname.
    destruct (sget N.compare name (y_nodes s)) as [nd0|] eqn:H0; [|discriminate Hname].
    cbn [option_map] in Hname. inversion Hname as [Hid].
    destruct (sd_crashed nd0) eqn:Hc.
    - exfalso. apply (ti_crashed _ TI _ _ _ _ _ H0 Hc He Hd). symmetry. exact Hid.
    - destruct (ti_live_pending _ TI _ _ _ _ _ H0 Hc He Hd (eq_sym Hid)) as (pe & Hp & Hn).
      exists name, nd0, pe. split; [exact H0|]. split; [exact Hp|exact Hn].
  Qed.

  (* every live event of a reachable state goes to a registered node, whose handler is present unless crashed *)
  Lemma live_dst_node (s : simsys) e : Reachable s -> In e (q_live (y_q s)) ->
    exists name nd, sget N.compare name (y_nodes s) = Some nd /\ sd_id nd = q_dst e /\
                    sget N.compare (q_dst e) (y_handlers s) = Some (negb (sd_crashed nd)).
  Proof.
    intros HR He.
    pose proof (SimCrashP.reachable_inv ops handlerS init_state draws crash_order s HR) as CI.
    apply in_q_live in He. destruct He as [Hev _].
    pose proof (qi_ok _ _ (inv_q _ CI) e Hev) as Hq. unfold ev_ok, ev_ok_parts in Hq.
    assert (G : exists name, sget N.compare name (sn_node_ids (y_net s)) = Some (q_dst e)).
    { destruct (q_data e); [exists dst_node; apply Hq|apply Hq]. }
    destruct G as [name G]. apply (ni_ids _ _ _ _ (inv_n _ CI)) in G. destruct G as (nd & Hn & Hid).
    exists name, nd. split; [exact Hn|]. split; [exact Hid|]. rewrite <- Hid.
    apply (ni_handler _ _ _ _ (inv_n _ CI) _ _ Hn).
  Qed.

  (* ---- the fault-free network ---- *)
  Definition NetFF (n : simnet) : Prop :=
    sn_drop n = tz ops /\ sn_dupl n = tz ops /\ sn_corrupt n = tz ops /\ forall a b, link_cut n a b = false.

  Lemma netff_bump n c z : NetFF n -> NetFF (net_bump n c z).
  Proof. intros (A & B & C & D). repeat split; auto. Qed.

  (* exactly one uncorrupted copy *)
  Lemma net_send_ff (n : simnet) (q : simq) m src dst n' q' logs :
    NetFF n -> net_send ops draws n q m src dst = Ok (n', q', logs) ->
    exists sn dn c z ev,
      sget N.compare src (sn_loc n) = Some sn /\ sget N.compare dst (sn_loc n) = Some dn /\
      n' = net_bump n c z /\
      q_events q' = q_events q ++ [ev] /\ q_canceled q' = q_canceled q /\ q_clock q' = q_clock q /\
      q_id ev = q_count q /\ q_data ev = QMsg (sn_msg_count n) m src sn dst dn.
  Proof.
    intros (F1 & F2 & F3 & F4) H.
    destruct (SimBaseP.net_send_spec ops draws _ _ _ _ _ _ _ _ H) as (sn & dn & sid & did & news & L1 & L2 & L3 & L4 & _).
    destruct (N.eqb_spec sn dn) as [->|Hne].
    - rewrite (net_send_same_node ops draws laws n q m src dst dn sid L1 L2 L3) in H. hinv H.
      eexists dn, dn, _, _, _. repeat split; try eassumption; reflexivity.
    - pose proof (net_send_cross_node ops draws n q m src dst sn dn sid did n' q' logs L1 L2 Hne L3 L4 H) as [Hn' X].
      cbv zeta in X.
      destruct (net_fate ops draws n q m sn dn) as [f q1] eqn:Ef.
      pose proof (net_fate_spec ops draws n q m sn dn f q1 Ef) as S. cbv zeta in S.
      destruct S as (_ & _ & _ & Sd & Sc).
      destruct f as [|m' ds].
      + exfalso. destruct (Sd eq_refl) as [[Hcut|Hdr] _].
        * rewrite F4 in Hcut. discriminate.
        * rewrite F1, (draw_not_lt_zero ops draws laws draws_unit) in Hdr. discriminate.
      + destruct X as [_ ->].
        pose proof (net_fate_corrupt0 ops draws laws draws_unit n q m sn dn m' ds q1 F3 Ef) as ->.
        pose proof (net_fate_dupl0 ops draws laws draws_unit n q m sn dn m ds q1 F2 Ef) as Hl.
        destruct ds as [|dl [|? ?]]; try discriminate Hl.
        eexists sn, dn, _, _, _. repeat split; try eassumption; cbn [q_with q_events q_canceled q_clock mk_copies]; reflexivity.
  Qed.

  (* ---- unfolding one action ---- *)
  Lemma sys_action_inv (s : simsys) nname proc a s' :
    sys_action s nname proc a = Ok s' ->
    exists nd p p' lc' w',
      sget N.compare nname (y_nodes s) = Some nd /\ sget N.compare proc (sd_procs nd) = Some p /\
      node_action ops draws nname (sd_id nd) proc (q_clock (y_q s)) p (sd_lcount nd) (world_of s) a = Ok (p', lc', w') /\
      s' = put_proc s nname nd proc p' lc' w'.
  Proof.
    unfold SimBaseP.sys_action. intros H.
    destruct (sget N.compare nname (y_nodes s)) as [nd|] eqn:E1; [|discriminate].
    destruct (sget N.compare proc (sd_procs nd)) as [p|] eqn:E2; [|discriminate].
    destruct (node_action _ _ _ _ _ _ _ _ _ _) as [[[p' lc'] w']|] eqn:E; cbn [bind] in H; [|discriminate].
    hinv H. exists nd, p, p', lc', w'. repeat split; auto.
  Qed.

  (* what an action leaves alone *)
  Record SFr (nn proc : N) (s s' : simsys) : Prop := {
    sf_other : forall x, x <> nn -> sget N.compare x (y_nodes s') = sget N.compare x (y_nodes s);
    sf_node : forall nd, sget N.compare nn (y_nodes s) = Some nd ->
                exists nd', sget N.compare nn (y_nodes s') = Some nd' /\ sd_crashed nd' = sd_crashed nd /\
                            sd_skew nd' = sd_skew nd /\
                            forall q, q <> proc -> sget N.compare q (sd_procs nd') = sget N.compare q (sd_procs nd) }.
  Lemma SFr_refl nn proc s : SFr nn proc s s.
  Proof. constructor; auto. intros nd H. exists nd. auto. Qed.
  Lemma SFr_trans nn proc s1 s2 s3 : SFr nn proc s1 s2 -> SFr nn proc s2 s3 -> SFr nn proc s1 s3.
  Proof.
    intros [A1 A2] [B1 B2]. constructor.
    - intros x Hx. rewrite B1, A1; auto.
    - intros nd H. destruct (A2 nd H) as (nd2 & H2 & C1 & C2 & C3). destruct (B2 nd2 H2) as (nd3 & H3 & D1 & D2 & D3).
      exists nd3. split; [exact H3|]. split; [congruence|]. split; [congruence|].
      intros q Hq. rewrite D3, C3; auto.
  Qed.
  Lemma SFr_put (s : simsys) nn nd proc p lc w :
    sget N.compare nn (y_nodes s) = Some nd -> SFr nn proc s (put_proc s nn nd proc p lc w).
  Proof.
    intros H. constructor; cbn [put_proc y_with y_nodes].
    - intros x Hx. rewrite sgetN_sins. destruct (N.eqb_spec x nn); [contradiction|reflexivity].
    - intros nd0 H0. rewrite H in H0. hinv H0. exists (nd_put nd0 proc p lc).
      rewrite sgetN_sins, N.eqb_refl. split; [reflexivity|]. split; [reflexivity|]. split; [reflexivity|].
      intros q Hq. cbn [nd_put sd_procs]. rewrite sgetN_sins. destruct (N.eqb_spec q proc); [contradiction|reflexivity].
  Qed.

  (* lookups in the state after an action *)
  Lemma put_proc_lookup (s : simsys) nn nd proc p lc w name nd' q pe :
    sget N.compare nn (y_nodes s) = Some nd ->
    sget N.compare name (y_nodes (put_proc s nn nd proc p lc w)) = Some nd' ->
    sget N.compare q (sd_procs nd') = Some pe ->
    (name = nn /\ q = proc /\ pe = p) \/
    (exists nd0, sget N.compare name (y_nodes s) = Some nd0 /\ sget N.compare q (sd_procs nd0) = Some pe /\
                 (name <> nn \/ q <> proc)).
  Proof.
    intros Hn H Hq. cbn [put_proc y_with y_nodes] in H. rewrite sgetN_sins in H.
    destruct (N.eqb_spec name nn) as [->|Hne].
    - hinv H. cbn [nd_put sd_procs] in Hq. rewrite sgetN_sins in Hq. destruct (N.eqb_spec q proc) as [->|Hq'].
      + hinv Hq. left. auto.
      + right. exists nd. auto.
    - right. exists nd'. auto.
  Qed.
End SimSide.

(* ================================================================================================ *)
(* 2. The relation between the two engines and its preservation by one action of a handler          *)
(* ================================================================================================ *)
Section Cross.
  Context {T : Type} (ops : time_ops T).
  Context {PS : Type}.
  Variable handlerS : N -> PS -> input -> T -> (nat -> T) -> PS * list (action T) * nat.
  Variable init_state : N -> PS.
  Variable draws : nat -> T.
  Variable crash_order : list (@qevent T) -> list (@qevent T).
  Variable tgt0 : T -> bool.
  Variable teq0 : T -> bool.
  Variable t0 : T.
  Variable clock : N -> T -> T.
  Variable handlerM : N -> PS -> input -> T -> (nat -> T) -> PS * list (action T).
  Variable DS : Type.
  Variable mc_rand : DS -> nat -> T.
  Variable ds_of : @mcstate T (astore T) PS -> DS.
  Variable sevent_eqb : (T -> T -> bool) -> sevent T -> sevent T -> bool.
  Variable known : list N.
  Hypothesis laws : time_laws ops.
  Hypothesis draws_unit : forall i, tleb ops (tz ops) (draws i) = true /\ tltb ops (draws i) (tone ops) = true.
  Notation simsys := (@simsys T PS).
  Notation simnode := (@simnode T PS).
  Notation simnet := (@simnet T).
  Notation simq := (@simq T).
  Notation qevent := (@qevent T).
  Notation pentry := (pentry T PS).
  Notation mcnode := (@mcnode T PS).
  Notation mcnet := (@mcnet T).
  Notation so := (abstract_ops (tleb ops) sevent_eqb).
  Notation rsys := (@mcsys T (astore T) PS).
  Notation sys_action := (sys_action ops draws).
  Notation sys_actions := (sys_actions ops draws).
  Notation tle a b := (tleb ops a b = true).
  Notation NetFF := (NetFF ops).
  Notation EvR := (EvR ops).

  (* the process-visible part of a process entry (event logs differ between the engines) *)
  Definition PeR (pe pe' : pentry) : Prop :=
    pe_state pe = pe_state pe' /\ pe_outbox pe = pe_outbox pe' /\
    (forall n, shas N.compare n (pe_ptimers pe) = shas N.compare n (pe_ptimers pe')) /\
    pe_sent pe = pe_sent pe' /\ pe_recv pe = pe_recv pe'.
  Definition ProcsR (ps ps' : list (N * pentry)) : Prop :=
    forall p, match sget N.compare p ps, sget N.compare p ps' with
              | Some a, Some b => PeR a b
              | None, None => True
              | _, _ => False
              end.
  Definition NodesR (sn : list (N * simnode)) (mn : list (N * mcnode)) : Prop :=
    forall nn, match sget N.compare nn sn, sget N.compare nn mn with
               | Some nd, Some nd' => sd_crashed nd = nd_crashed nd' /\ sd_skew nd = nd_skew nd' /\
                                      ProcsR (sd_procs nd) (nd_procs nd')
               | None, None => True
               | _, _ => False
               end.
  Definition NetR (sn : simnet) (mn : mcnet) : Prop :=
    n_loc mn = sn_loc sn /\ n_drop mn = tz ops /\ n_dupl mn = tz ops /\ n_corrupt mn = tz ops /\
    forall a b, nmem a (n_drop_out mn) = false /\ nmem b (n_drop_in mn) = false /\
                existsb (McSys.pair_eqb (a, b)) (n_links mn) = false.

  Lemma live_cancel_in (q : simq) i e : In e (q_live (q_cancel q i)) <-> In e (q_live q) /\ q_id e <> i.
  Proof. rewrite q_live_cancel, filter_In, negb_true_iff, N.eqb_neq. tauto. Qed.

  Lemma PeR_refl pe : PeR pe pe.
  Proof. repeat split. Qed.

  Lemma mc_net_send_ff (sn : simnet) (mn : mcnet) m src dst a b :
    NetR sn mn -> sget N.compare src (sn_loc sn) = Some a -> sget N.compare dst (sn_loc sn) = Some b ->
    exists o, McSys.net_send tgt0 teq0 mn m src dst = Ok (SEvent (EMsg m src dst o)).
  Proof.
    intros (L & D1 & D2 & D3 & C) Ha Hb. unfold McSys.net_send. rewrite L, Ha, Hb.
    destruct (N.eqb a b); [eexists; reflexivity|].
    destruct (C a b) as (C1 & C2 & C3). rewrite C1, C2, C3. cbn [negb andb]. eexists; reflexivity.
  Qed.

  (* the state in the middle of a handler invocation of process [proc] on node [nn]: the simulator has executed a
     prefix of the actions; [pM] is the checker's process entry after the same prefix, [a] its store *)
  Record HRel (nn proc : N) (s : simsys) (pM : pentry) (a : astore T) (netM : mcnet) : Prop := {
    h_base : BaseInv s;
    h_timer : TimerInv s;
    h_tloc : TLoc s;
    h_ff : NetFF (y_net s);
    h_netr : NetR (y_net s) netM;
    h_proc : exists nd p, sget N.compare nn (y_nodes s) = Some nd /\ sd_crashed nd = false /\
                          sget N.compare proc (sd_procs nd) = Some p /\ PeR p pM;
    h_ev : EvR (q_live (y_q s)) (q_clock (y_q s)) (pend a);
    h_ainv : AInv a;
    h_timok : TimOK a proc (pe_ptimers pM) }.

  Lemma tloc_proc (s : simsys) nn nd proc p e n :
    BaseInv s -> TLoc s -> sget N.compare nn (y_nodes s) = Some nd -> sget N.compare proc (sd_procs nd) = Some p ->
    In e (q_live (y_q s)) -> q_data e = QTimer proc n -> sget N.compare n (pe_ptimers p) = Some (q_id e).
  Proof.
    intros B TL Hn Hp He Hd. destruct (TL e proc n He Hd) as (name & nd0 & pe0 & A1 & A2 & A3).
    pose proof (bi_proc_fwd _ B _ _ _ _ A1 A2) as F1. pose proof (bi_proc_fwd _ B _ _ _ _ Hn Hp) as F2.
    rewrite F1 in F2. hinv F2. rewrite A1 in Hn. hinv Hn. rewrite A2 in Hp. hinv Hp. exact A3.
  Qed.

  Lemma tloc_put (s : simsys) nn nd proc p p' lc' w' :
    BaseInv s -> TLoc s -> sget N.compare nn (y_nodes s) = Some nd -> sget N.compare proc (sd_procs nd) = Some p ->
    (forall e pp n, In e (q_live (w_q w')) -> q_data e = QTimer pp n ->
       (pp = proc -> sget N.compare n (pe_ptimers p') = Some (q_id e)) /\
       (pp <> proc -> In e (q_live (y_q s)))) ->
    TLoc (put_proc s nn nd proc p' lc' w').
  Proof.
    intros B TL Hn Hp H e pp n He Hd. cbn [put_proc y_with y_q] in He. destruct (H e pp n He Hd) as [H1 H2].
    destruct (N.eq_dec pp proc) as [->|Hne].
    - exists nn, (nd_put nd proc p' lc'), p'. cbn [put_proc y_with y_nodes]. rewrite sgetN_sins, N.eqb_refl.
      cbn [nd_put sd_procs]. rewrite sgetN_sins, N.eqb_refl. auto.
    - destruct (TL e pp n (H2 Hne) Hd) as (name & nd0 & pe0 & A1 & A2 & A3).
      cbn [put_proc y_with y_nodes]. destruct (N.eq_dec name nn) as [->|Hnn].
      + rewrite Hn in A1. hinv A1. exists nn, (nd_put nd0 proc p' lc'), pe0. rewrite sgetN_sins, N.eqb_refl.
        cbn [nd_put sd_procs]. rewrite sgetN_sins. destruct (N.eqb_spec pp proc); [contradiction|]. auto.
      + exists name, nd0, pe0. rewrite sgetN_sins. destruct (N.eqb_spec name nn); [contradiction|]. auto.
  Qed.

  Lemma put_self (s : simsys) nn nd proc p lc w :
    sget N.compare nn (y_nodes (put_proc s nn nd proc p lc w)) = Some (nd_put nd proc p lc) /\
    sget N.compare proc (sd_procs (nd_put nd proc p lc)) = Some p.
  Proof.
    cbn [put_proc y_with y_nodes nd_put sd_procs]. rewrite !sgetN_sins, !N.eqb_refl. auto.
  Qed.

  (* ---------------------------------------------------------------------------------------------- *)
  (* one action                                                                                      *)
  (* ---------------------------------------------------------------------------------------------- *)
  Lemma action_sim nn proc atime (s : simsys) (pM : pentry) (mX : rsys) act s' pM' e1 l1 mX' :
    HRel nn proc s pM (s_events mX) (s_net mX) ->
    (forall n d once, act = ATimerSet n d once -> once = true) ->
    sys_action s nn proc act = Ok s' ->
    McSys.node_action proc atime pM act = (pM', e1, l1) ->
    add_events so tgt0 teq0 mX e1 = Ok mX' ->
    HRel nn proc s' pM' (s_events mX') (s_net mX') /\
    s_nodes mX' = s_nodes mX /\ s_net mX' = s_net mX /\ s_mf mX' = s_mf mX /\ SFr nn proc s s'.
  Proof.
    intros [B TI TL FF NR (nd & p & Hnd & Hcr & Hp & PR) EV AI TOK] Honce Hsa Hma Hadd.
    pose proof (base_sys_action ops handlerS init_state draws s nn nd proc act s' B Hnd Hsa) as B'.
    pose proof (timer_sys_action ops handlerS init_state draws s nn nd proc act s' B TI Hnd Hcr Hsa) as TI'.
    destruct (sys_action_inv ops draws s nn proc act s' Hsa) as (nd0 & p0 & p' & lc' & w' & Hnd0 & Hp0 & Hna & ->).
    rewrite Hnd in Hnd0. hinv Hnd0. rewrite Hp in Hp0. hinv Hp0.
    pose proof (SFr_put s nn nd0 proc p' lc' w' Hnd) as HF.
    destruct PR as (R1 & R2 & R3 & R4 & R5).
    pose proof (base_canc_lt s B) as Hcl.
    destruct act as [m dst|m|n d once|n].
    - (* ---- send ---- *)
      cbn [Sim.node_action] in Hna.
      destruct (Sim.net_send ops draws (w_net (world_of s)) (w_q (world_of s)) m proc dst) as [[[n' q'] logs]|] eqn:Ens;
        cbn [bind] in Hna; [|discriminate]. hinv Hna. cbn [world_of w_net w_q] in Ens.
      destruct (net_send_ff ops draws laws draws_unit _ _ _ _ _ _ _ _ FF Ens)
        as (sn & dn & c & z & ev & L1 & L2 & -> & Q1 & Q2 & Q3 & Q4 & Q5).
      assert (Hlive : q_live q' = q_live (y_q s) ++ [ev]).
      { apply q_live_app; auto. intros e [<-|[]]. rewrite Q4. lia. }
      cbn [McSys.node_action] in Hma. hinv Hma.
      destruct (mc_net_send_ff _ _ m proc dst sn dn NR L1 L2) as [o Ho].
      cbn [add_events] in Hadd. rewrite Ho in Hadd. cbn [bind so_push abstract_ops] in Hadd.
      rewrite a_push_eq in Hadd. cbn [bind] in Hadd. hinv Hadd.
      cbn [sys_with s_nodes s_net s_events s_mf].
      split; [|auto].
      constructor; [exact B'|exact TI'| | | | | | | ].
      + apply tloc_put with (p := p0); auto. cbn [w_q]. intros e pp k He Hd. rewrite Hlive in He.
        apply in_app_iff in He. destruct He as [He|[<-|[]]]; [|rewrite Q5 in Hd; discriminate].
        split; [|auto]. intros ->. cbn [Sim.pe_with pe_ptimers]. apply (tloc_proc s nn nd0 proc p0 e k B TL Hnd Hp He Hd).
      + cbn [put_proc y_with y_net w_net]. apply netff_bump. exact FF.
      + exact NR.
      + match goal with |- context [put_proc s nn nd0 proc ?pp ?lc ?w] => destruct (put_self s nn nd0 proc pp lc w) as [X1 X2] end.
        eexists _, _. split; [exact X1|]. split; [exact Hcr|]. split; [exact X2|].
        unfold PeR, Sim.pe_with, McSys.pe_with; cbn [pe_state pe_outbox pe_ptimers pe_sent pe_recv]. repeat split; auto; congruence.
      + cbn [put_proc y_with y_q w_q apush pend]. rewrite Hlive, Q3.
        apply EvR_push_msg; auto.
        * unfold c_of_q. rewrite Q5. reflexivity.
        * apply ainv_fresh. exact AI.
      + apply ainv_apush_new. exact AI.
      + cbn [McSys.pe_with pe_ptimers]. apply TimOK_push. exact TOK.
    - (* ---- local message ---- *)
      cbn [Sim.node_action] in Hna. hinv Hna. cbn [McSys.node_action] in Hma. hinv Hma.
      cbn [add_events] in Hadd. hinv Hadd. split; [|auto].
      constructor; [exact B'|exact TI'| |exact FF|exact NR| |exact EV|exact AI|exact TOK].
      + apply tloc_put with (p := p0); auto. cbn [w_q world_of]. intros e pp k He Hd. split; [|auto].
        intros ->. cbn [Sim.pe_with pe_ptimers]. apply (tloc_proc s nn nd0 proc p0 e k B TL Hnd Hp He Hd).
      + match goal with |- context [put_proc s nn nd0 proc ?pp ?lc ?w] => destruct (put_self s nn nd0 proc pp lc w) as [X1 X2] end.
        eexists _, _. split; [exact X1|]. split; [exact Hcr|]. split; [exact X2|].
        unfold PeR, Sim.pe_with, McSys.pe_with; cbn [pe_state pe_outbox pe_ptimers pe_sent pe_recv]. repeat split; auto; congruence.
    - (* ---- set timer (once) ---- *)
      pose proof (Honce n d once eq_refl) as ->.
      cbn [Sim.node_action] in Hna. cbn [McSys.node_action negb orb] in Hma.
      destruct (sget N.compare n (pe_ptimers p0)) as [old|] eqn:Eo.
      + (* pending: ignored on both sides *)
        hinv Hna.
        assert (Hs : shas N.compare n (pe_ptimers pM) = true) by (rewrite <- R3; unfold shas; rewrite Eo; reflexivity).
        rewrite Hs in Hma. cbn [negb] in Hma. hinv Hma. cbn [add_events] in Hadd. hinv Hadd. split; [|auto].
        constructor; [exact B'|exact TI'| |exact FF|exact NR| |exact EV|exact AI|exact TOK].
        * apply tloc_put with (p := p0); auto. cbn [w_q world_of]. intros e pp k He Hd. split; [|auto].
          intros ->. cbn [Sim.pe_with pe_ptimers]. apply (tloc_proc s nn nd0 proc p0 e k B TL Hnd Hp He Hd).
        * match goal with |- context [put_proc s nn nd0 proc ?pp ?lc ?w] => destruct (put_self s nn nd0 proc pp lc w) as [X1 X2] end.
          eexists _, _. split; [exact X1|]. split; [exact Hcr|]. split; [exact X2|].
          unfold PeR, Sim.pe_with, McSys.pe_with; cbn [pe_state pe_outbox pe_ptimers pe_sent pe_recv]. repeat split; auto.
      + (* fresh *)
        destruct (q_add ops (w_q (world_of s)) (QTimer proc n) (sd_id nd0) (sd_id nd0) d) as [[q2 i]|] eqn:Eq;
          cbn [bind] in Hna; [|discriminate]. hinv Hna. cbn [world_of w_q] in Eq.
        destruct (q_add_live ops _ _ _ _ _ _ _ Hcl Eq) as (-> & Hlive & Hcnt & Hcan & Hclk).
        assert (Hs : shas N.compare n (pe_ptimers pM) = false) by (rewrite <- R3; unfold shas; rewrite Eo; reflexivity).
        rewrite Hs in Hma. cbn [negb] in Hma. hinv Hma.
        cbn [add_events bind so_push abstract_ops] in Hadd. rewrite a_push_eq in Hadd. cbn [bind] in Hadd. hinv Hadd.
        cbn [sys_with s_nodes s_net s_events s_mf]. split; [|auto].
        assert (Hfresh : forall x, In x (q_live (y_q s)) -> q_data x <> QTimer proc n).
        { intros x Hx Hd. rewrite (tloc_proc s nn nd0 proc p0 x n B TL Hnd Hp Hx Hd) in Eo. discriminate. }
        constructor; [exact B'|exact TI'| |exact FF|exact NR| | | | ].
        * apply tloc_put with (p := p0); auto. cbn [w_q]. intros e pp k He Hd. rewrite Hlive in He.
          apply in_app_iff in He. cbn [Sim.pe_with pe_ptimers]. destruct He as [He|[<-|[]]].
          -- split; [|auto]. intros ->. rewrite sgetN_sins. destruct (N.eqb_spec k n) as [->|Hkn].
             ++ exfalso. eapply Hfresh; eauto.
             ++ apply (tloc_proc s nn nd0 proc p0 e k B TL Hnd Hp He Hd).
          -- cbn [mk_ev q_data] in Hd. hinv Hd. split; [|intros X; contradiction]. intros _.
             rewrite sgetN_sins, N.eqb_refl. reflexivity.
        * match goal with |- context [put_proc s nn nd0 proc ?pp ?lc ?w] => destruct (put_self s nn nd0 proc pp lc w) as [X1 X2] end.
          eexists _, _. split; [exact X1|]. split; [exact Hcr|]. split; [exact X2|].
          unfold PeR, Sim.pe_with, McSys.pe_with; cbn [pe_state pe_outbox pe_ptimers pe_sent pe_recv]. repeat split; auto.
          intros k. rewrite !shas_sins_N, R3. reflexivity.
        * cbn [put_proc y_with y_q w_q apush pend]. rewrite Hlive, Hclk.
          apply EvR_push_timer; auto.
          -- intros x Hx. cbn [mk_ev q_id]. apply (live_lt s x B Hx).
          -- apply ainv_fresh. exact AI.
        * apply ainv_apush_new. exact AI.
        * cbn [McSys.pe_with pe_ptimers]. apply TimOK_push_new. exact TOK.
    - (* ---- cancel timer ---- *)
      cbn [Sim.node_action] in Hna. cbn [McSys.node_action] in Hma.
      destruct (sget N.compare n (pe_ptimers p0)) as [i|] eqn:Ei.
      + hinv Hna.
        assert (Hs : shas N.compare n (pe_ptimers pM) = true) by (rewrite <- R3; unfold shas; rewrite Ei; reflexivity).
        rewrite Hs in Hma. hinv Hma.
        destruct (TOK n Hs) as (j & dj & Hg & Hj).
        cbn [add_events bind so_cancel_timer abstract_ops] in Hadd.
        rewrite (a_cancel_timer_eq _ _ _ j Hg) in Hadd by (apply in_ids; eauto). cbn [bind] in Hadd. hinv Hadd.
        cbn [sys_with s_nodes s_net s_events s_mf]. split; [|auto].
        destruct (ti_pending_live _ TI _ _ _ _ _ _ Hnd Hcr Hp Ei) as (ev & Hev & Hid & Hdat & _).
        constructor; [exact B'|exact TI'| |exact FF|exact NR| | | | ].
        * apply tloc_put with (p := p0); auto. cbn [w_q world_of]. intros e pp k He Hd.
          apply live_cancel_in in He. destruct He as [He Hne]. split; [|auto]. intros ->.
          cbn [Sim.pe_with pe_ptimers]. rewrite sgetN_srem.
          pose proof (tloc_proc s nn nd0 proc p0 e k B TL Hnd Hp He Hd) as Hk.
          destruct (N.eqb_spec k n) as [->|Hkn]; [|exact Hk]. exfalso. congruence.
        * match goal with |- context [put_proc s nn nd0 proc ?pp ?lc ?w] => destruct (put_self s nn nd0 proc pp lc w) as [X1 X2] end.
          eexists _, _. split; [exact X1|]. split; [exact Hcr|]. split; [exact X2|].
          unfold PeR, Sim.pe_with, McSys.pe_with; cbn [pe_state pe_outbox pe_ptimers pe_sent pe_recv]. repeat split; auto.
          intros k. rewrite !shas_srem_N, R3. reflexivity.
        * cbn [put_proc y_with y_q w_q world_of acancel pend]. rewrite q_live_cancel. cbn [q_cancel q_with q_clock].
          rewrite <- Hid.
          apply EvR_remove with (clk := q_clock (y_q s)) (x := ETimer proc n dj); auto.
          -- apply q_live_nodup. apply (qw_nodup _ _ (bi_q _ B)).
          -- apply AI.
          -- cbn. symmetry. apply c_of_q_timer. exact Hdat.
          -- apply (le_refl ops laws).
        * apply ainv_acancel. exact AI.
        * cbn [McSys.pe_with pe_ptimers]. eapply TimOK_acancel; eauto.
          -- apply AI.
          -- intros _. rewrite shas_srem_N, N.eqb_refl. reflexivity.
          -- apply TimOK_srem. exact TOK.
      + hinv Hna.
        assert (Hs : shas N.compare n (pe_ptimers pM) = false) by (rewrite <- R3; unfold shas; rewrite Ei; reflexivity).
        rewrite Hs in Hma. hinv Hma. cbn [add_events] in Hadd. hinv Hadd. split; [|auto].
        constructor; [exact B'|exact TI'| |exact FF|exact NR| |exact EV|exact AI|exact TOK].
        * apply tloc_put with (p := p0); auto. cbn [w_q world_of]. intros e pp k He Hd. split; [|auto].
          intros ->. cbn [Sim.pe_with pe_ptimers]. apply (tloc_proc s nn nd0 proc p0 e k B TL Hnd Hp He Hd).
        * match goal with |- context [put_proc s nn nd0 proc ?pp ?lc ?w] => destruct (put_self s nn nd0 proc pp lc w) as [X1 X2] end.
          eexists _, _. split; [exact X1|]. split; [exact Hcr|]. split; [exact X2|].
          unfold PeR, Sim.pe_with, McSys.pe_with; cbn [pe_state pe_outbox pe_ptimers pe_sent pe_recv]. repeat split; auto.
  Qed.

  (* ---------------------------------------------------------------------------------------------- *)
  (* all actions of one invocation                                                                   *)
  (* ---------------------------------------------------------------------------------------------- *)
  Lemma actions_sim nn proc atime acts : forall (s : simsys) (pM : pentry) (mX : rsys) s' pM' evs logs mX',
    HRel nn proc s pM (s_events mX) (s_net mX) ->
    (forall n d once, In (ATimerSet n d once) acts -> once = true) ->
    sys_actions s nn proc acts = Ok s' ->
    McSys.node_actions proc atime pM acts = (pM', evs, logs) ->
    add_events so tgt0 teq0 mX evs = Ok mX' ->
    HRel nn proc s' pM' (s_events mX') (s_net mX') /\
    s_nodes mX' = s_nodes mX /\ s_net mX' = s_net mX /\ s_mf mX' = s_mf mX /\ SFr nn proc s s'.
  Proof.
    induction acts as [|a r IH]; intros s pM mX s' pM' evs logs mX' HR Honce Hs Hm Hadd.
    - cbn [SimBaseP.sys_actions] in Hs. hinv Hs. cbn [McSys.node_actions] in Hm. hinv Hm.
      cbn [add_events] in Hadd. hinv Hadd. split; [exact HR|]. split; [reflexivity|]. split; [reflexivity|]. split; [reflexivity|]. apply SFr_refl.
    - cbn [SimBaseP.sys_actions] in Hs.
      destruct (sys_action s nn proc a) as [s1|] eqn:Es1; cbn [bind] in Hs; [|discriminate].
      cbn [McSys.node_actions] in Hm.
      destruct (McSys.node_action proc atime pM a) as [[p1 e1] l1] eqn:Ea.
      destruct (McSys.node_actions proc atime p1 r) as [[p2 e2] l2] eqn:Er. inversion Hm; subst pM' evs logs; clear Hm.
      rewrite add_events_app in Hadd.
      destruct (add_events so tgt0 teq0 mX e1) as [m1|] eqn:Em1; cbn [bind] in Hadd; [|discriminate].
      destruct (action_sim nn proc atime s pM mX a s1 p1 e1 l1 m1 HR) as (HR1 & N1 & N2 & N3 & F1); auto.
      { intros n d once ->. apply (Honce n d once). left. reflexivity. }
      destruct (IH s1 p1 m1 s' p2 e2 l2 mX' HR1) as (HR2 & M1 & M2 & M3 & F2); auto.
      { intros n d once Hi. apply (Honce n d once). right. exact Hi. }
      split; [exact HR2|]. split; [congruence|]. split; [congruence|]. split; [congruence|]. eapply SFr_trans; eauto.
  Qed.

  (* ---------------------------------------------------------------------------------------------- *)
  (* 3. one step of the simulator                                                                    *)
  (* ---------------------------------------------------------------------------------------------- *)
  Hypothesis handler_closed : forall proc st inp time rand m dst,
    In (ASend m dst) (snd (handlerM proc st inp time rand)) -> In dst known.
  (* the two engines run the same user code; it ignores its clock argument and the draw oracle *)
  Hypothesis handler_agree : forall proc st inp t1 r1 t2 r2,
    handlerM proc st inp t1 r1 = fst (handlerS proc st inp t2 r2).
  (* override-free: timers are only set with set_timer_once (a pending name is left alone by both engines) *)
  Hypothesis once_only : forall proc st inp t r n d once,
    In (ATimerSet n d once) (snd (handlerM proc st inp t r)) -> once = true.

  Notation Reachable := (Reachable ops handlerS init_state draws crash_order).
  Notation step := (step ops handlerS draws).
  Notation RSteps := (RefWf.Steps tgt0 teq0 t0 clock handlerM DS mc_rand ds_of (tleb ops) sevent_eqb).
  Notation take := (take_choice so tgt0 teq0 t0 clock handlerM DS mc_rand ds_of).
  Notation mc_deliver := (McSys.deliver so tgt0 teq0 t0 clock handlerM DS mc_rand ds_of).

  Record Rel (s : simsys) (m : rsys) : Prop := {
    r_reach : Reachable s;
    r_awf : AWf known m;
    r_mf : s_mf m = false;
    r_ff : NetFF (y_net s);
    r_netr : NetR (y_net s) (s_net m);
    r_nocrash : forall nn nd, sget N.compare nn (y_nodes s) = Some nd -> sd_crashed nd = false;
    r_nodes : NodesR (y_nodes s) (s_nodes m);
    r_ev : EvR (q_live (y_q s)) (q_clock (y_q s)) (pend (s_events m)) }.

  Definition mk_of (k : Sim.hkind) : McSys.hkind :=
    match k with
    | Sim.HMsg _ m from _ => McSys.HMsg m from
    | Sim.HTimer n => McSys.HTimer n
    | Sim.HLocal m => McSys.HLocal m
    end.
  Definition mk_input (k : McSys.hkind) : input :=
    match k with McSys.HMsg m from => InMsg m from | McSys.HTimer name => InTimer name | McSys.HLocal m => InLocal m end.
  Definition mc_pre (proc : N) (k : McSys.hkind) (p : pentry) : pentry :=
    match k with
    | McSys.HMsg m from =>
      McSys.pe_with p (pe_state p) (pe_evlog p ++ [(t0, PMessageReceived m from proc)]) (pe_outbox p) (pe_ptimers p)
                    (pe_sent p) (pe_recv p + 1)
    | McSys.HTimer name =>
      McSys.pe_with p (pe_state p) (pe_evlog p) (pe_outbox p) (srem N.compare name (pe_ptimers p)) (pe_sent p) (pe_recv p)
    | McSys.HLocal _ => p
    end.
  Lemma mc_pre_state proc k p : pe_state (mc_pre proc k p) = pe_state p.
  Proof. destruct k; reflexivity. Qed.
  Lemma mk_input_of k : mk_input (mk_of k) = k_input k.
  Proof. destruct k; reflexivity. Qed.

  (* the checker's delivery, unfolded *)
  Lemma mc_deliver_inv (m1 : rsys) proc kM nn (ndM : mcnode) pM m' :
    sget N.compare proc (n_loc (s_net m1)) = Some nn -> sget N.compare nn (s_nodes m1) = Some ndM ->
    nd_crashed ndM = false -> sget N.compare proc (nd_procs ndM) = Some pM ->
    mc_deliver m1 proc kM = Ok m' ->
    exists time rand st' acts atime p3 evs logs,
      handlerM proc (pe_state pM) (mk_input kM) time rand = (st', acts) /\
      McSys.node_actions proc atime
        (McSys.pe_with (mc_pre proc kM pM) st' (pe_evlog (mc_pre proc kM pM)) (pe_outbox (mc_pre proc kM pM))
                       (pe_ptimers (mc_pre proc kM pM)) (pe_sent (mc_pre proc kM pM)) (pe_recv (mc_pre proc kM pM)))
        acts = (p3, evs, logs) /\
      add_events so tgt0 teq0
        (sys_with m1 (sins N.compare nn (nd_with_procs ndM (sins N.compare proc p3 (nd_procs ndM))) (s_nodes m1))
                  (s_net m1) (s_events m1) (s_depth m1) (s_trace m1 ++ logs)) evs = Ok m'.
  Proof.
    intros Hloc Hnd Hcr Hp H. unfold McSys.deliver in H. rewrite Hloc, Hnd in H.
    unfold McSys.node_handle in H. rewrite Hcr, Hp in H.
    fold (mc_pre proc kM pM) in H. fold (mk_input kM) in H. rewrite (mc_pre_state proc kM pM) in H.
    match type of H with context [handlerM ?a ?b ?c ?d ?e] => destruct (handlerM a b c d e) as [st' acts] eqn:Eh end.
    match type of H with context [McSys.node_actions ?a ?b ?c ?d] =>
      destruct (McSys.node_actions a b c d) as [[p3 evs] logs] eqn:En end.
    cbn [bind] in H. eexists _, _, st', acts, _, p3, evs, logs. split; [exact Eh|]. split; [exact En|]. exact H.
  Qed.

  Lemma apply_event_kind (m1 : rsys) (e : qevent) x :
    c_of_s x = c_of_q e ->
    apply_event so tgt0 teq0 t0 clock handlerM DS mc_rand ds_of m1 (ApEvent x) =
    mc_deliver (sys_with m1 (s_nodes m1) (s_net m1) (s_events m1) (s_depth m1 + 1) (s_trace m1 ++ [applied_log (ApEvent x)]))
               (fst (ev_kind e)) (mk_of (snd (ev_kind e))) /\
    (forall q n d, x = ETimer q n d -> q = fst (ev_kind e) /\ snd (ev_kind e) = Sim.HTimer n).
  Proof.
    unfold c_of_q, ev_kind. destruct (q_data e) as [mid msg src sn dst dn|pp n]; destruct x as [m' s' d' o|q n' d'];
      cbn [c_of_s]; intros H; try discriminate; hinv H; cbn [fst snd mk_of apply_event].
    - split; [reflexivity|]. intros q0 n0 d0 Hx. discriminate.
    - split; [reflexivity|]. intros q0 n0 d0 Hx. hinv Hx. auto.
  Qed.


  Lemma pre_pe_state nn proc t (p : pentry) k : pe_state (fst (pre_pe nn proc t p k)) = pe_state p.
  Proof. destruct k; cbn [pre_pe fst]; try reflexivity. destruct (sget N.compare name (pe_ptimers p)); reflexivity. Qed.

  Lemma pre_per nn proc t (p pM : pentry) k st' :
    PeR p pM ->
    PeR (SimBaseP.set_state (fst (pre_pe nn proc t p k)) st')
        (McSys.pe_with (mc_pre proc (mk_of k) pM) st' (pe_evlog (mc_pre proc (mk_of k) pM)) (pe_outbox (mc_pre proc (mk_of k) pM))
                       (pe_ptimers (mc_pre proc (mk_of k) pM)) (pe_sent (mc_pre proc (mk_of k) pM))
                       (pe_recv (mc_pre proc (mk_of k) pM))).
  Proof.
    intros (R1 & R2 & R3 & R4 & R5). destruct k as [mid m from fn|name|m]; cbn [pre_pe fst mk_of mc_pre].
    - unfold PeR, SimBaseP.set_state, Sim.pe_with, McSys.pe_with; cbn [pe_state pe_outbox pe_ptimers pe_sent pe_recv].
      repeat split; auto; congruence.
    - destruct (sget N.compare name (pe_ptimers p)) as [tid|] eqn:E; cbn [fst];
        unfold PeR, SimBaseP.set_state, Sim.pe_with, McSys.pe_with; cbn [pe_state pe_outbox pe_ptimers pe_sent pe_recv];
        repeat split; auto; intros k.
      + rewrite !shas_srem_N, R3. reflexivity.
      + rewrite shas_srem_N, <- R3. destruct (N.eqb_spec k name) as [->|Hk]; [|reflexivity].
        unfold shas. rewrite E. reflexivity.
    - unfold PeR, SimBaseP.set_state, Sim.pe_with, McSys.pe_with; cbn [pe_state pe_outbox pe_ptimers pe_sent pe_recv].
      repeat split; auto.
  Qed.

  Lemma tloc_pre (s : simsys) q' e nn nd p st' used :
    BaseInv s -> TLoc s -> q_shrink (y_q s) q' ->
    (forall x, In x (q_live q') <-> In x (q_live (y_q s)) /\ x <> e) -> In e (q_live (y_q s)) ->
    sget N.compare nn (y_nodes s) = Some nd -> sget N.compare (fst (ev_kind e)) (sd_procs nd) = Some p ->
    TLoc (pre_state (with_q s q') nn nd (fst (ev_kind e)) p (snd (ev_kind e)) st' used).
  Proof.
    intros B TL Hsh Hl He Hnd Hp. unfold pre_state.
    assert (B1 : BaseInv (with_q s q')) by (apply base_with_q_shrink; auto).
    assert (TL1 : TLoc (with_q s q')).
    { intros e0 pp n He0 Hd. cbn [with_q y_with y_q] in He0. apply Hl in He0. destruct He0 as [He0 _].
      exact (TL e0 pp n He0 Hd). }
    apply tloc_put with (p := p); auto.
    intros e0 pp k0 He0 Hd. cbn [w_q] in He0. change (q_live (q_used q' used)) with (q_live q') in He0.
    split; [|intros _; exact He0]. intros ->.
    apply Hl in He0. destruct He0 as [He0 Hne].
    pose proof (tloc_proc s nn nd _ p e0 k0 B TL Hnd Hp He0 Hd) as Hk.
    unfold SimBaseP.set_state, Sim.pe_with. cbn [pe_ptimers].
    revert Hd Hp Hk. unfold ev_kind. destruct (q_data e) as [mid msg src sn dst dn|pp n] eqn:Ed; cbn [fst snd pre_pe]; intros Hd Hp Hk.
    - exact Hk.
    - pose proof (tloc_proc s nn nd pp p e n B TL Hnd Hp He Ed) as Hn. rewrite Hn. cbn [fst Sim.pe_with pe_ptimers].
      rewrite sgetN_srem. destruct (N.eqb_spec k0 n) as [->|Hkn]; [|exact Hk].
      exfalso. apply Hne. apply (live_id_inj s e0 e B He0 He). congruence.
  Qed.

  Lemma deliver_sim (s : simsys) (m : rsys) q' e s' nn nd p st' acts used i x m' :
    Rel s m ->
    q_next ops (y_q s) = (q', Some e) ->
    sget N.compare nn (y_nodes s) = Some nd -> sd_crashed nd = false -> sd_id nd = q_dst e ->
    sget N.compare (fst (ev_kind e)) (sd_procs nd) = Some p ->
    handlerS (fst (ev_kind e)) (pe_state (fst (pre_pe nn (fst (ev_kind e)) (q_clock q') p (snd (ev_kind e)))))
             (k_input (snd (ev_kind e))) (tadd ops (q_clock q') (sd_skew nd))
             (fun j => draws (q_rand q' + j)%nat) = (st', acts, used) ->
    sys_actions (pre_state (with_q s q') nn nd (fst (ev_kind e)) p (snd (ev_kind e)) st' used) nn (fst (ev_kind e)) acts = Ok s' ->
    In (i, x) (pend (s_events m)) -> c_of_s x = c_of_q e ->
    take m (ChDeliver i) = Ok m' ->
    NodesR (y_nodes s') (s_nodes m') /\ EvR (q_live (y_q s')) (q_clock (y_q s')) (pend (s_events m')) /\
    NetFF (y_net s') /\ NetR (y_net s') (s_net m') /\ s_mf m' = s_mf m /\
    (forall y ndy, sget N.compare y (y_nodes s') = Some ndy -> sd_crashed ndy = false).
  Proof.
    intros [HR HW Hmf FF NR NC ND EV] Hnext Hnd Hcr Hid Hp Hh Hacts Hix Hc Htake.
    pose proof (reachable_base ops handlerS init_state draws crash_order s HR) as B.
    pose proof (timer_reachable ops handlerS init_state draws crash_order s HR) as TI.
    pose proof (tloc_reachable ops handlerS init_state draws crash_order s HR) as TL.
    pose proof (Reachable_TimeInv ops handlerS init_state draws crash_order laws s HR) as TM.
    pose proof (qw_nodup _ _ (bi_q _ B)) as Hnodup.
    destruct (SimBaseP.q_next_spec ops (y_q s) q' (Some e) Hnodup Hnext) as [Hsh _].
    destruct (q_next_some ops handlerS init_state draws laws (y_q s) q' e TM Hnext) as (He & Hmin & Hl & Hclk & _).
    pose proof (SimTimeP.q_next_spec ops handlerS init_state draws laws (y_q s)) as Hq. rewrite Hnext in Hq.
    destruct Hq as (_ & _ & _ & Hlive & _).
    pose proof (qt_future _ _ TM e He) as Hfut.
    destruct HW as (HP & HA & HE & HD & HT).
    set (proc := fst (ev_kind e)) in *. set (kS := snd (ev_kind e)) in *.
    (* the checker's side, unfolded *)
    cbn [take_choice so_pop abstract_ops] in Htake.
    rewrite (a_pop_eq _ i x (in_lookup _ _ _ (proj1 HA) Hix)) in Htake. cbn [bind] in Htake.
    destruct (apply_event_kind (with_events m (apop (s_events m) i)) e x Hc) as [Hap Hkind].
    rewrite Hap in Htake. clear Hap. fold proc kS in Htake, Hkind.
    cbn [with_events sys_with s_nodes s_net s_events s_depth s_trace] in Htake.
    assert (Hloc : sget N.compare proc (n_loc (s_net m)) = Some nn).
    { destruct NR as [-> _]. apply (bi_loc _ B). apply (bi_proc_fwd _ B _ _ _ _ Hnd Hp). }
    pose proof (ND nn) as NDn. rewrite Hnd in NDn.
    destruct (sget N.compare nn (s_nodes m)) as [ndM|] eqn:HndM; [|contradiction]. destruct NDn as (C1 & C2 & PRs).
    pose proof (PRs proc) as PRp. rewrite Hp in PRp.
    destruct (sget N.compare proc (nd_procs ndM)) as [pM|] eqn:HpM; [|contradiction].
    assert (HcM : nd_crashed ndM = false) by congruence.
    match type of Htake with mc_deliver ?m1 _ _ = _ =>
      destruct (mc_deliver_inv m1 proc (mk_of kS) nn ndM pM m' Hloc HndM HcM HpM Htake)
        as (time & rand & stM & actsM & atime & p3 & evs & logs & EhM & En & Hadd) end.
    cbn [sys_with s_nodes s_net s_events s_depth s_trace] in Hadd.
    (* same user code *)
    pose proof (handler_agree proc (pe_state pM) (mk_input (mk_of kS)) time rand
                  (tadd ops (q_clock q') (sd_skew nd)) (fun j => draws (q_rand q' + j)%nat)) as HAg.
    rewrite EhM, mk_input_of in HAg.
    assert (Hst : pe_state pM = pe_state (fst (pre_pe nn proc (q_clock q') p kS))).
    { rewrite pre_pe_state. symmetry. apply PRp. }
    rewrite Hst, Hh in HAg. cbn [fst] in HAg. hinv HAg.
    (* the relation at the beginning of the action phase *)
    set (s1 := pre_state (with_q s q') nn nd proc p kS st' used) in *.
    set (p2M := McSys.pe_with (mc_pre proc (mk_of kS) pM) st' (pe_evlog (mc_pre proc (mk_of kS) pM))
                              (pe_outbox (mc_pre proc (mk_of kS) pM)) (pe_ptimers (mc_pre proc (mk_of kS) pM))
                              (pe_sent (mc_pre proc (mk_of kS) pM)) (pe_recv (mc_pre proc (mk_of kS) pM))) in *.
    set (ndM' := nd_with_procs ndM (sins N.compare proc p3 (nd_procs ndM))) in *.
    match type of Hadd with add_events _ _ _ ?mm _ = _ => set (mX := mm) in * end.
    assert (B1 : BaseInv (with_q s q')) by (apply base_with_q_shrink; auto).
    assert (HR1 : HRel nn proc s1 p2M (s_events mX) (s_net mX)).
    { constructor.
      - apply (base_pre_state handlerS init_state); auto.
      - apply (timer_deliver ops handlerS init_state draws crash_order s q' e nn nd p st' used B TI Hnext Hnd Hcr); auto.
      - apply tloc_pre; auto.
      - exact FF.
      - exact NR.
      - unfold s1, pre_state.
        match goal with |- context [put_proc ?ss nn nd proc ?pp ?lc ?w] => destruct (put_self ss nn nd proc pp lc w) as [X1 X2] end.
        eexists _, _. split; [exact X1|]. split; [exact Hcr|]. split; [exact X2|]. apply pre_per. exact PRp.
      - cbn [mX sys_with s_events apop pend]. unfold s1, pre_state. cbn [put_proc y_with y_q w_q].
        change (q_live (q_used (y_q (with_q s q')) used)) with (q_live q').
        change (q_clock (q_used (y_q (with_q s q')) used)) with (q_clock q').
        rewrite Hlive, Hclk. apply EvR_remove with (clk := q_clock (y_q s)) (x := x); auto.
        + apply q_live_nodup. exact Hnodup.
        + apply HA.
      - cbn [mX sys_with s_events]. apply ainv_apop. exact HA.
      - cbn [mX sys_with s_events]. unfold p2M, McSys.pe_with. cbn [pe_ptimers].
        pose proof (HT nn ndM proc pM HndM HcM HpM) as TOK.
        destruct kS as [mid msg from fn|name|msg] eqn:Ek; cbn [mk_of mc_pre McSys.pe_with pe_ptimers].
        + apply (TimOK_apop _ i x proc _ (proj1 HA) Hix); auto.
          intros n0 d0 Hx. destruct (Hkind _ _ _ Hx) as [_ Hk]. discriminate.
        + apply (TimOK_apop _ i x proc _ (proj1 HA) Hix); [|apply TimOK_srem; exact TOK].
          intros n0 d0 Hx. destruct (Hkind _ _ _ Hx) as [_ Hk]. hinv Hk. rewrite shas_srem_N, N.eqb_refl. reflexivity.
        + apply (TimOK_apop _ i x proc _ (proj1 HA) Hix); auto.
          intros n0 d0 Hx. destruct (Hkind _ _ _ Hx) as [_ Hk]. discriminate. }
    destruct (actions_sim nn proc atime acts s1 p2M mX s' p3 evs logs m' HR1) as (HR2 & N1 & N2 & N3 & F2); auto.
    { intros n0 d0 once Hi. eapply once_only. rewrite EhM. cbn [snd]. exact Hi. }
    cbn [mX sys_with s_nodes s_net s_mf] in N1, N2, N3.
    assert (F1 : SFr nn proc (with_q s q') s1) by (apply SFr_put; exact Hnd).
    pose proof (SFr_trans _ _ _ _ _ F1 F2) as [FO FN]. cbn [with_q y_with y_nodes] in FO, FN.
    destruct HR2 as [_ _ _ FF2 NR2 (nd2 & pfin & Hnd2 & Hcr2 & Hp2 & PR2) EV2 _ _].
    destruct (FN nd Hnd) as (nd2' & Hnd2' & Fc & Fs & Fq). rewrite Hnd2 in Hnd2'. hinv Hnd2'.
    split; [|split; [exact EV2|split; [exact FF2|split; [exact NR2|split; [exact N3|]]]]].
    - intros y. rewrite N1, sget_sins_N. destruct (N.eqb_spec y nn) as [->|Hy].
      + rewrite Hnd2. cbn [ndM' nd_with_procs nd_crashed nd_skew nd_procs]. split; [congruence|]. split; [congruence|].
        intros q. rewrite sget_sins_N. destruct (N.eqb_spec q proc) as [->|Hq].
        * rewrite Hp2. exact PR2.
        * rewrite (Fq q Hq). apply PRs.
      + rewrite (FO y Hy). apply ND.
    - intros y ndy Hy. destruct (N.eq_dec y nn) as [->|Hne].
      + rewrite Hnd2 in Hy. hinv Hy. congruence.
      + rewrite (FO y Hne) in Hy. eapply NC; eauto.
  Qed.


  Lemma offered_match (lv : list qevent) clk (L : list (id * sevent T)) e :
    EvR lv clk L -> NoDup (ids L) -> In e lv -> (forall y, In y lv -> y <> e -> key_lt ops e y) ->
    exists i x, In (i, x) L /\ In i (offset (tleb ops) L) /\ c_of_s x = c_of_q e.
  Proof.
    intros EV Hn He Hmin. destruct (q_data e) as [mid msg src sn dst dn|pp n] eqn:Ed.
    - assert (Hc : c_of_q e = CMsg msg src dst) by (unfold c_of_q; rewrite Ed; reflexivity).
      destruct (min_msg_offered ops (tleb ops) lv clk L e msg src dst EV Hn He Hc) as (i & o & Hi & Ho).
      exists i, (EMsg msg src dst o). rewrite Hc. auto.
    - destruct (min_timer_offered ops laws (tleb ops) eq_refl lv clk L e pp n EV Hn He Ed Hmin) as (i & d & Hi & Ho).
      exists i, (ETimer pp n d). split; [exact Hi|]. split; [exact Ho|]. symmetry. apply c_of_q_timer. exact Ed.
  Qed.

  Theorem step_sim (s : simsys) (m : rsys) s' b :
    Rel s m -> step s = Ok (s', b) -> exists m', RSteps m m' /\ Rel s' m'.
  Proof.
    intros HRl Hs. pose proof HRl as [HR HW Hmf FF NR NC ND EV].
    pose proof (reachable_base ops handlerS init_state draws crash_order s HR) as B.
    pose proof (Reachable_TimeInv ops handlerS init_state draws crash_order laws s HR) as TM.
    pose proof (reachable_step ops handlerS init_state draws crash_order s s' b HR Hs) as HR'.
    destruct (step_contract ops handlerS init_state draws crash_order laws s s' b TM Hs) as [_ C].
    destruct b.
    - destruct C as (e & q' & Hnext & Hdel & He & Hmin & _).
      destruct (live_dst_node ops handlerS init_state draws crash_order s e HR He) as (name & nd0 & G1 & G2 & G3).
      rewrite (NC _ _ G1) in G3. cbn [negb] in G3.
      destruct (deliver_decomp ops handlerS draws s q' e s' B G3 Hdel)
        as (nn & nd & p & st' & acts & used & D1 & D2 & D3 & D4 & D5 & D6).
      pose proof HW as (_ & HA & _).
      destruct (offered_match _ _ _ e EV (proj1 HA) He Hmin) as (i & x & Hix & Hoff & Hc).
      assert (HEn : Enabled (tleb ops) sevent_eqb m (ChDeliver i)).
      { exists (offset (tleb ops) (pend (s_events m))), i.
        assert (Hlk : lookup (pend (s_events m)) i = Some x) by (apply in_lookup; [apply HA|exact Hix]).
        assert (Hal : exists cs, alternatives so m i = Ok cs /\ In (ChDeliver i) cs).
        { unfold alternatives. cbn [so_get abstract_ops]. rewrite aget_lookup, Hlk.
          destruct x as [mm ss dd [md|cd du cc]|pp nn0 dd]; eexists; (split; [reflexivity|]); left; reflexivity. }
        destruct Hal as (cs & Hal & Hin). exists cs. split; [|split; [exact Hoff|split; [exact Hal|exact Hin]]].
        unfold available. cbn [so_offered abstract_ops]. unfold aoffered. rewrite Hmf. reflexivity. }
      destruct (take_choice_ok tgt0 teq0 t0 clock handlerM DS mc_rand ds_of (tleb ops) sevent_eqb known handler_closed m
                  (ChDeliver i) HW HEn) as (m' & Htake & HW' & _).
      destruct (deliver_sim s m q' e s' nn nd p st' acts used i x m' HRl Hnext D1 D2 D3 D4 D5 D6 Hix Hc Htake)
        as (R1 & R2 & R3 & R4 & R5 & R6).
      exists m'. split.
      + eapply steps_cons; [exact HEn|exact Htake|apply steps_refl].
      + constructor; auto. congruence.
    - destruct C as (L1 & L2 & Hnow & [F1 F2 _ _ _ _] & _). exists m. split; [apply steps_refl|].
      constructor; auto.
      + rewrite F1. exact FF.
      + rewrite F1. exact NR.
      + rewrite F2. exact NC.
      + rewrite F2. exact ND.
      + unfold now in Hnow. rewrite L2, Hnow, <- L1. exact EV.
  Qed.


  (* ---------------------------------------------------------------------------------------------- *)
  (* 4. the snapshot is related to the state it was taken from                                       *)
  (* ---------------------------------------------------------------------------------------------- *)
  Hypothesis sub_add_le : forall t c d, tle (tsub ops t c) d -> tle t (tadd ops c d).

  Lemma tmax0_ge d : tle d (tmax0 ops d).
  Proof.
    unfold tmax0. destruct (tltb ops d (tz ops)) eqn:E; [|apply (le_refl ops laws)].
    apply (lt_spec ops laws) in E. tauto.
  Qed.

  Definition NoCrash (s : simsys) : Prop := forall nn nd, sget N.compare nn (y_nodes s) = Some nd -> sd_crashed nd = false.

  Lemma snap_of_single (s : simsys) e :
    NoCrash s -> snap_ok s e ->
    exists x, snap_of ops s e = [x] /\ c_of_s x = c_of_q e.
  Proof.
    intros NC Hok. unfold snap_ok in Hok. destruct (q_data e) as [mid msg src sn dst dn0|pp n] eqn:Ed.
    - destruct Hok as (dn & nd & H1 & H2). eexists. split.
      + eapply snap_of_live_msg; eauto.
      + unfold c_of_q. rewrite Ed. reflexivity.
    - eexists. split; [apply snap_of_timer; exact Ed|]. unfold c_of_q. rewrite Ed. reflexivity.
  Qed.

  Lemma flat_map_single {A B} (g : A -> list B) (dflt : B) l :
    (forall e, In e l -> exists x, g e = [x]) ->
    flat_map g l = map (fun e => hd dflt (g e)) l /\ forall e, In e l -> g e = [hd dflt (g e)].
  Proof.
    induction l as [|a r IH]; intros H; cbn [flat_map map]; [split; [reflexivity|intros e []]|].
    destruct (H a (or_introl eq_refl)) as [x Hx]. destruct IH as [IH1 IH2]; [intros e He; apply H; right; exact He|].
    split.
    - rewrite IH1, Hx. reflexivity.
    - intros e [<-|He]; [rewrite Hx; reflexivity|auto].
  Qed.

  Lemma NoDup_map_two {A} (f : A -> N) l0 e1 l2 e2 l3 : NoDup (map f (l0 ++ e1 :: l2 ++ e2 :: l3)) -> f e1 <> f e2.
  Proof.
    rewrite map_app. cbn [map]. intros H. apply NoDup_remove_2 in H. intros E. apply H.
    apply in_app_iff. right. rewrite map_app. apply in_app_iff. right. left. symmetry. exact E.
  Qed.

  Theorem rel_snapshot (s : simsys) (mr : rsys) :
    Reachable s -> Installed s -> NoCrash s -> NetFF (y_net s) -> known = known_of s ->
    snapshot ops so s = Ok mr -> Rel s mr.
  Proof.
    intros HR HI NC FF Hk Hsnap.
    pose proof (reachable_base ops handlerS init_state draws crash_order s HR) as B.
    pose proof (timers_unique_reachable ops handlerS init_state draws crash_order s HR) as TU.
    pose proof (snapinv_reachable ops handlerS init_state draws crash_order s HR) as SI.
    destruct (snapshot_awf ops handlerS init_state draws crash_order (tleb ops) sevent_eqb s HR HI) as (mr' & Hs' & HW).
    rewrite Hsnap in Hs'. hinv Hs'. rewrite <- Hk in HW.
    destruct (snapshot_nodes ops so s mr' Hsnap) as (Hnodes & _ & Hmf & _ & Hnet).
    destruct (snapshot_pend_order ops sevent_eqb laws s mr' Hsnap) as (Hpend & Hsorted & _).
    pose proof HW as (_ & HA & _).
    assert (Hsingle : forall e, In e (q_dump ops (y_q s)) -> exists x, snap_of ops s e = [x] /\ c_of_s x = c_of_q e).
    { intros e He. apply in_q_dump in He. apply snap_of_single; auto. apply snap_ok_inv; auto. }
    constructor; auto.
    - (* network *)
      rewrite Hnet. destruct (snapshot_net s) as (N1 & N2 & N3 & _ & N5 & N6 & _). cbv zeta in *.
      destruct FF as (F1 & F2 & F3 & F4).
      split; [exact N6|]. split; [congruence|]. split; [congruence|]. split; [congruence|].
      intros a b. pose proof (F4 a b) as Hcut. unfold link_cut in Hcut.
      apply orb_false_elim in Hcut. destruct Hcut as [Hcut C3]. apply orb_false_elim in Hcut. destruct Hcut as [C1 C2].
      destruct (snapshot_net_mem s a (bi_nodes_sorted _ B)) as [_ Ha].
      destruct (snapshot_net_mem s b (bi_nodes_sorted _ B)) as [Hb _].
      split; [|split].
      + rewrite Ha, C1. destruct (sget N.compare a (y_nodes s)) eqn:E; [|reflexivity]. cbn [orb]. eapply NC; eauto.
      + rewrite Hb, C2. destruct (sget N.compare b (y_nodes s)) eqn:E; [|reflexivity]. cbn [orb]. eapply NC; eauto.
      + rewrite N5. exact C3.
    - (* nodes *)
      intros nn. rewrite Hnodes, sget_snap_nodes. destruct (sget N.compare nn (y_nodes s)) as [nd|]; cbn [option_map]; [|exact I].
      cbn [snap_node nd_crashed nd_skew nd_procs]. split; [reflexivity|]. split; [reflexivity|].
      intros q. destruct (sget N.compare q (sd_procs nd)); [apply PeR_refl|exact I].
    - (* events *)
      constructor.
      + (* contents *)
        assert (E : map c_of_p (pend (s_events mr')) = map c_of_q (q_dump ops (y_q s))).
        { unfold c_of_p. rewrite <- (map_map snd c_of_s), Hpend. clear Hpend Hsorted.
          induction (q_dump ops (y_q s)) as [|a r IH]; [reflexivity|]. cbn [flat_map map].
          destruct (Hsingle a (or_introl eq_refl)) as (x & Hx & Hc). rewrite Hx. cbn [app map]. rewrite Hc. f_equal.
          apply IH. intros e He. apply Hsingle. right. exact He. }
        rewrite E. apply Permutation_map. apply Permutation_sym. apply q_dump_perm.
      + (* a snapshot timer carries its remaining delay *)
        intros i p n d e Hi He Hd.
        destruct (snapshot_timer_future ops handlerS init_state draws crash_order laws (tleb ops) sevent_eqb s mr' i p n d HR Hsnap Hi)
          as (eA & HA1 & HA2 & -> & _).
        rewrite (TU e eA p n He HA1 Hd HA2). apply sub_add_le. apply tmax0_ge.
      + (* snapshot timers are pending in firing order *)
        intros i1 i2 p n1 n2 d1 d2 e1 e2 H2 H1 _ He1 He2 D1 D2.
        destruct (split_at _ i2 _ (proj1 HA) H2) as [post Hsplit].
        apply in_split in H1. destruct H1 as (L0 & L2 & HL). rewrite HL in Hsplit.
        assert (Hm : map snd (pend (s_events mr')) =
                     map snd L0 ++ ETimer p n1 d1 :: map snd L2 ++ ETimer p n2 d2 :: map snd post).
        { rewrite Hsplit. rewrite <- app_assoc. cbn [app]. rewrite !map_app. cbn [map snd]. rewrite !map_app. reflexivity. }
        rewrite Hpend in Hm.
        destruct (flat_map_single (snap_of ops s) (ETimer p n1 d1) (q_dump ops (y_q s))) as [Hfm Hsg].
        { intros e He. destruct (Hsingle e He) as (x & Hx & _). eauto. }
        rewrite Hfm in Hm. apply map_eq_two in Hm. destruct Hm as (l0 & a1 & l2 & a2 & l3 & Hd & Ha1 & Ha2).
        assert (Hin1 : In a1 (q_dump ops (y_q s))) by (rewrite Hd; apply in_app_iff; right; left; reflexivity).
        assert (Hin2 : In a2 (q_dump ops (y_q s))).
        { rewrite Hd. apply in_app_iff. right. right. apply in_app_iff. right. left. reflexivity. }
        pose proof (Hsg a1 Hin1) as S1. rewrite Ha1 in S1. pose proof (Hsg a2 Hin2) as S2. rewrite Ha2 in S2.
        pose proof (snap_of_msg ops s a1 (ETimer p n1 d1)) as M1. rewrite S1 in M1. destruct (M1 (or_introl eq_refl)) as [M1d _].
        pose proof (snap_of_msg ops s a2 (ETimer p n2 d2)) as M2. rewrite S2 in M2. destruct (M2 (or_introl eq_refl)) as [M2d _].
        apply in_q_dump in Hin1, Hin2.
        rewrite (TU e1 a1 p n1 He1 Hin1 D1 M1d), (TU e2 a2 p n2 He2 Hin2 D2 M2d).
        rewrite Hd in Hsorted. apply strongly_sorted_mid in Hsorted.
        assert (Hle : key_le ops a1 a2).
        { rewrite Forall_forall in Hsorted. apply Hsorted. apply in_app_iff. right. left. reflexivity. }
        apply (key_le_spec ops laws) in Hle. destruct Hle as [Ht Hids].
        pose proof (q_dump_nodup ops (y_q s) (qw_nodup _ _ (bi_q _ B))) as Hnd. rewrite Hd in Hnd.
        apply NoDup_map_two in Hnd.
        unfold key_lt. destruct (tleb ops (q_time a2) (q_time a1)) eqn:E.
        * right. assert (Heq : q_time a1 = q_time a2) by (apply (le_antisym ops laws); auto).
          split; [exact Heq|]. specialize (Hids Heq). lia.
        * left. apply (lt_spec ops laws). auto.
  Qed.


  (* ---------------------------------------------------------------------------------------------- *)
  (* 5. runs                                                                                         *)
  (* ---------------------------------------------------------------------------------------------- *)
  (* the states a run of `step`s passes through *)
  Inductive SimRun : simsys -> list simsys -> Prop :=
  | run_nil : forall s, SimRun s []
  | run_cons : forall s s1 b l, step s = Ok (s1, b) -> SimRun s1 l -> SimRun s (s1 :: l).

  (* the process-visible projection: same nodes, crash flags, clock skews, processes; per process the same user
     state, outbox, pending-timer names and message counters *)
  Definition ProjEq (s : simsys) (m : rsys) : Prop := NodesR (y_nodes s) (s_nodes m).

  (* every state of the run is matched, in order, along one path of the reference semantics *)
  Inductive Matched : rsys -> list simsys -> Prop :=
  | matched_nil : forall m, Matched m []
  | matched_cons : forall m m1 s1 l, RSteps m m1 -> ProjEq s1 m1 -> Matched m1 l -> Matched m (s1 :: l).

  Lemma rsteps_trans (a b c : rsys) : RSteps a b -> RSteps b c -> RSteps a c.
  Proof. intros H1 H2. induction H1; auto. eapply steps_cons; eauto. Qed.

  Theorem run_sim (s : simsys) l : SimRun s l -> forall m, Rel s m -> Matched m l.
  Proof.
    induction 1 as [s|s s1 b l Hs Hrun IH]; intros m HR; [constructor|].
    destruct (step_sim s m s1 b HR Hs) as (m1 & Hst & HR1).
    apply matched_cons with (m1 := m1); auto. apply (r_nodes _ _ HR1).
  Qed.

  Theorem steps_fuel_sim fuel : forall (s : simsys) n s' b m,
    Rel s m -> steps_fuel ops handlerS draws fuel s n = Ok (s', b) -> exists m', RSteps m m' /\ Rel s' m'.
  Proof.
    induction fuel as [|f IH]; intros s n s' b m HR H; cbn [steps_fuel] in H; [discriminate|].
    destruct (N.eqb n 0).
    - hinv H. exists m. split; [apply steps_refl|exact HR].
    - destruct (step s) as [[s1 b1]|] eqn:Es; cbn [bind] in H; [|discriminate].
      destruct (step_sim s m s1 b1 HR Es) as (m1 & Hst & HR1). destruct b1.
      + destruct (IH s1 (n - 1) s' b m1 HR1 H) as (m' & Hst' & HR'). exists m'. split; [|exact HR'].
        eapply rsteps_trans; eauto.
      + hinv H. exists m1. auto.
  Qed.

  Lemma ProjEq_spec (s : simsys) (m : rsys) : ProjEq s m ->
    forall nn nd, sget N.compare nn (y_nodes s) = Some nd ->
      exists nd', sget N.compare nn (s_nodes m) = Some nd' /\ nd_crashed nd' = sd_crashed nd /\ nd_skew nd' = sd_skew nd /\
        (forall p, shas N.compare p (nd_procs nd') = shas N.compare p (sd_procs nd)) /\
        forall p pe, sget N.compare p (sd_procs nd) = Some pe ->
          exists pe', sget N.compare p (nd_procs nd') = Some pe' /\ pe_state pe' = pe_state pe /\
                      pe_outbox pe' = pe_outbox pe /\ pe_sent pe' = pe_sent pe /\ pe_recv pe' = pe_recv pe /\
                      forall n, shas N.compare n (pe_ptimers pe') = shas N.compare n (pe_ptimers pe).
  Proof.
    intros H nn nd Hn. specialize (H nn). rewrite Hn in H.
    destruct (sget N.compare nn (s_nodes m)) as [nd'|]; [|contradiction]. destruct H as (C1 & C2 & PRs).
    exists nd'. split; [reflexivity|]. split; [auto|]. split; [auto|]. split.
    - intros p. specialize (PRs p). unfold shas.
      destruct (sget N.compare p (sd_procs nd)), (sget N.compare p (nd_procs nd')); auto; contradiction.
    - intros p pe Hp. specialize (PRs p). rewrite Hp in PRs.
      destruct (sget N.compare p (nd_procs nd')) as [pe'|]; [|contradiction].
      destruct PRs as (R1 & R2 & R3 & R4 & R5). exists pe'. repeat split; auto.
  Qed.

End Cross.

(* ================================================================================================ *)
(* 6. C04, stage 1 (fault-free continuation)                                                        *)
(* ================================================================================================ *)
Section Main.
  Context {T : Type} (ops : time_ops T).
  Context {PS : Type}.
  Variable handlerS : N -> PS -> input -> T -> (nat -> T) -> PS * list (action T) * nat.
  Variable init_state : N -> PS.
  Variable draws : nat -> T.
  Variable crash_order : list (@qevent T) -> list (@qevent T).
  Variable tgt0 : T -> bool.
  Variable teq0 : T -> bool.
  Variable t0 : T.
  Variable clock : N -> T -> T.
  Variable handlerM : N -> PS -> input -> T -> (nat -> T) -> PS * list (action T).
  Variable DS : Type.
  Variable mc_rand : DS -> nat -> T.
  Variable ds_of : @mcstate T (astore T) PS -> DS.
  Variable sevent_eqb : (T -> T -> bool) -> sevent T -> sevent T -> bool.
  Notation simsys := (@simsys T PS).
  Notation rsys := (@mcsys T (astore T) PS).
  Notation so := (abstract_ops (tleb ops) sevent_eqb).
  Notation Reachable := (Reachable ops handlerS init_state draws crash_order).
  Notation RSteps := (RefWf.Steps tgt0 teq0 t0 clock handlerM DS mc_rand ds_of (tleb ops) sevent_eqb).
  Notation SimRun := (SimRun ops handlerS draws).
  Notation Matched := (Matched ops tgt0 teq0 t0 clock handlerM DS mc_rand ds_of sevent_eqb).

  (* the time algebra *)
  Hypothesis laws : time_laws ops.
  Hypothesis sub_add_le : forall t c d, tleb ops (tsub ops t c) d = true -> tleb ops t (tadd ops c d) = true.
  (* the simulation's random stream yields numbers in [0, 1) *)
  Hypothesis draws_unit : forall i, tleb ops (tz ops) (draws i) = true /\ tltb ops (draws i) (tone ops) = true.
  (* the two engines run the same user code, which ignores its clock argument and the draw oracle *)
  Hypothesis handler_agree : forall proc st inp t1 r1 t2 r2,
    handlerM proc st inp t1 r1 = fst (handlerS proc st inp t2 r2).
  (* override-free: timers are set with set_timer_once only (known finding F10 otherwise) *)
  Hypothesis once_only : forall proc st inp t r n d once,
    In (ATimerSet n d once) (snd (handlerM proc st inp t r)) -> once = true.

  Variable s0 : simsys.          (* the simulator state the snapshot is taken from *)
  Variable m0 : rsys.            (* its snapshot over the reference semantics *)
  Hypothesis s0_reachable : Reachable s0.
  Hypothesis s0_installed : Installed s0.
  Hypothesis s0_no_crash : NoCrash s0.                 (* no node is crashed at the hand-off *)
  Hypothesis s0_fault_free : NetFF ops (y_net s0).     (* drop / duplication / corruption rates 0, no link cut *)
  Hypothesis s0_snapshot : snapshot ops so s0 = Ok m0.
  (* messages are only sent to located processes *)
  Hypothesis handler_closed : forall proc st inp time rand m dst,
    In (ASend m dst) (snd (handlerM proc st inp time rand)) -> In dst (known_of s0).

  Lemma rel_start : Rel ops handlerS init_state draws crash_order (known_of s0) s0 m0.
  Proof. eapply rel_snapshot; eauto. Qed.

  (* every state the continued simulation passes through is matched, in order, along ONE path of the reference
     semantics from the snapshot (the checker takes one delivery step per simulator step that handles an event,
     and no step when the queue is empty) *)
  Theorem C04_stage1 (l : list simsys) : SimRun s0 l -> Matched m0 l.
  Proof.
    intros Hrun. eapply run_sim; eauto. exact rel_start.
  Qed.

  (* k steps through the API *)
  Theorem C04_stage1_steps fuel k (sk : simsys) r :
    sim_op ops handlerS init_state draws crash_order fuel s0 (YSteps k) = Ok (sk, r) ->
    exists m, RSteps m0 m /\ ProjEq sk m.
  Proof.
    cbn [Sim.sim_op]. intros H.
    destruct (steps_fuel ops handlerS draws fuel s0 k) as [[s' b]|] eqn:E; cbn [bind] in H; [|discriminate]. hinv H.
    destruct (steps_fuel_sim ops handlerS init_state draws crash_order tgt0 teq0 t0 clock handlerM DS mc_rand ds_of sevent_eqb
                (known_of s0) laws draws_unit handler_closed handler_agree once_only fuel s0 k sk b m0 rel_start E)
      as (m & Hst & HR).
    exists m. split; [exact Hst|]. apply (r_nodes _ _ _ _ _ _ _ _ HR).
  Qed.

  (* one step *)
  Theorem C04_stage1_step (s : simsys) (m : rsys) s' b :
    Rel ops handlerS init_state draws crash_order (known_of s0) s m ->
    step ops handlerS draws s = Ok (s', b) ->
    exists m', RSteps m m' /\ Rel ops handlerS init_state draws crash_order (known_of s0) s' m'.
  Proof. intros HR Hs. eapply step_sim; eauto. Qed.
End Main.

Print Assumptions C04_stage1.
Print Assumptions C04_stage1_steps.
Print Assumptions C04_stage1_step.
Print Assumptions rel_snapshot.
