(* Shared base for the simulator proofs SimTimerP.v (C07, simulator half) and SimLogP.v (C17).

   Contents
   1. generic list / association-list facts
   2. the event queue: q_next, q_peek, q_cancel, q_cancel_pred, q_add in terms of the list `q_live` of live events
      (q_next_spec: the popped event is live and exactly it leaves q_live; cancelled heads are dropped silently)
   3. the network: net_fate / emit_copies / net_send change the queue only by appending 0..3 fresh events (net_send_spec)
   4. a small-step presentation of the simulator (`sstep`, labelled by `slabel`): pop an event nobody handles (ss_pop),
      pop + prologue of a handler invocation (ss_deliver), prologue of a local-message invocation (ss_local), ONE action
      (ss_act, `sys_action`), peek (ss_peek), set the clock (ss_clock), drain an outbox (ss_read, label LRead p msgs), or
      one of the non-stepping API calls (ss_basic, label LOp o).  node_handle_sys / deliver_decomp: node_handle is
      exactly prologue + actions.  The handler is over-approximated: after a prologue any action of that process may
      follow (harmless for invariants: the handler is arbitrary anyway).
   5. `BaseInv`: structural invariant (sorted maps, node ids, handler flag = not crashed, process placement,
      queue ids distinct and below q_count, cancelled ids and pending-timer ids below q_count).
   6. sim_op_sstar / run_ops_sstar: every API call (script) that returns Ok is a sequence of transitions whose labels are
      `reads_of o r` (`run_reads l rets`); reachable_base; reachable_inv: induction principle for invariants of Reachable
      states; sstep_q_mono / dead_never_delivered: queue ids are never reused, a dead id is never delivered.

   Assumptions: none (handler, init_state, draws, crash_order arbitrary; no law of the time algebra). *)
From Coq Require Import List Arith NArith Bool Lia.
From ASV Require Import Base.Util Base.Msg Base.Log Proofs.UtilP Model.Sim Spec.SimSpec.
Import ListNotations.
Open Scope N_scope.

Ltac binv :=
  repeat match goal with
  | H : bind ?r _ = Ok _ |- _ =>
      let E := fresh "E" in destruct r eqn:E; cbn [bind] in H; [|discriminate H]
  | H : Ok _ = Ok _ |- _ => inversion H; clear H; subst
  | H : Panic _ = Ok _ |- _ => discriminate H
  | H : (let '(_, _) := ?p in _) = _ |- _ => let E := fresh "E" in destruct p eqn:E
  end.

Ltac inv H := inversion H; clear H; subst.

(* ================================================================================================ *)
(* 1. generic facts                                                                                  *)
(* ================================================================================================ *)

Lemma filter_id_in {A} (f : A -> bool) l : (forall x, In x l -> f x = true) -> filter f l = l.
Proof.
  induction l as [|x r IH]; cbn; intros H; auto.
  rewrite H by auto. rewrite IH; auto.
Qed.

Lemma NoDup_map_inj {A B} (f : A -> B) l a b :
  NoDup (map f l) -> In a l -> In b l -> f a = f b -> a = b.
Proof.
  induction l as [|x r IH]; cbn; intros Hn Ha Hb E; [contradiction|].
  inv Hn. destruct Ha as [<-|Ha], Hb as [<-|Hb]; auto.
  - exfalso. apply H1. rewrite E. apply in_map. auto.
  - exfalso. apply H1. rewrite <- E. apply in_map. auto.
Qed.

Lemma NoDup_filter_split {A} (f : A -> N) l e :
  NoDup (map f l) -> In e l ->
  exists l1 l2, l = l1 ++ e :: l2 /\ filter (fun x => negb (N.eqb (f x) (f e))) l = l1 ++ l2.
Proof.
  induction l as [|x r IH]; cbn; intros Hn Hi; [contradiction|].
  inv Hn. destruct Hi as [->|Hi].
  - exists [], r. split; auto. rewrite N.eqb_refl. cbn.
    rewrite filter_id_in; auto.
    intros y Hy. apply negb_true_iff, N.eqb_neq. intros E.
    apply H1. rewrite <- E. apply in_map. auto.
  - destruct (IH H2 Hi) as [l1 [l2 [E1 E2]]]. exists (x :: l1), l2. split.
    + rewrite E1. reflexivity.
    + assert (Hne : N.eqb (f x) (f e) = false).
      { apply N.eqb_neq. intros E. apply H1. rewrite E. apply in_map. auto. }
      rewrite Hne. cbn. rewrite E2. reflexivity.
Qed.

Lemma NoDup_map_app_not_in {A B} (f : A -> B) l1 e l2 :
  NoDup (map f (l1 ++ e :: l2)) -> ~ In (f e) (map f (l1 ++ l2)).
Proof.
  rewrite !map_app. cbn [map]. intros H. apply NoDup_remove_2 in H. exact H.
Qed.

Lemma NoDup_map_app_remove {A B} (f : A -> B) l1 e l2 :
  NoDup (map f (l1 ++ e :: l2)) -> NoDup (map f (l1 ++ l2)).
Proof.
  rewrite !map_app. cbn [map]. intros H. apply NoDup_remove_1 in H. exact H.
Qed.

Lemma NoDup_app_intro {A} (l1 l2 : list A) :
  NoDup l1 -> NoDup l2 -> (forall x, In x l1 -> In x l2 -> False) -> NoDup (l1 ++ l2).
Proof.
  induction l1 as [|x r IH]; cbn; intros H1 H2 H; auto.
  inv H1. constructor.
  - rewrite in_app_iff. intros [Hx|Hx]; eauto.
  - apply IH; eauto.
Qed.

Section SMapMore.
  Context {K V : Type} (cmp : K -> K -> comparison) (CS : CmpSpec cmp).

  Lemma sins_sins k v v' (l : list (K * V)) : sins cmp k v' (sins cmp k v l) = sins cmp k v' l.
  Proof.
    induction l as [|[k0 v0] r IH]; cbn.
    - rewrite (cmp_refl _ CS). reflexivity.
    - destruct (cmp k k0) eqn:E; cbn.
      + rewrite (cmp_refl _ CS). reflexivity.
      + rewrite (cmp_refl _ CS). reflexivity.
      + rewrite E. rewrite IH. reflexivity.
  Qed.

  Lemma sget_filter (f : K * V -> bool) k (l : list (K * V)) : ssorted cmp l ->
    sget cmp k (filter f l) = match sget cmp k l with
                              | Some v => if f (k, v) then Some v else None
                              | None => None
                              end.
  Proof.
    induction l as [|[k0 v0] r IH]; cbn; intros Hs; auto.
    apply ssorted_inv in Hs. destruct Hs as [Hf Hs].
    destruct (is_eq (cmp k k0)) eqn:E.
    - apply (is_eq_true _ CS) in E. subst k0.
      destruct (f (k, v0)) eqn:F; cbn.
      + rewrite (is_eq_refl _ CS). reflexivity.
      + rewrite IH by auto. rewrite (sget_lt_none cmp) by auto. reflexivity.
    - destruct (f (k0, v0)); cbn; rewrite ?E; auto.
  Qed.
End SMapMore.

Lemma nmem_nins x i c : nmem x (nins i c) = N.eqb x i || nmem x c.
Proof.
  destruct (nmem x (nins i c)) eqn:E.
  - apply nmem_iff, in_nins in E. symmetry. apply orb_true_iff. destruct E as [->|E].
    + left. apply N.eqb_refl.
    + right. apply nmem_iff. auto.
  - apply nmem_false_iff in E. symmetry. apply orb_false_iff. split.
    + apply N.eqb_neq. intros ->. apply E. apply in_nins. auto.
    + apply nmem_false_iff. intros H. apply E. apply in_nins. auto.
Qed.

Lemma nmem_nrem_neq x i c : x <> i -> nmem x (nrem i c) = nmem x c.
Proof.
  intros Hne. destruct (nmem x c) eqn:E.
  - apply nmem_iff. apply in_nrem. split; auto. apply nmem_iff. auto.
  - apply nmem_false_iff. intros H. apply in_nrem in H. destruct H as [H _].
    apply nmem_false_iff in E. auto.
Qed.

Lemma in_fold_nins_if {A} (p : A -> bool) (f : A -> N) x l : forall c,
  In x (fold_left (fun acc e => if p e then nins (f e) acc else acc) l c) <->
  In x c \/ exists e, In e l /\ p e = true /\ f e = x.
Proof.
  induction l as [|e r IH]; cbn; intros c.
  - split; auto. intros [H|[e [[] _]]]; auto.
  - rewrite IH. destruct (p e) eqn:P.
    + rewrite in_nins. split.
      * intros [[E|H]|[e' [H1 H2]]]; auto.
        -- right. exists e. subst. auto.
        -- right. exists e'. tauto.
      * intros [H|[e' [[E|H1] [H2 H3]]]]; auto.
        -- subst. auto.
        -- right. exists e'. auto.
    + split.
      * intros [H|[e' [H1 H2]]]; auto. right. exists e'. tauto.
      * intros [H|[e' [[E|H1] [H2 H3]]]]; auto.
        -- subst. congruence.
        -- right. exists e'. auto.
Qed.

(* ================================================================================================ *)
(* 2. the queue                                                                                      *)
(* ================================================================================================ *)
Section Queue.
  Context {T : Type} (ops : time_ops T).
  Notation simq := (@simq T).
  Notation qevent := (@qevent T).

  Definition live (q : simq) (e : qevent) : bool := negb (nmem (q_id e) (q_canceled q)).

  Lemma q_live_eq (q : simq) : q_live q = filter (live q) (q_events q).
  Proof. reflexivity. Qed.

  Lemma in_q_live (q : simq) (e : qevent) : In e (q_live q) <-> In e (q_events q) /\ nmem (q_id e) (q_canceled q) = false.
  Proof. unfold q_live. rewrite filter_In, negb_true_iff. tauto. Qed.

  Lemma q_live_nodup (q : simq) : NoDup (map q_id (q_events q)) -> NoDup (map q_id (q_live q)).
  Proof. apply NoDup_map_filter. Qed.

  Lemma q_min_in (l : list qevent) e : q_min ops l = Some e -> In e l.
  Proof.
    revert e. induction l as [|x r IH]; cbn; intros e H; [discriminate|].
    destruct (q_min ops r) as [m|].
    - destruct (ev_before ops x m); inv H; auto.
    - inv H. auto.
  Qed.

  (* what q_next and q_peek preserve *)
  Record q_shrink (q q' : simq) : Prop := {
    qs_count : q_count q' = q_count q;
    qs_rand : q_rand q' = q_rand q;
    qs_events : forall x, In x (q_events q') -> In x (q_events q);
    qs_nodup : NoDup (map q_id (q_events q)) -> NoDup (map q_id (q_events q'));
    qs_canceled : forall i, In i (q_canceled q') -> In i (q_canceled q) }.

  Lemma q_shrink_refl (q : simq) : q_shrink q q.
  Proof. constructor; auto. Qed.

  Lemma q_shrink_trans a b c : q_shrink a b -> q_shrink b c -> q_shrink a c.
  Proof.
    intros [A1 A2 A3 A4 A5] [B1 B2 B3 B4 B5]. constructor; try congruence; auto.
  Qed.

  (* dropping a cancelled head *)
  Lemma drop_cancelled (q : simq) (e : qevent) :
    nmem (q_id e) (q_canceled q) = true ->
    let q1 := q_with q (q_clock q) (q_remove (q_id e) (q_events q)) (nrem (q_id e) (q_canceled q)) (q_count q) (q_rand q) in
    q_shrink q q1 /\ q_live q1 = q_live q /\ q_clock q1 = q_clock q.
  Proof.
    intros Hc q1. split; [|split]; [constructor| |]; cbn [q_with q_count q_rand q_events q_canceled q_clock q1]; auto.
    - intros x Hx. apply filter_In in Hx. tauto.
    - apply NoDup_map_filter.
    - intros i Hi. apply in_nrem in Hi. tauto.
    - unfold q1, q_live. cbn [q_events q_canceled q_with]. unfold q_remove.
      rewrite filter_filter. apply filter_ext_in. intros x Hx.
      destruct (N.eqb (q_id x) (q_id e)) eqn:E; cbn.
      + apply N.eqb_eq in E. rewrite E, Hc. reflexivity.
      + apply N.eqb_neq in E. rewrite nmem_nrem_neq; auto.
  Qed.

  Lemma q_next_fuel_spec fuel : forall q q' oe,
    NoDup (map q_id (q_events q)) ->
    q_next_fuel ops fuel q = (q', oe) ->
    q_shrink q q' /\
    match oe with
    | None => q_live q' = q_live q /\ q_clock q' = q_clock q
    | Some e => q_clock q' = q_time e /\
                exists l1 l2, q_live q = l1 ++ e :: l2 /\ q_live q' = l1 ++ l2
    end.
  Proof.
    induction fuel as [|f IH]; intros q q' oe Hn H; cbn [q_next_fuel] in H.
    - inv H. split; [apply q_shrink_refl|]. auto.
    - destruct (q_min ops (q_events q)) as [e|] eqn:M.
      2:{ inv H. split; [apply q_shrink_refl|]. auto. }
      pose proof (q_min_in _ _ M) as Hin.
      destruct (nmem (q_id e) (q_canceled q)) eqn:C.
      + destruct (drop_cancelled q e C) as [S1 [L1 K1]].
        apply IH in H.
        2:{ apply (qs_nodup _ _ S1). auto. }
        destruct H as [S2 H]. split; [eapply q_shrink_trans; eauto|].
        destruct oe as [e'|].
        * destruct H as [H1 [l1 [l2 [H3 H4]]]]. split; auto.
          exists l1, l2. rewrite <- L1. auto.
        * destruct H as [H1 H2]. rewrite H1, H2. auto.
      + inv H. split.
        * constructor; cbn [q_with q_count q_rand q_events q_canceled]; auto.
          -- intros x Hx. apply filter_In in Hx. tauto.
          -- apply NoDup_map_filter.
        * cbn [q_with q_clock q_canceled]. split; auto.
          assert (HL : In e (q_live q)) by (apply in_q_live; auto).
          destruct (NoDup_filter_split q_id (q_live q) e (q_live_nodup q Hn) HL) as [l1 [l2 [E1 E2]]].
          exists l1, l2. split; auto. rewrite <- E2.
          unfold q_live, q_remove. cbn [q_with q_events q_canceled].
          rewrite !filter_filter. apply filter_ext. intros x. apply andb_comm.
  Qed.

  Lemma q_next_spec (q q' : simq) oe :
    NoDup (map q_id (q_events q)) ->
    q_next ops q = (q', oe) ->
    q_shrink q q' /\
    match oe with
    | None => q_live q' = q_live q /\ q_clock q' = q_clock q
    | Some e => q_clock q' = q_time e /\
                exists l1 l2, q_live q = l1 ++ e :: l2 /\ q_live q' = l1 ++ l2
    end.
  Proof. apply q_next_fuel_spec. Qed.

  Lemma q_peek_fuel_spec fuel : forall (q q' : simq) oe,
    q_peek_fuel ops fuel q = (q', oe) ->
    q_shrink q q' /\ q_live q' = q_live q /\ q_clock q' = q_clock q.
  Proof.
    induction fuel as [|f IH]; intros q q' oe H; cbn [q_peek_fuel] in H.
    - inv H. split; [apply q_shrink_refl|]. auto.
    - destruct (q_min ops (q_events q)) as [e|] eqn:M.
      2:{ inv H. split; [apply q_shrink_refl|]. auto. }
      destruct (nmem (q_id e) (q_canceled q)) eqn:C.
      + destruct (drop_cancelled q e C) as [S1 [L1 K1]].
        apply IH in H. destruct H as [S2 [L2 K2]].
        split; [eapply q_shrink_trans; eauto|]. split; congruence.
      + inv H. split; [apply q_shrink_refl|]. auto.
  Qed.

  Lemma q_peek_spec (q q' : simq) oe :
    q_peek ops q = (q', oe) -> q_shrink q q' /\ q_live q' = q_live q /\ q_clock q' = q_clock q.
  Proof. apply q_peek_fuel_spec. Qed.

  Lemma q_live_cancel (q : simq) i :
    q_live (q_cancel q i) = filter (fun e => negb (N.eqb (q_id e) i)) (q_live q).
  Proof.
    unfold q_live, q_cancel. cbn [q_with q_events q_canceled].
    rewrite filter_filter. apply filter_ext. intros x. rewrite nmem_nins.
    destruct (N.eqb (q_id x) i), (nmem (q_id x) (q_canceled q)); reflexivity.
  Qed.

  Lemma q_live_cancel_pred (q : simq) p :
    NoDup (map q_id (q_events q)) ->
    q_live (q_cancel_pred q p) = filter (fun e => negb (p e)) (q_live q).
  Proof.
    intros Hn. unfold q_live, q_cancel_pred. cbn [q_with q_events q_canceled].
    rewrite filter_filter. apply filter_ext_in. intros x Hx.
    destruct (nmem (q_id x) (q_canceled q)) eqn:C; cbn.
    - apply negb_false_iff. apply nmem_iff. apply in_fold_nins_if. left. apply nmem_iff. auto.
    - destruct (p x) eqn:P; cbn.
      + apply negb_false_iff. apply nmem_iff. apply in_fold_nins_if. right. exists x. auto.
      + apply negb_true_iff. apply nmem_false_iff. intros H. apply in_fold_nins_if in H.
        destruct H as [H|[e [H1 [H2 H3]]]].
        * apply nmem_false_iff in C. auto.
        * assert (e = x) by (eapply NoDup_map_inj; eauto). subst. congruence.
  Qed.

  Lemma in_canceled_cancel_pred (q : simq) p i :
    In i (q_canceled (q_cancel_pred q p)) -> In i (q_canceled q) \/ exists e, In e (q_events q) /\ q_id e = i.
  Proof.
    unfold q_cancel_pred. cbn [q_with q_canceled]. intros H. apply in_fold_nins_if in H.
    destruct H as [H|[e [H1 [H2 H3]]]]; eauto.
  Qed.

  (* q_add *)
  Definition mk_ev (q : simq) (d : qdata) (src dst : N) (delay : T) : qevent :=
    {| q_id := q_count q; q_time := tadd ops (q_clock q) (tmax0 ops delay); q_src := src; q_dst := dst; q_data := d |}.

  Lemma q_add_spec (q : simq) d src dst delay q' i :
    q_add ops q d src dst delay = Ok (q', i) ->
    i = q_count q /\
    q' = q_with q (q_clock q) (q_events q ++ [mk_ev q d src dst delay]) (q_canceled q) (q_count q + 1) (q_rand q).
  Proof.
    unfold q_add. destruct (tneg_eps_le ops delay); intros H; inv H. auto.
  Qed.

  (* appending fresh events *)
  Lemma q_live_app (q q' : simq) news :
    (forall i, In i (q_canceled q) -> i < q_count q) ->
    q_events q' = q_events q ++ news -> q_canceled q' = q_canceled q ->
    (forall e, In e news -> q_count q <= q_id e) ->
    q_live q' = q_live q ++ news.
  Proof.
    intros Hc He Hk Hn. unfold q_live. rewrite He, Hk, filter_app. f_equal.
    apply filter_id_in. intros x Hx. apply negb_true_iff. apply nmem_false_iff. intros H.
    apply Hc in H. apply Hn in Hx. lia.
  Qed.
End Queue.

(* ================================================================================================ *)
(* 3. the network                                                                                    *)
(* ================================================================================================ *)
Section Net.
  Context {T : Type} (ops : time_ops T) (draws : nat -> T).
  Notation simq := (@simq T).
  Notation qevent := (@qevent T).
  Notation simnet := (@simnet T).
  Notation logentry := (logentry T).

  Definition same_queue (q q' : simq) : Prop :=
    q_clock q' = q_clock q /\ q_events q' = q_events q /\ q_canceled q' = q_canceled q /\ q_count q' = q_count q.

  Lemma same_queue_refl q : same_queue q q.
  Proof. unfold same_queue. auto. Qed.

  Lemma same_queue_trans a b c : same_queue a b -> same_queue b c -> same_queue a c.
  Proof. unfold same_queue. intuition congruence. Qed.

  Lemma copy_delays_spec k : forall (n : simnet) (q : simq) ds q',
    copy_delays ops draws k n q = (ds, q') -> length ds = k /\ same_queue q q'.
  Proof.
    induction k as [|k IH]; intros n q ds q' H.
    - cbn in H. inv H. split; auto. apply same_queue_refl.
    - cbn [copy_delays] in H. unfold q_draw in H.
      destruct (copy_delays ops draws k n _) as [ds1 q2] eqn:E. inv H.
      apply IH in E. destruct E as [E1 E2]. cbn [length]. split; [lia|].
      unfold same_queue in *. cbn [q_with q_clock q_events q_canceled q_count] in E2. exact E2.
  Qed.

  Lemma ceil2_le x : ceil2 ops x <= 2.
  Proof. unfold ceil2. destruct (tleb ops x (tz ops)); [lia|]. destruct (tleb ops x (tone ops)); lia. Qed.

  Lemma net_fate_spec (n : simnet) (q : simq) m sn dn f q' :
    net_fate ops draws n q m sn dn = (f, q') ->
    same_queue q q' /\
    match f with FDropped => True | FCopies _ ds => (1 <= length ds <= 3)%nat end.
  Proof.
    unfold net_fate, q_draw. intros H.
    destruct (_ || link_cut n sn dn).
    - inv H. split; auto. unfold same_queue. cbn. auto.
    - destruct (negb _).
      + destruct (copy_delays ops draws 1 n _) as [ds q3] eqn:E. inv H.
        apply copy_delays_spec in E. destruct E as [E1 E2]. split; [|lia].
        unfold same_queue in *. cbn [q_with q_clock q_events q_canceled q_count] in E2. exact E2.
      + destruct (copy_delays ops draws _ n _) as [ds q3] eqn:E. inv H.
        apply copy_delays_spec in E. destruct E as [E1 E2]. split.
        * unfold same_queue in *. cbn [q_with q_clock q_events q_canceled q_count] in E2. exact E2.
        * rewrite E1. match goal with |- context [ceil2 ops ?x] => pose proof (ceil2_le x) end. lia.
  Qed.

  (* the queue grew by the fresh events `news` (and nothing else changed but the random position) *)
  Record q_grow (q q' : simq) (news : list qevent) : Prop := {
    qg_clock : q_clock q' = q_clock q;
    qg_events : q_events q' = q_events q ++ news;
    qg_canceled : q_canceled q' = q_canceled q;
    qg_count : q_count q' = q_count q + N.of_nat (length news);
    qg_ids : forall e, In e news -> q_count q <= q_id e < q_count q';
    qg_nodup : NoDup (map q_id news) }.

  Lemma q_grow_nil q q' : same_queue q q' -> q_grow q q' [].
  Proof.
    intros [A [B [C D]]]. constructor; auto.
    - rewrite app_nil_r. auto.
    - cbn. lia.
    - intros e [].
    - constructor.
  Qed.

  Lemma q_grow_same_l q0 q q' news : same_queue q0 q -> q_grow q q' news -> q_grow q0 q' news.
  Proof.
    intros [A [B [C D]]] [G1 G2 G3 G4 G5 G6]. constructor; try congruence.
    intros e He. apply G5 in He. lia.
  Qed.

  Lemma q_add_grow (q : simq) d src dst delay q' i :
    q_add ops q d src dst delay = Ok (q', i) ->
    i = q_count q /\ q_rand q' = q_rand q /\ q_grow q q' [mk_ev ops q d src dst delay].
  Proof.
    intros H. apply q_add_spec in H. destruct H as [-> ->]. split; auto. split; auto.
    constructor; cbn [q_with q_clock q_events q_canceled q_count length]; auto.
    - intros e [<-|[]]. cbn. lia.
    - cbn. constructor; auto. constructor.
  Qed.

  Lemma emit_copies_spec d src dst ds : forall (q q' : simq),
    emit_copies ops q d src dst ds = Ok q' ->
    exists news, q_grow q q' news /\ length news = length ds /\ q_rand q' = q_rand q /\
                 forall e, In e news -> q_data e = d /\ q_src e = src /\ q_dst e = dst.
  Proof.
    induction ds as [|dl r IH]; intros q q' H; cbn [emit_copies] in H.
    - inv H. exists []. split; [apply q_grow_nil, same_queue_refl|]. split; auto. split; auto. intros e [].
    - binv. apply q_add_grow in E. destruct E as [_ [Er G1]].
      apply IH in H. destruct H as [news [G2 [L [Er2 F]]]].
      exists (mk_ev ops q d src dst dl :: news). split; [|split; [|split]].
      + destruct G1 as [A1 A2 A3 A4 A5 A6], G2 as [B1 B2 B3 B4 B5 B6].
        constructor; try congruence.
        * rewrite B2, A2, <- app_assoc. reflexivity.
        * rewrite B4, A4. cbn [length]. lia.
        * intros e [<-|He].
          -- cbn. cbn [length] in A4. lia.
          -- apply B5 in He. cbn [length] in A4. lia.
        * cbn [map]. constructor; auto. intros Hin. apply in_map_iff in Hin.
          destruct Hin as [e [E1 E2]]. apply B5 in E2. cbn in E1. cbn [length] in A4. lia.
      + cbn. lia.
      + congruence.
      + intros e [<-|He]; auto.
  Qed.

  Lemma net_send_spec (n : simnet) (q : simq) m src dst n' q' (logs : list logentry) :
    net_send ops draws n q m src dst = Ok (n', q', logs) ->
    exists sn dn sid did news,
      sget N.compare src (sn_loc n) = Some sn /\ sget N.compare dst (sn_loc n) = Some dn /\
      sget N.compare sn (sn_node_ids n) = Some sid /\ sget N.compare dn (sn_node_ids n) = Some did /\
      n' = net_bump n (negb (N.eqb sn dn)) (if N.eqb sn dn then 0 else msg_size m) /\
      q_grow q q' news /\ (length news <= 3)%nat /\
      (forall e, In e news ->
         (exists m', q_data e = QMsg (sn_msg_count n) m' src sn dst dn) /\ q_src e = sid /\ q_dst e = did) /\
      let sent := LMessageSent (q_clock q) (sn_msg_count n) sn src dn dst m in
      ((logs = [sent] /\ news <> []) \/
       (logs = [sent; LMessageDropped (q_clock q) (sn_msg_count n) sn src dn dst m] /\ news = [] /\
        N.eqb sn dn = false)).
  Proof.
    unfold net_send. intros H.
    destruct (sget N.compare src (sn_loc n)) as [sn|] eqn:L1; [|discriminate].
    destruct (sget N.compare dst (sn_loc n)) as [dn|] eqn:L2; [|discriminate].
    destruct (sget N.compare sn (sn_node_ids n)) as [sid|] eqn:I1; [|discriminate].
    destruct (sget N.compare dn (sn_node_ids n)) as [did|] eqn:I2; [|discriminate].
    exists sn, dn, sid, did.
    destruct (N.eqb sn dn) eqn:Esd.
    - binv. apply q_add_grow in E. destruct E as [_ [_ G]].
      eexists. repeat (split; [first [reflexivity|assumption]|]). split; [exact G|]. split; [cbn; lia|]. split.
      + intros e [<-|[]]. cbn. eauto.
      + left. split; auto. discriminate.
    - destruct (net_fate ops draws n q m sn dn) as [f q1] eqn:F.
      apply net_fate_spec in F. destruct F as [S F]. destruct f as [|m' ds].
      + inv H. exists []. repeat (split; [first [reflexivity|assumption]|]). split; [apply q_grow_nil; auto|].
        split; [cbn; lia|]. split; [intros e []|]. right. auto.
      + binv. apply emit_copies_spec in E. destruct E as [news [G [L [_ D]]]].
        exists news. repeat (split; [first [reflexivity|assumption]|]). split; [eapply q_grow_same_l; eauto|].
        split; [lia|]. split.
        * intros e He. apply D in He. destruct He as [-> [-> ->]]. eauto.
        * left. split; auto. intros ->. cbn in L. lia.
  Qed.
End Net.

Lemma sgetN_sins {V} k k' (v : V) l :
  sget N.compare k' (sins N.compare k v l) = if N.eqb k' k then Some v else sget N.compare k' l.
Proof.
  rewrite (sget_sins _ CmpSpec_N). destruct (N.eqb_spec k' k) as [->|Hne].
  - rewrite (is_eq_refl _ CmpSpec_N). reflexivity.
  - apply (is_eq_false _ CmpSpec_N) in Hne. rewrite Hne. reflexivity.
Qed.

Lemma sgetN_srem {V} k k' (l : list (N * V)) :
  sget N.compare k' (srem N.compare k l) = if N.eqb k' k then None else sget N.compare k' l.
Proof.
  rewrite (sget_srem _ CmpSpec_N). destruct (N.eqb_spec k' k) as [->|Hne].
  - rewrite (is_eq_refl _ CmpSpec_N). reflexivity.
  - apply (is_eq_false _ CmpSpec_N) in Hne. rewrite Hne. reflexivity.
Qed.

(* ================================================================================================ *)
(* 4. small-step presentation                                                                        *)
(* ================================================================================================ *)
Section Small.
  Context {T : Type} (ops : time_ops T).
  Context {PS : Type}.
  Variable handler : N -> PS -> input -> T -> (nat -> T) -> PS * list (action T) * nat.
  Variable init_state : N -> PS.
  Variable draws : nat -> T.
  Variable crash_order : list (@qevent T) -> list (@qevent T).

  Notation simq := (@simq T).
  Notation qevent := (@qevent T).
  Notation simnet := (@simnet T).
  Notation logentry := (logentry T).
  Notation pentry := (pentry T PS).
  Notation action := (action T).
  Notation simnode := (@simnode T PS).
  Notation world := (@world T).
  Notation simsys := (@simsys T PS).
  Notation node_action := (node_action ops draws).
  Notation node_actions := (node_actions ops draws).
  Notation node_handle := (node_handle ops handler draws).
  Notation deliver := (deliver ops handler draws).
  Notation step := (step ops handler draws).
  Notation read_local := (@read_local T PS).
  Notation sim_op := (sim_op ops handler init_state draws crash_order).
  Notation run_ops := (run_ops ops handler init_state draws crash_order).
  Notation Reachable := (Reachable ops handler init_state draws crash_order).

  Definition with_q (s : simsys) (q : simq) : simsys := y_with s q (y_net s) (y_nodes s) (y_log s).
  Definition world_of (s : simsys) : world := {| w_q := y_q s; w_net := y_net s; w_log := y_log s |}.
  Definition nd_put (nd : simnode) (proc : N) (p : pentry) (lc : N) : simnode :=
    {| sd_id := sd_id nd; sd_procs := sins N.compare proc p (sd_procs nd); sd_skew := sd_skew nd;
       sd_crashed := sd_crashed nd; sd_lcount := lc |}.
  Definition put_proc (s : simsys) (nname : N) (nd : simnode) (proc : N) (p : pentry) (lc : N) (w : world) : simsys :=
    y_with s (w_q w) (w_net w) (sins N.compare nname (nd_put nd proc p lc) (y_nodes s)) (w_log w).
  Definition q_used (q : simq) (used : nat) : simq :=
    q_with q (q_clock q) (q_events q) (q_canceled q) (q_count q) (q_rand q + used).

  (* ---- the beginning of a handler invocation: everything node_handle does before the actions ---- *)
  Definition pre_log (nname : N) (nd : simnode) (proc : N) (k : hkind) (time : T) : list logentry :=
    match k with
    | HMsg mid m from fnode => [LMessageReceived time mid fnode from nname proc m]
    | HLocal m => [LLocalMessageReceived time nname proc (sd_lcount nd) m]
    | HTimer _ => []
    end.
  Definition pre_lc (nd : simnode) (k : hkind) : N :=
    match k with HLocal _ => sd_lcount nd + 1 | _ => sd_lcount nd end.
  Definition pre_pe (nname proc : N) (time : T) (p : pentry) (k : hkind) : pentry * list logentry :=
    match k with
    | HMsg _ m from _ =>
      (pe_with p (pe_state p) (pe_evlog p ++ [(time, PMessageReceived m from proc)]) (pe_outbox p) (pe_ptimers p)
               (pe_sent p) (pe_recv p + 1), [])
    | HLocal m =>
      (pe_with p (pe_state p) (pe_evlog p ++ [(time, PLocalMessageReceived m)]) (pe_outbox p) (pe_ptimers p)
               (pe_sent p) (pe_recv p), [])
    | HTimer name =>
      match sget N.compare name (pe_ptimers p) with
      | Some tid => (pe_with p (pe_state p) (pe_evlog p) (pe_outbox p) (srem N.compare name (pe_ptimers p))
                             (pe_sent p) (pe_recv p), [LTimerFired time tid name nname proc])
      | None => (p, [])
      end
    end.
  Definition k_input (k : hkind) : input :=
    match k with HMsg _ m from _ => InMsg m from | HTimer name => InTimer name | HLocal m => InLocal m end.
  Definition set_state (p : pentry) (st : PS) : pentry :=
    pe_with p st (pe_evlog p) (pe_outbox p) (pe_ptimers p) (pe_sent p) (pe_recv p).

  Definition pre_state (s : simsys) (nname : N) (nd : simnode) (proc : N) (p : pentry) (k : hkind)
             (st' : PS) (used : nat) : simsys :=
    let time := q_clock (y_q s) in
    put_proc s nname nd proc (set_state (fst (pre_pe nname proc time p k)) st') (pre_lc nd k)
             {| w_q := q_used (y_q s) used; w_net := y_net s;
                w_log := y_log s ++ pre_log nname nd proc k time ++ snd (pre_pe nname proc time p k) |}.

  (* ---- one action, at the level of the whole system ---- *)
  Definition sys_action (s : simsys) (nname proc : N) (a : action) : result simsys :=
    match sget N.compare nname (y_nodes s) with
    | None => Panic 0
    | Some nd =>
      match sget N.compare proc (sd_procs nd) with
      | None => Panic 0
      | Some p =>
        do (p', lc', w') <- node_action nname (sd_id nd) proc (q_clock (y_q s)) p (sd_lcount nd) (world_of s) a;
        Ok (put_proc s nname nd proc p' lc' w')
      end
    end.
  Fixpoint sys_actions (s : simsys) (nname proc : N) (acts : list action) : result simsys :=
    match acts with
    | [] => Ok s
    | a :: r => do s1 <- sys_action s nname proc a; sys_actions s1 nname proc r
    end.

  Lemma put_proc_put_proc (s : simsys) nname (nd : simnode) proc (p : pentry) lc (w : world) p' lc' w' :
    put_proc (put_proc s nname nd proc p lc w) nname (nd_put nd proc p lc) proc p' lc' w' =
    put_proc s nname nd proc p' lc' w'.
  Proof.
    unfold put_proc, y_with, nd_put. cbn.
    rewrite (sins_sins _ CmpSpec_N), (sins_sins _ CmpSpec_N). reflexivity.
  Qed.

  Lemma node_action_clock nname nid proc time (p : pentry) lc (w : world) a p' lc' w' :
    node_action nname nid proc time p lc w a = Ok (p', lc', w') -> q_clock (w_q w') = q_clock (w_q w).
  Proof.
    destruct a as [m dst|m|name delay once|name]; cbn [Sim.node_action]; intros H.
    - binv. apply net_send_spec in E. destruct E as (sn & dn & sid & did & news & _ & _ & _ & _ & _ & G & _).
      cbn. apply (qg_clock _ _ _ G).
    - inv H. reflexivity.
    - destruct (sget N.compare name (pe_ptimers p)) as [old|].
      + destruct once.
        * inv H. reflexivity.
        * binv. apply q_add_spec in E. destruct E as [-> ->]. reflexivity.
      + binv. apply q_add_spec in E. destruct E as [-> ->]. reflexivity.
    - destruct (sget N.compare name (pe_ptimers p)); inv H; reflexivity.
  Qed.

  Lemma node_actions_sys (s : simsys) nname (nd : simnode) proc time : forall acts (p : pentry) lc (w : world) p3 lc3 w3,
    q_clock (w_q w) = time ->
    node_actions nname (sd_id nd) proc time p lc w acts = Ok (p3, lc3, w3) ->
    sys_actions (put_proc s nname nd proc p lc w) nname proc acts = Ok (put_proc s nname nd proc p3 lc3 w3).
  Proof.
    induction acts as [|a r IH]; intros p lc w p3 lc3 w3 Ht H; cbn [Sim.node_actions] in H.
    - inv H. reflexivity.
    - destruct (node_action nname (sd_id nd) proc time p lc w a) as [[[p1 lc1] w1]|] eqn:E; [|discriminate].
      cbn [bind] in H. cbn [sys_actions]. unfold sys_action.
      assert (E1 : sget N.compare nname (y_nodes (put_proc s nname nd proc p lc w)) = Some (nd_put nd proc p lc)).
      { unfold put_proc. cbn [y_with y_nodes]. rewrite sgetN_sins, N.eqb_refl. reflexivity. }
      assert (E2 : sget N.compare proc (sd_procs (nd_put nd proc p lc)) = Some p).
      { unfold nd_put. cbn [sd_procs]. rewrite sgetN_sins, N.eqb_refl. reflexivity. }
      rewrite E1, E2.
      change (sd_id (nd_put nd proc p lc)) with (sd_id nd).
      change (sd_lcount (nd_put nd proc p lc)) with lc.
      replace (world_of (put_proc s nname nd proc p lc w)) with w by (destruct w; reflexivity).
      replace (q_clock (y_q (put_proc s nname nd proc p lc w))) with time by (symmetry; exact Ht).
      rewrite E. cbn [bind]. rewrite put_proc_put_proc.
      apply IH; auto. rewrite (node_action_clock _ _ _ _ _ _ _ _ _ _ _ E). auto.
  Qed.

  (* node_handle = beginning of the invocation, then the actions one by one *)
  Lemma node_handle_sys (s : simsys) nname (nd : simnode) proc k nd' w' :
    node_handle nname nd proc k (world_of s) = Ok (nd', w') ->
    exists p st' acts used,
      sget N.compare proc (sd_procs nd) = Some p /\
      handler proc (pe_state (fst (pre_pe nname proc (q_clock (y_q s)) p k))) (k_input k)
              (tadd ops (q_clock (y_q s)) (sd_skew nd)) (fun i => draws (q_rand (y_q s) + i)%nat) = (st', acts, used) /\
      sys_actions (pre_state s nname nd proc p k st' used) nname proc acts =
        Ok (y_with s (w_q w') (w_net w') (sins N.compare nname nd' (y_nodes s)) (w_log w')).
  Proof.
    unfold Sim.node_handle. cbn [world_of w_q w_net w_log].
    destruct (sget N.compare proc (sd_procs nd)) as [p|] eqn:Ep; [|discriminate].
    intros H. exists p.
    set (time := q_clock (y_q s)) in *.
    assert (Epre : pre_pe nname proc time p k =
       match k with
       | HMsg _ m from _ =>
           (pe_with p (pe_state p) (pe_evlog p ++ [(time, PMessageReceived m from proc)]) (pe_outbox p) (pe_ptimers p)
                    (pe_sent p) (pe_recv p + 1), [])
       | HTimer name =>
           match sget N.compare name (pe_ptimers p) with
           | Some tid => (pe_with p (pe_state p) (pe_evlog p) (pe_outbox p) (srem N.compare name (pe_ptimers p))
                                  (pe_sent p) (pe_recv p), [LTimerFired time tid name nname proc])
           | None => (p, [])
           end
       | HLocal m =>
           (pe_with p (pe_state p) (pe_evlog p ++ [(time, PLocalMessageReceived m)]) (pe_outbox p) (pe_ptimers p)
                    (pe_sent p) (pe_recv p), [])
       end) by (destruct k; reflexivity).
    rewrite <- Epre in H. clear Epre.
    destruct (pre_pe nname proc time p k) as [p1 tlog] eqn:Epre.
    replace (match k with HMsg _ m from _ => InMsg m from | HTimer name => InTimer name | HLocal m => InLocal m end)
      with (k_input k) in H by (destruct k; reflexivity).
    destruct (handler proc (pe_state p1) (k_input k) (tadd ops time (sd_skew nd))
                      (fun i => draws (q_rand (y_q s) + i)%nat)) as [[st' acts] used] eqn:Eh.
    exists st', acts, used. split; auto. cbn [fst]. split; auto.
    destruct (node_actions _ _ _ _ _ _ _ _) as [[[p3 lc] w2]|] eqn:Ea in H; [|discriminate].
    cbn [bind] in H. inv H.
    eapply (node_actions_sys s nname nd proc time) in Ea; [|reflexivity].
    unfold pre_state. fold time. rewrite Epre. cbn [fst snd].
    unfold set_state, pre_lc, pre_log, q_used.
    etransitivity; [|exact Ea]. f_equal.
  Qed.

  (* ---------------- the transition system ---------------- *)
  Definition is_basic (o : sop (T := T)) : bool :=
    match o with
    | YAddNode _ | YAddProcess _ _ | YSetSkew _ _ | YNet _ | YCrash _ | YRecover _ => true
    | _ => false
    end.

  (* destination process and handler kind of a queue event *)
  Definition ev_kind (e : qevent) : N * hkind :=
    match q_data e with
    | QMsg mid m src sn dst _ => (dst, HMsg mid m src sn)
    | QTimer proc n => (proc, HTimer n)
    end.

  (* observable labels: an outbox read returned to the caller, a non-stepping API call, or nothing *)
  Inductive slabel := LTau | LRead (p : N) (l : list msg) | LOp (o : sop (T := T)).

  Inductive sstep : simsys -> slabel -> simsys -> Prop :=
  | ss_pop s q' oe :                         (* nothing to deliver, or an event nobody handles *)
      q_next ops (y_q s) = (q', oe) ->
      (forall e, oe = Some e -> sget N.compare (q_dst e) (y_handlers s) <> Some true) ->
      sstep s LTau (with_q s q')
  | ss_deliver s q' e nname nd p st' used :  (* pop + beginning of the handler invocation *)
      q_next ops (y_q s) = (q', Some e) ->
      sget N.compare nname (y_nodes s) = Some nd -> sd_crashed nd = false -> sd_id nd = q_dst e ->
      sget N.compare (fst (ev_kind e)) (sd_procs nd) = Some p ->
      sstep s LTau (pre_state (with_q s q') nname nd (fst (ev_kind e)) p (snd (ev_kind e)) st' used)
  | ss_local s nname nd proc p m st' used :  (* send_local_message: beginning of the invocation *)
      sget N.compare proc (y_proc_nodes s) = Some nname ->
      sget N.compare nname (y_nodes s) = Some nd -> sd_crashed nd = false ->
      sget N.compare proc (sd_procs nd) = Some p ->
      sstep s LTau (pre_state s nname nd proc p (HLocal m) st' used)
  | ss_act s nname nd proc a s' :            (* one action of a running handler *)
      sget N.compare nname (y_nodes s) = Some nd -> sd_crashed nd = false ->
      sys_action s nname proc a = Ok s' ->
      sstep s LTau s'
  | ss_peek s q' oe : q_peek ops (y_q s) = (q', oe) -> sstep s LTau (with_q s q')
  | ss_clock s t : sstep s LTau (set_clock s t)
  | ss_read s p l s' : read_local s p = Ok (s', Some l) -> sstep s (LRead p l) s'
  | ss_basic s o s' r : is_basic o = true -> sim_op 0 s o = Ok (s', r) -> sstep s (LOp o) s'.

  Definition lab_list (l : slabel) : list slabel :=
    match l with LTau => [] | x => [x] end.

  (* sequences of transitions, with the list of outbox reads performed *)
  Inductive sstar : simsys -> list slabel -> simsys -> Prop :=
  | st_refl s : sstar s [] s
  | st_cons s lab s1 l s2 : sstep s lab s1 -> sstar s1 l s2 -> sstar s (lab_list lab ++ l) s2.

  Lemma sstar_one s lab s' : sstep s lab s' -> sstar s (lab_list lab) s'.
  Proof. intros H. rewrite <- (app_nil_r (lab_list lab)). econstructor; eauto. constructor. Qed.

  Lemma sstar_app s l1 s1 l2 s2 : sstar s l1 s1 -> sstar s1 l2 s2 -> sstar s (l1 ++ l2) s2.
  Proof.
    induction 1; intros H2; cbn; auto.
    rewrite <- app_assoc. econstructor; eauto.
  Qed.

  Lemma sstar_tau s s1 l s2 : sstar s [] s1 -> sstar s1 l s2 -> sstar s l s2.
  Proof. intros A B. apply (sstar_app _ _ _ _ _ A B). Qed.

  (* ================================================================================================ *)
  (* 5. the structural invariant                                                                     *)
  (* ================================================================================================ *)
  Record qwf (ncomp : N) (q : simq) : Prop := {
    qw_nodup : NoDup (map q_id (q_events q));
    qw_lt : forall e, In e (q_events q) -> q_id e < q_count q;
    qw_canc : forall i, In i (q_canceled q) -> i < q_count q;
    qw_comp : forall e, In e (q_events q) -> q_src e < ncomp /\ q_dst e < ncomp }.

  Lemma qwf_ext n (q q' : simq) :
    q_events q' = q_events q -> q_canceled q' = q_canceled q -> q_count q' = q_count q -> qwf n q -> qwf n q'.
  Proof. intros A B C [W1 W2 W3 W4]. constructor; rewrite ?A, ?B, ?C; auto. Qed.

  Lemma qwf_shrink n (q q' : simq) : q_shrink q q' -> qwf n q -> qwf n q'.
  Proof.
    intros [S1 S2 S3 S4 S5] [W1 W2 W3 W4]. constructor; auto.
    - intros e He. rewrite S1. auto.
    - intros i Hi. rewrite S1. auto.
  Qed.

  Lemma qwf_grow n (q q' : simq) news :
    q_grow q q' news -> (forall e, In e news -> q_src e < n /\ q_dst e < n) -> qwf n q -> qwf n q'.
  Proof.
    intros [G1 G2 G3 G4 G5 G6] Hc [W1 W2 W3 W4]. constructor.
    - rewrite G2, map_app. apply NoDup_app_intro; auto.
      intros x Hx Hy. apply in_map_iff in Hx. destruct Hx as [e1 [<- He1]].
      apply in_map_iff in Hy. destruct Hy as [e2 [E He2]].
      apply W2 in He1. apply G5 in He2. lia.
    - intros e He. rewrite G2 in He. apply in_app_iff in He. destruct He as [He|He].
      + apply W2 in He. lia.
      + apply G5 in He. lia.
    - intros i Hi. rewrite G3 in Hi. apply W3 in Hi. lia.
    - intros e He. rewrite G2 in He. apply in_app_iff in He. destruct He as [He|He]; auto.
  Qed.

  Lemma qwf_cancel n (q : simq) i : i < q_count q -> qwf n q -> qwf n (q_cancel q i).
  Proof.
    intros Hi [W1 W2 W3 W4]. constructor; cbn [q_cancel q_with q_events q_canceled q_count]; auto.
    intros j Hj. apply in_nins in Hj. destruct Hj as [->|Hj]; auto.
  Qed.

  Lemma qwf_cancel_pred n (q : simq) p : qwf n q -> qwf n (q_cancel_pred q p).
  Proof.
    intros [W1 W2 W3 W4]. constructor; auto.
    intros j Hj. apply in_canceled_cancel_pred in Hj. destruct Hj as [Hj|[e [He <-]]]; auto.
  Qed.

  Lemma qwf_mono n n' (q : simq) : n <= n' -> qwf n q -> qwf n' q.
  Proof.
    intros Hn [W1 W2 W3 W4]. constructor; auto.
    intros e He. apply W4 in He. lia.
  Qed.

  Record BaseInv (s : simsys) : Prop := {
    bi_nodes_sorted : ssorted N.compare (y_nodes s);
    bi_pn_sorted : ssorted N.compare (y_proc_nodes s);
    bi_ids_lt : forall nname nd, sget N.compare nname (y_nodes s) = Some nd -> sd_id nd < y_ncomp s;
    bi_ids_inj : forall a b nda ndb, sget N.compare a (y_nodes s) = Some nda -> sget N.compare b (y_nodes s) = Some ndb ->
                   sd_id nda = sd_id ndb -> a = b;
    bi_node_ids : forall nname, sget N.compare nname (sn_node_ids (y_net s)) =
                                option_map sd_id (sget N.compare nname (y_nodes s));
    bi_handlers : forall nname nd, sget N.compare nname (y_nodes s) = Some nd ->
                    sget N.compare (sd_id nd) (y_handlers s) = Some (negb (sd_crashed nd));
    bi_proc_fwd : forall nname nd p pe, sget N.compare nname (y_nodes s) = Some nd ->
                    sget N.compare p (sd_procs nd) = Some pe -> sget N.compare p (y_proc_nodes s) = Some nname;
    bi_proc_bwd : forall p nname, sget N.compare p (y_proc_nodes s) = Some nname ->
                    exists nd pe, sget N.compare nname (y_nodes s) = Some nd /\ sget N.compare p (sd_procs nd) = Some pe;
    bi_loc : forall p nname, sget N.compare p (y_proc_nodes s) = Some nname ->
               sget N.compare p (sn_loc (y_net s)) = Some nname;
    bi_q : qwf (y_ncomp s) (y_q s);
    bi_ptimers_lt : forall nname nd p pe name i, sget N.compare nname (y_nodes s) = Some nd ->
                      sget N.compare p (sd_procs nd) = Some pe -> sget N.compare name (pe_ptimers pe) = Some i ->
                      i < q_count (y_q s) }.

  Lemma base_sys0 : BaseInv (sys0 ops).
  Proof.
    constructor; cbn; try (intros; discriminate); try constructor; cbn; try (intros; contradiction); auto.
    constructor.
  Qed.

  (* the node found by component id *)
  Lemma find_node s i nname nd :
    BaseInv s -> find (fun p => N.eqb (sd_id (snd p)) i) (y_nodes s) = Some (nname, nd) ->
    sget N.compare nname (y_nodes s) = Some nd /\ sd_id nd = i.
  Proof.
    intros B H. apply find_some in H. destruct H as [H1 H2]. cbn in H2. apply N.eqb_eq in H2.
    split; auto. apply (sget_in _ CmpSpec_N); auto. apply (bi_nodes_sorted _ B).
  Qed.

  Lemma find_node_none s i nname nd :
    BaseInv s -> sget N.compare nname (y_nodes s) = Some nd -> sd_id nd = i ->
    find (fun p => N.eqb (sd_id (snd p)) i) (y_nodes s) = Some (nname, nd).
  Proof.
    intros B H E. destruct (find _ (y_nodes s)) as [[n2 nd2]|] eqn:F.
    - destruct (find_node _ _ _ _ B F) as [H1 H2].
      assert (n2 = nname) by (eapply (bi_ids_inj _ B); eauto; congruence). subst. congruence.
    - exfalso. apply (sget_some_in _ CmpSpec_N) in H.
      eapply find_none in F; eauto. cbn in F. apply N.eqb_neq in F. auto.
  Qed.

  (* changing the queue / network / log but no node *)
  Lemma base_same_nodes s q' net' log' :
    BaseInv s -> qwf (y_ncomp s) q' -> q_count (y_q s) <= q_count q' ->
    sn_node_ids net' = sn_node_ids (y_net s) -> sn_loc net' = sn_loc (y_net s) ->
    BaseInv (y_with s q' net' (y_nodes s) log').
  Proof.
    intros [B1 B2 B3 B4 B5 B6 B7 B8 B9 B10 B11] W C N1 N2.
    constructor; cbn [y_with y_nodes y_proc_nodes y_ncomp y_net y_handlers y_q]; auto.
    - intros nname. rewrite N1. auto.
    - intros p nname H. rewrite N2. auto.
    - intros nname nd p pe name i H1 H2 H3. specialize (B11 _ _ _ _ _ _ H1 H2 H3). lia.
  Qed.

  (* replacing one node by one with the same id, crash flag and set of processes *)
  Lemma base_upd s nname nd nd' q' net' log' :
    BaseInv s -> sget N.compare nname (y_nodes s) = Some nd ->
    sd_id nd' = sd_id nd -> sd_crashed nd' = sd_crashed nd ->
    (forall p, sget N.compare p (sd_procs nd') = None <-> sget N.compare p (sd_procs nd) = None) ->
    (forall p pe name i, sget N.compare p (sd_procs nd') = Some pe -> sget N.compare name (pe_ptimers pe) = Some i ->
                         i < q_count q') ->
    qwf (y_ncomp s) q' -> q_count (y_q s) <= q_count q' ->
    sn_node_ids net' = sn_node_ids (y_net s) -> sn_loc net' = sn_loc (y_net s) ->
    BaseInv (y_with s q' net' (sins N.compare nname nd' (y_nodes s)) log').
  Proof.
    intros [B1 B2 B3 B4 B5 B6 B7 B8 B9 B10 B11] Hn Hid Hcr Hdom Hpt W C N1 N2.
    constructor; cbn [y_with y_nodes y_proc_nodes y_ncomp y_net y_handlers y_q]; auto.
    - apply (ssorted_sins _ CmpSpec_N). auto.
    - intros x ndx. rewrite sgetN_sins. destruct (N.eqb_spec x nname) as [->|Hne]; intros H.
      + inv H. rewrite Hid. eauto.
      + eauto.
    - intros a b nda ndb. rewrite !sgetN_sins.
      destruct (N.eqb_spec a nname) as [->|Ha], (N.eqb_spec b nname) as [->|Hb]; intros H1 H2 E; auto.
      + inv H1. rewrite Hid in E. eapply B4; eauto.
      + inv H2. rewrite Hid in E. eapply B4; eauto.
      + eapply B4; eauto.
    - intros x. rewrite N1, sgetN_sins, B5. destruct (N.eqb_spec x nname) as [->|Hne]; auto.
      rewrite Hn. cbn. congruence.
    - intros x ndx. rewrite sgetN_sins. destruct (N.eqb_spec x nname) as [->|Hne]; intros H.
      + inv H. rewrite Hid, Hcr. eauto.
      + eauto.
    - intros x ndx p pe. rewrite sgetN_sins. destruct (N.eqb_spec x nname) as [->|Hne]; intros H1 H2.
      + inv H1. destruct (sget N.compare p (sd_procs nd)) as [pe0|] eqn:E.
        * eapply B7; eauto.
        * apply Hdom in E. congruence.
      + eapply B7; eauto.
    - intros p x H. destruct (B8 _ _ H) as [ndx [pe [H1 H2]]].
      destruct (N.eqb_spec x nname) as [->|Hne].
      + assert (ndx = nd) by congruence. subst ndx.
        destruct (sget N.compare p (sd_procs nd')) as [pe'|] eqn:E.
        * exists nd', pe'. rewrite sgetN_sins, N.eqb_refl. auto.
        * apply Hdom in E. congruence.
      + exists ndx, pe. rewrite sgetN_sins. destruct (N.eqb_spec x nname); [contradiction|]. auto.
    - intros p x H. rewrite N2. auto.
    - intros x ndx p pe name i. rewrite sgetN_sins. destruct (N.eqb_spec x nname) as [->|Hne]; intros H1 H2 H3.
      + inv H1. eauto.
      + specialize (B11 _ _ _ _ _ _ H1 H2 H3). lia.
  Qed.

  Lemma net_bump_ids (n : simnet) c z : sn_node_ids (net_bump n c z) = sn_node_ids n /\ sn_loc (net_bump n c z) = sn_loc n.
  Proof. split; reflexivity. Qed.

  Lemma node_action_frame ncomp nname nid proc time (p : pentry) lc (w : world) a p' lc' w' :
    qwf ncomp (w_q w) -> nid < ncomp ->
    (forall x i, sget N.compare x (sn_node_ids (w_net w)) = Some i -> i < ncomp) ->
    (forall name i, sget N.compare name (pe_ptimers p) = Some i -> i < q_count (w_q w)) ->
    node_action nname nid proc time p lc w a = Ok (p', lc', w') ->
    qwf ncomp (w_q w') /\ q_count (w_q w) <= q_count (w_q w') /\
    sn_node_ids (w_net w') = sn_node_ids (w_net w) /\ sn_loc (w_net w') = sn_loc (w_net w) /\
    (forall name i, sget N.compare name (pe_ptimers p') = Some i -> i < q_count (w_q w')).
  Proof.
    intros W Hnid Hids Hpt.
    destruct a as [m dst|m|name delay once|name]; cbn [Sim.node_action]; intros H.
    - binv. apply net_send_spec in E.
      destruct E as (sn & dn & sid & did & news & _ & _ & I1 & I2 & -> & G & _ & D & _).
      cbn [w_q w_net pe_with pe_ptimers]. pose proof (qg_count _ _ _ G) as Hc.
      split; [|split; [lia|split; [reflexivity|split; [reflexivity|]]]].
      + eapply qwf_grow; eauto. intros e He. apply D in He. destruct He as [_ [-> ->]]. eauto.
      + intros nm i Hi. apply Hpt in Hi. lia.
    - inv H. cbn [w_q w_net pe_with pe_ptimers]. split; auto. split; [lia|]. auto.
    - assert (Hadd : forall q0 q2 i, qwf ncomp q0 -> q_count q0 = q_count (w_q w) ->
                q_add ops q0 (QTimer proc name) nid nid delay = Ok (q2, i) ->
                qwf ncomp q2 /\ q_count (w_q w) <= q_count q2 /\
                forall nm j, sget N.compare nm (sins N.compare name i (pe_ptimers p)) = Some j -> j < q_count q2).
      { intros q0 q2 i W0 C0 Ha. apply q_add_grow in Ha. destruct Ha as [-> [_ G]].
        pose proof (qg_count _ _ _ G) as Hc. cbn [length] in Hc.
        split; [|split; [lia|]].
        - eapply qwf_grow; eauto. intros e [<-|[]]. cbn. auto.
        - intros nm j. rewrite sgetN_sins. destruct (N.eqb nm name); intros Hj.
          + inv Hj. lia.
          + apply Hpt in Hj. lia. }
      destruct (sget N.compare name (pe_ptimers p)) as [old|] eqn:Eo.
      + destruct once.
        * inv H. cbn [pe_with pe_ptimers]. split; auto. split; [lia|]. auto.
        * binv. cbn [w_q w_net pe_with pe_ptimers].
          apply Hadd in E; [|apply qwf_cancel; eauto|reflexivity].
          destruct E as [A [B C]]. auto.
      + binv. cbn [w_q w_net pe_with pe_ptimers]. apply Hadd in E; auto. destruct E as [A [B C]]. auto.
    - destruct (sget N.compare name (pe_ptimers p)) as [i|] eqn:Ei; inv H; cbn [w_q w_net pe_with pe_ptimers].
      + split; [apply qwf_cancel; eauto|]. split; [cbn; lia|]. split; auto. split; auto.
        intros nm j. rewrite sgetN_srem. destruct (N.eqb nm name); [discriminate|]. apply Hpt.
      + split; auto. split; [lia|]. auto.
  Qed.

  Lemma base_node_ids_lt s x i : BaseInv s -> sget N.compare x (sn_node_ids (y_net s)) = Some i -> i < y_ncomp s.
  Proof.
    intros B H. rewrite (bi_node_ids _ B) in H.
    destruct (sget N.compare x (y_nodes s)) as [nd|] eqn:E; cbn in H; [|discriminate].
    inv H. eapply bi_ids_lt; eauto.
  Qed.

  Lemma sget_sins_dom {V} proc (p p0 : V) l x :
    sget N.compare proc l = Some p0 ->
    (sget N.compare x (sins N.compare proc p l) = None <-> sget N.compare x l = None).
  Proof.
    intros H. rewrite sgetN_sins. destruct (N.eqb_spec x proc) as [->|Hne]; [|tauto].
    rewrite H. split; discriminate.
  Qed.

  Lemma base_put_proc s nname nd proc p0 p lc (w : world) :
    BaseInv s -> sget N.compare nname (y_nodes s) = Some nd -> sget N.compare proc (sd_procs nd) = Some p0 ->
    qwf (y_ncomp s) (w_q w) -> q_count (y_q s) <= q_count (w_q w) ->
    sn_node_ids (w_net w) = sn_node_ids (y_net s) -> sn_loc (w_net w) = sn_loc (y_net s) ->
    (forall name i, sget N.compare name (pe_ptimers p) = Some i -> i < q_count (w_q w)) ->
    BaseInv (put_proc s nname nd proc p lc w).
  Proof.
    intros B Hn Hp W C N1 N2 Hpt. unfold put_proc. eapply base_upd; eauto.
    - intros x. cbn [nd_put sd_procs]. eapply sget_sins_dom; eauto.
    - intros x pe name i. cbn [nd_put sd_procs]. rewrite sgetN_sins.
      destruct (N.eqb x proc); intros H1 H2.
      + inv H1. eauto.
      + pose proof (bi_ptimers_lt _ B _ _ _ _ _ _ Hn H1 H2). lia.
  Qed.

  Lemma base_pre_state s nname nd proc p k st' used :
    BaseInv s -> sget N.compare nname (y_nodes s) = Some nd -> sget N.compare proc (sd_procs nd) = Some p ->
    BaseInv (pre_state s nname nd proc p k st' used).
  Proof.
    intros B Hn Hp. unfold pre_state. eapply base_put_proc; eauto; cbn [w_q w_net].
    - eapply qwf_ext; [| | |apply (bi_q _ B)]; reflexivity.
    - cbn. lia.
    - unfold set_state. cbn [pe_with pe_ptimers q_used q_with q_count].
      intros name i. destruct k as [mid m from fn|tn|m]; cbn [pre_pe fst].
      + cbn. eapply (bi_ptimers_lt _ B); eauto.
      + destruct (sget N.compare tn (pe_ptimers p)); cbn [fst pe_with pe_ptimers].
        * rewrite sgetN_srem. destruct (N.eqb name tn); [discriminate|]. eapply (bi_ptimers_lt _ B); eauto.
        * eapply (bi_ptimers_lt _ B); eauto.
      + cbn. eapply (bi_ptimers_lt _ B); eauto.
  Qed.

  Lemma base_with_q_shrink s q' : BaseInv s -> q_shrink (y_q s) q' -> BaseInv (with_q s q').
  Proof.
    intros B S. unfold with_q. apply base_same_nodes; auto.
    - eapply qwf_shrink; eauto. apply (bi_q _ B).
    - rewrite (qs_count _ _ S). lia.
  Qed.

  Lemma base_sys_action s nname nd proc a s' :
    BaseInv s -> sget N.compare nname (y_nodes s) = Some nd -> sys_action s nname proc a = Ok s' -> BaseInv s'.
  Proof.
    intros B Hn H. unfold sys_action in H. rewrite Hn in H.
    destruct (sget N.compare proc (sd_procs nd)) as [p|] eqn:Hp; [|discriminate].
    destruct (node_action _ _ _ _ _ _ _ _) as [[[p' lc'] w']|] eqn:E in H; [|discriminate].
    cbn [bind] in H. inv H.
    eapply (node_action_frame (y_ncomp s)) in E; cbn [world_of w_q w_net].
    - destruct E as (A1 & A2 & A3 & A4 & A5). eapply base_put_proc; eauto.
    - apply (bi_q _ B).
    - eapply (bi_ids_lt _ B); eauto.
    - intros x i. apply base_node_ids_lt; auto.
    - intros name i. eapply (bi_ptimers_lt _ B); eauto.
  Qed.

  Lemma base_read_local s p s' r : BaseInv s -> read_local s p = Ok (s', r) -> BaseInv s'.
  Proof.
    intros B H. unfold Sim.read_local, node_of_proc in H.
    destruct (sget N.compare p (y_proc_nodes s)) as [nname|]; [|discriminate].
    destruct (sget N.compare nname (y_nodes s)) as [nd|] eqn:Hn; [|discriminate].
    cbn [bind] in H.
    destruct (sget N.compare p (sd_procs nd)) as [pe|] eqn:Hp; [|discriminate].
    destruct (pe_outbox pe) as [|m l]; inv H; auto.
    eapply base_upd; eauto; cbn [sd_procs]; try lia.
    - intros x. eapply sget_sins_dom; eauto.
    - intros x pe' name i. rewrite sgetN_sins. destruct (N.eqb x p); intros H1 H2.
      + inv H1. cbn in H2. eapply (bi_ptimers_lt _ B); eauto.
      + eapply (bi_ptimers_lt _ B); eauto.
    - apply (bi_q _ B).
  Qed.

  Lemma snet_apply_ids (n : simnet) t o n' logs :
    snet_apply n t o = (n', logs) -> sn_node_ids n' = sn_node_ids n /\ sn_loc n' = sn_loc n.
  Proof. destruct o; cbn; intros H; inv H; auto. Qed.

  Lemma shas_false {V} k (l : list (N * V)) : shas N.compare k l = false -> sget N.compare k l = None.
  Proof. unfold shas. destruct (sget N.compare k l); auto; discriminate. Qed.

  Lemma base_add_node s name s' r : BaseInv s -> sim_op 0 s (YAddNode name) = Ok (s', r) -> BaseInv s'.
  Proof.
    intros B H. cbn [Sim.sim_op] in H.
    destruct (shas N.compare name (y_nodes s)) eqn:Hh; [discriminate|]. apply shas_false in Hh. inv H.
    destruct B as [B1 B2 B3 B4 B5 B6 B7 B8 B9 B10 B11].
    constructor; cbn [y_nodes y_proc_nodes y_ncomp y_net y_handlers y_q sn_node_ids sn_loc]; auto.
    - apply (ssorted_sins _ CmpSpec_N). auto.
    - intros x ndx. rewrite sgetN_sins. destruct (N.eqb_spec x name) as [->|Hne]; intros H.
      + inv H. cbn. lia.
      + apply B3 in H. lia.
    - intros a b nda ndb. rewrite !sgetN_sins.
      destruct (N.eqb_spec a name) as [->|Ha], (N.eqb_spec b name) as [->|Hb]; intros H1 H2 E; auto.
      + inv H1. cbn in E. apply B3 in H2. lia.
      + inv H2. cbn in E. apply B3 in H1. lia.
      + eapply B4; eauto.
    - intros x. rewrite !sgetN_sins. destruct (N.eqb x name); auto.
    - intros x ndx. rewrite !sgetN_sins. destruct (N.eqb_spec x name) as [->|Hne]; intros H.
      + inv H. cbn. rewrite N.eqb_refl. reflexivity.
      + pose proof (B3 _ _ H). destruct (N.eqb_spec (sd_id ndx) (y_ncomp s)); [lia|]. eauto.
    - intros x ndx p pe. rewrite sgetN_sins. destruct (N.eqb_spec x name) as [->|Hne]; intros H1 H2.
      + inv H1. cbn in H2. discriminate.
      + eauto.
    - intros p x H. destruct (B8 _ _ H) as [ndx [pe [H1 H2]]]. exists ndx, pe. split; auto.
      rewrite sgetN_sins. destruct (N.eqb_spec x name) as [->|Hne]; auto. congruence.
    - eapply qwf_mono; eauto. lia.
    - intros x ndx p pe nm i. rewrite sgetN_sins. destruct (N.eqb_spec x name) as [->|Hne]; intros H1 H2 H3.
      + inv H1. cbn in H2. discriminate.
      + eauto.
  Qed.

  Lemma base_add_process s proc node s' r : BaseInv s -> sim_op 0 s (YAddProcess proc node) = Ok (s', r) -> BaseInv s'.
  Proof.
    intros B H. cbn [Sim.sim_op] in H.
    destruct (sget N.compare node (y_nodes s)) as [nd|] eqn:Hn; [|discriminate].
    destruct (shas N.compare proc (y_proc_nodes s)) eqn:Hh; [discriminate|]. apply shas_false in Hh. inv H.
    destruct B as [B1 B2 B3 B4 B5 B6 B7 B8 B9 B10 B11].
    constructor; cbn [y_nodes y_proc_nodes y_ncomp y_net y_handlers y_q sn_node_ids sn_loc]; auto.
    - apply (ssorted_sins _ CmpSpec_N). auto.
    - apply (ssorted_sins _ CmpSpec_N). auto.
    - intros x ndx. rewrite sgetN_sins. destruct (N.eqb_spec x node) as [->|Hne]; intros H.
      + inv H. cbn. eauto.
      + eauto.
    - intros a b nda ndb. rewrite !sgetN_sins.
      destruct (N.eqb_spec a node) as [->|Ha], (N.eqb_spec b node) as [->|Hb]; intros H1 H2 E; auto.
      + inv H1. cbn in E. eapply B4; eauto.
      + inv H2. cbn in E. eapply B4; eauto.
      + eapply B4; eauto.
    - intros x. rewrite sgetN_sins, B5. destruct (N.eqb_spec x node) as [->|Hne]; auto.
      rewrite Hn. reflexivity.
    - intros x ndx. rewrite sgetN_sins. destruct (N.eqb_spec x node) as [->|Hne]; intros H.
      + inv H. cbn. eauto.
      + eauto.
    - intros x ndx p pe. rewrite !sgetN_sins. destruct (N.eqb_spec x node) as [->|Hne]; intros H1 H2.
      + inv H1. cbn in H2. rewrite sgetN_sins in H2. destruct (N.eqb_spec p proc) as [->|Hp]; auto. eauto.
      + destruct (N.eqb_spec p proc) as [->|Hp]; eauto.
        specialize (B7 _ _ _ _ H1 H2). congruence.
    - intros p x. rewrite !sgetN_sins. destruct (N.eqb_spec p proc) as [->|Hp]; intros H.
      + inv H. rewrite N.eqb_refl. eexists _, _. split; [reflexivity|]. cbn. rewrite sgetN_sins, N.eqb_refl. reflexivity.
      + destruct (B8 _ _ H) as [ndx [pe [H1 H2]]]. destruct (N.eqb_spec x node) as [->|Hne].
        * assert (ndx = nd) by congruence. subst. eexists _, pe. split; [reflexivity|]. cbn.
          rewrite sgetN_sins. destruct (N.eqb_spec p proc); [contradiction|]. auto.
        * exists ndx, pe. auto.
    - intros p x. rewrite !sgetN_sins. destruct (N.eqb p proc); auto.
    - intros x ndx p pe nm i. rewrite sgetN_sins. destruct (N.eqb_spec x node) as [->|Hne]; intros H1 H2 H3.
      + inv H1. cbn in H2. rewrite sgetN_sins in H2. destruct (N.eqb p proc).
        * inv H2. cbn in H3. discriminate.
        * eauto.
      + eauto.
  Qed.

  Lemma base_crash s node s' r : BaseInv s -> sim_op 0 s (YCrash node) = Ok (s', r) -> BaseInv s'.
  Proof.
    intros B H. cbn [Sim.sim_op] in H.
    destruct (sget N.compare node (y_nodes s)) as [nd|] eqn:Hn; [|discriminate]. inv H.
    destruct B as [B1 B2 B3 B4 B5 B6 B7 B8 B9 B10 B11].
    unfold set_handler, y_with.
    constructor; cbn [y_nodes y_proc_nodes y_ncomp y_net y_handlers y_q sn_node_ids sn_loc]; auto.
    - apply (ssorted_sins _ CmpSpec_N). auto.
    - intros x ndx. rewrite sgetN_sins. destruct (N.eqb_spec x node) as [->|Hne]; intros H.
      + inv H. cbn. eauto.
      + eauto.
    - intros a b nda ndb. rewrite !sgetN_sins.
      destruct (N.eqb_spec a node) as [->|Ha], (N.eqb_spec b node) as [->|Hb]; intros H1 H2 E; auto.
      + inv H1. cbn in E. eapply B4; eauto.
      + inv H2. cbn in E. eapply B4; eauto.
      + eapply B4; eauto.
    - intros x. rewrite sgetN_sins, B5. destruct (N.eqb_spec x node) as [->|Hne]; auto.
      rewrite Hn. reflexivity.
    - intros x ndx. rewrite !sgetN_sins. destruct (N.eqb_spec x node) as [->|Hne]; intros H.
      + inv H. cbn. rewrite N.eqb_refl. reflexivity.
      + destruct (N.eqb_spec (sd_id ndx) (sd_id nd)) as [E|E]; eauto.
        exfalso. apply Hne. eapply B4; eauto.
    - intros x ndx p pe. rewrite sgetN_sins. destruct (N.eqb_spec x node) as [->|Hne]; intros H1 H2.
      + inv H1. cbn in H2. eauto.
      + eauto.
    - intros p x H. destruct (B8 _ _ H) as [ndx [pe [H1 H2]]]. rewrite sgetN_sins.
      destruct (N.eqb_spec x node) as [->|Hne].
      + assert (ndx = nd) by congruence. subst. eexists _, pe. split; [reflexivity|]. auto.
      + eauto.
    - apply qwf_cancel_pred. apply qwf_cancel_pred. auto.
    - intros x ndx p pe nm i. rewrite sgetN_sins. cbn [q_cancel_pred q_with q_count].
      destruct (N.eqb_spec x node) as [->|Hne]; intros H1 H2 H3.
      + inv H1. cbn in H2. eauto.
      + eauto.
  Qed.

  Lemma base_recover s node s' r : BaseInv s -> sim_op 0 s (YRecover node) = Ok (s', r) -> BaseInv s'.
  Proof.
    intros B H. cbn [Sim.sim_op] in H.
    destruct (sget N.compare node (y_nodes s)) as [nd|] eqn:Hn; [|discriminate].
    destruct (negb (sd_crashed nd)) eqn:Hc; [discriminate|].
    assert (s' = {| y_q := y_q s; y_net := y_net s;
                    y_nodes := sins N.compare node {| sd_id := sd_id nd; sd_procs := []; sd_skew := sd_skew nd;
                                                      sd_crashed := false; sd_lcount := sd_lcount nd |} (y_nodes s);
                    y_proc_nodes := filter (fun pn => negb (N.eqb (snd pn) node)) (y_proc_nodes s);
                    y_handlers := sins N.compare (sd_id nd) true (y_handlers s); y_ncomp := y_ncomp s;
                    y_log := y_log s ++ [LNodeRecovered (now s) node] |}) as ->.
    { destruct (sget N.compare (sd_id nd) (y_handlers s)) as [[|]|]; inv H; reflexivity. }
    clear H.
    destruct B as [B1 B2 B3 B4 B5 B6 B7 B8 B9 B10 B11].
    assert (Hf : forall p x, sget N.compare p (filter (fun pn => negb (N.eqb (snd pn) node)) (y_proc_nodes s)) = Some x ->
                 sget N.compare p (y_proc_nodes s) = Some x /\ x <> node).
    { intros p x. rewrite (sget_filter _ CmpSpec_N) by auto.
      destruct (sget N.compare p (y_proc_nodes s)) as [y|]; [|discriminate]. cbn [snd].
      destruct (N.eqb_spec y node); cbn; intros H; inv H. auto. }
    constructor; cbn [y_nodes y_proc_nodes y_ncomp y_net y_handlers y_q sn_node_ids sn_loc]; auto.
    - apply (ssorted_sins _ CmpSpec_N). auto.
    - apply (ssorted_filter). auto.
    - intros x ndx. rewrite sgetN_sins. destruct (N.eqb_spec x node) as [->|Hne]; intros H.
      + inv H. cbn. eauto.
      + eauto.
    - intros a b nda ndb. rewrite !sgetN_sins.
      destruct (N.eqb_spec a node) as [->|Ha], (N.eqb_spec b node) as [->|Hb]; intros H1 H2 E; auto.
      + inv H1. cbn in E. eapply B4; eauto.
      + inv H2. cbn in E. eapply B4; eauto.
      + eapply B4; eauto.
    - intros x. rewrite sgetN_sins, B5. destruct (N.eqb_spec x node) as [->|Hne]; auto.
      rewrite Hn. reflexivity.
    - intros x ndx. rewrite !sgetN_sins. destruct (N.eqb_spec x node) as [->|Hne]; intros H.
      + inv H. cbn. rewrite N.eqb_refl. reflexivity.
      + destruct (N.eqb_spec (sd_id ndx) (sd_id nd)) as [E|E]; eauto.
        exfalso. apply Hne. eapply B4; eauto.
    - intros x ndx p pe. rewrite sgetN_sins. destruct (N.eqb_spec x node) as [->|Hne]; intros H1 H2.
      + inv H1. cbn in H2. discriminate.
      + rewrite (sget_filter _ CmpSpec_N) by auto. rewrite (B7 _ _ _ _ H1 H2). cbn [snd].
        destruct (N.eqb_spec x node); [contradiction|]. reflexivity.
    - intros p x H. apply Hf in H. destruct H as [H Hne]. destruct (B8 _ _ H) as [ndx [pe [H1 H2]]].
      exists ndx, pe. rewrite sgetN_sins. destruct (N.eqb_spec x node); [contradiction|]. auto.
    - intros p x H. apply Hf in H. destruct H as [H _]. auto.
    - intros x ndx p pe nm i. rewrite sgetN_sins.
      destruct (N.eqb_spec x node) as [->|Hne]; intros H1 H2 H3.
      + inv H1. cbn in H2. discriminate.
      + eauto.
  Qed.

  Lemma base_basic s o s' r : BaseInv s -> is_basic o = true -> sim_op 0 s o = Ok (s', r) -> BaseInv s'.
  Proof.
    intros B Hb H. destruct o; try discriminate Hb.
    - eapply base_add_node; eauto.
    - eapply base_add_process; eauto.
    - cbn [Sim.sim_op] in H. destruct (sget N.compare node (y_nodes s)) as [nd|] eqn:Hn; [|discriminate]. inv H.
      eapply base_upd; eauto; cbn [sd_procs]; try tauto; try lia.
      + intros p pe name i. eapply (bi_ptimers_lt _ B); eauto.
      + apply (bi_q _ B).
    - cbn [Sim.sim_op] in H. destruct (snet_apply (y_net s) (now s) o) as [n' logs] eqn:E. inv H.
      apply snet_apply_ids in E. destruct E. apply base_same_nodes; auto; try lia. apply (bi_q _ B).
    - eapply base_crash; eauto.
    - eapply base_recover; eauto.
  Qed.

  Lemma base_sstep s lab s' : BaseInv s -> sstep s lab s' -> BaseInv s'.
  Proof.
    intros B H. destruct H.
    - apply q_next_spec in H; [|apply (bi_q _ B)]. destruct H as [S _]. apply base_with_q_shrink; auto.
    - apply q_next_spec in H; [|apply (bi_q _ B)]. destruct H as [S _].
      apply base_pre_state; auto. apply base_with_q_shrink; auto.
    - apply base_pre_state; auto.
    - eapply base_sys_action; eauto.
    - apply q_peek_spec in H. destruct H as [S _]. apply base_with_q_shrink; auto.
    - unfold set_clock. apply base_same_nodes; auto; try (cbn; lia).
      eapply qwf_ext; [| | |apply (bi_q _ B)]; reflexivity.
    - eapply base_read_local; eauto.
    - eapply base_basic; eauto.
  Qed.

  Lemma base_sstar s l s' : BaseInv s -> sstar s l s' -> BaseInv s'.
  Proof. intros B H. induction H; auto. apply IHsstar. eapply base_sstep; eauto. Qed.

  (* ================================================================================================ *)
  (* 6. every API call is a sequence of transitions                                                  *)
  (* ================================================================================================ *)
  Lemma sys_action_node s nname proc a s' :
    sys_action s nname proc a = Ok s' ->
    exists nd nd', sget N.compare nname (y_nodes s) = Some nd /\ sget N.compare nname (y_nodes s') = Some nd' /\
                   sd_crashed nd' = sd_crashed nd /\ sd_id nd' = sd_id nd.
  Proof.
    unfold sys_action. destruct (sget N.compare nname (y_nodes s)) as [nd|] eqn:Hn; [|discriminate].
    destruct (sget N.compare proc (sd_procs nd)) as [p|]; [|discriminate].
    destruct (node_action _ _ _ _ _ _ _ _) as [[[p' lc'] w']|]; [|discriminate]. cbn [bind]. intros H. inv H.
    exists nd, (nd_put nd proc p' lc'). split; auto. split; auto.
    unfold put_proc. cbn [y_with y_nodes]. rewrite sgetN_sins, N.eqb_refl. reflexivity.
  Qed.

  Lemma sys_actions_sstar nname proc : forall acts s s' nd,
    sget N.compare nname (y_nodes s) = Some nd -> sd_crashed nd = false ->
    sys_actions s nname proc acts = Ok s' -> sstar s [] s'.
  Proof.
    induction acts as [|a r IH]; intros s s' nd Hn Hc H; cbn [sys_actions] in H.
    - inv H. constructor.
    - destruct (sys_action s nname proc a) as [s1|] eqn:E; [|discriminate]. cbn [bind] in H.
      destruct (sys_action_node _ _ _ _ _ E) as (nd0 & nd1 & H0 & H1 & H2 & _).
      assert (nd0 = nd) by congruence. subst nd0.
      apply (st_cons s LTau s1 [] s').
      + eapply ss_act; eauto.
      + eapply IH; eauto; congruence.
  Qed.

  Lemma handle_sstar s0 s nname nd proc k nd' w' :
    sget N.compare nname (y_nodes s) = Some nd -> sd_crashed nd = false ->
    node_handle nname nd proc k (world_of s) = Ok (nd', w') ->
    (forall p st' used, sget N.compare proc (sd_procs nd) = Some p ->
                        sstep s0 LTau (pre_state s nname nd proc p k st' used)) ->
    sstar s0 [] (y_with s (w_q w') (w_net w') (sins N.compare nname nd' (y_nodes s)) (w_log w')).
  Proof.
    intros Hn Hc H Hpre. apply node_handle_sys in H. destruct H as (p & st' & acts & used & Hp & _ & Ha).
    apply (st_cons s0 LTau _ [] _ (Hpre p st' used Hp)).
    eapply sys_actions_sstar; [| |exact Ha].
    - unfold pre_state, put_proc. cbn [y_with y_nodes]. rewrite sgetN_sins, N.eqb_refl. reflexivity.
    - exact Hc.
  Qed.

  Lemma step_sstar s s' b : BaseInv s -> step s = Ok (s', b) -> sstar s [] s'.
  Proof.
    intros B H. unfold Sim.step in H. destruct (q_next ops (y_q s)) as [q' oe] eqn:Eq.
    fold (with_q s q') in H. destruct oe as [e|].
    2:{ inv H. apply (sstar_one s LTau). eapply ss_pop; eauto. intros e He. discriminate. }
    destruct (deliver (with_q s q') e) as [s2|] eqn:Ed; [|discriminate]. cbn [bind] in H. inv H.
    unfold Sim.deliver in Ed. cbn [with_q y_with y_handlers y_nodes] in Ed.
    destruct (sget N.compare (q_dst e) (y_handlers s)) as [[|]|] eqn:Eh.
    2,3: inv Ed; apply (sstar_one s LTau); eapply ss_pop; eauto; intros e0 He0; inv He0; congruence.
    destruct (find _ (y_nodes s)) as [[nname nd]|] eqn:Ef; [|discriminate].
    destruct (find_node _ _ _ _ B Ef) as [Hn Hid].
    assert (Hc : sd_crashed nd = false).
    { pose proof (bi_handlers _ B _ _ Hn) as Hh. rewrite Hid, Eh in Hh. inv Hh.
      destruct (sd_crashed nd); auto; discriminate. }
    match type of Ed with bind ?x _ = _ => destruct x as [[nd' w']|] eqn:En; [|discriminate] end.
    cbn [bind] in Ed. inv Ed.
    change (y_with s q' (y_net s) (y_nodes s) (y_log s)) with (with_q s q').
    assert (En' : node_handle nname nd (fst (ev_kind e)) (snd (ev_kind e)) (world_of (with_q s q')) = Ok (nd', w')).
    { unfold ev_kind. destruct (q_data e); exact En. }
    apply (handle_sstar s (with_q s q') nname nd _ _ nd' w' Hn Hc En').
    intros p st' used Hp. eapply ss_deliver; eauto.
  Qed.

  (* the delivery of a popped event to a node that handles it, spelled out *)
  Lemma deliver_decomp s q' e s2 :
    BaseInv s -> sget N.compare (q_dst e) (y_handlers s) = Some true ->
    deliver (with_q s q') e = Ok s2 ->
    exists nname nd p st' acts used,
      sget N.compare nname (y_nodes s) = Some nd /\ sd_crashed nd = false /\ sd_id nd = q_dst e /\
      sget N.compare (fst (ev_kind e)) (sd_procs nd) = Some p /\
      handler (fst (ev_kind e)) (pe_state (fst (pre_pe nname (fst (ev_kind e)) (q_clock q') p (snd (ev_kind e)))))
              (k_input (snd (ev_kind e))) (tadd ops (q_clock q') (sd_skew nd))
              (fun i => draws (q_rand q' + i)%nat) = (st', acts, used) /\
      sys_actions (pre_state (with_q s q') nname nd (fst (ev_kind e)) p (snd (ev_kind e)) st' used)
                  nname (fst (ev_kind e)) acts = Ok s2.
  Proof.
    intros B Eh Ed. unfold Sim.deliver in Ed. cbn [with_q y_with y_handlers y_nodes] in Ed. rewrite Eh in Ed.
    destruct (find _ (y_nodes s)) as [[nname nd]|] eqn:Ef; [|discriminate].
    destruct (find_node _ _ _ _ B Ef) as [Hn Hid].
    assert (Hc : sd_crashed nd = false).
    { pose proof (bi_handlers _ B _ _ Hn) as Hh. rewrite Hid, Eh in Hh. inv Hh.
      destruct (sd_crashed nd); auto; discriminate. }
    match type of Ed with bind ?x _ = _ => destruct x as [[nd' w']|] eqn:En; [|discriminate] end.
    cbn [bind] in Ed. inv Ed.
    change (y_with s q' (y_net s) (y_nodes s) (y_log s)) with (with_q s q') in *.
    assert (En' : node_handle nname nd (fst (ev_kind e)) (snd (ev_kind e)) (world_of (with_q s q')) = Ok (nd', w')).
    { unfold ev_kind. destruct (q_data e); exact En. }
    apply node_handle_sys in En'. destruct En' as (p & st' & acts & used & Hp & Hh & Ha).
    exists nname, nd, p, st', acts, used. repeat (split; [assumption|]). exact Ha.
  Qed.

  (* ---- how transitions move the queue: ids are never reused, live events only disappear ---- *)
  Definition q_mono (q q' : simq) : Prop :=
    q_count q <= q_count q' /\ forall e, In e (q_live q') -> In e (q_live q) \/ q_count q <= q_id e.

  Lemma q_mono_refl q : q_mono q q.
  Proof. split; [lia|auto]. Qed.

  Lemma q_mono_live_eq (q q' : simq) : q_count q' = q_count q -> q_live q' = q_live q -> q_mono q q'.
  Proof. intros A B. split; [lia|]. rewrite B. auto. Qed.

  Lemma q_add_live (q : simq) d src dst delay q' i :
    (forall j, In j (q_canceled q) -> j < q_count q) ->
    q_add ops q d src dst delay = Ok (q', i) ->
    i = q_count q /\ q_live q' = q_live q ++ [mk_ev ops q d src dst delay] /\ q_count q' = q_count q + 1 /\
    q_canceled q' = q_canceled q /\ q_clock q' = q_clock q.
  Proof.
    intros Hc H. apply q_add_spec in H. destruct H as [-> ->]. split; auto.
    cbn [q_with q_count q_canceled q_clock]. split; auto.
    eapply q_live_app; eauto. intros e [<-|[]]. cbn. lia.
  Qed.

  Lemma q_grow_live (q q' : simq) news :
    (forall j, In j (q_canceled q) -> j < q_count q) -> q_grow q q' news -> q_live q' = q_live q ++ news.
  Proof.
    intros Hc G. eapply q_live_app; eauto.
    - apply (qg_events _ _ _ G).
    - apply (qg_canceled _ _ _ G).
    - intros e He. apply (qg_ids _ _ _ G) in He. lia.
  Qed.

  Lemma q_mono_grow_cancel (q q' : simq) news :
    q_events q' = q_events q ++ news -> (forall i, In i (q_canceled q) -> In i (q_canceled q')) ->
    (forall e, In e news -> q_count q <= q_id e) -> q_count q <= q_count q' -> q_mono q q'.
  Proof.
    intros He Hc Hn Hk. split; auto. intros e H. apply in_q_live in H. destruct H as [H1 H2].
    rewrite He in H1. apply in_app_iff in H1. destruct H1 as [H1|H1]; auto.
    left. apply in_q_live. split; auto. apply nmem_false_iff. intros Hi. apply Hc in Hi.
    apply nmem_false_iff in H2. auto.
  Qed.

  Lemma q_mono_trans a b c : q_mono a b -> q_mono b c -> q_mono a c.
  Proof.
    intros [A1 A2] [B1 B2]. split; [lia|]. intros e He. apply B2 in He. destruct He as [He|He].
    - auto.
    - right. lia.
  Qed.

  Lemma node_action_q_mono nname nid proc time (p : pentry) lc (w : world) a p' lc' w' :
    node_action nname nid proc time p lc w a = Ok (p', lc', w') -> q_mono (w_q w) (w_q w').
  Proof.
    destruct a as [m dst|m|name delay once|name]; cbn [Sim.node_action]; intros H.
    - binv. apply net_send_spec in E. destruct E as (sn & dn & sid & did & news & _ & _ & _ & _ & _ & G & _).
      cbn [w_q]. eapply q_mono_grow_cancel.
      + apply (qg_events _ _ _ G).
      + rewrite (qg_canceled _ _ _ G). auto.
      + intros e He. apply (qg_ids _ _ _ G) in He. lia.
      + rewrite (qg_count _ _ _ G). lia.
    - inv H. apply q_mono_refl.
    - destruct (sget N.compare name (pe_ptimers p)) as [old|].
      + destruct once.
        * inv H. apply q_mono_refl.
        * binv. cbn [w_q]. apply q_add_spec in E. destruct E as [-> ->].
          eapply q_mono_grow_cancel; cbn [q_with q_events q_canceled q_count q_cancel].
          -- reflexivity.
          -- intros i Hi. apply in_nins. auto.
          -- intros e [<-|[]]. cbn. lia.
          -- lia.
      + binv. cbn [w_q]. apply q_add_spec in E. destruct E as [-> ->].
        eapply q_mono_grow_cancel; cbn [q_with q_events q_canceled q_count].
        * reflexivity.
        * auto.
        * intros e [<-|[]]. cbn. lia.
        * lia.
    - destruct (sget N.compare name (pe_ptimers p)) as [i|]; inv H; cbn [w_q].
      + eapply (q_mono_grow_cancel _ _ []); cbn [q_with q_events q_canceled q_count q_cancel].
        * rewrite app_nil_r. reflexivity.
        * intros j Hj. apply in_nins. auto.
        * intros e [].
        * lia.
      + apply q_mono_refl.
  Qed.

  Lemma q_next_mono (q q' : simq) oe : NoDup (map q_id (q_events q)) -> q_next ops q = (q', oe) -> q_mono q q'.
  Proof.
    intros Hn H. apply q_next_spec in H; auto. destruct H as [S H].
    split; [rewrite (qs_count _ _ S); lia|]. intros e He. left. destruct oe as [e0|].
    - destruct H as [_ [l1 [l2 [E1 E2]]]]. rewrite E1. rewrite E2 in He.
      apply in_app_iff in He. apply in_app_iff. cbn. tauto.
    - destruct H as [E _]. rewrite <- E. auto.
  Qed.

  Lemma q_peek_mono (q q' : simq) oe : q_peek ops q = (q', oe) -> q_mono q q'.
  Proof.
    intros H. apply q_peek_spec in H. destruct H as [S [L _]]. apply q_mono_live_eq; auto. apply (qs_count _ _ S).
  Qed.

  Lemma sys_action_q_mono s nname proc a s' : sys_action s nname proc a = Ok s' -> q_mono (y_q s) (y_q s').
  Proof.
    unfold sys_action. destruct (sget N.compare nname (y_nodes s)) as [nd|]; [|discriminate].
    destruct (sget N.compare proc (sd_procs nd)) as [p|]; [|discriminate].
    destruct (node_action _ _ _ _ _ _ _ _) as [[[p' lc'] w']|] eqn:E; [|discriminate]. cbn [bind]. intros H. inv H.
    apply node_action_q_mono in E. exact E.
  Qed.

  Lemma read_local_q s p s' r : read_local s p = Ok (s', r) -> y_q s' = y_q s /\ y_log s' = y_log s /\ y_net s' = y_net s.
  Proof.
    unfold Sim.read_local. destruct (node_of_proc s p) as [[nname nd]|]; [|discriminate]. cbn [bind].
    destruct (sget N.compare p (sd_procs nd)) as [pe|]; [|discriminate].
    destruct (pe_outbox pe); intros H; inv H; auto.
  Qed.

  Lemma basic_q_mono s o s' r : BaseInv s -> is_basic o = true -> sim_op 0 s o = Ok (s', r) -> q_mono (y_q s) (y_q s').
  Proof.
    intros B Hb H. destruct o; try discriminate Hb; cbn [Sim.sim_op] in H.
    - destruct (shas N.compare name (y_nodes s)); [discriminate|]. inv H. apply q_mono_refl.
    - destruct (sget N.compare node (y_nodes s)); [|discriminate].
      destruct (shas N.compare proc (y_proc_nodes s)); [discriminate|]. inv H. apply q_mono_refl.
    - destruct (sget N.compare node (y_nodes s)); [|discriminate]. inv H. apply q_mono_refl.
    - destruct (snet_apply (y_net s) (now s) o). inv H. apply q_mono_refl.
    - destruct (sget N.compare node (y_nodes s)) as [nd|]; [|discriminate]. inv H.
      unfold set_handler, y_with. cbn [y_q]. split; [cbn; lia|]. intros e He. left.
      pose proof (qw_nodup _ _ (bi_q _ B)) as Hn.
      rewrite q_live_cancel_pred in He by exact Hn. apply filter_In in He. destruct He as [He _].
      rewrite q_live_cancel_pred in He by exact Hn. apply filter_In in He. tauto.
    - destruct (sget N.compare node (y_nodes s)) as [nd|]; [|discriminate].
      destruct (negb (sd_crashed nd)); [discriminate|].
      destruct (sget N.compare (sd_id nd) (y_handlers s)) as [[|]|]; inv H; apply q_mono_refl.
  Qed.

  Theorem sstep_q_mono s lab s' : BaseInv s -> sstep s lab s' -> q_mono (y_q s) (y_q s').
  Proof.
    intros B H. pose proof (qw_nodup _ _ (bi_q _ B)) as Hn. destruct H.
    - eapply q_next_mono; eauto.
    - eapply q_mono_trans; [eapply q_next_mono; eauto|]. apply q_mono_live_eq; reflexivity.
    - apply q_mono_live_eq; reflexivity.
    - eapply sys_action_q_mono; eauto.
    - eapply q_peek_mono; eauto.
    - apply q_mono_live_eq; reflexivity.
    - apply read_local_q in H. destruct H as [-> _]. apply q_mono_refl.
    - eapply basic_q_mono; eauto.
  Qed.

  Theorem sstar_q_mono s l s' : BaseInv s -> sstar s l s' -> q_mono (y_q s) (y_q s').
  Proof.
    intros B H. induction H; [apply q_mono_refl|].
    eapply q_mono_trans; [eapply sstep_q_mono; eauto|]. apply IHsstar. eapply base_sstep; eauto.
  Qed.

  (* a queue id that is not live any more (delivered, dropped or cancelled) never becomes live again;
     in particular it is never delivered: q_next only returns live events *)
  Definition dead_id (i : N) (q : simq) : Prop := i < q_count q /\ forall e, In e (q_live q) -> q_id e <> i.

  Lemma dead_id_mono i (q q' : simq) : q_mono q q' -> dead_id i q -> dead_id i q'.
  Proof.
    intros [M1 M2] [D1 D2]. split; [lia|]. intros e He. apply M2 in He. destruct He as [He|He]; auto. lia.
  Qed.

  Lemma cancelled_dead i (q : simq) : i < q_count q -> In i (q_canceled q) -> dead_id i q.
  Proof.
    intros Hi Hc. split; auto. intros e He E. apply in_q_live in He. destruct He as [_ He].
    apply nmem_false_iff in He. apply He. rewrite E. auto.
  Qed.

  Lemma q_next_live (q q' : simq) e : NoDup (map q_id (q_events q)) -> q_next ops q = (q', Some e) -> In e (q_live q).
  Proof.
    intros Hn H. apply q_next_spec in H; auto. destruct H as [_ [_ [l1 [l2 [E _]]]]]. rewrite E.
    apply in_app_iff. cbn. auto.
  Qed.

  Theorem dead_never_delivered i s l s1 q' e :
    BaseInv s -> dead_id i (y_q s) -> sstar s l s1 -> q_next ops (y_q s1) = (q', Some e) -> q_id e <> i.
  Proof.
    intros B D S H. pose proof (base_sstar _ _ _ B S) as B1.
    apply (dead_id_mono i _ _ (sstar_q_mono _ _ _ B S)) in D. destruct D as [_ D]. apply D.
    eapply q_next_live; eauto. apply (qw_nodup _ _ (bi_q _ B1)).
  Qed.

  Lemma read_local_none s p s' : read_local s p = Ok (s', None) -> s' = s.
  Proof.
    unfold Sim.read_local. destruct (node_of_proc s p) as [[nname nd]|]; [|discriminate]. cbn [bind].
    destruct (sget N.compare p (sd_procs nd)) as [pe|]; [|discriminate].
    destruct (pe_outbox pe); intros H; inv H. reflexivity.
  Qed.

  Lemma read_local_some s p s' l : read_local s p = Ok (s', Some l) -> l <> [].
  Proof.
    unfold Sim.read_local. destruct (node_of_proc s p) as [[nname nd]|]; [|discriminate]. cbn [bind].
    destruct (sget N.compare p (sd_procs nd)) as [pe|]; [|discriminate].
    destruct (pe_outbox pe); intros H; inv H. discriminate.
  Qed.

  Definition opt_reads (p : N) (r : option (list msg)) : list slabel :=
    match r with Some l => [LRead p l] | None => [] end.

  Lemma read_sstar s p s' r : read_local s p = Ok (s', r) -> sstar s (opt_reads p r) s'.
  Proof.
    intros H. destruct r as [l|]; cbn.
    - apply (sstar_one s (LRead p l)). constructor. auto.
    - apply read_local_none in H. subst. constructor.
  Qed.

  Lemma steps_fuel_sstar fuel : forall s n s' b, BaseInv s -> steps_fuel ops handler draws fuel s n = Ok (s', b) -> sstar s [] s'.
  Proof.
    induction fuel as [|f IH]; intros s n s' b B H; cbn [steps_fuel] in H; [discriminate|].
    destruct (N.eqb n 0).
    - inv H. constructor.
    - destruct (step s) as [[s1 b1]|] eqn:E; [|discriminate]. cbn [bind] in H.
      pose proof (step_sstar _ _ _ B E) as S1. destruct b1.
      + eapply sstar_tau; eauto. eapply IH; eauto. eapply base_sstar; eauto.
      + inv H. auto.
  Qed.

  Lemma until_no_events_sstar fuel : forall s s', BaseInv s -> until_no_events ops handler draws fuel s = Ok s' -> sstar s [] s'.
  Proof.
    induction fuel as [|f IH]; intros s s' B H; cbn [until_no_events] in H; [discriminate|].
    destruct (step s) as [[s1 b1]|] eqn:E; [|discriminate]. cbn [bind] in H.
    pose proof (step_sstar _ _ _ B E) as S1. destruct b1.
    - eapply sstar_tau; eauto. eapply IH; eauto. eapply base_sstar; eauto.
    - inv H. auto.
  Qed.

  Lemma until_time_sstar fuel : forall s t s' b, BaseInv s -> until_time ops handler draws fuel s t = Ok (s', b) -> sstar s [] s'.
  Proof.
    induction fuel as [|f IH]; intros s t s' b B H; cbn [until_time] in H; [discriminate|].
    destruct (q_peek ops (y_q s)) as [q' oe] eqn:Ep. fold (with_q s q') in H.
    assert (S1 : sstar s [] (with_q s q')) by (apply (sstar_one s LTau); eapply ss_peek; eauto).
    assert (S2 : forall t, sstar s [] (set_clock (with_q s q') t)).
    { intros t0. eapply sstar_tau; eauto. apply (sstar_one _ LTau). constructor. }
    destruct oe as [e|].
    - destruct (tltb ops t (q_time e)).
      + inv H. auto.
      + destruct (step (with_q s q')) as [[s2 b2]|] eqn:E; [|discriminate]. cbn [bind] in H.
        assert (B1 : BaseInv (with_q s q')) by (eapply base_sstar; eauto).
        pose proof (step_sstar _ _ _ B1 E) as S3.
        eapply sstar_tau; eauto. eapply sstar_tau; eauto. eapply IH; eauto. eapply base_sstar; eauto.
    - inv H. auto.
  Qed.

  Lemma until_local_sstar fuel : forall s p s' r, BaseInv s ->
    until_local ops handler draws fuel s p = Ok (s', r) -> sstar s (opt_reads p r) s'.
  Proof.
    induction fuel as [|f IH]; intros s p s' r B H; cbn [until_local] in H; [discriminate|].
    destruct (read_local s p) as [[s1 r1]|] eqn:E; [|discriminate]. cbn [bind] in H.
    destruct r1 as [l|].
    - inv H. apply read_sstar. auto.
    - apply read_local_none in E. subst s1.
      destruct (step s) as [[s2 b2]|] eqn:E2; [|discriminate]. cbn [bind] in H.
      pose proof (step_sstar _ _ _ B E2) as S1. destruct b2.
      + eapply sstar_tau; eauto. eapply IH; eauto. eapply base_sstar; eauto.
      + inv H. auto.
  Qed.

  Lemma until_local_max_sstar fuel : forall s p st mx s' r, BaseInv s ->
    until_local_max ops handler draws fuel s p st mx = Ok (s', r) -> sstar s (opt_reads p r) s'.
  Proof.
    induction fuel as [|f IH]; intros s p st mx s' r B H; cbn [until_local_max] in H; [discriminate|].
    destruct (N.ltb st mx).
    2:{ inv H. constructor. }
    destruct (step s) as [[s1 b1]|] eqn:E; [|discriminate]. cbn [bind] in H.
    pose proof (step_sstar _ _ _ B E) as S1.
    assert (B1 : BaseInv s1) by (eapply base_sstar; eauto).
    destruct b1.
    2:{ inv H. auto. }
    destruct (read_local s1 p) as [[s2 r2]|] eqn:E2; [|discriminate]. cbn [bind] in H.
    destruct r2 as [l|].
    - inv H. eapply sstar_tau; eauto. apply read_sstar. auto.
    - apply read_local_none in E2. subst s2. eapply sstar_tau; eauto.
  Qed.

  Lemma until_local_timeout_sstar fuel : forall s p t s' r, BaseInv s ->
    until_local_timeout ops handler draws fuel s p t = Ok (s', r) -> sstar s (opt_reads p r) s'.
  Proof.
    induction fuel as [|f IH]; intros s p t s' r B H; cbn [until_local_timeout] in H; [discriminate|].
    destruct (tltb ops (now s) t).
    2:{ inv H. constructor. }
    destruct (read_local s p) as [[s1 r1]|] eqn:E; [|discriminate]. cbn [bind] in H.
    destruct r1 as [l|].
    - inv H. apply read_sstar. auto.
    - apply read_local_none in E. subst s1.
      destruct (step s) as [[s2 b2]|] eqn:E2; [|discriminate]. cbn [bind] in H.
      pose proof (step_sstar _ _ _ B E2) as S1. destruct b2.
      + eapply sstar_tau; eauto. eapply IH; eauto. eapply base_sstar; eauto.
      + inv H. auto.
  Qed.

  (* the labels of an API call: the non-stepping calls are one transition labelled with the call; the others
     show the outbox read they report to their caller, if any *)
  Definition reads_of (o : sop (T := T)) (r : sret) : list slabel :=
    if is_basic o then [LOp o] else
    match o, r with
    | YReadLocal p, RetMsgs (m :: l) => [LRead p (m :: l)]
    | YStepUntilLocal p, RetLocal (Some l) => [LRead p l]
    | YStepUntilLocalMax p _, RetLocal (Some l) => [LRead p l]
    | YStepUntilLocalTimeout p _, RetLocal (Some l) => [LRead p l]
    | _, _ => []
    end.

  Theorem sim_op_sstar fuel s o s' r : BaseInv s -> sim_op fuel s o = Ok (s', r) -> sstar s (reads_of o r) s'.
  Proof.
    intros B H.
    assert (Hbasic : is_basic o = true -> sstar s (reads_of o r) s').
    { intros Hb. replace (reads_of o r) with (lab_list (LOp o)) by (unfold reads_of; rewrite Hb; reflexivity).
      apply sstar_one. eapply ss_basic; eauto. destruct o; try discriminate Hb; exact H. }
    destruct o; try (apply Hbasic; reflexivity); clear Hbasic; cbn [Sim.sim_op] in H.
    - (* YSendLocal *)
      destruct (node_of_proc s proc) as [[nname nd]|] eqn:En; [|discriminate]. cbn [bind] in H.
      destruct (sd_crashed nd) eqn:Hc; [discriminate|].
      match type of H with bind ?x _ = _ => destruct x as [[nd' w']|] eqn:Eh; [|discriminate] end.
      cbn [bind] in H. inv H. cbn [reads_of].
      unfold node_of_proc in En.
      destruct (sget N.compare proc (y_proc_nodes s)) as [nn|] eqn:Epn; [|discriminate].
      destruct (sget N.compare nn (y_nodes s)) as [nd0|] eqn:Enn; inv En.
      apply (handle_sstar s s nname nd _ _ nd' w' Enn Hc Eh).
      intros p st' used Hp. eapply ss_local; eauto.
    - (* YReadLocal *)
      destruct (read_local s proc) as [[s1 ro]|] eqn:E; [|discriminate]. cbn [bind] in H. inv H.
      destruct ro as [l|].
      + pose proof (read_local_some _ _ _ _ E). destruct l as [|m l]; [congruence|].
        cbn [reads_of]. apply (read_sstar _ _ _ _ E).
      + cbn [reads_of]. apply (read_sstar _ _ _ _ E).
    - destruct (step s) as [[s1 b]|] eqn:E; [|discriminate]. cbn [bind] in H. inv H.
      eapply step_sstar; eauto.
    - destruct (steps_fuel _ _ _ _ _ _) as [[s1 b]|] eqn:E; [|discriminate]. cbn [bind] in H. inv H.
      eapply steps_fuel_sstar; eauto.
    - destruct (until_no_events _ _ _ _ _) as [s1|] eqn:E; [|discriminate]. cbn [bind] in H. inv H.
      eapply until_no_events_sstar; eauto.
    - destruct (until_time _ _ _ _ _ _) as [[s1 b]|] eqn:E; [|discriminate]. cbn [bind] in H. inv H.
      eapply until_time_sstar; eauto.
    - destruct (node_of_proc s proc); [|discriminate]. cbn [bind] in H.
      destruct (until_local _ _ _ _ _ _) as [[s1 ro]|] eqn:E; [|discriminate]. cbn [bind] in H. inv H.
      apply until_local_sstar in E; [|exact B]. destruct ro; exact E.
    - destruct (node_of_proc s proc); [|discriminate]. cbn [bind] in H.
      destruct (read_local s proc) as [[s1 ro]|] eqn:E; [|discriminate]. cbn [bind] in H.
      destruct ro as [l|].
      + inv H. apply (read_sstar _ _ _ _ E).
      + apply read_local_none in E. subst s1.
        destruct (until_local_max _ _ _ _ _ _ _ _) as [[s2 ro]|] eqn:E2; [|discriminate]. cbn [bind] in H. inv H.
        apply until_local_max_sstar in E2; [|exact B]. destruct ro; exact E2.
    - destruct (node_of_proc s proc); [|discriminate]. cbn [bind] in H.
      destruct (until_local_timeout _ _ _ _ _ _ _) as [[s1 ro]|] eqn:E; [|discriminate]. cbn [bind] in H. inv H.
      apply until_local_timeout_sstar in E; [|exact B]. destruct ro; exact E.
  Qed.

  (* ---- runs ---- *)
  Fixpoint run_reads (l : list (sop (T := T))) (rets : list sret) : list slabel :=
    match l, rets with
    | o :: l', r :: rets' => reads_of o r ++ run_reads l' rets'
    | _, _ => []
    end.

  Theorem run_ops_sstar fuel : forall l s s' rets,
    BaseInv s -> run_ops fuel s l = Ok (s', rets) -> sstar s (run_reads l rets) s'.
  Proof.
    induction l as [|o l IH]; intros s s' rets B H; cbn [SimSpec.run_ops] in H.
    - inv H. constructor.
    - destruct (sim_op fuel s o) as [[s1 ret]|] eqn:E; [|discriminate]. cbn [bind] in H.
      destruct (run_ops fuel s1 l) as [[s2 rets']|] eqn:E2; [|discriminate]. cbn [bind] in H. inv H.
      pose proof (sim_op_sstar _ _ _ _ _ B E) as S1.
      cbn [run_reads]. eapply sstar_app; eauto. apply IH; auto. eapply base_sstar; eauto.
  Qed.

  Theorem reachable_sstar s : Reachable s -> exists reads, sstar (sys0 ops) reads s.
  Proof.
    intros [fuel [l [rets H]]]. eexists. eapply run_ops_sstar; eauto. apply base_sys0.
  Qed.

  Theorem reachable_base s : Reachable s -> BaseInv s.
  Proof. intros H. destruct (reachable_sstar _ H) as [reads S]. eapply base_sstar; eauto. apply base_sys0. Qed.

  (* induction principle: an invariant of all transitions (from structurally sound states) holds in all reachable states *)
  Theorem sstar_inv (P : simsys -> Prop) :
    (forall s lab s', BaseInv s -> P s -> sstep s lab s' -> P s') ->
    forall s l s', BaseInv s -> P s -> sstar s l s' -> P s'.
  Proof.
    intros Hstep s l s' B HP S. induction S; auto.
    apply IHS.
    - eapply base_sstep; eauto.
    - eapply Hstep; eauto.
  Qed.

  Theorem reachable_inv (P : simsys -> Prop) :
    P (sys0 ops) ->
    (forall s lab s', BaseInv s -> P s -> sstep s lab s' -> P s') ->
    forall s, Reachable s -> P s.
  Proof.
    intros H0 Hstep s HR. destruct (reachable_sstar _ HR) as [reads S].
    eapply sstar_inv; eauto. apply base_sys0.
  Qed.
End Small.

Arguments sstep {T} ops {PS} handler init_state draws crash_order.
Arguments sstar {T} ops {PS} handler init_state draws crash_order.
Arguments BaseInv {T PS}.
Arguments qwf {T}.

Print Assumptions sim_op_sstar.
Print Assumptions reachable_inv.
Print Assumptions reachable_base.
Print Assumptions dead_never_delivered.
