(* C01: the observable results do not depend on the iteration order of hash collections.

   The code iterates hash maps / hash sets (and simcore's BinaryHeap) at a few audited sites.  In the models each site
   is either a container sorted by key (canonical by construction, UtilP.ssorted_ext) or an explicit ORDER ORACLE:
     - McRun.run_from_states takes `ord` (iteration order of the HashSet of start states), then sorts by start_cmp;
     - Sim.sim_op takes `crash_order` (order in which System::crash_node logs the dropped in-flight messages).
   This file proves that the oracles do not influence anything observable.

   O1  sort_starts_perm (l l') :
         StartOrder tr_cmp l -> NoDup l -> Permutation l' l -> sort_starts tr_cmp l' = sort_starts tr_cmp l
       where StartOrder l says that start_cmp is a strict total order on the members of l:
         sord_eq    In a l -> In b l -> start_cmp a b = Eq -> a = b                      (pairwise distinct keys)
         sord_anti  In a l -> In b l -> (start_cmp a b = Lt <-> start_cmp b a = Gt)
         sord_trans In a,b,c l -> start_cmp a b = Lt -> start_cmp b c = Lt -> start_cmp a c = Lt.
       StartOrder_of_CmpSpec: StartOrder l follows from `CmpSpec tr_cmp` and pairwise distinct (depth, trace, pending ids) keys
       (the pending ids were added to the key by fix F16).
       run_from_states_order_independent: for oracles ord1 ord2 with Permutation (ord_i starts) starts, the whole
       value returned by run_from_states (rolled-back system, verdict / error trace / statuses / collected states,
       strategy state incl. ss_checked and statistics) is the same.
       The distinct-keys hypothesis is necessary (sort_starts_ties_keep_order, sort_starts_not_canonical_on_ties):
       the sort is stable, so two different states with equal keys stay in oracle order.

   O2  log_equiv : the two traces consist of the same sequence of segments; a segment is one entry (identical on both
       sides) or an LNodeCrashed entry directly followed by a block of LMessageDropped entries, the two blocks being
       permutations of each other.  Three formulations are proved equivalent:
         log_equiv (inductive, blocks need not be maximal), log_equiv_max (every block is the MAXIMAL run of
         LMessageDropped entries after its LNodeCrashed: log_equiv_max_iff), and the list-of-segments formulation
         (log_equiv_segments).  log_equiv is an equivalence relation (refl, sym, log_equiv_trans); equivalent traces
         are permutations of each other, agree exactly on everything that is not an LMessageDropped entry
         (log_equiv_not_dropped), and are equal if there is no crash entry (log_equiv_no_crash).
       sys_equiv s1 s2 := all fields but y_log equal (queue with clock / counters / draws consumed, network, nodes with
       process states, event logs, outboxes, counters, proc_nodes, handlers, ncomp) and log_equiv (y_log s1) (y_log s2).
       sim_op_crash_order_independent / run_ops_crash_order_independent: for oracles co1 co2 with
       `forall l, Permutation (co_i l) l` and sys_equiv s1 s2: an Ok result with co1 is matched by an Ok result with co2
       with the SAME return value(s) and sys_equiv final states; a Panic by the same Panic.
       (sim_op_res_equiv / run_ops_res_equiv are the symmetric `match`-style statements;
       reachable_crash_order_independent lifts to SimSpec.Reachable.)
       Proof: frame lemmas `f (spre L s) = lift_s L (f s)` for every function below sim_op (the log is only ever
       appended to: a prefix L is carried along untouched, sim_op_frame holds for ANY oracle), then the two oracles are
       compared at the same state with the empty log, where only the YCrash case differs.

   O3  mc_crash_order_free: McSys.crash_node iterates `map fst (nd_procs nd)`; for ssorted process maps this list is
       determined by the SET of process names (ssorted_keys_ext, via ssorted_ext), so the model needs no oracle there.
       mc_procs_canonical: same bindings -> same map.

   Nothing in the task statement turned out to be false; nothing was weakened.  The only additions are the explicit
   packaging of the order hypotheses as the record StartOrder, and the hypothesis-free helper lemmas above.
   No axioms: see the Print Assumptions lines at the end. *)
From Coq Require Import List NArith Bool Lia Permutation Sorting.
From ASV Require Import Base.Util Base.Msg Base.Log Proofs.UtilP Model.Store Model.McSys Model.Search Model.McRun
     Model.Sim Spec.SimSpec.
Import ListNotations.
Open Scope N_scope.

(* ================================================================================================ *)
(* O1. run_from_states: the HashSet order of the start states is erased by sort_starts             *)
(* ================================================================================================ *)

Section O1.
  Context {T SE : Type} (so : @store_ops T SE) {PS : Type}.
  Variable tr_cmp : list (logentry T) -> list (logentry T) -> comparison.
  Notation mcstate := (@mcstate T SE PS).
  Notation start_cmp := (@start_cmp T SE so PS tr_cmp).
  Notation insert_stable := (@insert_stable T SE so PS tr_cmp).
  Notation sort_starts := (@sort_starts T SE so PS tr_cmp).

  Definition slt (a b : mcstate) : Prop := start_cmp a b = Lt.

  (* start_cmp is a strict total order on the members of l *)
  Record StartOrder (l : list mcstate) : Prop := {
    sord_eq : forall a b, In a l -> In b l -> start_cmp a b = Eq -> a = b;
    sord_anti : forall a b, In a l -> In b l -> (start_cmp a b = Lt <-> start_cmp b a = Gt);
    sord_trans : forall a b c, In a l -> In b l -> In c l ->
                             start_cmp a b = Lt -> start_cmp b c = Lt -> start_cmp a c = Lt }.

  Lemma insert_stable_perm x l : Permutation (insert_stable x l) (x :: l).
  Proof.
    induction l as [|y r IH]; cbn [McRun.insert_stable].
    - apply Permutation_refl.
    - destruct (start_cmp x y) eqn:?.
      + eapply perm_trans; [apply perm_skip, IH | apply perm_swap].
      + apply Permutation_refl.
      + eapply perm_trans; [apply perm_skip, IH | apply perm_swap].
  Qed.

  Lemma sort_fold_perm l : forall acc,
    Permutation (fold_left (fun acc x => insert_stable x acc) l acc) (acc ++ l).
  Proof.
    induction l as [|x r IH]; intros acc; cbn [fold_left].
    - rewrite app_nil_r. apply Permutation_refl.
    - eapply perm_trans; [apply IH|].
      eapply perm_trans; [apply Permutation_app_tail, insert_stable_perm|].
      cbn [app]. apply Permutation_middle.
  Qed.

  Lemma sort_starts_is_perm l : Permutation (sort_starts l) l.
  Proof. unfold McRun.sort_starts. apply (sort_fold_perm l []). Qed.

  Section Ordered.
    Variable univ : list mcstate.
    Hypothesis ord : StartOrder univ.

    Lemma slt_irrefl a : In a univ -> ~ slt a a.
    Proof.
      unfold slt. intros Ha Hlt. pose proof (proj1 (sord_anti _ ord a a Ha Ha) Hlt) as Hgt.
      rewrite Hlt in Hgt. discriminate.
    Qed.

    (* inserting a new element into a strictly sorted list keeps it strictly sorted *)
    Lemma insert_stable_sorted x l :
      In x univ -> incl l univ -> ~ In x l ->
      StronglySorted slt l -> StronglySorted slt (insert_stable x l).
    Proof.
      intros Hx. induction l as [|y r IH]; intros Hincl Hnin Hs; cbn [McRun.insert_stable].
      - constructor; constructor.
      - assert (Hy : In y univ) by (apply Hincl; left; reflexivity).
        assert (Hr : incl r univ) by (intros z Hz; apply Hincl; right; exact Hz).
        pose proof Hs as Hs0.
        apply StronglySorted_inv in Hs. destruct Hs as [Hsr Hall].
        assert (Hrec : slt y x -> StronglySorted slt (y :: insert_stable x r)).
        { intros Hyx. constructor.
          - apply IH; auto. intros Hin. apply Hnin. right. exact Hin.
          - rewrite Forall_forall in *. intros z Hz.
            apply (Permutation_in _ (insert_stable_perm x r)) in Hz. destruct Hz as [Hz|Hz].
            + subst z. exact Hyx.
            + apply Hall. exact Hz. }
        destruct (start_cmp x y) eqn:Hc.
        + exfalso. apply Hnin. left. symmetry. apply (sord_eq _ ord); assumption.
        + constructor; [exact Hs0|]. constructor; [exact Hc|].
          rewrite Forall_forall in *. intros z Hz.
          apply (sord_trans _ ord x y z); auto.
          apply Hall. exact Hz.
        + apply Hrec. apply (sord_anti _ ord y x Hy Hx). exact Hc.
    Qed.

    Lemma sort_fold_sorted l : forall acc,
      incl (acc ++ l) univ -> NoDup (acc ++ l) -> StronglySorted slt acc ->
      StronglySorted slt (fold_left (fun acc x => insert_stable x acc) l acc).
    Proof.
      induction l as [|x r IH]; intros acc Hincl Hnd Hs; cbn [fold_left].
      - exact Hs.
      - assert (Hp : Permutation (acc ++ x :: r) (insert_stable x acc ++ r)).
        { eapply perm_trans; [apply Permutation_sym, Permutation_middle|].
          change (x :: acc ++ r) with ((x :: acc) ++ r).
          apply Permutation_app_tail, Permutation_sym, insert_stable_perm. }
        apply IH.
        + intros z Hz. apply Hincl. apply (Permutation_in _ (Permutation_sym Hp)). exact Hz.
        + apply (Permutation_NoDup Hp). exact Hnd.
        + apply insert_stable_sorted.
          * apply Hincl. apply in_or_app. right. left. reflexivity.
          * intros z Hz. apply Hincl. apply in_or_app. left. exact Hz.
          * apply NoDup_remove_2 in Hnd. intros Hin. apply Hnd. apply in_or_app. left. exact Hin.
          * exact Hs.
    Qed.

    Lemma sort_starts_sorted l : incl l univ -> NoDup l -> StronglySorted slt (sort_starts l).
    Proof.
      intros Hincl Hnd. unfold McRun.sort_starts. apply sort_fold_sorted; cbn [app]; auto. constructor.
    Qed.

    (* a strictly sorted list is determined by its set of elements *)
    Lemma sorted_perm_eq l1 : forall l2,
      incl l1 univ -> StronglySorted slt l1 -> StronglySorted slt l2 -> Permutation l1 l2 -> l1 = l2.
    Proof.
      induction l1 as [|a r1 IH]; intros l2 Hincl Hs1 Hs2 Hp.
      - apply Permutation_nil in Hp. symmetry. exact Hp.
      - destruct l2 as [|b r2].
        + apply Permutation_sym, Permutation_nil in Hp. discriminate Hp.
        + apply StronglySorted_inv in Hs1. destruct Hs1 as [Hsr1 Hall1].
          apply StronglySorted_inv in Hs2. destruct Hs2 as [Hsr2 Hall2].
          rewrite Forall_forall in Hall1, Hall2.
          assert (Ha : In a univ) by (apply Hincl; left; reflexivity).
          assert (Hb1 : In b (a :: r1)) by (apply (Permutation_in _ (Permutation_sym Hp)); left; reflexivity).
          assert (Hb : In b univ) by (apply Hincl; exact Hb1).
          assert (Ha2 : In a (b :: r2)) by (apply (Permutation_in _ Hp); left; reflexivity).
          assert (Hab : a = b).
          { destruct Hb1 as [Hb1|Hb1]; [exact Hb1|].
            destruct Ha2 as [Ha2|Ha2]; [symmetry; exact Ha2|].
            exfalso. apply (slt_irrefl a Ha).
            apply (sord_trans _ ord a b a Ha Hb Ha); [apply Hall1; exact Hb1 | apply Hall2; exact Ha2]. }
          subst b. f_equal. apply IH.
          * intros z Hz. apply Hincl. right. exact Hz.
          * exact Hsr1.
          * exact Hsr2.
          * apply Permutation_cons_inv in Hp. exact Hp.
    Qed.
  End Ordered.

  (* O1: on a duplicate-free list on which start_cmp is a strict total order, the sorted list does not depend on the
     order in which the elements are presented *)
  Theorem sort_starts_perm (l l' : list mcstate) :
    StartOrder l -> NoDup l -> Permutation l' l -> sort_starts l' = sort_starts l.
  Proof.
    intros Hord Hnd Hp.
    assert (Hincl' : incl l' l) by (intros z Hz; apply (Permutation_in _ Hp); exact Hz).
    apply (sorted_perm_eq l Hord).
    - intros z Hz. apply Hincl'. apply (Permutation_in _ (sort_starts_is_perm l')). exact Hz.
    - apply (sort_starts_sorted l Hord); [exact Hincl'|].
      apply (Permutation_NoDup (Permutation_sym Hp)). exact Hnd.
    - apply (sort_starts_sorted l Hord); [apply incl_refl | exact Hnd].
    - eapply perm_trans; [apply sort_starts_is_perm|].
      eapply perm_trans; [exact Hp|]. apply Permutation_sym, sort_starts_is_perm.
  Qed.

  (* The hypothesis `start_cmp a b = Eq -> a = b` (pairwise distinct keys) cannot be dropped: insert_stable is a
     STABLE insertion, so two distinct states with equal keys (same depth, traces with equal renderings) stay in
     the order in which the oracle presents them. *)
  Lemma sort_starts_ties_keep_order (a b : mcstate) :
    start_cmp a b = Eq -> start_cmp b a = Eq ->
    sort_starts [a; b] = [a; b] /\ sort_starts [b; a] = [b; a].
  Proof.
    intros Hab Hba. unfold McRun.sort_starts. cbn [fold_left McRun.insert_stable].
    rewrite Hab, Hba. split; reflexivity.
  Qed.

  Corollary sort_starts_not_canonical_on_ties (a b : mcstate) :
    a <> b -> start_cmp a b = Eq -> start_cmp b a = Eq ->
    Permutation [b; a] [a; b] /\ sort_starts [b; a] <> sort_starts [a; b].
  Proof.
    intros Hne Hab Hba. split; [apply perm_swap|].
    destruct (sort_starts_ties_keep_order a b Hab Hba) as [-> ->].
    intros Heq. injection Heq as Heq _. apply Hne. symmetry. exact Heq.
  Qed.

  (* the hypotheses of sort_starts_perm hold as soon as tr_cmp is a lawful total order on traces (it is the order
     of the Debug renderings) and the states of l have pairwise distinct keys (depth, trace, ids of pending events) *)
  Lemma StartOrder_of_CmpSpec (l : list mcstate) :
    CmpSpec tr_cmp ->
    (forall a b, In a l -> In b l -> st_depth a = st_depth b -> st_trace a = st_trace b ->
                 pending_ids so a = pending_ids so b -> a = b) ->
    StartOrder l.
  Proof.
    intros CS0 Hkey.
    assert (CS : CmpSpec (cmp_pair tr_cmp (cmp_list N.compare))).
    { apply CmpSpec_pair; [exact CS0 | apply CmpSpec_list; exact CmpSpec_N]. }
    split.
    - intros a b Ha Hb. unfold McRun.start_cmp.
      destruct (N.compare (st_depth a) (st_depth b)) eqn:Hd; try discriminate.
      intros Ht. apply N.compare_eq in Hd. apply (cmp_eq _ CS) in Ht. unfold start_key in Ht.
      injection Ht as Ht1 Ht2. apply Hkey; assumption.
    - intros a b _ _. unfold McRun.start_cmp.
      rewrite (N.compare_antisym (st_depth a) (st_depth b)).
      destruct (N.compare (st_depth a) (st_depth b)) eqn:Hd; cbn [CompOpp].
      + split; [apply (cmp_lt_gt _ CS) | apply (cmp_gt_lt _ CS)].
      + split; reflexivity.
      + split; discriminate.
    - intros a b c _ _ _. unfold McRun.start_cmp.
      destruct (N.compare (st_depth a) (st_depth b)) eqn:Hab; try discriminate;
      destruct (N.compare (st_depth b) (st_depth c)) eqn:Hbc; try discriminate; intros H1 H2.
      + apply N.compare_eq in Hab, Hbc. rewrite Hab, Hbc, N.compare_refl.
        eapply (cmp_lt_trans _ CS); eassumption.
      + apply N.compare_eq in Hab. rewrite Hab, Hbc. reflexivity.
      + apply N.compare_eq in Hbc. rewrite <- Hbc, Hab. reflexivity.
      + rewrite N.compare_lt_iff in Hab, Hbc.
        assert (Hac : N.compare (st_depth a) (st_depth c) = Lt) by (apply N.compare_lt_iff; lia).
        rewrite Hac. reflexivity.
  Qed.
End O1.

Section O1Run.
  Context {T SE : Type} (so : @store_ops T SE).
  Variable teqb : T -> T -> bool.
  Variable tgt0 teq0 : T -> bool.
  Variable t0 : T.
  Variable clock : N -> T -> T.
  Context {PS : Type}.
  Variable ps_eqb : PS -> PS -> bool.
  Variable handler : N -> PS -> input -> T -> (nat -> T) -> PS * list (action T).
  Variable DS : Type.
  Variable mc_rand : DS -> nat -> T.
  Variable ds_of : @mcstate T SE PS -> DS.
  Variable tr_cmp : list (logentry T) -> list (logentry T) -> comparison.
  Notation mcstate := (@mcstate T SE PS).
  Notation run_from_states := (run_from_states so teqb tgt0 teq0 t0 clock ps_eqb handler DS mc_rand ds_of tr_cmp).

  (* Everything run_from_states returns (the rolled-back system, the verdict with its error trace / statuses /
     collected states, and the strategy state with ss_checked = the order of predicate evaluations and the
     statistics) is the same for any two iteration orders of the HashSet of start states. *)
  Corollary run_from_states_order_independent (ord1 ord2 : list mcstate -> list mcstate) cf pr sys cb starts :
    StartOrder so tr_cmp starts -> NoDup starts ->
    Permutation (ord1 starts) starts -> Permutation (ord2 starts) starts ->
    run_from_states ord1 cf pr sys cb starts = run_from_states ord2 cf pr sys cb starts.
  Proof.
    intros Hord Hnd Hp1 Hp2. unfold McRun.run_from_states.
    rewrite (sort_starts_perm so tr_cmp starts (ord1 starts) Hord Hnd Hp1).
    rewrite (sort_starts_perm so tr_cmp starts (ord2 starts) Hord Hnd Hp2).
    reflexivity.
  Qed.
End O1Run.

(* ================================================================================================ *)
(* O2. the simulator: the order oracle of crash_node only permutes a block of the trace             *)
(* ================================================================================================ *)

Section LogEquiv.
  Context {T : Type}.
  Notation logentry := (logentry T).

  Definition is_dropped (e : logentry) : bool :=
    match e with LMessageDropped _ _ _ _ _ _ _ => true | _ => false end.

  (* Two traces are equivalent when they are built from the same sequence of segments, where a segment is either a
     single entry (the same in both traces) or an LNodeCrashed entry directly followed by a block of LMessageDropped
     entries, the two blocks being permutations of each other. *)
  Inductive log_equiv : list logentry -> list logentry -> Prop :=
  | le_nil : log_equiv [] []
  | le_cons e a b : log_equiv a b -> log_equiv (e :: a) (e :: b)
  | le_crash t n d1 d2 a b :
      Forall (fun e => is_dropped e = true) d1 -> Permutation d1 d2 -> log_equiv a b ->
      log_equiv (LNodeCrashed t n :: d1 ++ a) (LNodeCrashed t n :: d2 ++ b).

  Lemma log_equiv_refl l : log_equiv l l.
  Proof. induction l as [|e r IH]; constructor; exact IH. Qed.

  Lemma log_equiv_sym a b : log_equiv a b -> log_equiv b a.
  Proof.
    induction 1 as [|e a b _ IH|t n d1 d2 a b Hd Hp _ IH].
    - constructor.
    - constructor. exact IH.
    - apply le_crash.
      + apply Forall_forall. intros e He. rewrite Forall_forall in Hd.
        apply Hd. apply (Permutation_in _ (Permutation_sym Hp)). exact He.
      + apply Permutation_sym. exact Hp.
      + exact IH.
  Qed.

  Lemma log_equiv_app a b c d : log_equiv a b -> log_equiv c d -> log_equiv (a ++ c) (b ++ d).
  Proof.
    intros Hab Hcd. induction Hab as [|e a b _ IH|t n d1 d2 a b Hd Hp _ IH]; cbn [app].
    - exact Hcd.
    - constructor. exact IH.
    - rewrite <- !app_assoc. apply le_crash; assumption.
  Qed.

  (* the block logged by one crash *)
  Lemma log_equiv_crash_block t n d1 d2 :
    Forall (fun e => is_dropped e = true) d1 -> Permutation d1 d2 ->
    log_equiv ([LNodeCrashed t n] ++ d1) ([LNodeCrashed t n] ++ d2).
  Proof.
    intros Hd Hp. cbn [app]. rewrite <- (app_nil_r d1), <- (app_nil_r d2).
    apply le_crash; [exact Hd | exact Hp | apply le_nil].
  Qed.

  (* sanity: equivalent traces have the same entries, and the same entries in the same order once the
     MessageDropped entries are left out; the MessageDropped entries themselves are a permutation *)
  Lemma log_equiv_Permutation a b : log_equiv a b -> Permutation a b.
  Proof.
    induction 1 as [|e a b _ IH|t n d1 d2 a b Hd Hp _ IH].
    - constructor.
    - constructor. exact IH.
    - constructor. apply Permutation_app; assumption.
  Qed.

  Lemma log_equiv_length a b : log_equiv a b -> length a = length b.
  Proof. intros H. apply Permutation_length, log_equiv_Permutation, H. Qed.

  Lemma filter_all_false {A} (f : A -> bool) l : Forall (fun e => f e = false) l -> filter f l = [].
  Proof.
    induction 1 as [|x r Hx _ IH]; cbn [filter]; [reflexivity|]. rewrite Hx. exact IH.
  Qed.

  Lemma log_equiv_not_dropped a b :
    log_equiv a b -> filter (fun e => negb (is_dropped e)) a = filter (fun e => negb (is_dropped e)) b.
  Proof.
    induction 1 as [|e a b _ IH|t n d1 d2 a b Hd Hp _ IH]; cbn [filter].
    - reflexivity.
    - rewrite IH. reflexivity.
    - cbn [is_dropped negb]. rewrite !filter_app, IH. f_equal. f_equal.
      assert (Hd2 : Forall (fun e => is_dropped e = true) d2).
      { apply Forall_forall. intros e He. rewrite Forall_forall in Hd.
        apply Hd. apply (Permutation_in _ (Permutation_sym Hp)). exact He. }
      rewrite !filter_all_false; [reflexivity| |].
      + eapply Forall_impl; [|exact Hd2]. cbn beta. intros e He. rewrite He. reflexivity.
      + eapply Forall_impl; [|exact Hd]. cbn beta. intros e He. rewrite He. reflexivity.
  Qed.

  Lemma log_equiv_dropped a b :
    log_equiv a b -> Permutation (filter is_dropped a) (filter is_dropped b).
  Proof.
    intros H. apply log_equiv_Permutation in H.
    induction H as [|x l l' _ IH|x y l|l l' l'' _ IH1 _ IH2]; cbn [filter].
    - constructor.
    - destruct (is_dropped x); [constructor|]; exact IH.
    - destruct (is_dropped x), (is_dropped y); try apply Permutation_refl. apply perm_swap.
    - eapply perm_trans; eassumption.
  Qed.

  (* ---- the same relation with MAXIMAL blocks: at every LNodeCrashed entry the whole run of LMessageDropped
          entries that follows it is one block ---- *)
  Definition is_crashed (e : logentry) : bool := match e with LNodeCrashed _ _ => true | _ => false end.
  Definition hd_undropped (l : list logentry) : Prop :=
    match l with [] => True | e :: _ => is_dropped e = false end.

  Inductive log_equiv_max : list logentry -> list logentry -> Prop :=
  | lm_nil : log_equiv_max [] []
  | lm_cons e a b : is_crashed e = false -> log_equiv_max a b -> log_equiv_max (e :: a) (e :: b)
  | lm_crash t n d1 d2 a b :
      Forall (fun e => is_dropped e = true) d1 -> Permutation d1 d2 ->
      hd_undropped a -> hd_undropped b -> log_equiv_max a b ->
      log_equiv_max (LNodeCrashed t n :: d1 ++ a) (LNodeCrashed t n :: d2 ++ b).

  Lemma Forall_dropped_perm d1 d2 :
    Permutation d1 d2 -> Forall (fun e => is_dropped e = true) d1 -> Forall (fun e => is_dropped e = true) d2.
  Proof.
    intros Hp Hd. apply Forall_forall. intros e He. rewrite Forall_forall in Hd.
    apply Hd. apply (Permutation_in _ (Permutation_sym Hp)). exact He.
  Qed.

  Lemma log_equiv_of_max a b : log_equiv_max a b -> log_equiv a b.
  Proof.
    induction 1 as [|e a b _ _ IH|t n d1 d2 a b Hd Hp _ _ _ IH].
    - apply le_nil.
    - apply le_cons. exact IH.
    - apply le_crash; assumption.
  Qed.

  (* strip the common run of MessageDropped entries at the head *)
  Lemma lm_strip a b :
    log_equiv_max a b ->
    exists d a' b', a = d ++ a' /\ b = d ++ b' /\ Forall (fun e => is_dropped e = true) d /\
                    hd_undropped a' /\ hd_undropped b' /\ log_equiv_max a' b'.
  Proof.
    induction 1 as [|e a b He Hab IH|t n d1 d2 a b Hd Hp Ha Hb Hab _].
    - exists [], [], []. repeat split; try constructor.
    - destruct (is_dropped e) eqn:Hde.
      + destruct IH as (d & a' & b' & -> & -> & Hd & Ha' & Hb' & Hab').
        exists (e :: d), a', b'. split; [reflexivity|]. split; [reflexivity|].
        split; [constructor; assumption|]. split; [exact Ha'|]. split; [exact Hb' | exact Hab'].
      + exists [], (e :: a), (e :: b). split; [reflexivity|]. split; [reflexivity|].
        split; [constructor|]. split; [exact Hde|]. split; [exact Hde|]. apply lm_cons; assumption.
    - exists [], (LNodeCrashed t n :: d1 ++ a), (LNodeCrashed t n :: d2 ++ b).
      split; [reflexivity|]. split; [reflexivity|]. split; [constructor|].
      split; [reflexivity|]. split; [reflexivity|]. apply lm_crash; assumption.
  Qed.

  Lemma log_equiv_to_max a b : log_equiv a b -> log_equiv_max a b.
  Proof.
    induction 1 as [|e a b _ IH|t n d1 d2 a b Hd Hp _ IH].
    - apply lm_nil.
    - destruct (is_crashed e) eqn:Hce.
      + destruct e; try discriminate Hce.
        destruct (lm_strip a b IH) as (d & a' & b' & -> & -> & Hd & Ha' & Hb' & Hab').
        apply lm_crash; try assumption. apply Permutation_refl.
      + apply lm_cons; assumption.
    - destruct (lm_strip a b IH) as (d & a' & b' & -> & -> & Hd' & Ha' & Hb' & Hab').
      rewrite !app_assoc. apply lm_crash; try assumption.
      + apply Forall_app. split; assumption.
      + apply Permutation_app_tail. exact Hp.
  Qed.

  (* the inductive definition above and the maximal-block formulation are the same relation *)
  Theorem log_equiv_max_iff a b : log_equiv a b <-> log_equiv_max a b.
  Proof. split; [apply log_equiv_to_max | apply log_equiv_of_max]. Qed.

  Lemma max_split_unique d : forall d' a a',
    Forall (fun e => is_dropped e = true) d -> Forall (fun e => is_dropped e = true) d' ->
    hd_undropped a -> hd_undropped a' -> d ++ a = d' ++ a' -> d = d' /\ a = a'.
  Proof.
    induction d as [|x r IH]; intros d' a a' Hd Hd' Ha Ha' Heq.
    - destruct d' as [|y r']; cbn [app] in Heq.
      + split; [reflexivity | exact Heq].
      + exfalso. subst a. cbn [hd_undropped] in Ha. inversion Hd' as [|? ? Hy _]; subst.
        rewrite Hy in Ha. discriminate Ha.
    - destruct d' as [|y r']; cbn [app] in Heq.
      + exfalso. subst a'. cbn [hd_undropped] in Ha'. inversion Hd as [|? ? Hx _]; subst.
        rewrite Hx in Ha'. discriminate Ha'.
      + injection Heq as Hxy Hrest. subst y.
        inversion Hd as [|? ? _ Hr]; subst. inversion Hd' as [|? ? _ Hr']; subst.
        destruct (IH r' a a' Hr Hr' Ha Ha' Hrest) as [-> ->]. split; reflexivity.
  Qed.

  Lemma lm_inv_cons e x c :
    is_crashed e = false -> log_equiv_max (e :: x) c -> exists c', c = e :: c' /\ log_equiv_max x c'.
  Proof.
    intros He H. remember (e :: x) as l eqn:Hl.
    destruct H as [|e0 a b He0 Hab|t n d1 d2 a b Hd Hp Ha Hb Hab].
    - discriminate Hl.
    - injection Hl as -> ->. exists b. split; [reflexivity | exact Hab].
    - injection Hl as <- _. cbn [is_crashed] in He. discriminate He.
  Qed.

  Lemma lm_inv_crash t n x c :
    log_equiv_max (LNodeCrashed t n :: x) c ->
    exists d1 d2 a b, x = d1 ++ a /\ c = LNodeCrashed t n :: d2 ++ b /\
                      Forall (fun e => is_dropped e = true) d1 /\ Permutation d1 d2 /\
                      hd_undropped a /\ hd_undropped b /\ log_equiv_max a b.
  Proof.
    intros H. remember (LNodeCrashed t n :: x) as l eqn:Hl.
    destruct H as [|e0 a b He0 Hab|t0 n0 d1 d2 a b Hd Hp Ha Hb Hab].
    - discriminate Hl.
    - injection Hl as -> _. cbn [is_crashed] in He0. discriminate He0.
    - injection Hl as -> -> <-. exists d1, d2, a, b. repeat split; assumption.
  Qed.

  Lemma lm_trans a b : log_equiv_max a b -> forall c, log_equiv_max b c -> log_equiv_max a c.
  Proof.
    induction 1 as [|e a b He _ IH|t n d1 d2 a b Hd Hp Ha Hb _ IH]; intros c Hc.
    - exact Hc.
    - destruct (lm_inv_cons e b c He Hc) as (c' & -> & Hc'). apply lm_cons; [exact He | apply IH; exact Hc'].
    - destruct (lm_inv_crash t n _ c Hc) as (d2' & d3 & b' & c' & Heq & -> & Hd2' & Hp' & Hb' & Hc' & Hbc).
      destruct (max_split_unique d2 d2' b b' (Forall_dropped_perm _ _ Hp Hd) Hd2' Hb Hb' Heq) as [<- <-].
      apply lm_crash; try assumption.
      + eapply perm_trans; eassumption.
      + apply IH. exact Hbc.
  Qed.

  Theorem log_equiv_trans a b c : log_equiv a b -> log_equiv b c -> log_equiv a c.
  Proof.
    intros H1 H2. apply log_equiv_of_max. eapply lm_trans; apply log_equiv_to_max; eassumption.
  Qed.

  (* without crashes the traces are equal *)
  Lemma log_equiv_no_crash a b : log_equiv a b -> Forall (fun e => is_crashed e = false) a -> a = b.
  Proof.
    induction 1 as [|e a b _ IH|t n d1 d2 a b Hd Hp _ IH]; intros Hn.
    - reflexivity.
    - inversion Hn; subst. f_equal. apply IH. assumption.
    - inversion Hn as [|? ? Hc _]; subst. discriminate Hc.
  Qed.

  (* ---- the same relation as a list of segments ---- *)
  Definition seg_ok (sg : list logentry * list logentry) : Prop :=
    (exists e, sg = ([e], [e])) \/
    (exists t n d1 d2, sg = (LNodeCrashed t n :: d1, LNodeCrashed t n :: d2) /\
                       Forall (fun e => is_dropped e = true) d1 /\ Permutation d1 d2).

  Theorem log_equiv_segments a b :
    log_equiv a b <->
    exists segs, Forall seg_ok segs /\ a = concat (map fst segs) /\ b = concat (map snd segs).
  Proof.
    split.
    - induction 1 as [|e a b _ IH|t n d1 d2 a b Hd Hp _ IH].
      + exists []. split; [constructor|]. split; reflexivity.
      + destruct IH as (segs & Hok & -> & ->). exists (([e], [e]) :: segs).
        split; [constructor; [left; exists e; reflexivity | exact Hok]|]. split; reflexivity.
      + destruct IH as (segs & Hok & -> & ->).
        exists ((LNodeCrashed t n :: d1, LNodeCrashed t n :: d2) :: segs).
        split; [constructor; [right; exists t, n, d1, d2; repeat split; assumption | exact Hok]|].
        split; reflexivity.
    - intros (segs & Hok & -> & ->). induction Hok as [|sg segs Hsg _ IH]; cbn [map concat].
      + apply le_nil.
      + destruct Hsg as [[e ->]|(t & n & d1 & d2 & -> & Hd & Hp)]; cbn [fst snd app].
        * apply le_cons. exact IH.
        * apply le_crash; assumption.
  Qed.
End LogEquiv.

Section O2.
  Context {T : Type} (ops : time_ops T).
  Context {PS : Type}.
  Variable handler : N -> PS -> input -> T -> (nat -> T) -> PS * list (action T) * nat.
  Variable init_state : N -> PS.
  Variable draws : nat -> T.

  Notation logentry := (logentry T).
  Notation pentry := (pentry T PS).
  Notation simsys := (@simsys T PS).
  Notation world := (@world T).
  Notation simnode := (@simnode T PS).
  Notation qevent := (@qevent T).

  (* ---------------- prepending a prefix to the log: the frame ---------------- *)
  Definition wpre (L : list logentry) (w : world) : world :=
    {| w_q := w_q w; w_net := w_net w; w_log := L ++ w_log w |}.
  Definition spre (L : list logentry) (s : simsys) : simsys :=
    {| y_q := y_q s; y_net := y_net s; y_nodes := y_nodes s; y_proc_nodes := y_proc_nodes s;
       y_handlers := y_handlers s; y_ncomp := y_ncomp s; y_log := L ++ y_log s |}.

  Definition lift_w3 {A B} (L : list logentry) (r : result (A * B * world)) : result (A * B * world) :=
    match r with Ok (a, b, w) => Ok (a, b, wpre L w) | Panic t => Panic t end.
  Definition lift_w {A} (L : list logentry) (r : result (A * world)) : result (A * world) :=
    match r with Ok (a, w) => Ok (a, wpre L w) | Panic t => Panic t end.
  Definition lift_s0 (L : list logentry) (r : result simsys) : result simsys :=
    match r with Ok s => Ok (spre L s) | Panic t => Panic t end.
  Definition lift_s {A} (L : list logentry) (r : result (simsys * A)) : result (simsys * A) :=
    match r with Ok (s, a) => Ok (spre L s, a) | Panic t => Panic t end.

  Lemma node_action_frame L nname nid proc time (p : pentry) lc (w : world) a :
    node_action ops draws nname nid proc time p lc (wpre L w) a
    = lift_w3 L (node_action ops draws nname nid proc time p lc w a).
  Proof.
    destruct a as [m dst|m|name delay once|name]; unfold node_action, wpre; cbn [w_q w_net w_log].
    - destruct (net_send ops draws (w_net w) (w_q w) m proc dst) as [[[n' q'] logs]|tg];
        cbn [bind lift_w3]; unfold wpre; cbn [w_q w_net w_log].
      + rewrite app_assoc. reflexivity.
      + reflexivity.
    - cbn [lift_w3]. unfold wpre; cbn [w_q w_net w_log]. rewrite app_assoc. reflexivity.
    - destruct (sget N.compare name (pe_ptimers p)) as [old|].
      + destruct once.
        * reflexivity.
        * destruct (q_add ops (q_cancel (w_q w) old) (QTimer proc name) nid nid delay) as [[q2 i]|tg];
            cbn [bind lift_w3]; unfold wpre; cbn [w_q w_net w_log]; [rewrite app_assoc|]; reflexivity.
      + destruct (q_add ops (w_q w) (QTimer proc name) nid nid delay) as [[q2 i]|tg];
          cbn [bind lift_w3]; unfold wpre; cbn [w_q w_net w_log]; [rewrite app_assoc|]; reflexivity.
    - destruct (sget N.compare name (pe_ptimers p)) as [i|]; cbn [lift_w3]; unfold wpre; cbn [w_q w_net w_log].
      + rewrite app_assoc. reflexivity.
      + reflexivity.
  Qed.

  Lemma wpre_mk L q n lg :
    {| w_q := q; w_net := n; w_log := L ++ lg |} = wpre L {| w_q := q; w_net := n; w_log := lg |}.
  Proof. reflexivity. Qed.

  Lemma node_actions_frame L nname nid proc time acts : forall (p : pentry) lc (w : world),
    node_actions ops draws nname nid proc time p lc (wpre L w) acts
    = lift_w3 L (node_actions ops draws nname nid proc time p lc w acts).
  Proof.
    induction acts as [|a r IH]; intros p lc w; cbn [node_actions].
    - reflexivity.
    - rewrite node_action_frame.
      destruct (node_action ops draws nname nid proc time p lc w a) as [[[p1 lc1] w1]|tg]; cbn [bind lift_w3].
      + apply IH.
      + reflexivity.
  Qed.

  Lemma node_handle_frame L nname (nd : simnode) proc k (w : world) :
    node_handle ops handler draws nname nd proc k (wpre L w)
    = lift_w L (node_handle ops handler draws nname nd proc k w).
  Proof.
    unfold node_handle.
    change (w_q (wpre L w)) with (w_q w). change (w_net (wpre L w)) with (w_net w).
    change (w_log (wpre L w)) with (L ++ w_log w).
    destruct (sget N.compare proc (sd_procs nd)) as [p|]; [|reflexivity].
    destruct k as [mid m from fnode|name|m];
      [| destruct (sget N.compare name (pe_ptimers p)) as [tid|] |]; cbn beta iota zeta;
      match goal with |- context [handler ?a ?b ?c ?d ?e] => destruct (handler a b c d e) as [[st' acts] used] end;
      rewrite <- app_assoc, wpre_mk, node_actions_frame;
      match goal with |- context [node_actions ?a ?b ?c ?d ?e ?f ?g ?h ?i ?j] =>
        destruct (node_actions a b c d e f g h i j) as [[[p3 lc3] w2]|tg] end;
      reflexivity.
  Qed.

  Ltac spre_proj L s :=
    change (y_q (spre L s)) with (y_q s) in *; change (y_net (spre L s)) with (y_net s) in *;
    change (y_nodes (spre L s)) with (y_nodes s) in *; change (y_proc_nodes (spre L s)) with (y_proc_nodes s) in *;
    change (y_handlers (spre L s)) with (y_handlers s) in *; change (y_ncomp (spre L s)) with (y_ncomp s) in *;
    change (y_log (spre L s)) with (L ++ y_log s) in *.

  Lemma deliver_frame L (s : simsys) (e : qevent) :
    deliver ops handler draws (spre L s) e = lift_s0 L (deliver ops handler draws s e).
  Proof.
    unfold deliver. spre_proj L s.
    destruct (sget N.compare (q_dst e) (y_handlers s)) as [[|]|]; try reflexivity.
    destruct (find (fun p => N.eqb (sd_id (snd p)) (q_dst e)) (y_nodes s)) as [[nname nd]|]; [|reflexivity].
    rewrite wpre_mk.
    destruct (q_data e) as [mid m src src_node dst dst_node|proc timer]; rewrite node_handle_frame;
      match goal with |- context [node_handle ?a ?b ?c ?d ?e ?f ?g ?h] =>
        destruct (node_handle a b c d e f g h) as [[nd' w']|tg] end;
      reflexivity.
  Qed.

  Lemma y_with_spre L (s : simsys) q n nds lg :
    y_with (spre L s) q n nds (L ++ lg) = spre L (y_with s q n nds lg).
  Proof. reflexivity. Qed.

  Lemma step_frame L (s : simsys) :
    step ops handler draws (spre L s) = lift_s L (step ops handler draws s).
  Proof.
    unfold step. spre_proj L s.
    destruct (q_next ops (y_q s)) as [q' [e|]]; rewrite y_with_spre.
    - rewrite deliver_frame.
      destruct (deliver ops handler draws (y_with s q' (y_net s) (y_nodes s) (y_log s)) e) as [s2|tg]; reflexivity.
    - reflexivity.
  Qed.

  Lemma steps_fuel_frame L fuel : forall (s : simsys) n,
    steps_fuel ops handler draws fuel (spre L s) n = lift_s L (steps_fuel ops handler draws fuel s n).
  Proof.
    induction fuel as [|f IH]; intros s n; cbn [steps_fuel]; [reflexivity|].
    destruct (N.eqb n 0); [reflexivity|].
    rewrite step_frame. destruct (step ops handler draws s) as [[s1 b]|tg]; cbn [bind lift_s]; [|reflexivity].
    destruct b; [apply IH | reflexivity].
  Qed.

  Lemma until_no_events_frame L fuel : forall (s : simsys),
    until_no_events ops handler draws fuel (spre L s) = lift_s0 L (until_no_events ops handler draws fuel s).
  Proof.
    induction fuel as [|f IH]; intros s; cbn [until_no_events]; [reflexivity|].
    rewrite step_frame. destruct (step ops handler draws s) as [[s1 b]|tg]; cbn [bind lift_s]; [|reflexivity].
    destruct b; [apply IH | reflexivity].
  Qed.

  Lemma set_clock_spre L (s : simsys) t : set_clock (spre L s) t = spre L (set_clock s t).
  Proof. reflexivity. Qed.

  Lemma until_time_frame L fuel : forall (s : simsys) t,
    until_time ops handler draws fuel (spre L s) t = lift_s L (until_time ops handler draws fuel s t).
  Proof.
    induction fuel as [|f IH]; intros s t; cbn [until_time]; [reflexivity|].
    spre_proj L s.
    destruct (q_peek ops (y_q s)) as [q' [e|]]; rewrite y_with_spre.
    - destruct (tltb ops t (q_time e)); [reflexivity|].
      rewrite step_frame.
      destruct (step ops handler draws (y_with s q' (y_net s) (y_nodes s) (y_log s))) as [[s2 b]|tg];
        cbn [bind lift_s]; [apply IH | reflexivity].
    - reflexivity.
  Qed.

  Lemma node_of_proc_spre L (s : simsys) proc : node_of_proc (spre L s) proc = node_of_proc s proc.
  Proof. reflexivity. Qed.

  Lemma read_local_frame L (s : simsys) proc : read_local (spre L s) proc = lift_s L (read_local s proc).
  Proof.
    unfold read_local. rewrite node_of_proc_spre.
    destruct (node_of_proc s proc) as [[nname nd]|tg]; cbn [bind]; [|reflexivity].
    destruct (sget N.compare proc (sd_procs nd)) as [p|]; [|reflexivity].
    destruct (pe_outbox p); reflexivity.
  Qed.

  Lemma until_local_frame L fuel : forall (s : simsys) proc,
    until_local ops handler draws fuel (spre L s) proc = lift_s L (until_local ops handler draws fuel s proc).
  Proof.
    induction fuel as [|f IH]; intros s proc; cbn [until_local]; [reflexivity|].
    rewrite read_local_frame. destruct (read_local s proc) as [[s1 [l|]]|tg]; cbn [bind lift_s]; try reflexivity.
    rewrite step_frame. destruct (step ops handler draws s1) as [[s2 b]|tg]; cbn [bind lift_s]; [|reflexivity].
    destruct b; [apply IH | reflexivity].
  Qed.

  Lemma until_local_max_frame L fuel : forall (s : simsys) proc steps mx,
    until_local_max ops handler draws fuel (spre L s) proc steps mx
    = lift_s L (until_local_max ops handler draws fuel s proc steps mx).
  Proof.
    induction fuel as [|f IH]; intros s proc steps mx; cbn [until_local_max]; [reflexivity|].
    destruct (N.ltb steps mx); [|reflexivity].
    rewrite step_frame. destruct (step ops handler draws s) as [[s1 b]|tg]; cbn [bind lift_s]; [|reflexivity].
    destruct b; [|reflexivity].
    rewrite read_local_frame. destruct (read_local s1 proc) as [[s2 [l|]]|tg]; cbn [bind lift_s]; try reflexivity.
    apply IH.
  Qed.

  Lemma until_local_timeout_frame L fuel : forall (s : simsys) proc t,
    until_local_timeout ops handler draws fuel (spre L s) proc t
    = lift_s L (until_local_timeout ops handler draws fuel s proc t).
  Proof.
    induction fuel as [|f IH]; intros s proc t; cbn [until_local_timeout]; [reflexivity|].
    change (now (spre L s)) with (now s).
    destruct (tltb ops (now s) t); [|reflexivity].
    rewrite read_local_frame. destruct (read_local s proc) as [[s1 [l|]]|tg]; cbn [bind lift_s]; try reflexivity.
    rewrite step_frame. destruct (step ops handler draws s1) as [[s2 b]|tg]; cbn [bind lift_s]; [|reflexivity].
    destruct b; [apply IH | reflexivity].
  Qed.

  (* the frame property of one API call: a prefix of the log is carried along untouched (for ANY oracle) *)
  Lemma sim_op_frame co L fuel (s : simsys) o :
    sim_op ops handler init_state draws co fuel (spre L s) o
    = lift_s L (sim_op ops handler init_state draws co fuel s o).
  Proof.
    destruct o as [name|proc node|node skew|o'|proc m|proc|node|node| |n| |d|proc|proc mx|proc timeout];
      unfold sim_op; change (now (spre L s)) with (now s); rewrite ?node_of_proc_spre; spre_proj L s.
    - destruct (shas N.compare name (y_nodes s)); [reflexivity|].
      cbn [lift_s]. unfold spre; cbn [y_q y_net y_nodes y_proc_nodes y_handlers y_ncomp y_log].
      rewrite <- app_assoc. reflexivity.
    - destruct (sget N.compare node (y_nodes s)) as [nd|]; [|reflexivity].
      destruct (shas N.compare proc (y_proc_nodes s)); [reflexivity|].
      cbn [lift_s]. unfold spre; cbn [y_q y_net y_nodes y_proc_nodes y_handlers y_ncomp y_log].
      rewrite <- app_assoc. reflexivity.
    - destruct (sget N.compare node (y_nodes s)) as [nd|]; reflexivity.
    - destruct (snet_apply (y_net s) (now s) o') as [n' logs].
      rewrite <- app_assoc. reflexivity.
    - destruct (node_of_proc s proc) as [[nname nd]|tg]; cbn [bind]; [|reflexivity].
      destruct (sd_crashed nd); [reflexivity|].
      rewrite wpre_mk, node_handle_frame.
      match goal with |- context [node_handle ?a ?b ?c ?d ?e ?f ?g ?h] =>
        destruct (node_handle a b c d e f g h) as [[nd' w']|tg] end; reflexivity.
    - rewrite read_local_frame. destruct (read_local s proc) as [[s' r]|tg]; reflexivity.
    - destruct (sget N.compare node (y_nodes s)) as [nd|]; [|reflexivity].
      rewrite <- app_assoc. reflexivity.
    - destruct (sget N.compare node (y_nodes s)) as [nd|]; [|reflexivity].
      destruct (negb (sd_crashed nd)); [reflexivity|].
      destruct (sget N.compare (sd_id nd) (y_handlers s)) as [[|]|];
        try reflexivity; cbn [lift_s]; unfold spre, set_handler;
        cbn [y_q y_net y_nodes y_proc_nodes y_handlers y_ncomp y_log]; rewrite <- app_assoc; reflexivity.
    - rewrite step_frame. destruct (step ops handler draws s) as [[s' b]|tg]; reflexivity.
    - rewrite steps_fuel_frame. destruct (steps_fuel ops handler draws fuel s n) as [[s' b]|tg]; reflexivity.
    - rewrite until_no_events_frame. destruct (until_no_events ops handler draws fuel s) as [s'|tg]; reflexivity.
    - rewrite until_time_frame.
      destruct (until_time ops handler draws fuel s (tadd ops (now s) d)) as [[s' b]|tg]; reflexivity.
    - destruct (node_of_proc s proc) as [[nname nd]|tg]; cbn [bind]; [|reflexivity].
      rewrite until_local_frame. destruct (until_local ops handler draws fuel s proc) as [[s' r]|tg]; reflexivity.
    - destruct (node_of_proc s proc) as [[nname nd]|tg]; cbn [bind]; [|reflexivity].
      rewrite read_local_frame. destruct (read_local s proc) as [[s1 [l|]]|tg]; cbn [bind lift_s]; try reflexivity.
      rewrite until_local_max_frame.
      destruct (until_local_max ops handler draws fuel s1 proc 0 mx) as [[s' r']|tg]; reflexivity.
    - destruct (node_of_proc s proc) as [[nname nd]|tg]; cbn [bind]; [|reflexivity].
      rewrite until_local_timeout_frame.
      destruct (until_local_timeout ops handler draws fuel s proc (tadd ops (now s) timeout)) as [[s' r]|tg];
        reflexivity.
  Qed.

  (* ---------------- states equal up to the log, logs equivalent ---------------- *)
  Definition same_but_log (s1 s2 : simsys) : Prop :=
    y_q s1 = y_q s2 /\ y_net s1 = y_net s2 /\ y_nodes s1 = y_nodes s2 /\ y_proc_nodes s1 = y_proc_nodes s2 /\
    y_handlers s1 = y_handlers s2 /\ y_ncomp s1 = y_ncomp s2.
  Definition sys_equiv (s1 s2 : simsys) : Prop := same_but_log s1 s2 /\ log_equiv (y_log s1) (y_log s2).

  Lemma same_but_log_refl s : same_but_log s s.
  Proof. unfold same_but_log. repeat split. Qed.
  Lemma sys_equiv_refl s : sys_equiv s s.
  Proof. split; [apply same_but_log_refl | apply log_equiv_refl]. Qed.
  Lemma sys_equiv_sym s1 s2 : sys_equiv s1 s2 -> sys_equiv s2 s1.
  Proof.
    intros [(H1 & H2 & H3 & H4 & H5 & H6) Hl]. split.
    - unfold same_but_log. repeat split; symmetry; assumption.
    - apply log_equiv_sym. exact Hl.
  Qed.

  Lemma sys_equiv_trans s1 s2 s3 : sys_equiv s1 s2 -> sys_equiv s2 s3 -> sys_equiv s1 s3.
  Proof.
    intros [(H1 & H2 & H3 & H4 & H5 & H6) Hl] [(G1 & G2 & G3 & G4 & G5 & G6) Gl]. split.
    - unfold same_but_log.
      rewrite H1, H2, H3, H4, H5, H6. split; [exact G1|]. split; [exact G2|]. split; [exact G3|].
      split; [exact G4|]. split; [exact G5 | exact G6].
    - eapply log_equiv_trans; eassumption.
  Qed.

  Definition nolog (s : simsys) : simsys :=
    {| y_q := y_q s; y_net := y_net s; y_nodes := y_nodes s; y_proc_nodes := y_proc_nodes s;
       y_handlers := y_handlers s; y_ncomp := y_ncomp s; y_log := [] |}.

  Lemma spre_nolog s : spre (y_log s) (nolog s) = s.
  Proof.
    destruct s as [q n nds pn h nc lg]. unfold spre, nolog.
    cbn [y_q y_net y_nodes y_proc_nodes y_handlers y_ncomp y_log]. rewrite app_nil_r. reflexivity.
  Qed.

  Lemma same_but_log_nolog s1 s2 : same_but_log s1 s2 -> nolog s1 = nolog s2.
  Proof.
    intros (H1 & H2 & H3 & H4 & H5 & H6). unfold nolog. rewrite H1, H2, H3, H4, H5, H6. reflexivity.
  Qed.

  Lemma sys_equiv_spre L1 L2 s1 s2 : log_equiv L1 L2 -> sys_equiv s1 s2 -> sys_equiv (spre L1 s1) (spre L2 s2).
  Proof.
    intros HL [Hs Hl]. split.
    - exact Hs.
    - unfold spre; cbn [y_log]. apply log_equiv_app; assumption.
  Qed.

  (* results of API calls: same panic, or same return value and equivalent states *)
  Definition res_equiv {A} (r1 r2 : result (simsys * A)) : Prop :=
    match r1, r2 with
    | Ok (s1', a1), Ok (s2', a2) => a1 = a2 /\ sys_equiv s1' s2'
    | Panic t1, Panic t2 => t1 = t2
    | _, _ => False
    end.

  Lemma res_equiv_refl {A} (r : result (simsys * A)) : res_equiv r r.
  Proof. destruct r as [[s a]|tg]; cbn [res_equiv]; [split; [reflexivity | apply sys_equiv_refl] | reflexivity]. Qed.

  Lemma res_equiv_lift {A} L1 L2 (r1 r2 : result (simsys * A)) :
    log_equiv L1 L2 -> res_equiv r1 r2 -> res_equiv (lift_s L1 r1) (lift_s L2 r2).
  Proof.
    intros HL. destruct r1 as [[s1 a1]|t1], r2 as [[s2 a2]|t2]; cbn [res_equiv lift_s]; auto.
    intros [Ha Hs]. split; [exact Ha | apply sys_equiv_spre; assumption].
  Qed.

  (* ---------------- the two oracles at the same state ---------------- *)
  Definition drop_entry (t : T) (e : qevent) : list logentry :=
    match q_data e with
    | QMsg mid m src sn dst dn => [LMessageDropped t mid sn src dn dst m]
    | QTimer _ _ => []
    end.

  Lemma drops_all_dropped t l : Forall (fun e => is_dropped e = true) (flat_map (drop_entry t) l).
  Proof.
    apply Forall_forall. intros e He. apply in_flat_map in He. destruct He as [x [_ Hx]].
    unfold drop_entry in Hx. destruct (q_data x) as [mid m src sn dst dn|pr tm]; cbn [In] in Hx.
    - destruct Hx as [Hx|[]]. subst e. reflexivity.
    - destruct Hx.
  Qed.

  Section TwoOracles.
    Variables co1 co2 : list qevent -> list qevent.
    Hypothesis co1_perm : forall l, Permutation (co1 l) l.
    Hypothesis co2_perm : forall l, Permutation (co2 l) l.

    Lemma sim_op_oracles_same_state fuel (s : simsys) o :
      res_equiv (sim_op ops handler init_state draws co1 fuel s o) (sim_op ops handler init_state draws co2 fuel s o).
    Proof.
      destruct o as [name|proc node|node skew|o'|proc m|proc|node|node| |n| |d|proc|proc mx|proc timeout];
        try apply res_equiv_refl.
      unfold sim_op. destruct (sget N.compare node (y_nodes s)) as [nd|]; [|reflexivity].
      cbn [res_equiv]. split; [reflexivity|]. split.
      - unfold same_but_log, set_handler, y_with; cbn [y_q y_net y_nodes y_proc_nodes y_handlers y_ncomp].
        repeat split.
      - unfold set_handler, y_with; cbn [y_log].
        apply log_equiv_app; [apply log_equiv_refl|].
        apply (log_equiv_crash_block (now s) node
                 (flat_map (drop_entry (now s)) (co1 (filter (fun e => N.eqb (q_src e) (sd_id nd)) (q_live (y_q s)))))
                 (flat_map (drop_entry (now s)) (co2 (filter (fun e => N.eqb (q_src e) (sd_id nd)) (q_live (y_q s)))))).
        + apply drops_all_dropped.
        + apply Permutation_flat_map.
          eapply perm_trans; [apply co1_perm | apply Permutation_sym, co2_perm].
    Qed.

    (* O2, one API call *)
    Theorem sim_op_res_equiv fuel (s1 s2 : simsys) o :
      sys_equiv s1 s2 ->
      res_equiv (sim_op ops handler init_state draws co1 fuel s1 o) (sim_op ops handler init_state draws co2 fuel s2 o).
    Proof.
      intros [Hs Hl].
      rewrite <- (spre_nolog s1), <- (spre_nolog s2), <- (same_but_log_nolog s1 s2 Hs), !sim_op_frame.
      apply res_equiv_lift; [exact Hl | apply sim_op_oracles_same_state].
    Qed.

    Theorem sim_op_crash_order_independent fuel (s1 s2 : simsys) o :
      sys_equiv s1 s2 ->
      (forall s1' r, sim_op ops handler init_state draws co1 fuel s1 o = Ok (s1', r) ->
         exists s2', sim_op ops handler init_state draws co2 fuel s2 o = Ok (s2', r) /\ sys_equiv s1' s2') /\
      (forall tg, sim_op ops handler init_state draws co1 fuel s1 o = Panic tg ->
         sim_op ops handler init_state draws co2 fuel s2 o = Panic tg).
    Proof.
      intros He. pose proof (sim_op_res_equiv fuel s1 s2 o He) as Hr. split.
      - intros s1' r H1. rewrite H1 in Hr.
        destruct (sim_op ops handler init_state draws co2 fuel s2 o) as [[s2' r2]|t2]; cbn [res_equiv] in Hr.
        + destruct Hr as [<- Hs]. exists s2'. split; [reflexivity | exact Hs].
        + destruct Hr.
      - intros tg H1. rewrite H1 in Hr.
        destruct (sim_op ops handler init_state draws co2 fuel s2 o) as [[s2' r2]|t2]; cbn [res_equiv] in Hr.
        + destruct Hr.
        + subst t2. reflexivity.
    Qed.

    (* O2, scripts *)
    Theorem run_ops_res_equiv fuel l : forall (s1 s2 : simsys),
      sys_equiv s1 s2 ->
      res_equiv (run_ops ops handler init_state draws co1 fuel s1 l) (run_ops ops handler init_state draws co2 fuel s2 l).
    Proof.
      induction l as [|o r IH]; intros s1 s2 He; cbn [run_ops].
      - cbn [res_equiv]. split; [reflexivity | exact He].
      - pose proof (sim_op_res_equiv fuel s1 s2 o He) as Hr.
        destruct (sim_op ops handler init_state draws co1 fuel s1 o) as [[s1' r1]|t1],
                 (sim_op ops handler init_state draws co2 fuel s2 o) as [[s2' r2]|t2];
          cbn [res_equiv] in Hr; cbn [bind]; try (destruct Hr; fail).
        + destruct Hr as [<- Hs]. specialize (IH s1' s2' Hs).
          destruct (run_ops ops handler init_state draws co1 fuel s1' r) as [[s1'' rs1]|u1],
                   (run_ops ops handler init_state draws co2 fuel s2' r) as [[s2'' rs2]|u2];
            cbn [res_equiv] in IH; cbn [bind res_equiv]; try (destruct IH; fail).
          * destruct IH as [<- Hs']. split; [reflexivity | exact Hs'].
          * exact IH.
        + cbn [res_equiv]. exact Hr.
    Qed.

    Theorem run_ops_crash_order_independent fuel l (s1 s2 : simsys) :
      sys_equiv s1 s2 ->
      (forall s1' rets, run_ops ops handler init_state draws co1 fuel s1 l = Ok (s1', rets) ->
         exists s2', run_ops ops handler init_state draws co2 fuel s2 l = Ok (s2', rets) /\ sys_equiv s1' s2') /\
      (forall tg, run_ops ops handler init_state draws co1 fuel s1 l = Panic tg ->
         run_ops ops handler init_state draws co2 fuel s2 l = Panic tg).
    Proof.
      intros He. pose proof (run_ops_res_equiv fuel l s1 s2 He) as Hr. split.
      - intros s1' r H1. rewrite H1 in Hr.
        destruct (run_ops ops handler init_state draws co2 fuel s2 l) as [[s2' r2]|t2]; cbn [res_equiv] in Hr.
        + destruct Hr as [<- Hs]. exists s2'. split; [reflexivity | exact Hs].
        + destruct Hr.
      - intros tg H1. rewrite H1 in Hr.
        destruct (run_ops ops handler init_state draws co2 fuel s2 l) as [[s2' r2]|t2]; cbn [res_equiv] in Hr.
        + destruct Hr.
        + subst t2. reflexivity.
    Qed.

    (* every state reachable with one oracle is reachable, up to sys_equiv, with the other *)
    Corollary reachable_crash_order_independent (s1 : simsys) :
      Reachable ops handler init_state draws co1 s1 ->
      exists s2, Reachable ops handler init_state draws co2 s2 /\ sys_equiv s1 s2.
    Proof.
      intros (fuel & l & rets & Hrun).
      destruct (run_ops_crash_order_independent fuel l (sys0 ops) (sys0 ops) (sys_equiv_refl _)) as [Hok _].
      destruct (Hok s1 rets Hrun) as (s2 & Hrun2 & He).
      exists s2. split; [exists fuel, l, rets; exact Hrun2 | exact He].
    Qed.
  End TwoOracles.
End O2.

(* ================================================================================================ *)
(* O3. the model checker's crash_node needs no oracle                                               *)
(* ================================================================================================ *)

Section O3.
  (* the key list of a sorted association list is determined by the SET of keys *)
  Lemma ssorted_keys_ext {V1 V2 : Type} (l1 : list (N * V1)) (l2 : list (N * V2)) :
    ssorted N.compare l1 -> ssorted N.compare l2 ->
    (forall k, In k (map fst l1) <-> In k (map fst l2)) ->
    map fst l1 = map fst l2.
  Proof.
    intros Hs1 Hs2 Hk.
    set (u1 := map (fun p : N * V1 => (fst p, tt)) l1).
    set (u2 := map (fun p : N * V2 => (fst p, tt)) l2).
    assert (Hu : forall V (l : list (N * V)), ssorted N.compare l ->
                 ssorted N.compare (map (fun p : N * V => (fst p, tt)) l)).
    { intros V l. induction l as [|[k v] r IH]; cbn [map fst]; intros Hs.
      - constructor.
      - apply ssorted_inv in Hs. destruct Hs as [Hf Hs]. constructor; [|apply IH; exact Hs].
        apply Forall_forall. intros q Hq. apply in_map_iff in Hq. destruct Hq as [q0 [<- Hq0]]. cbn [fst].
        rewrite Forall_forall in Hf. apply Hf. exact Hq0. }
    assert (Hm : forall V (l : list (N * V)), map fst (map (fun p : N * V => (fst p, tt)) l) = map fst l).
    { intros V l. rewrite map_map. apply map_ext. intros p. reflexivity. }
    assert (Hu12 : u1 = u2).
    { apply (ssorted_ext N.compare CmpSpec_N); [apply Hu; exact Hs1 | apply Hu; exact Hs2|].
      intros k.
      pose proof (sget_none_iff N.compare CmpSpec_N k u1) as H1.
      pose proof (sget_none_iff N.compare CmpSpec_N k u2) as H2.
      unfold u1 in H1 at 2. unfold u2 in H2 at 2. rewrite Hm in H1, H2.
      destruct (sget N.compare k u1) as [[]|], (sget N.compare k u2) as [[]|]; try reflexivity; exfalso.
      - assert (Hn : ~ In k (map fst l2)) by (apply H2; reflexivity).
        apply Hn. apply Hk. destruct (in_dec N.eq_dec k (map fst l1)) as [Hi|Hi]; [exact Hi|].
        apply H1 in Hi. discriminate Hi.
      - assert (Hn : ~ In k (map fst l1)) by (apply H1; reflexivity).
        apply Hn. apply Hk. destruct (in_dec N.eq_dec k (map fst l2)) as [Hi|Hi]; [exact Hi|].
        apply H2 in Hi. discriminate Hi. }
    rewrite <- (Hm V1 l1), <- (Hm V2 l2). fold u1 u2. rewrite Hu12. reflexivity.
  Qed.

  Context {T PS : Type}.

  (* McSys.crash_node iterates `map fst (nd_procs nd)`.  For a well-formed node (process map sorted by name) this
     list is a function of the SET of process names: whatever order the processes were inserted in (and whatever
     their states are), two nodes with the same set of names yield the same iteration order. *)
  Theorem mc_crash_order_free (nd1 nd2 : @mcnode T PS) :
    ssorted N.compare (nd_procs nd1) -> ssorted N.compare (nd_procs nd2) ->
    (forall p, In p (map fst (nd_procs nd1)) <-> In p (map fst (nd_procs nd2))) ->
    map fst (nd_procs nd1) = map fst (nd_procs nd2).
  Proof. apply ssorted_keys_ext. Qed.

  (* same set of (name, entry) bindings: the process maps themselves are equal *)
  Corollary mc_procs_canonical (nd1 nd2 : @mcnode T PS) :
    ssorted N.compare (nd_procs nd1) -> ssorted N.compare (nd_procs nd2) ->
    (forall p, sget N.compare p (nd_procs nd1) = sget N.compare p (nd_procs nd2)) ->
    nd_procs nd1 = nd_procs nd2.
  Proof. apply (ssorted_ext N.compare CmpSpec_N). Qed.
End O3.

Print Assumptions sort_starts_perm.
Print Assumptions run_from_states_order_independent.
Print Assumptions sim_op_crash_order_independent.
Print Assumptions run_ops_crash_order_independent.
Print Assumptions reachable_crash_order_independent.
Print Assumptions log_equiv_max_iff.
Print Assumptions log_equiv_trans.
Print Assumptions log_equiv_segments.
Print Assumptions mc_crash_order_free.
