(* C12: the model checker's classification of a send (McNetwork::send_message), the fault alternatives the
   strategy generates (Strategy::process_event) and their budgets. *)
From ASV Require Import Base.Util Base.Msg Base.Log Model.Store Model.McSys.
From Coq Require Import Lia.

Section McNetP.
  Context {T : Type} {SE : Type} (so : @store_ops T SE).
  Variables tgt0 teq0 : T -> bool.
  Context {PS : Type}.

  Definition cut (n : @mcnet T) (sn dn : N) : bool :=
    nmem sn (n_drop_out n) || nmem dn (n_drop_in n) || existsb (pair_eqb (sn, dn)) (n_links n).

  (* the three cases of send_message, and nothing else *)
  Theorem net_send_classify : forall (n : @mcnet T) m src dst sn dn,
      sget N.compare src (n_loc n) = Some sn -> sget N.compare dst (n_loc n) = Some dn ->
      net_send tgt0 teq0 n m src dst =
      Ok (if N.eqb sn dn then SEvent (EMsg m src dst (NoFailures (n_maxdelay n)))
          else if cut n sn dn then SDropped m src dst
          else SEvent (EMsg m src dst (Possible (tgt0 (n_drop n)) (if teq0 (n_dupl n) then 0 else dupl_count)
                                                (tgt0 (n_corrupt n))))).
  Proof.
    intros n m src dst sn dn Hs Hd. unfold net_send, cut. rewrite Hs, Hd.
    destruct (N.eqb sn dn); [reflexivity|].
    destruct (nmem sn (n_drop_out n)); cbn [negb andb orb]; [reflexivity|].
    destruct (nmem dn (n_drop_in n)); cbn [negb andb orb]; [reflexivity|].
    destruct (existsb (pair_eqb (sn, dn)) (n_links n)); reflexivity.
  Qed.

  Corollary same_node_only_delivered : forall (n : @mcnet T) m src dst sn,
      sget N.compare src (n_loc n) = Some sn -> sget N.compare dst (n_loc n) = Some sn ->
      net_send tgt0 teq0 n m src dst = Ok (SEvent (EMsg m src dst (NoFailures (n_maxdelay n)))).
  Proof. intros. erewrite net_send_classify by eassumption. rewrite N.eqb_refl. reflexivity. Qed.

  Corollary cut_unconditional_loss : forall (n : @mcnet T) m src dst sn dn,
      sget N.compare src (n_loc n) = Some sn -> sget N.compare dst (n_loc n) = Some dn ->
      N.eqb sn dn = false -> cut n sn dn = true -> net_send tgt0 teq0 n m src dst = Ok (SDropped m src dst).
  Proof. intros n m src dst sn dn Hs Hd Hne Hc. erewrite net_send_classify by eassumption. rewrite Hne, Hc. reflexivity. Qed.

  (* the alternatives of one offered event: deliver always; drop iff droppable; corrupt iff corruptible; split iff
     the budget is positive; nothing else; for messages inside a node and for timers: delivery only *)
  Theorem alternatives_spec : forall (s : @mcsys T SE PS) i e,
      so_get so (s_events s) i = Some e ->
      exists cs, alternatives so s i = Ok cs /\
        forall c, In c cs <->
          match e with
          | EMsg _ _ _ (Possible can_drop dupl can_corrupt) =>
            c = ChDeliver i \/ (c = ChDrop i /\ can_drop = true) \/ (c = ChCorrupt i /\ can_corrupt = true)
            \/ (c = ChDup i /\ (0 < dupl)%N)
          | _ => c = ChDeliver i
          end.
  Proof.
    intros s i e He. unfold alternatives. rewrite He.
    destruct e as [m src dst o | p n d].
    - destruct o as [mx | cd k cc].
      + eexists. split; [reflexivity|]. intros c. cbn. intuition congruence.
      + eexists. split; [reflexivity|]. intros c.
        rewrite !in_app_iff. cbn [In].
        destruct cd, cc, (N.ltb_spec 0 k); cbn [In]; intuition (try congruence; try lia; try discriminate).
    - eexists. split; [reflexivity|]. intros c. cbn. intuition congruence.
  Qed.

  (* budgets: the potential 1 + max_dupl_count of a copy is what it can still turn into deliveries *)
  Definition potential (o : dopts T) : N := match o with NoFailures _ => 1 | Possible _ k _ => 1 + k end.
  Lemma dup_preserves_potential : forall d k c, (0 < k)%N ->
      (potential (Possible d (N.pred k) c) + potential (Possible d 0 c) = potential (Possible d k c))%N.
  Proof. intros d k c Hk. cbn [potential]. lia. Qed.
  Lemma initial_potential_bound : forall x c d, (potential (Possible d (if teq0 x then 0 else dupl_count) c) <= 3)%N.
  Proof. intros x c d. cbn [potential]. unfold dupl_count. destruct (teq0 x); lia. Qed.
End McNetP.

Print Assumptions net_send_classify.
Print Assumptions alternatives_spec.
Print Assumptions dup_preserves_potential.
